package main

import (
	"fmt"
	"go/token"
	"go/types"
	"strings"

	"golang.org/x/tools/go/ssa"
)

func init() {
	register(&Property{
		ID:        "C20",
		Title:     "IPAM allocations respect pools, uses, reservations and affinity limits",
		Technique: "static analysis: value provenance of pool/reservation/affinity arguments, SSA cut-set guards, path-sensitive branch facts (go/ssa over lib/ipam)",
		DesignRef: "DESIGN.md §3 C20",
		Explanation: "Decides structural necessary conditions on the auto-assign path of the IPAM client: " +
			"(use) nothing is looked up or assigned unless the intended use is non-empty; the pools handed to block search and to the non-affine fallback are exactly filterPoolsByUse(determinePools(...), use), filterPoolsByUse keeps a pool only under slices.Contains(AllowedUses, use), determinePools only ranges over GetEnabledPools() and (selector branch) keeps a pool only under SelectsNode && SelectsNamespace of that pool; affine blocks are filtered by the allowed pools; " +
			"(resv) the reservation filter of every assignFromExistingBlock / block search derives from getReservedIPs(), is passed unchanged to the block, and the block allocates an ordinal only under !reservations.MatchesIP(OrdinalToIP(ord)); " +
			"(strict) assignFromExistingBlock is called with affCheck = config.StrictAffinity or under StrictAffinity==false, passes it unchanged, and the block allocates with affinityCheck only under Affinity!=nil && affinityMatches(cfg, block); " +
			"(cap) in every caller of findOrClaimBlock (autoAssign, ensureBlock) the call is reached only with owned < cap, with no cap (cap <= 0), or after allowNewClaim=false was stored into the state the call is made on; the owned count starts at len(affine blocks) and, where the call repeats, grows on every newly claimed block; allowNewClaim is never re-enabled; in findOrClaimBlock new blocks are looked for only under allowNewClaim, otherwise an error is returned; " +
			"(cidr) every returned IPNet is the parsed block CIDR with only the IP replaced by the allocated ordinal's address; " +
			"(filterro) every implementation of addrFilter is read-only in all three interface methods: no store, append, copy, sort or in-package callee reached with the receiver's storage writes into the (request-wide shared) reservation list; " +
			"(capset) the affine-block list whose length is compared with the cap is filterBlocksByPools(getAffineBlocks(...)), and no branch of getAffineBlocks depends on the value (state) of a listed affinity, so pending / pendingDeletion affinities are counted; " +
			"(afftype) every function of lib/ipam that builds its own AffinityConfig while the request's intended use is in scope (autoAssign, which claims and assigns; prepareAffinityBlocksForHost, which looks up the host's existing affinities that are counted against the cap; AssignIP) " +
			"hands the config on only with AffinityType = virtual on paths where use == LoadBalancer and = host on paths where use != LoadBalancer (path-sensitive over the CFG, through composite literals, struct copies and phis of constants), so look-up and claim of one request agree on (type, host).",
		NotDecided: "Selector evaluation and CIDR containment arithmetic; that explicitly requested pools bypass node/namespace selectors (documented backwards-compatibility exception, reported in the evidence); computation of the effective per-host cap from request and global config; races between concurrent claimers (C22); AssignIP (explicit address) is out of the property's scope except for its use→affinity-type classification; functions that receive a ready-made AffinityConfig (ensureBlock, ClaimAffinity, release paths) are not checked against an intended use, and that a caller passes its own use/host to the callee that builds the config is not decided.",
		Assumptions: []string{
			"go/types + go/ssa (x/tools v0.50.0) model of the current source, CGO_ENABLED=0 build",
			"PoolAccessorInterface.GetEnabledPools returns only enabled pools (implemented outside lib/ipam)",
			"slices.Contains, SelectsNode, SelectsNamespace, addrFilter.MatchesIP have their documented meaning",
		},
		Run: runC20,
		Fixtures: []Fixture{
			{Name: "empty intended use falls through", File: "libcalico-go/lib/ipam/ipam.go",
				Old: "\t\tlog.Error(\"Attempting to auto-assign an IP without specifying intended use.\")\n\t\treturn nil, ErrUseRequired\n", New: "\t\tlog.Error(\"Attempting to auto-assign an IP without specifying intended use.\")\n", Expect: "C20.use/autoAssign/use-required"},
			{Name: "use filter keeps every pool", File: "libcalico-go/lib/ipam/ipam.go",
				Old: "\t\tif slices.Contains(p.Spec.AllowedUses, use) {\n\t\t\tfilteredPools = append(filteredPools, p)\n\t\t}\n", New: "\t\t_ = slices.Contains(p.Spec.AllowedUses, use)\n\t\tfilteredPools = append(filteredPools, p)\n", Expect: "C20.use/filterPoolsByUse"},
			{Name: "pools selecting the node returned without the use filter", File: "libcalico-go/lib/ipam/ipam.go",
				Old: "\treturn poolsAllowedByUse, allowedAffBlocks, nil\n", New: "\treturn poolsSelectingNode, allowedAffBlocks, nil\n", Expect: "C20.use/prepareAffinityBlocksForHost/pools"},
			{Name: "affine blocks filtered by node pools, not by allowed pools", File: "libcalico-go/lib/ipam/ipam.go",
				Old: "filterBlocksByPools(allAffBlocks, poolsAllowedByUse)", New: "filterBlocksByPools(allAffBlocks, poolsSelectingNode)", Expect: "C20.use/prepareAffinityBlocksForHost/blocks"},
			{Name: "namespace selector mismatch only logged", File: "libcalico-go/lib/ipam/ipam.go",
				Old: "\t\t\tlog.WithField(\"namespace\", namespace).Debugf(\"IP pool does not match this namespace: %s\", pool.Name)\n\t\t\tcontinue\n", New: "\t\t\tlog.WithField(\"namespace\", namespace).Debugf(\"IP pool does not match this namespace: %s\", pool.Name)\n", Expect: "C20.use/determinePools/selectors"},
			{Name: "non-affine fallback walks all enabled pools", File: "libcalico-go/lib/ipam/ipam.go",
				Old: "\tpools, affBlocks, err := c.prepareAffinityBlocksForHost(ctx, config, requestedPools, version, host, rsvdAttr, use, namespace)\n\tif err != nil {\n\t\treturn nil, err\n\t}\n",
				New: "\tpools, affBlocks, err := c.prepareAffinityBlocksForHost(ctx, config, requestedPools, version, host, rsvdAttr, use, namespace)\n\tif err != nil {\n\t\treturn nil, err\n\t}\n\tpools, _ = c.pools.GetEnabledPools(ctx, version)\n", Expect: "C20.use/autoAssign/pools"},
			{Name: "non-affine fallback ignores reservations", File: "libcalico-go/lib/ipam/ipam.go",
				Old: "c.assignFromExistingBlock(ctx, config, b, rem, handleID, attrs, affinityCfg, false, reservations, maxAlloc)", New: "c.assignFromExistingBlock(ctx, config, b, rem, handleID, attrs, affinityCfg, false, nilAddrFilter{}, maxAlloc)", Expect: "C20.resv/ipamClient.autoAssign/assignFromExistingBlock"},
			{Name: "block hands out reserved addresses", File: "libcalico-go/lib/ipam/ipam_block.go",
				Old: "\t\t\tupdatedUnallocated = append(updatedUnallocated, ordinal)\n\t\t\tcontinue\n\t\t}\n\t\t// This IP is OK to use.", New: "\t\t}\n\t\t// This IP is OK to use.", Expect: "C20.resv/allocationBlock.autoAssign"},
			{Name: "reservation lookup failure tolerated", File: "libcalico-go/lib/ipam/ipam.go",
				Old: "\tif len(cidrs) == 0 {\n\t\treturn nilAddrFilter{}, nil\n\t}\n\treturn cidrs, nil", New: "\tif len(cidrs) != 0 {\n\t\treturn nilAddrFilter{}, nil\n\t}\n\treturn cidrs, nil", Expect: "C20.resv/getReservedIPs"},
			{Name: "affine path assigns without the strict-affinity check", File: "libcalico-go/lib/ipam/ipam.go",
				Old: "c.assignFromExistingBlock(ctx, config, b, rem, handleID, attrs, affinityCfg, config.StrictAffinity, reservations, maxAlloc)", New: "c.assignFromExistingBlock(ctx, config, b, rem, handleID, attrs, affinityCfg, false, reservations, maxAlloc)", Expect: "C20.strict/autoAssign/affCheck"},
			{Name: "non-affine fallback runs under strict affinity", File: "libcalico-go/lib/ipam/ipam.go",
				Old: "if config.StrictAffinity != true && rem != 0 {", New: "if rem != 0 {", Expect: "C20.strict/autoAssign/affCheck"},
			{Name: "block with foreign affinity accepted under strict affinity", File: "libcalico-go/lib/ipam/ipam_block.go",
				Old: "\tif affinityCheck && b.Affinity != nil && !affinityMatches(affinityCfg, b.AllocationBlock) {\n\t\t// Affinity check is enabled but the host does not match - error.\n\t\ts :=", New: "\tif affinityCheck && b.Affinity == nil && !affinityMatches(affinityCfg, b.AllocationBlock) {\n\t\t// Affinity check is enabled but the host does not match - error.\n\t\ts :=", Expect: "C20.strict/allocationBlock.autoAssign"},
			{Name: "block cap compared the wrong way", File: "libcalico-go/lib/ipam/ipam.go",
				Old: "if maxNumBlocks > 0 && numBlocksOwned >= maxNumBlocks {", New: "if maxNumBlocks > 0 && numBlocksOwned > maxNumBlocks+1 {", Expect: "C20.cap/ipamClient.autoAssign/limit"},
			{Name: "newly claimed blocks not counted", File: "libcalico-go/lib/ipam/ipam.go",
				Old: "\t\tif newlyClaimed {\n\t\t\tnumBlocksOwned++\n\t\t}\n", New: "\t\t_ = newlyClaimed\n", Expect: "C20.cap/ipamClient.autoAssign/"},
			{Name: "EnsureBlock ignores the per-host block cap", File: "libcalico-go/lib/ipam/ipam.go",
				Old: "\tif config.MaxBlocksPerHost > 0 && len(affBlocks) >= config.MaxBlocksPerHost {\n\t\t// The host already owns as many blocks as it may: use one of those or fail,\n\t\t// as autoAssign does.\n\t\ts.allowNewClaim = false\n\t}\n", New: "", Expect: "C20.cap/ipamClient.ensureBlock/limit"},
			{Name: "EnsureBlock caps one block too late", File: "libcalico-go/lib/ipam/ipam.go",
				Old: "if config.MaxBlocksPerHost > 0 && len(affBlocks) >= config.MaxBlocksPerHost {", New: "if config.MaxBlocksPerHost > 0 && len(affBlocks) > config.MaxBlocksPerHost {", Expect: "C20.cap/ipamClient.ensureBlock/limit"},
			{Name: "findOrClaimBlock claims despite allowNewClaim=false", File: "libcalico-go/lib/ipam/ipam.go",
				Old: "\tif !s.allowNewClaim {\n\t\treturn nil, false, ErrBlockLimit\n\t}\n", New: "\tif !s.allowNewClaim {\n\t\tlogCtx.Info(\"block limit\")\n\t}\n", Expect: "C20.cap/findOrClaimBlock"},
			{Name: "filter builds its scratch list in the shared reservation list", File: "libcalico-go/lib/ipam/addr_filter.go",
				Old: "\tvar cidrsOverlappingCandidate cidrSliceFilter\n", New: "\tcidrsOverlappingCandidate := c[:0]\n", Expect: "C20.filterro/cidrSliceFilter.MatchesWholeCIDR"},
			{Name: "filter caches its last hit in slot 0 of the shared list", File: "libcalico-go/lib/ipam/addr_filter.go",
				Old: "\t\tif cidr.IsNetOverlap(ip.IPNet) {\n\t\t\treturn true\n", New: "\t\tif cidr.IsNetOverlap(ip.IPNet) {\n\t\t\tc[0] = cidr\n\t\t\treturn true\n", Expect: "C20.filterro/cidrSliceFilter.MatchesSome"},
			{Name: "filter hands the shared list to a helper that recycles it as scratch space", File: "libcalico-go/lib/ipam/addr_filter.go",
				Old: "func (c cidrSliceFilter) MatchesWholeCIDR(candidateCIDR *net.IPNet) bool {\n\tvar cidrsOverlappingCandidate cidrSliceFilter\n",
				New: "func recycleScratch(s cidrSliceFilter) cidrSliceFilter {\n\tfor i := range s {\n\t\ts[i] = net.IPNet{}\n\t}\n\treturn nil\n}\n\nfunc (c cidrSliceFilter) MatchesWholeCIDR(candidateCIDR *net.IPNet) bool {\n\tcidrsOverlappingCandidate := recycleScratch(c)\n", Expect: "C20.filterro/cidrSliceFilter.MatchesWholeCIDR"},
			{Name: "affinities being released are not listed as the host's blocks", File: "libcalico-go/lib/ipam/ipam_block_reader_writer.go",
				Old: "\t\tk := o.Key.(model.BlockAffinityKey)\n\t\tblocks = append(blocks, model.IPNetFromPrefix(k.CIDR))\n",
				New: "\t\tif aff, ok := o.Value.(*model.BlockAffinity); ok && aff.State == model.StatePendingDeletion {\n\t\t\tcontinue\n\t\t}\n\t\tk := o.Key.(model.BlockAffinityKey)\n\t\tblocks = append(blocks, model.IPNetFromPrefix(k.CIDR))\n", Expect: "C20.capset/getAffineBlocks/no-value-filter"},
			{Name: "only confirmed affinities are listed as the host's blocks", File: "libcalico-go/lib/ipam/ipam_block_reader_writer.go",
				Old: "\t\tk := o.Key.(model.BlockAffinityKey)\n\t\tblocks = append(blocks, model.IPNetFromPrefix(k.CIDR))\n",
				New: "\t\tk := o.Key.(model.BlockAffinityKey)\n\t\tswitch o.Value.(*model.BlockAffinity).State {\n\t\tcase model.StateConfirmed:\n\t\t\tblocks = append(blocks, model.IPNetFromPrefix(k.CIDR))\n\t\t}\n", Expect: "C20.capset/getAffineBlocks/no-value-filter"},
			{Name: "only the first affine block is handed on for counting", File: "libcalico-go/lib/ipam/ipam.go",
				Old: "filterBlocksByPools(allAffBlocks, poolsAllowedByUse)", New: "filterBlocksByPools(append([]net.IPNet(nil), allAffBlocks[:min(1, len(allAffBlocks))]...), poolsAllowedByUse)", Expect: "C20.capset/prepareAffinityBlocksForHost/source"},
			{Name: "existing-affinity lookup for a LoadBalancer request asks for host-typed affinities", File: "libcalico-go/lib/ipam/ipam.go",
				Old: "\t\tv3n.Name = v3.VirtualLoadBalancer\n\t\taffinityCfg.AffinityType = AffinityTypeVirtual\n", New: "\t\tv3n.Name = v3.VirtualLoadBalancer\n", Expect: "C20.afftype/ipamClient.prepareAffinityBlocksForHost"},
			{Name: "AssignIP claims host-typed affinity for LoadBalancer addresses", File: "libcalico-go/lib/ipam/ipam.go",
				Old: "\tif args.IntendedUse == v3.IPPoolAllowedUseLoadBalancer {\n\t\taffinityCfg.AffinityType = AffinityTypeVirtual\n\t}\n", New: "", Expect: "C20.afftype/ipamClient.AssignIP"},
			{Name: "autoAssign claims virtual-typed blocks for every use except LoadBalancer", File: "libcalico-go/lib/ipam/ipam.go",
				Old: "\tif use == v3.IPPoolAllowedUseLoadBalancer {\n\t\taffinityCfg.AffinityType = AffinityTypeVirtual\n\t}\n", New: "\tif use != v3.IPPoolAllowedUseLoadBalancer {\n\t\taffinityCfg.AffinityType = AffinityTypeVirtual\n\t}\n", Expect: "C20.afftype/ipamClient.autoAssign"},
			{Name: "returned address carries the pool's mask instead of the block's", File: "libcalico-go/lib/ipam/ipam_block.go",
				Old: "\t\tipNet := *mask\n\t\tipNet.IP = addr.IP\n", New: "\t\tipNet := cnet.IPNet{IPNet: net.IPNet{IP: addr.IP, Mask: addr.IP.DefaultMask()}}\n\t\t_ = mask\n", Expect: "C20.cidr/allocationBlock.autoAssign"},
		},
	})
}

// ------------------------------------------------------------------ helpers --

type c20Res struct {
	Call *ssa.Call
	Idx  int
}

// c20Results slices v back to the call results it derives from (through phi,
// interface conversion, local variables); non-call leaves go to others.
func c20Results(v ssa.Value) (res []c20Res, others []Origin) {
	for _, o := range origins(v, func(x ssa.Value) []ssa.Value {
		if ex, ok := x.(*ssa.Extract); ok {
			if call, ok := ex.Tuple.(*ssa.Call); ok {
				res = append(res, c20Res{call, ex.Index})
				return []ssa.Value{}
			}
		}
		return nil
	}) {
		if call, ok := o.V.(*ssa.Call); ok {
			res = append(res, c20Res{call, 0})
		} else {
			others = append(others, o)
		}
	}
	return
}

// c20OnlyResult: v derives only from result idx of calls of fn.
func c20OnlyResult(v ssa.Value, fn *ssa.Function, idx int) (*ssa.Call, bool) {
	res, others := c20Results(v)
	if len(others) > 0 || len(res) == 0 {
		return nil, false
	}
	for _, r := range res {
		if calleeFn(r.Call.Common()) != fn || r.Idx != idx {
			return nil, false
		}
	}
	return res[0].Call, true
}

// c20ParamIdx: index in fn.Params of the unique parameter whose (pointer-to-)
// named type is typeName (or basic type name for bool/string).
func c20ParamIdx(c *Ctx, fn *ssa.Function, typeName string) int {
	idx := -1
	for i, p := range fn.Params {
		n := namedTypeName(p.Type())
		if n == "" {
			if b, ok := p.Type().Underlying().(*types.Basic); ok {
				n = b.Name()
			}
		}
		if n == typeName {
			if idx >= 0 {
				c.Lost("%s has more than one parameter of type %s", fnName(fn), typeName)
			}
			idx = i
		}
	}
	if idx < 0 {
		c.Lost("%s has no parameter of type %s", fnName(fn), typeName)
	}
	return idx
}

func c20CallsOf(in *ssa.Function, callee *ssa.Function) []*ssa.Call {
	var out []*ssa.Call
	allInstrs(in, true, func(f *ssa.Function, i ssa.Instruction) {
		if call, ok := i.(*ssa.Call); ok && calleeFn(call.Common()) == callee {
			out = append(out, call)
		}
	})
	return out
}

// c20CutReach: target is unreachable from entry once the If edges accepted by
// edge are removed and instruction `stop` (if non-nil) is treated as a barrier.
func c20CutReach(target ssa.Instruction, edge EdgePred, stop func(ssa.Instruction) bool) bool {
	fn := target.Parent()
	tb := target.Block()
	seen := map[*ssa.BasicBlock]bool{}
	st := []*ssa.BasicBlock{fn.Blocks[0]}
	for len(st) > 0 {
		b := st[len(st)-1]
		st = st[:len(st)-1]
		if seen[b] {
			continue
		}
		seen[b] = true
		barrier := false
		for _, in := range b.Instrs {
			if in == target {
				return false
			}
			if stop != nil && stop(in) {
				barrier = true
				break
			}
		}
		_ = tb
		if barrier || isPanicBlock(b) {
			continue
		}
		if ifi, ok := b.Instrs[len(b.Instrs)-1].(*ssa.If); ok && len(b.Succs) == 2 && b.Succs[0] != b.Succs[1] {
			for k, s := range b.Succs {
				cv, pol := stripNot(ifi.Cond, k == 0)
				if edge(cv, pol) {
					continue
				}
				st = append(st, s)
			}
			continue
		}
		st = append(st, b.Succs...)
	}
	return true
}

// c20BoolFieldFalse accepts edges on which the bool field fv is known false:
// `!x`, `x != true`, `x == false`.
func c20BoolField(fv *types.Var, want bool) EdgePred {
	return func(cond ssa.Value, pol bool) bool {
		if fieldVar(cond) == fv {
			return pol == want
		}
		a, b, equal, ok := c21Eq(cond, pol)
		if !ok {
			return false
		}
		for _, pr := range [][2]ssa.Value{{a, b}, {b, a}} {
			if fieldVar(pr[0]) != fv {
				continue
			}
			if cv, isC := constOf(pr[1]); isC {
				isTrue := cv.ExactString() == "true"
				// field == const (equal) or field != const
				val := isTrue == equal
				return val == want
			}
		}
		return false
	}
}

type c20Model struct {
	*c21Model
	autoAssign, assignFrom, prepare, determine, filterUse, filterBlocks   *ssa.Function
	getReserved, getReservedCIDRs, findOrClaim, blkAutoAssign, affMatches *ssa.Function
	fStrict, fAllowNew, fPools, fResv, fRemaining, fAffinity, fCIDR       *types.Var
}

func runC20(c *Ctx) {
	p := c.Load(c21IpamPkg, c21ModelPkg)
	m := &c20Model{c21Model: c21NewModel(c, p)}
	f := func(name string) *ssa.Function { return m.fn(c21IpamPkg, name) }
	m.autoAssign = f("ipamClient.autoAssign")
	m.assignFrom = f("ipamClient.assignFromExistingBlock")
	m.prepare = f("ipamClient.prepareAffinityBlocksForHost")
	m.determine = f("ipamClient.determinePools")
	m.filterUse = f("filterPoolsByUse")
	m.filterBlocks = f("filterBlocksByPools")
	m.getReserved = f("ipamClient.getReservedIPs")
	m.getReservedCIDRs = f("ipamClient.getReservedCIDRs")
	m.findOrClaim = f("blockAssignState.findOrClaimBlock")
	m.blkAutoAssign = f("allocationBlock.autoAssign")
	m.affMatches = f("affinityMatches")
	fld := func(pkg, name string) *types.Var {
		v, _ := p.LookupObj(pkg, name).(*types.Var)
		if v == nil {
			c.Lost("field %s.%s", pkg, name)
		}
		return v
	}
	m.fStrict = fld(c21IpamPkg, "IPAMConfig.StrictAffinity")
	m.fAllowNew = fld(c21IpamPkg, "blockAssignState.allowNewClaim")
	m.fPools = fld(c21IpamPkg, "blockAssignState.pools")
	m.fResv = fld(c21IpamPkg, "blockAssignState.reservations")
	m.fRemaining = fld(c21IpamPkg, "blockAssignState.remainingAffineBlocks")
	m.fAffinity = fld(c21ModelPkg, "AllocationBlock.Affinity")
	m.fCIDR = fld(c21ModelPkg, "AllocationBlock.CIDR")

	c.Rule("C20.use", "E-FLOW/E-GUARD", "pools used for assignment = filterPoolsByUse(determinePools(..), use); determinePools keeps enabled pools selecting node and namespace; nothing happens with an empty use", 14)
	c.Rule("C20.resv", "E-FLOW/E-GUARD", "reservation filters derive from getReservedIPs() and are passed unchanged; the block allocates only ordinals with !MatchesIP", 8)
	c.Rule("C20.strict", "E-FLOW/E-GUARD", "affCheck = config.StrictAffinity on the affine path, fallback only under !StrictAffinity; block allocates under affinityCheck only if Affinity!=nil && affinityMatches", 4)
	c.Rule("C20.cap", "E-GUARD/E-FLOW", "allowNewClaim=false stored before findOrClaimBlock whenever numBlocksOwned >= maxNumBlocks; owned count = len(affine blocks)+newly claimed; new block search only under allowNewClaim", 7)
	c.Rule("C20.filterro", "E-OWN", "addrFilter implementations are read-only: no interface method of a filter (nor a function it hands its storage to) writes into, appends to or sorts the receiver's backing storage, which is shared by every check of a request", 6)
	c.Rule("C20.capset", "E-FLOW", "the blocks counted against MaxBlocksPerHost are every block affinity listed for the host: the affine-block list comes from getAffineBlocks, and getAffineBlocks keeps or drops no listed affinity depending on its value (state)", 2)
	c.Rule("C20.afftype", "E-PAIR (path-sensitive abstract interpretation)", "every function that builds an AffinityConfig from a request's intended use classifies it the same way (LoadBalancer → AffinityTypeVirtual, otherwise AffinityTypeHost) at every point where the config is used, so the affinity lookup and the block claim of one request address the same (type, host)", 3)
	c.Rule("C20.cidr", "E-FLOW", "every IPNet returned by allocationBlock.autoAssign is the parsed block CIDR with IP := OrdinalToIP(allocated ordinal)", 1)

	c20Use(m)
	c20Resv(m)
	c20Strict(m)
	c20Cap(m)
	c20CIDR(m)
	c20FilterRO(m)
	c20CapSet(m)
	c20AffType(m)
}

// ----------------------------------------------------------------------- use --

func c20Use(m *c20Model) {
	c, p := m.c, m.p
	aa := m.autoAssign
	useIdx := c20ParamIdx(c, aa, "IPPoolAllowedUse")
	use := aa.Params[useIdx]

	// (1) nothing without a use.
	nonEmpty := func(cond ssa.Value, pol bool) bool {
		a, b, equal, ok := c21Eq(cond, pol)
		if !ok || equal {
			return false
		}
		for _, pr := range [][2]ssa.Value{{a, b}, {b, a}} {
			if pr[0] == ssa.Value(use) {
				if cv, isC := constOf(pr[1]); isC && cv.ExactString() == `""` {
					return true
				}
			}
		}
		return false
	}
	for _, callee := range []*ssa.Function{m.prepare, m.findOrClaim, m.assignFrom} {
		calls := c20CallsOf(aa, callee)
		if len(calls) == 0 {
			c.Lost("autoAssign does not call %s", fnName(callee))
		}
		ok := true
		for _, call := range calls {
			if !guardedCut(call, nonEmpty) {
				ok = false
			}
		}
		c.Check(ok, "C20.use/autoAssign/use-required/"+fnName(callee), p.Pos(calls[0].Pos()),
			fmt.Sprintf("%d call(s) only reachable with use != \"\"", len(calls)), fnName(callee)+" is reachable with an empty intended use (no allowed-use filtering is possible)")
	}

	// (2) filterPoolsByUse keeps p only if AllowedUses contains use.
	fu := m.filterUse
	fuUse := fu.Params[c20ParamIdx(c, fu, "IPPoolAllowedUse")]
	nApp := 0
	allInstrs(fu, false, func(f *ssa.Function, in ssa.Instruction) {
		call, ok := in.(*ssa.Call)
		if !ok {
			return
		}
		_, elems, spread, ok := c21AppendCall(call)
		if !ok {
			return
		}
		nApp++
		site := p.Pos(in.Pos())
		if spread != nil || len(elems) != 1 {
			c.Violate("C20.use/filterPoolsByUse", site, "pools appended wholesale")
			return
		}
		elemSrc := c20LocalOf(elems[0])
		g := guardedCut(in, callCond(true, func(cs CallSite) bool {
			if cs.Callee == nil || cs.Callee.Name() != "Contains" || cs.Callee.Pkg() == nil || cs.Callee.Pkg().Path() != "slices" {
				return false
			}
			args := cs.Args()
			if len(args) != 2 || args[1] != ssa.Value(fuUse) {
				return false
			}
			_, fname, _, isF := fieldOf(args[0])
			return isF && fname == "AllowedUses" && elemSrc != nil && c20RootAlloc(args[0]) == elemSrc
		}))
		c.Check(g, "C20.use/filterPoolsByUse", site, "pool kept only under slices.Contains(p.Spec.AllowedUses, use) for the same p", "a pool is kept without establishing that its AllowedUses contain the requested use")
	})
	if nApp == 0 {
		c.Lost("filterPoolsByUse: no append")
	}

	// (3) prepareAffinityBlocksForHost success returns.
	pr := m.prepare
	prUse := pr.Params[c20ParamIdx(c, pr, "IPPoolAllowedUse")]
	nOK := 0
	for _, r := range returnsOf(pr) {
		if e := c21ErrOperand(r); e == nil || !isNilConst(e) {
			continue
		}
		nOK++
		site := p.Pos(r.Pos())
		fcall, ok := c20OnlyResult(r.Results[0], m.filterUse, 0)
		okPools := ok
		if ok {
			args := fcall.Common().Args
			if _, ok := c20OnlyResult(args[0], m.determine, 0); !ok || args[1] != ssa.Value(prUse) {
				okPools = false
			}
		}
		c.Check(okPools, "C20.use/prepareAffinityBlocksForHost/pools", site,
			"returned pools = filterPoolsByUse(determinePools(..)#0, use)", "the pools returned for assignment are not filterPoolsByUse(determinePools(...), use): pools not allowed for the use (or not selecting the node/namespace) can be assigned from")
		bcall, ok := c20OnlyResult(r.Results[1], m.filterBlocks, 0)
		okBlocks := ok && okPools
		if okBlocks {
			if pc, ok := c20OnlyResult(bcall.Common().Args[1], m.filterUse, 0); !ok || pc != fcall {
				okBlocks = false
			}
		}
		c.Check(okBlocks, "C20.use/prepareAffinityBlocksForHost/blocks", site,
			"returned affine blocks = filterBlocksByPools(affine blocks, allowed pools)#0", "the affine blocks returned for assignment are not restricted to the pools allowed for this use")
	}
	if nOK == 0 {
		c.Lost("prepareAffinityBlocksForHost: no success return")
	}
	// determinePools is called with the function's own namespace / node of the host
	for _, call := range c20CallsOf(pr, m.determine) {
		nsIdx := c20ParamIdx(c, m.determine, "Namespace")
		ok := false
		if prm, isP := call.Common().Args[nsIdx].(*ssa.Parameter); isP && prm.Parent() == pr {
			ok = true
		}
		c.Check(ok, "C20.use/prepareAffinityBlocksForHost/namespace", p.Pos(call.Pos()), "determinePools receives the request's namespace", "determinePools is not given the request's namespace")
	}

	// (4,5) determinePools.
	c20DeterminePools(m)

	// (6) autoAssign plumbing.
	var prepCall *ssa.Call
	for _, call := range c20CallsOf(aa, m.prepare) {
		prepCall = call
		ok := true
		for _, tn := range []string{"IPPoolAllowedUse", "Namespace"} {
			i := c20ParamIdx(c, m.prepare, tn)
			j := c20ParamIdx(c, aa, tn)
			if call.Common().Args[i] != ssa.Value(aa.Params[j]) {
				ok = false
			}
		}
		c.Check(ok, "C20.use/autoAssign/request", p.Pos(call.Pos()), "prepareAffinityBlocksForHost receives the request's use and namespace", "prepareAffinityBlocksForHost is not called with the request's own use / namespace")
	}
	var lit *ssa.Alloc
	allInstrs(aa, false, func(f *ssa.Function, in ssa.Instruction) {
		if al, ok := in.(*ssa.Alloc); ok && namedTypeName(al.Type()) == "blockAssignState" {
			lit = al
		}
	})
	if lit == nil || prepCall == nil {
		c.Lost("autoAssign: blockAssignState literal / prepareAffinityBlocksForHost call")
	}
	fs := literalFieldStores(lit)
	okP := len(fs["pools"]) == 1
	if okP {
		_, okP = c20OnlyResult(fs["pools"][0], m.prepare, 0)
	}
	okB := len(fs["remainingAffineBlocks"]) == 1
	if okB {
		_, okB = c20OnlyResult(fs["remainingAffineBlocks"][0], m.prepare, 1)
	}
	// no other writer of state.pools
	for _, f := range p.AllFuncs() {
		for _, st := range storesToField(f, false, "blockAssignState", "pools") {
			if fa, ok := st.Addr.(*ssa.FieldAddr); ok && fa.X == ssa.Value(lit) {
				continue
			}
			if topFn(f) == aa {
				okP = false
			}
		}
	}
	c.Check(okP && okB, "C20.use/autoAssign/pools/state", p.Pos(lit.Pos()), "block search state uses the allowed pools and the allowed affine blocks", fmt.Sprintf("block search state is not built from prepareAffinityBlocksForHost results (pools=%v blocks=%v)", okP, okB))
	// the non-affine fallback draws block CIDRs from the allowed pools only
	rbg := m.fn(c21IpamPkg, "randomBlockGenerator")
	gens := c20CallsOf(aa, rbg)
	if len(gens) == 0 {
		c.Lost("autoAssign: no randomBlockGenerator call (non-affine fallback)")
	}
	for _, g := range gens {
		ok := false
		for _, o := range origins(g.Common().Args[0], nil) {
			ia, isIA := c21StripLoads(o.V).(*ssa.IndexAddr)
			if !isIA {
				ok = false
				break
			}
			_, ok = c20OnlyResult(ia.X, m.prepare, 0)
			if !ok {
				break
			}
		}
		c.Check(ok, "C20.use/autoAssign/pools/fallback", p.Pos(g.Pos()), "non-affine block CIDRs are generated from the allowed pools", "the non-affine fallback generates block CIDRs from pools other than those returned by prepareAffinityBlocksForHost")
	}
	// findUsableBlock is given the state's pools
	fub := m.fn(c21IpamPkg, "blockReaderWriter.findUsableBlock")
	poolsIdx := -1
	for i, prm := range fub.Params {
		if sl, ok := prm.Type().Underlying().(*types.Slice); ok && namedTypeName(sl.Elem()) == "IPPool" {
			poolsIdx = i
		}
	}
	if poolsIdx < 0 {
		c.Lost("findUsableBlock has no []IPPool parameter")
	}
	for _, call := range c20CallsOf(m.findOrClaim, fub) {
		c.Check(fieldVar(call.Common().Args[poolsIdx]) == m.fPools, "C20.use/findOrClaimBlock/pools", p.Pos(call.Pos()), "new blocks are searched in state.pools", "findUsableBlock is not given the state's allowed pools")
	}
}

// c20LocalOf: v is a load of a local variable; returns the Alloc.
func c20LocalOf(v ssa.Value) *ssa.Alloc {
	if u, ok := v.(*ssa.UnOp); ok && u.Op == token.MUL {
		if al, ok := u.X.(*ssa.Alloc); ok {
			return al
		}
	}
	return nil
}

// c20RootAlloc: the local Alloc at the root of a field access chain.
func c20RootAlloc(v ssa.Value) *ssa.Alloc {
	for {
		switch x := v.(type) {
		case *ssa.UnOp:
			if x.Op != token.MUL {
				return nil
			}
			v = x.X
		case *ssa.FieldAddr:
			v = x.X
		case *ssa.Field:
			v = x.X
		case *ssa.Alloc:
			return x
		default:
			return nil
		}
	}
}

// c20RangedSlice: local alloc `al` holds a copy of X[i]; returns X.
func c20RangedSlice(al *ssa.Alloc) ssa.Value {
	var src ssa.Value
	n := 0
	for _, r := range *al.Referrers() {
		if st, ok := r.(*ssa.Store); ok && st.Addr == ssa.Value(al) {
			n++
			if ia, ok := c21StripLoads(st.Val).(*ssa.IndexAddr); ok {
				src = ia.X
			}
		}
	}
	if n != 1 {
		return nil
	}
	return src
}

func c20DeterminePools(m *c20Model) {
	c, p := m.c, m.p
	dp := m.determine
	node := dp.Params[c20ParamIdx(c, dp, "Node")]
	ns := dp.Params[c20ParamIdx(c, dp, "Namespace")]
	selNode := m.fn(c21IpamPkg, "SelectsNode")
	selNS := m.fn(c21IpamPkg, "SelectsNamespace")

	isEnabled := func(v ssa.Value) bool {
		res, others := c20Results(v)
		if len(others) > 0 || len(res) == 0 {
			return false
		}
		for _, r := range res {
			f := calleeOf(r.Call.Common())
			if f == nil || f.Name() != "GetEnabledPools" || r.Idx != 0 {
				return false
			}
		}
		return true
	}
	// Classify every value that can be returned as result #0.
	type src struct {
		app  *ssa.Call
		elem ssa.Value
	}
	var apps []src
	seen := map[ssa.Value]bool{}
	bad := ""
	var walk func(v ssa.Value)
	walk = func(v ssa.Value) {
		if seen[v] {
			return
		}
		seen[v] = true
		switch x := v.(type) {
		case *ssa.Phi:
			for _, e := range x.Edges {
				walk(e)
			}
		case *ssa.Const:
			if x.Value != nil {
				bad = "constant"
			}
		case *ssa.Slice:
			walk(x.X)
		case *ssa.Alloc: // empty slice literal
			if x.Comment != "slicelit" {
				bad = "alloc " + x.Comment
			}
		case *ssa.Call:
			base, elems, spread, ok := c21AppendCall(x)
			if !ok || spread != nil || len(elems) != 1 {
				bad = "built by " + path(v)
				return
			}
			apps = append(apps, src{x, elems[0]})
			walk(base)
		default:
			bad = "built by " + path(v)
		}
	}
	nRet := 0
	for _, r := range returnsOf(dp) {
		if e := c21ErrOperand(r); e != nil && isNilConst(e) {
			continue
		}
		// named error result: a return may carry err==nil dynamically; classify all non-nil #0
		if isNilConst(r.Results[0]) {
			continue
		}
		nRet++
		walk(r.Results[0])
	}
	if nRet == 0 || len(apps) == 0 {
		c.Lost("determinePools: no returned pool list / appends found")
	}
	if bad != "" {
		c.Violate("C20.use/determinePools/selectors", p.Pos(dp.Pos()), "determinePools can return pools %s", bad)
		return
	}
	nSel, nReq := 0, 0
	for _, a := range apps {
		site := p.Pos(a.app.Pos())
		// (a) selector branch: element is a local copy of enabledPools[i]
		if al := c20LocalOf(a.elem); al != nil {
			if rs := c20RangedSlice(al); rs != nil {
				nSel++
				okEn := isEnabled(rs)
				gNode := guardedCut(a.app, callCond(true, func(cs CallSite) bool {
					return calleeFn(cs.Common()) == selNode && c20LocalOf(cs.Args()[0]) == al && cs.Args()[1] == ssa.Value(node)
				}))
				gNS := guardedCut(a.app, callCond(true, func(cs CallSite) bool {
					return calleeFn(cs.Common()) == selNS && c20LocalOf(cs.Args()[0]) == al && cs.Args()[1] == ssa.Value(ns)
				}))
				c.Check(gNode && gNS, "C20.use/determinePools/selectors", site, "pool kept only under SelectsNode(pool,node) && SelectsNamespace(pool,namespace)",
					fmt.Sprintf("a pool is kept without both selector tests for that pool (node=%v namespace=%v)", gNode, gNS))
				c.Check(okEn, "C20.use/determinePools/enabled", site, "candidate pools are the elements of GetEnabledPools()", "candidate pools are not ranged from GetEnabledPools()")
				continue
			}
		}
		// (b) explicit-request branch: element looked up (ok) in the map of enabled pools
		ex, isEx := a.elem.(*ssa.Extract)
		var lk *ssa.Lookup
		if isEx {
			lk, _ = ex.Tuple.(*ssa.Lookup)
		}
		if lk == nil || !lk.CommaOk || ex.Index != 0 {
			c.Violate("C20.use/determinePools/selectors", site, "pool %s is kept without a selector test and is not an explicitly requested enabled pool", path(a.elem))
			continue
		}
		nReq++
		okGuard := guardedCut(a.app, lookupOkCond(true, func(v ssa.Value) bool { return v == lk.X }))
		okMap := true
		nUpd := 0
		allInstrs(dp, false, func(f *ssa.Function, in ssa.Instruction) {
			if mu, ok := in.(*ssa.MapUpdate); ok && mu.Map == lk.X {
				nUpd++
				al := c20LocalOf(mu.Value)
				if al == nil || c20RangedSlice(al) == nil || !isEnabled(c20RangedSlice(al)) {
					okMap = false
				}
			}
		})
		c.Check(okGuard && okMap && nUpd > 0, "C20.use/determinePools/requested", site,
			"explicitly requested pool must be present in the map of GetEnabledPools() entries (selectors deliberately not applied: documented backwards-compatibility exception)",
			"an explicitly requested pool is accepted without being found among the enabled pools")
	}
	if nSel == 0 || nReq == 0 {
		c.Lost("determinePools: selector branch (%d) / requested branch (%d) not found", nSel, nReq)
	}
}

// ---------------------------------------------------------------------- resv --

func c20Resv(m *c20Model) {
	c, p := m.c, m.p
	resvIdx := c20ParamIdx(c, m.assignFrom, "addrFilter")
	// (1) every caller passes getReservedIPs()#0
	n := 0
	for _, f := range p.AllFuncs() {
		if f.Pkg == nil || !strings.HasSuffix(f.Pkg.Pkg.Path(), c21IpamPkg) {
			continue
		}
		for _, call := range c20CallsOf(f, m.assignFrom) {
			if call.Parent() != f {
				continue
			}
			n++
			_, ok := c20OnlyResult(call.Common().Args[resvIdx], m.getReserved, 0)
			c.Check(ok, "C20.resv/"+fnName(f)+"/assignFromExistingBlock", p.Pos(call.Pos()), "reservations argument = getReservedIPs()#0", "assignFromExistingBlock is given a reservation filter that does not come from getReservedIPs(): reserved addresses can be assigned")
		}
	}
	if n < 2 {
		c.Lost("callers of assignFromExistingBlock (%d)", n)
	}
	// state.reservations
	nSt := 0
	for _, f := range p.AllFuncs() {
		for _, st := range storesToField(f, false, "blockAssignState", "reservations") {
			if topFn(f) != m.autoAssign {
				continue // ensureBlock builds its own state; it assigns no address
			}
			nSt++
			_, ok := c20OnlyResult(st.Val, m.getReserved, 0)
			c.Check(ok, "C20.resv/autoAssign/state", p.Pos(st.Pos()), "block search uses getReservedIPs()#0", "the block search state carries a reservation filter that does not come from getReservedIPs()")
		}
	}
	if nSt == 0 {
		c.Lost("autoAssign: no store to blockAssignState.reservations")
	}
	// the error of getReservedIPs is not ignored: uses of #0 are guarded by err == nil
	for _, call := range c20CallsOf(m.autoAssign, m.getReserved) {
		isErr := func(v ssa.Value) bool {
			ex, ok := v.(*ssa.Extract)
			return ok && ex.Tuple == ssa.Value(call) && ex.Index == 1
		}
		ok := true
		for _, ac := range c20CallsOf(m.autoAssign, m.assignFrom) {
			if !guardedCut(ac, eqCond(true, isErr, isNilConst)) {
				ok = false
			}
		}
		c.Check(ok, "C20.resv/autoAssign/lookup-error", p.Pos(call.Pos()), "assignment only reachable if getReservedIPs() succeeded", "addresses are assigned although looking up the reservations failed")
	}
	// (2) assignFromExistingBlock passes its parameter through.
	blkIdx := c20ParamIdx(c, m.blkAutoAssign, "addrFilter")
	calls := c20CallsOf(m.assignFrom, m.blkAutoAssign)
	if len(calls) == 0 {
		c.Lost("assignFromExistingBlock does not call allocationBlock.autoAssign")
	}
	for _, call := range calls {
		c.Check(call.Common().Args[blkIdx] == ssa.Value(m.assignFrom.Params[resvIdx]), "C20.resv/assignFromExistingBlock/plumb", p.Pos(call.Pos()), "block.autoAssign receives the caller's reservation filter", "block.autoAssign is not given assignFromExistingBlock's reservations parameter")
	}
	// only assignFromExistingBlock calls block.autoAssign
	for _, f := range p.AllFuncs() {
		if topFn(f) == m.assignFrom {
			continue
		}
		for _, call := range c20CallsOf(f, m.blkAutoAssign) {
			if call.Parent() == f {
				c.Violate("C20.resv/"+fnName(f)+"/direct-autoAssign", p.Pos(call.Pos()), "%s calls allocationBlock.autoAssign directly; its reservation filter is not checked", fnName(f))
			}
		}
	}
	// (3) block: allocate only non-reserved ordinals.
	ba := m.blkAutoAssign
	resv := ba.Params[blkIdx]
	stores := m.allocStores(ba)
	if len(stores) == 0 {
		c.Lost("allocationBlock.autoAssign: no store into Allocations")
	}
	for _, as := range stores {
		ord := as.Ord
		g := guardedCut(as.St, callCond(false, func(cs CallSite) bool {
			if cs.Callee == nil || cs.Callee.Name() != "MatchesIP" || cs.Args()[0] != ssa.Value(resv) {
				return false
			}
			// argument derives from OrdinalToIP(ord)
			for _, o := range origins(cs.Args()[1], nil) {
				oc, ok := o.V.(*ssa.Call)
				if !ok || calleeOf(oc.Common()) == nil || calleeOf(oc.Common()).Name() != "OrdinalToIP" {
					return false
				}
				a := oc.Common().Args
				if !c21SameValue(a[len(a)-1], ord) {
					return false
				}
			}
			return true
		}))
		c.Check(g, "C20.resv/allocationBlock.autoAssign", p.Pos(as.St.Pos()), "ordinal allocated only under !reservations.MatchesIP(OrdinalToIP(ord))", "an ordinal is allocated without establishing that reservations.MatchesIP is false for its address")
	}
	// (4) getReservedIPs: the empty filter is returned only when there are no reservations.
	gr := m.getReserved
	nR := 0
	for _, r := range returnsOf(gr) {
		if e := c21ErrOperand(r); e == nil || !isNilConst(e) {
			continue
		}
		nR++
		site := p.Pos(r.Pos())
		if _, ok := c20OnlyResult(r.Results[0], m.getReservedCIDRs, 0); ok {
			c.Ok("C20.resv/getReservedIPs/filter", site, "returns the CIDRs of getReservedCIDRs()")
			continue
		}
		// otherwise it must be the empty filter, guarded by len(cidrs) == 0
		isEmpty := false
		if mi, ok := r.Results[0].(*ssa.MakeInterface); ok && namedTypeName(mi.X.Type()) == "nilAddrFilter" {
			isEmpty = true
		}
		g := guardedCut(r, func(cond ssa.Value, pol bool) bool {
			a, b, equal, ok := c21Eq(cond, pol)
			if !ok || !equal {
				return false
			}
			for _, pr := range [][2]ssa.Value{{a, b}, {b, a}} {
				lc, isCall := pr[0].(*ssa.Call)
				if !isCall {
					continue
				}
				if bi, isB := lc.Call.Value.(*ssa.Builtin); !isB || bi.Name() != "len" {
					continue
				}
				if _, ok := c20OnlyResult(lc.Call.Args[0], m.getReservedCIDRs, 0); !ok {
					continue
				}
				if cv, isC := constOf(pr[1]); isC && cv.ExactString() == "0" {
					return true
				}
			}
			return false
		})
		c.Check(isEmpty && g, "C20.resv/getReservedIPs/empty", site, "the match-nothing filter is returned only when len(reserved CIDRs) == 0", "getReservedIPs returns a filter that is neither the reserved CIDRs nor (under len==0) the empty filter: existing reservations are ignored")
	}
	if nR < 2 {
		c.Lost("getReservedIPs: success returns (%d)", nR)
	}
}

// -------------------------------------------------------------------- strict --

func c20Strict(m *c20Model) {
	c, p := m.c, m.p
	aa := m.autoAssign
	affIdx := c20ParamIdx(c, m.assignFrom, "bool")
	calls := c20CallsOf(aa, m.assignFrom)
	for _, call := range calls {
		arg := call.Common().Args[affIdx]
		site := p.Pos(call.Pos())
		if fieldVar(arg) == m.fStrict {
			// config must be the one read from the datastore
			_, _, base, _ := fieldOf(arg)
			res, others := c20Results(base)
			ok := len(others) == 0 && len(res) > 0
			for _, r := range res {
				if f := calleeOf(r.Call.Common()); f == nil || f.Name() != "GetIPAMConfig" {
					ok = false
				}
			}
			c.Check(ok, "C20.strict/autoAssign/affCheck", site, "affCheck = GetIPAMConfig().StrictAffinity", "affCheck reads StrictAffinity from a config that was not returned by GetIPAMConfig")
			continue
		}
		g := guardedCut(call, c20BoolField(m.fStrict, false))
		c.Check(g, "C20.strict/autoAssign/affCheck", site, "assignment without affinity check only reachable under StrictAffinity == false",
			"assignFromExistingBlock is called with affCheck="+path(arg)+" on a path where StrictAffinity may be true: addresses can come from blocks affine to other hosts")
	}
	// pass-through
	bIdx := c20ParamIdx(c, m.blkAutoAssign, "bool")
	cfgIdxA := c20ParamIdx(c, m.assignFrom, "AffinityConfig")
	cfgIdxB := c20ParamIdx(c, m.blkAutoAssign, "AffinityConfig")
	for _, call := range c20CallsOf(m.assignFrom, m.blkAutoAssign) {
		a := call.Common().Args
		okCfg := true
		for _, o := range origins(a[cfgIdxB], nil) {
			if o.V != ssa.Value(m.assignFrom.Params[cfgIdxA]) {
				okCfg = false
			}
		}
		c.Check(a[bIdx] == ssa.Value(m.assignFrom.Params[affIdx]) && okCfg, "C20.strict/assignFromExistingBlock/plumb", p.Pos(call.Pos()), "block.autoAssign receives affCheck and the affinity config unchanged", "block.autoAssign is not given the caller's affCheck / affinity config")
	}
	// block level
	ba := m.blkAutoAssign
	chk := ba.Params[bIdx]
	// Affinity must not be written on the way (facts about it are compared by access path)
	for _, f := range []*ssa.Function{ba} {
		if len(storesToField(f, true, "AllocationBlock", "Affinity")) > 0 {
			c.Undecided("C20.strict/allocationBlock.autoAssign", p.Pos(ba.Pos()), "Affinity is written inside autoAssign")
			return
		}
	}
	for _, as := range m.allocStores(ba) {
		site := p.Pos(as.St.Pos())
		paths, ok := c21PathFacts(as.St, 50000)
		if !ok || len(paths) == 0 {
			c.Undecided("C20.strict/allocationBlock.autoAssign", site, "cannot enumerate paths (%d)", len(paths))
			continue
		}
		bad := ""
		nFeasible := 0
		for _, facts := range paths {
			// canonicalise nil-tests of Affinity by access path; drop contradictory paths
			affNil, affKnown, contradiction := false, false, false
			checkOn, checkKnown := false, false
			matches := false
			for v, truth := range facts {
				if v == ssa.Value(chk) {
					checkOn, checkKnown = truth, true
				}
				if x, isNil, ok := c21NilCmp(v, truth); ok && fieldVar(x) == m.fAffinity {
					if affKnown && affNil != isNil {
						contradiction = true
					}
					affNil, affKnown = isNil, true
				}
				if call, ok := v.(*ssa.Call); ok && truth && calleeFn(call.Common()) == m.affMatches {
					a := call.Common().Args
					okCfg := true
					for _, o := range origins(a[0], nil) {
						if _, isP := o.V.(*ssa.Parameter); !isP {
							okCfg = false
						}
					}
					if okCfg && m.isBlockType(a[1].Type()) {
						matches = true
					}
				}
			}
			if contradiction {
				continue
			}
			nFeasible++
			if checkKnown && !checkOn {
				continue // no affinity check requested
			}
			if !(affKnown && !affNil && matches) {
				bad = fmt.Sprintf("a path allocates with affinityCheck possibly true but Affinity!=nil established=%v, affinityMatches(cfg, block)=true established=%v", affKnown && !affNil, matches)
			}
		}
		c.Check(bad == "" && nFeasible > 0, "C20.strict/allocationBlock.autoAssign", site,
			fmt.Sprintf("all %d feasible paths to the allocation have affinityCheck==false or (Affinity!=nil && affinityMatches)", nFeasible), bad)
	}
}

// ----------------------------------------------------------------------- cap --

func c20Cap(m *c20Model) {
	c, p := m.c, m.p
	nCallers := 0
	for _, f := range p.AllFuncs() {
		if f.Parent() != nil || f.Pkg == nil || !strings.HasSuffix(f.Pkg.Pkg.Path(), c21IpamPkg) {
			continue
		}
		if len(c20CallsOf(f, m.findOrClaim)) > 0 {
			nCallers++
			c20CapCaller(m, f)
		}
	}
	if nCallers == 0 {
		c.Lost("no caller of findOrClaimBlock")
	}
	// allowNewClaim is only ever set true at construction
	for _, f := range p.AllFuncs() {
		for _, st := range storesToField(f, false, "blockAssignState", "allowNewClaim") {
			cv, isC := constOf(st.Val)
			if isC && cv.ExactString() == "false" {
				continue
			}
			if fa, ok := st.Addr.(*ssa.FieldAddr); ok {
				if al, ok := fa.X.(*ssa.Alloc); ok && al.Comment == "complit" {
					continue
				}
			}
			c.Violate("C20.cap/allowNewClaim-reset/"+fnName(f), p.Pos(st.Pos()), "allowNewClaim is re-enabled outside the construction of the state")
		}
	}
	// findOrClaimBlock: new block search only under allowNewClaim; the refusal is an error
	fo := m.findOrClaim
	n := 0
	for _, name := range []string{"findUsableBlock", "getPendingAffinity"} {
		for _, cs := range callsIn(fo, false, func(f *types.Func) bool { return f.Name() == name && recvTypeName(f) == "blockReaderWriter" }) {
			n++
			g := guardedCut(cs.Instr, c20BoolField(m.fAllowNew, true))
			c.Check(g, "C20.cap/findOrClaimBlock/"+name, p.Pos(cs.Instr.Pos()), name+" only reachable under allowNewClaim", name+" is reachable with allowNewClaim == false: a block is claimed beyond the per-host cap")
		}
	}
	if n < 2 {
		c.Lost("findOrClaimBlock: findUsableBlock/getPendingAffinity calls (%d)", n)
	}
	// the !allowNewClaim edge returns an error
	okErr := false
	for _, b := range fo.Blocks {
		ifi, isIf := b.Instrs[len(b.Instrs)-1].(*ssa.If)
		if !isIf {
			continue
		}
		for k, s := range b.Succs {
			cv, pol := stripNot(ifi.Cond, k == 0)
			if !c20BoolField(m.fAllowNew, false)(cv, pol) {
				continue
			}
			region := blockReach(s)
			region[s] = true
			okErr = true
			for _, r := range returnsOf(fo) {
				if region[r.Block()] {
					if e := c21ErrOperand(r); e == nil || isNilConst(e) {
						okErr = false
					}
				}
			}
		}
	}
	c.Check(okErr, "C20.cap/findOrClaimBlock/refusal", p.Pos(fo.Pos()), "with allowNewClaim == false the function can only return an error once affine blocks are exhausted", "with allowNewClaim == false findOrClaimBlock can still return a block after the affine blocks are exhausted")
}

// c20CapCaller checks one function that calls findOrClaimBlock.
func c20CapCaller(m *c20Model, aa *ssa.Function) {
	c, p := m.c, m.p
	name := fnName(aa)
	calls := c20CallsOf(aa, m.findOrClaim)
	var prepCall *ssa.Call
	for _, pc := range c20CallsOf(aa, m.prepare) {
		prepCall = pc
	}
	// the owned counter: phi of len(prepare#1) and +1 under newlyClaimed
	isOwned := func(v ssa.Value) (bool, string) {
		seen := map[ssa.Value]bool{}
		nInit, nInc := 0, 0
		why := ""
		var walk func(v ssa.Value)
		walk = func(v ssa.Value) {
			if seen[v] || why != "" {
				return
			}
			seen[v] = true
			switch x := v.(type) {
			case *ssa.Phi:
				for _, e := range x.Edges {
					walk(e)
				}
			case *ssa.BinOp:
				cv, isC := constOf(x.Y)
				if x.Op != token.ADD || !isC || cv.ExactString() != "1" {
					why = "updated by " + path(v)
					return
				}
				nInc++
				walk(x.X)
			case *ssa.Call:
				if bi, isB := x.Call.Value.(*ssa.Builtin); isB && bi.Name() == "len" && prepCall != nil {
					if pc, ok := c20OnlyResult(x.Call.Args[0], m.prepare, 1); ok && pc == prepCall {
						nInit++
						return
					}
				}
				why = "initialised by " + path(v)
			default:
				why = "contains " + path(v)
			}
		}
		walk(v)
		if why != "" {
			return false, why
		}
		if nInit == 0 {
			return false, "not initialised with len(affine blocks)"
		}
		return true, ""
	}
	for _, call := range calls {
		site := p.Pos(call.Pos())
		// find the comparison owned >= max
		var limitConds []ssa.Value
		for _, b := range aa.Blocks {
			if ifi, ok := b.Instrs[len(b.Instrs)-1].(*ssa.If); ok {
				cv, _ := stripNot(ifi.Cond, true)
				if bo, ok := cv.(*ssa.BinOp); ok && (bo.Op == token.GEQ || bo.Op == token.LSS || bo.Op == token.LEQ || bo.Op == token.GTR) {
					if ok, _ := isOwned(bo.X); ok {
						limitConds = append(limitConds, cv)
					} else if ok, _ := isOwned(bo.Y); ok {
						limitConds = append(limitConds, cv)
					}
				}
			}
		}
		if len(limitConds) == 0 {
			c.Violate("C20.cap/"+name+"/limit", site, "%s calls findOrClaimBlock (which claims a new affine block when the existing ones cannot be used) without ever comparing the host's block count (len(affine blocks) + newly claimed) with the per-host cap; allowNewClaim stays true", name)
			continue
		}
		// under-limit edges: owned >= max is false (owned < max true)
		var maxV ssa.Value
		under := func(cond ssa.Value, pol bool) bool {
			bo, ok := cond.(*ssa.BinOp)
			if !ok {
				return false
			}
			x, y, op := bo.X, bo.Y, bo.Op
			if okY, _ := isOwned(y); okY {
				// max <op> owned  ->  owned <op'> max
				x, y = y, x
				switch op {
				case token.GEQ:
					op = token.LEQ
				case token.LEQ:
					op = token.GEQ
				case token.GTR:
					op = token.LSS
				case token.LSS:
					op = token.GTR
				}
			}
			if okX, _ := isOwned(x); !okX {
				return false
			}
			if _, isBin := y.(*ssa.BinOp); isBin {
				return false // limit must be a plain value, not arithmetic on it
			}
			maxV = y
			// "owned < max" established
			return (op == token.GEQ && !pol) || (op == token.LSS && pol)
		}
		// "no limit" edges: max > 0 false
		noLimit := func(cond ssa.Value, pol bool) bool {
			bo, ok := cond.(*ssa.BinOp)
			if !ok || maxV == nil {
				return false
			}
			cv, isC := constOf(bo.Y)
			if !isC || cv.ExactString() != "0" || !c21SameValue(bo.X, maxV) {
				return false
			}
			return (bo.Op == token.GTR && !pol) || (bo.Op == token.LEQ && pol)
		}
		// prime maxV
		for _, lc := range limitConds {
			under(lc, true)
		}
		// When the cap is a struct field read more than once (config.MaxBlocksPerHost
		// in `cap > 0 && owned >= cap`), the reads denote the same value only if the
		// function never writes that field.
		if fv := fieldVar(maxV); fv != nil {
			rewritten := false
			allInstrs(aa, true, func(_ *ssa.Function, in ssa.Instruction) {
				if st, ok := in.(*ssa.Store); ok && fieldVar(st.Addr) == fv {
					rewritten = true
				}
			})
			if rewritten {
				c.Undecided("C20.cap/"+name+"/limit", site, "%s writes the cap field %s it also compares the block count with: cannot relate the `cap > 0` and `owned >= cap` tests", name, fv.Name())
				continue
			}
		}
		// allowNewClaim=false stored into the very state findOrClaimBlock is called on
		recv := call.Call.Args[0]
		stop := func(in ssa.Instruction) bool {
			st, ok := in.(*ssa.Store)
			if !ok || fieldVar(st.Addr) != m.fAllowNew {
				return false
			}
			fa, isFA := st.Addr.(*ssa.FieldAddr)
			if !isFA || !c21SameValue(fa.X, recv) {
				return false
			}
			cv, isC := constOf(st.Val)
			return isC && cv.ExactString() == "false"
		}
		ok := c20CutReach(call, anyOf(under, noLimit), stop)
		c.Check(ok, "C20.cap/"+name+"/limit", site, "findOrClaimBlock is reached with owned < max, no limit, or after allowNewClaim=false", "findOrClaimBlock can be reached with numBlocksOwned >= maxNumBlocks and allowNewClaim still true: the host can claim more blocks than the cap")
		// Can a claim made by this request precede this call?  Only when the call
		// is in a loop (autoAssign) or another findOrClaimBlock call reaches it.
		var earlier *ssa.Call
		for _, other := range calls {
			if other != call && instrReaches(other, call) {
				earlier = other
			}
		}
		if earlier != nil {
			c.Undecided("C20.cap/"+name+"/count", site, "another findOrClaimBlock call (%s) can precede this one: whether its newly claimed block is counted is not modelled", p.Pos(earlier.Pos()))
			continue
		}
		if !instrReaches(call, call) {
			c.Ok("C20.cap/"+name+"/count", site, "single findOrClaimBlock call, not in a loop: the block count is len(affine blocks), no earlier claim of this request to add")
			continue
		}
		// the counter grows on every newly claimed block: the edge newlyClaimed==true leads to the increment
		inc := false
		for _, b := range aa.Blocks {
			ifi, isIf := b.Instrs[len(b.Instrs)-1].(*ssa.If)
			if !isIf {
				continue
			}
			ex, isEx := ifi.Cond.(*ssa.Extract)
			if !isEx || ex.Tuple != ssa.Value(call) || ex.Index != 1 {
				continue
			}
			// true successor must contain owned+1 feeding the loop phi
			for _, in := range b.Succs[0].Instrs {
				if bo, ok := in.(*ssa.BinOp); ok && bo.Op == token.ADD {
					if okO, _ := isOwned(bo); okO && len(b.Succs[0].Preds) == 1 {
						inc = true
					}
				}
			}
		}
		c.Check(inc, "C20.cap/"+name+"/count", site, "numBlocksOwned = len(affine blocks) + 1 per newly claimed block", "the block counter is not incremented on the newlyClaimed result of findOrClaimBlock: claims made by this request are not counted against the cap")
	}
}

// ---------------------------------------------------------------------- cidr --

func c20CIDR(m *c20Model) {
	c, p := m.c, m.p
	ba := m.blkAutoAssign
	// the ordinals allocated
	ords := map[string]bool{}
	for _, as := range m.allocStores(ba) {
		ords[path(as.Ord)] = true
	}
	n := 0
	for _, r := range returnsOf(ba) {
		if e := c21ErrOperand(r); e == nil || !isNilConst(e) {
			continue
		}
		seen := map[ssa.Value]bool{}
		var walk func(v ssa.Value)
		walk = func(v ssa.Value) {
			if seen[v] {
				return
			}
			seen[v] = true
			switch x := v.(type) {
			case *ssa.Phi:
				for _, e := range x.Edges {
					walk(e)
				}
			case *ssa.Const:
			case *ssa.Call:
				base, elems, spread, ok := c21AppendCall(x)
				site := p.Pos(x.Pos())
				if !ok || spread != nil || len(elems) != 1 {
					c.Undecided("C20.cidr/allocationBlock.autoAssign", site, "returned slice built by %s", path(v))
					return
				}
				walk(base)
				n++
				al := c20LocalOf(elems[0])
				if al == nil {
					c.Violate("C20.cidr/allocationBlock.autoAssign", site, "returned element is not a local IPNet value")
					return
				}
				// whole-value initialisation from ParseCIDR(b.CIDR.String())#1
				okMask, okIP := false, false
				for _, ref := range *al.Referrers() {
					if st, ok := ref.(*ssa.Store); ok && st.Addr == ssa.Value(al) {
						res, others := c20Results(c21StripLoads(st.Val))
						okMask = len(others) == 0 && len(res) == 1 && res[0].Idx == 1
						if okMask {
							f := calleeOf(res[0].Call.Common())
							okMask = f != nil && f.Name() == "ParseCIDR"
							if okMask {
								okMask = false
								for _, o := range origins(res[0].Call.Common().Args[0], nil) {
									if sc, ok := o.V.(*ssa.Call); ok && calleeOf(sc.Common()) != nil && calleeOf(sc.Common()).Name() == "String" && fieldVar(sc.Common().Args[0]) == m.fCIDR {
										okMask = true
									}
								}
							}
						}
					}
				}
				// field stores: only IP, from OrdinalToIP(allocated ordinal)
				allInstrs(ba, false, func(f *ssa.Function, in ssa.Instruction) {
					st, ok := in.(*ssa.Store)
					if !ok || c20RootAlloc(st.Addr) != al || st.Addr == ssa.Value(al) {
						return
					}
					_, fname, _, _ := fieldOf(st.Addr)
					if fname != "IP" {
						okMask = false
						return
					}
					okIP = true
					for _, o := range c21FieldAwareOrigins(st.Val) {
						oc, isCall := o.V.(*ssa.Call)
						if !isCall || calleeOf(oc.Common()) == nil || calleeOf(oc.Common()).Name() != "OrdinalToIP" {
							okIP = false
							continue
						}
						a := oc.Common().Args
						if !ords[path(a[len(a)-1])] {
							okIP = false
						}
					}
				})
				c.Check(okMask && okIP, "C20.cidr/allocationBlock.autoAssign", site, "returned IPNet = ParseCIDR(block CIDR) with IP := OrdinalToIP(allocated ordinal)",
					fmt.Sprintf("a returned address is not the block's CIDR with the allocated IP (mask from block CIDR=%v, IP from allocated ordinal=%v)", okMask, okIP))
			default:
				c.Undecided("C20.cidr/allocationBlock.autoAssign", p.Pos(ba.Pos()), "returned slice built by %s", path(v))
			}
		}
		walk(r.Results[0])
	}
	if n == 0 {
		c.Lost("allocationBlock.autoAssign: no returned address")
	}
}

// ------------------------------------------------------------------ filterro --
//
// The reservation filter is loaded once per request (getReservedIPs) and the one
// value is consulted by every block search and every block-level assignment of
// that request.  Evaluating it must therefore leave it unchanged.  For every
// type implementing addrFilter and every interface method, the values aliasing
// the receiver's storage are tracked (re-slices, phis, conversions, element /
// field addresses, reference-typed fields, locals and captured variables holding
// them, append results on an aliasing base) and the method must not
//   - store through an aliasing address, update/delete/clear an aliasing map,
//   - append to / copy into an aliasing slice (`c[:0]` re-uses c's array),
//   - hand an aliasing value to a sorting/compacting library function,
//   - hand it to an in-package function that does any of the above (recursive).
// Aliasing is shallow: copies of elements (struct values) are not tracked.

type c20Alias struct {
	tainted map[ssa.Value]bool
	holds   map[*ssa.Alloc]bool
}

func c20IsRef(t types.Type) bool {
	switch t.Underlying().(type) {
	case *types.Slice, *types.Map, *types.Pointer:
		return true
	}
	return false
}

// c20AliasSet computes the values of fn (and closures) aliasing parameter pi.
func c20AliasSet(fn *ssa.Function, pi int) *c20Alias {
	a := &c20Alias{tainted: map[ssa.Value]bool{fn.Params[pi]: true}, holds: map[*ssa.Alloc]bool{}}
	for changed := true; changed; {
		changed = false
		mark := func(v ssa.Value) {
			if !a.tainted[v] {
				a.tainted[v] = true
				changed = true
			}
		}
		allInstrs(fn, true, func(_ *ssa.Function, in ssa.Instruction) {
			switch x := in.(type) {
			case *ssa.Slice:
				if a.tainted[x.X] {
					mark(x)
				}
			case *ssa.Phi:
				for _, e := range x.Edges {
					if a.tainted[e] {
						mark(x)
					}
				}
			case *ssa.ChangeType:
				if a.tainted[x.X] {
					mark(x)
				}
			case *ssa.Convert:
				if a.tainted[x.X] && c20IsRef(x.Type()) {
					mark(x)
				}
			case *ssa.FieldAddr:
				if a.tainted[x.X] {
					mark(x)
				}
			case *ssa.IndexAddr:
				if a.tainted[x.X] {
					mark(x)
				}
			case *ssa.Field:
				if a.tainted[x.X] && c20IsRef(x.Type()) {
					mark(x)
				}
			case *ssa.UnOp:
				if x.Op != token.MUL || !c20IsRef(x.Type()) {
					return
				}
				if a.tainted[x.X] {
					mark(x)
				} else if al, ok := c17Cell(x.X).(*ssa.Alloc); ok && a.holds[al] {
					mark(x)
				}
			case *ssa.Store:
				if a.tainted[x.Val] {
					if al, ok := c17Cell(x.Addr).(*ssa.Alloc); ok && !a.holds[al] {
						a.holds[al] = true
						changed = true
					}
				}
			case *ssa.Call:
				if base, _, _, ok := c21AppendCall(x); ok && a.tainted[base] {
					mark(x)
				}
			}
		})
	}
	return a
}

var c20LibMutators = map[string]bool{
	"sort.Slice": true, "sort.SliceStable": true, "sort.Sort": true, "sort.Stable": true, "sort.Strings": true, "sort.Ints": true,
	"slices.Sort": true, "slices.SortFunc": true, "slices.SortStableFunc": true, "slices.Reverse": true, "slices.Compact": true,
	"slices.CompactFunc": true, "slices.Delete": true, "slices.DeleteFunc": true, "slices.Insert": true, "slices.Replace": true, "slices.Grow": true,
}
var c20LibReaders = map[string]bool{
	"slices.Contains": true, "slices.ContainsFunc": true, "slices.Index": true, "slices.IndexFunc": true, "slices.Equal": true, "slices.EqualFunc": true,
	"slices.BinarySearch": true, "slices.BinarySearchFunc": true, "slices.Max": true, "slices.Min": true, "slices.Clone": true, "slices.All": true, "slices.Values": true,
	"sort.Search": true, "sort.SliceIsSorted": true,
}

// c20AliasWrites: does fn (transitively) write to storage aliasing its
// parameter pi?  bad names the first write found, und a call that cannot be judged.
func c20AliasWrites(p *Prog, fn *ssa.Function, pi, depth int, memo map[string][2]string) (bad, und string) {
	mk := fmt.Sprintf("%p/%d", fn, pi)
	if r, ok := memo[mk]; ok {
		return r[0], r[1]
	}
	memo[mk] = [2]string{"", ""} // cycles: assume clean while in progress
	a := c20AliasSet(fn, pi)
	at := func(in ssa.Instruction) string { return fnName(in.Parent()) + " at " + p.Pos(in.Pos()) }
	allInstrs(fn, true, func(_ *ssa.Function, in ssa.Instruction) {
		if bad != "" {
			return
		}
		switch x := in.(type) {
		case *ssa.Store:
			if a.tainted[x.Addr] {
				bad = "stores into " + c20Short(x.Addr) + " in " + at(in)
			}
		case *ssa.MapUpdate:
			if a.tainted[x.Map] {
				bad = "updates the map " + c20Short(x.Map) + " in " + at(in)
			}
		case ssa.CallInstruction:
			cc := x.Common()
			if bi, ok := cc.Value.(*ssa.Builtin); ok {
				switch bi.Name() {
				case "append", "copy", "clear", "delete":
					if len(cc.Args) > 0 && a.tainted[cc.Args[0]] {
						what := map[string]string{"append": "appends to", "copy": "copies into", "clear": "clears", "delete": "deletes from"}[bi.Name()]
						bad = what + " " + c20Short(cc.Args[0]) + " (which shares the receiver's storage) in " + at(in)
					}
				}
				return
			}
			args := CallSite{Instr: x}.Args()
			var hit []int
			for i, arg := range args {
				if a.tainted[arg] {
					hit = append(hit, i)
				}
			}
			if len(hit) == 0 {
				return
			}
			callee := calleeOf(cc)
			g := calleeFn(cc)
			if g != nil && g.Blocks != nil && !cc.IsInvoke() {
				if depth >= 5 {
					und = "call chain deeper than 5 at " + at(in)
					return
				}
				for _, i := range hit {
					if i >= len(g.Params) {
						continue
					}
					b, u := c20AliasWrites(p, g, i, depth+1, memo)
					if b != "" {
						bad = "passes " + c20Short(args[i]) + " to " + fnName(g) + ", which " + b
						return
					}
					if u != "" && und == "" {
						und = u
					}
				}
				return
			}
			name := "<dynamic>"
			if callee != nil && callee.Pkg() != nil {
				name = callee.Pkg().Name() + "." + callee.Name()
				if recvTypeName(callee) != "" {
					name = callee.Pkg().Name() + "." + recvTypeName(callee) + "." + callee.Name()
				}
			}
			switch {
			case c20LibMutators[name]:
				bad = "hands " + c20Short(args[hit[0]]) + " (the receiver's storage) to " + name + " in " + at(in)
			case c20LibReaders[name]:
			default:
				if und == "" {
					und = "hands " + c20Short(args[hit[0]]) + " to " + name + " (body not analysed) in " + at(in)
				}
			}
		}
	})
	memo[mk] = [2]string{bad, und}
	return
}

// c20Short renders a value for a message; long phi chains are summarised.
func c20Short(v ssa.Value) string {
	s := path(v)
	if s == "" || len(s) > 48 {
		return "a slice derived from the receiver"
	}
	return "`" + s + "`"
}

func c20FilterRO(m *c20Model) {
	c, p := m.c, m.p
	tn, _ := p.LookupObj(c21IpamPkg, "addrFilter").(*types.TypeName)
	if tn == nil {
		c.Lost("ipam.addrFilter")
	}
	iface, _ := tn.Type().Underlying().(*types.Interface)
	if iface == nil || iface.NumMethods() == 0 {
		c.Lost("ipam.addrFilter is not a (non-empty) interface")
	}
	pk := p.Pkg(c21IpamPkg)
	if pk == nil {
		c.Lost("package %s", c21IpamPkg)
	}
	nImpl := 0
	scope := pk.Types.Scope()
	for _, name := range scope.Names() {
		t, _ := scope.Lookup(name).(*types.TypeName)
		if t == nil || t == tn || t.IsAlias() {
			continue
		}
		if _, isIface := t.Type().Underlying().(*types.Interface); isIface {
			continue
		}
		if !types.Implements(t.Type(), iface) && !types.Implements(types.NewPointer(t.Type()), iface) {
			continue
		}
		nImpl++
		for i := 0; i < iface.NumMethods(); i++ {
			im := iface.Method(i)
			key := "C20.filterro/" + name + "." + im.Name()
			obj, _, _ := types.LookupFieldOrMethod(types.NewPointer(t.Type()), true, pk.Types, im.Name())
			mf, _ := obj.(*types.Func)
			var fn *ssa.Function
			if mf != nil {
				fn = p.SSA.FuncValue(mf)
			}
			if fn == nil || fn.Blocks == nil || len(fn.Params) == 0 {
				c.Undecided(key, p.Pos(t.Pos()), "cannot resolve the body of %s.%s", name, im.Name())
				continue
			}
			bad, und := c20AliasWrites(p, fn, 0, 0, map[string][2]string{})
			switch {
			case bad != "":
				c.Violate(key, p.Pos(fn.Pos()), "%s.%s (an addrFilter method, evaluated on the one reservation filter shared by all checks of a request) %s: evaluating the filter changes the reservation list, so later checks of the same request can miss reservations and hand out reserved addresses", name, im.Name(), bad)
			case und != "":
				c.Undecided(key, p.Pos(fn.Pos()), "%s.%s %s", name, im.Name(), und)
			default:
				c.Ok(key, p.Pos(fn.Pos()), "no write, append, copy or sort reaches storage aliasing the receiver")
			}
		}
	}
	if nImpl < 2 {
		c.Lost("fewer than two addrFilter implementations in lib/ipam (%d)", nImpl)
	}
}

// -------------------------------------------------------------------- capset --
//
// The per-host cap compares len(affine blocks of the host) with MaxBlocksPerHost
// (C20.cap).  That only bounds the host's blocks if the list holds every block
// affinity of the host.  An affinity in state pending / pendingDeletion still
// stands for a block that is (or may be) affine to the host — releases mark the
// affinity pendingDeletion before touching the block — so no listed affinity may
// be dropped because of its value.

// c20DependsOn: the value is computed from a value satisfying hit (operands,
// through local variables).
func c20DependsOn(v ssa.Value, hit func(ssa.Value) bool) bool {
	seen := map[ssa.Value]bool{}
	var walk func(v ssa.Value) bool
	walk = func(v ssa.Value) bool {
		if v == nil || seen[v] {
			return false
		}
		seen[v] = true
		if hit(v) {
			return true
		}
		if al, ok := v.(*ssa.Alloc); ok {
			for _, r := range *al.Referrers() {
				if st, ok := r.(*ssa.Store); ok && st.Addr == ssa.Value(al) && walk(st.Val) {
					return true
				}
			}
			return false
		}
		in, ok := v.(ssa.Instruction)
		if !ok {
			return false
		}
		for _, op := range in.Operands(nil) {
			if *op != nil && walk(*op) {
				return true
			}
		}
		return false
	}
	return walk(v)
}

func c20CapSet(m *c20Model) {
	c, p := m.c, m.p
	ga := m.fn(c21IpamPkg, "blockReaderWriter.getAffineBlocks")
	fld := func(name string) *types.Var {
		o := p.LookupObj(c21ModelPkg, name)
		if o == nil {
			o = p.LookupExt(c21ModelPkg, name)
		}
		v, _ := o.(*types.Var)
		if v == nil {
			c.Lost("field model.%s", name)
		}
		return v
	}
	fValue, fState := fld("KVPair.Value"), fld("BlockAffinity.State")

	// (source) the list returned for assignment / counting is filterBlocksByPools(getAffineBlocks(..)#0, ..)#0
	nOK := 0
	for _, r := range returnsOf(m.prepare) {
		if e := c21ErrOperand(r); e == nil || !isNilConst(e) {
			continue
		}
		nOK++
		ok := false
		if bcall, isF := c20OnlyResult(r.Results[1], m.filterBlocks, 0); isF {
			_, ok = c20OnlyResult(bcall.Common().Args[0], ga, 0)
		}
		c.Check(ok, "C20.capset/prepareAffinityBlocksForHost/source", p.Pos(r.Pos()),
			"the affine blocks returned (and counted against the cap) are filterBlocksByPools(getAffineBlocks(...))",
			"the affine-block list returned by prepareAffinityBlocksForHost (whose length is compared with MaxBlocksPerHost) is not filterBlocksByPools applied to the unmodified result of getAffineBlocks: blocks affine to the host can go uncounted, so the host can claim more blocks than the cap")
	}
	if nOK == 0 {
		c.Lost("prepareAffinityBlocksForHost: no success return")
	}

	// (no-value-filter) getAffineBlocks lists BlockAffinityListOptions and no branch depends on an affinity's value
	listed := false
	for _, cs := range callsIn(ga, true, func(f *types.Func) bool { return f.Name() == "List" }) {
		for _, arg := range cs.Args() {
			if mi, ok := arg.(*ssa.MakeInterface); ok && namedTypeName(mi.X.Type()) == "BlockAffinityListOptions" {
				listed = true
			}
		}
	}
	if !listed {
		c.Lost("getAffineBlocks: no List(BlockAffinityListOptions) call")
	}
	readsValue := func(v ssa.Value) bool {
		fv := fieldVar(v)
		return fv != nil && (fv == fValue || fv == fState)
	}
	bad := ""
	allInstrs(ga, true, func(_ *ssa.Function, in ssa.Instruction) {
		if ifi, ok := in.(*ssa.If); ok && c20DependsOn(ifi.Cond, readsValue) {
			bad = p.Pos(ifi.Cond.Pos())
			if bad == "" || bad == "-" {
				bad = p.Pos(in.Pos())
			}
		}
	})
	c.Check(bad == "", "C20.capset/getAffineBlocks/no-value-filter", p.Pos(ga.Pos()),
		"no branch of getAffineBlocks depends on the value (state) of a listed block affinity: every affinity of the host is returned",
		"getAffineBlocks branches on the value (state) of a listed block affinity (condition at "+bad+"): affinities in some state are left out of the host's affine-block list, so their blocks are not counted against MaxBlocksPerHost (nor cleaned up), although e.g. a pendingDeletion affinity still stands for a block affine to the host when the release was interrupted")
}
