package main

import (
	"fmt"
	"go/token"
	"go/types"
	"os"
	"sort"
	"strings"

	"golang.org/x/tools/go/ssa"
)

// C36 - CIDR trie lookups agree with plain prefix arithmetic.
//
// The property as a whole is arithmetic over run-time values (CommonPrefix bit
// math, NthBit, masks) and is NOT decided here.  What is decided are the
// structural disciplines the trie's answers rest on, each a necessary condition:
//
//	marker   data==nil marks an intermediate node: nil is never stored as a value,
//	         an insert stores its value in a linked node on every path, and a
//	         node's prefix leaves the trie (entry, callback, result, Covers'
//	         `true`) only under `data != nil` of that node;
//	contain  LPM's match, Covers' and Intersects' `true` are control-dependent on a
//	         test relating the query to the node's prefix;
//	descend  child slots are selected by the address bit of the prefix that lives
//	         *below* the slot: the query when descending, the re-parented node's
//	         own address when Update hangs it under a new node, the complementary
//	         slot for the new leaf;
//	prune    the pruner's result is written back where its argument came from; a
//	         node loses its data only while a child is left; after a child subtree
//	         vanished a data-less node is not kept; a node is replaced only by its
//	         single remaining child; Update never overwrites a non-nil slot without
//	         re-attaching the occupant (no subtree is lost, no data-less leaf is
//	         left for Intersects to report);
//	dispatch the IP-version switch of CommonPrefix asserts the concrete type whose
//	         Version() is the case label;
//	lpmkey   (felix/calc IpTrie over the patricia trie) every trie operation of a
//	         method is keyed by one and the same encoding of the method's parameter.
//
// Guards may live in the caller of an extracted helper (lift), node literals in a
// constructor (fresh: a literal, the result of a - possibly nested - constructor, or
// the node parameter of an unexported helper that is handed a fresh node at every call
// site), child indices in an index helper (resolveIdx), the re-attachment of a
// replaced node in the constructor that builds its new parent or in an attaching
// helper (reattached: computed from the callee's body on every return path), the
// publishing store in a helper that is handed the cell pointer and the occupant
// (keepLifted: "is the occupant of" is then demanded at every call site): the rules
// were exercised against such behaviour-preserving rewrites of trie.go.
const (
	c36IPPkg   = "felix/ip"
	c36CalcPkg = "felix/calc"
)

func init() {
	register(&Property{
		ID:        "C36",
		Title:     "CIDR trie lookups agree with plain prefix arithmetic",
		Technique: "static analysis: escape walk of node-prefix reads, cut-set guard analysis on instructions and phi edges, role classification of child-slot indices, path rules over the pruner's returns, twin consistency of the IP-version switch, sibling agreement of patricia keys (go/ssa over felix/ip and felix/calc)",
		DesignRef: "DESIGN.md §3 C36",
		Explanation: "Decides the structural disciplines of ip.CIDRTrie that its answers rest on, not the answers: (marker) nil is never stored as node data, Update stores its value into a linked node on every return path, " +
			"and a node's prefix escapes to a caller (CIDRTrieEntry, visitor callback, result slice, LPM result, Covers' true) only under data!=nil of that same node; " +
			"(contain) LPM's match and the constant-true answers of Covers/Intersects are control-dependent on a test relating the query to the node's prefix, with the accepting polarity; " +
			"(descend) every bit-indexed child slot uses the address of the prefix that belongs below it: the query's when descending (7 routines), the existing node's own when Update re-parents it, the complementary slot for the new leaf; " +
			"(prune) deleteInternal's result is stored back where its argument was loaded from, data is cleared only while a child is left, a data-less node is not returned after its child subtree vanished, a node is replaced only by a child whose sibling slot is known nil, " +
			"and Update publishes a new node over a slot only if the slot is nil or the occupant is re-attached below the new node; " +
			"(dispatch) under Version()==k CommonPrefix asserts the concrete CIDR type whose Version() returns k; " +
			"(lpmkey) in calc.IpTrie every patricia-trie operation of a method is keyed by one encoding expression of the method's own CIDR/Addr parameter, and all exact-key operations (Insert/Get/Delete) agree on one encoding, all prefix walks (VisitPrefixes) on one. " +
			"Guards are accepted through extracted helpers (the fact is then demanded at every call site), node literals through constructors, child indices through index helpers.",
		NotDecided: "All arithmetic: CommonPrefix/V4CommonPrefix/V6CommonPrefix bit math, NthBit, Contains, the bit *position* (prefix+1) used for a child index, that AsBinary of a CIDR is a string prefix of AsBinary of a contained address; " +
			"hence that the answers equal the ones computed over the stored prefixes for any history. LPM is address-based by design (LPM(3.0.0.0/7) over {2.0.0.0/8} returns the /8): no prefix-aware containment is demanded there. " +
			"The direction of a containment relation (Intersects' `common == cidr` versus `common == n.cidr`); that LPM falls back to the deepest ancestor holding data rather than to no match; that Delete reaches the pruner for every stored prefix; " +
			"the version-mismatch panics (they change which panic is raised, not an answer); getNode's includeIntermediates filter (Get returns data, which is nil for an intermediate anyway); how the exact-key and the walk encoding of IpTrie relate; the third-party patricia trie itself.",
		Assumptions: []string{
			"go/types + go/ssa (x/tools v0.50.0) model of the current source, CGO_ENABLED=0 build",
			"logrus Panic*/Fatal* do not return",
			"CIDRNode values are only reachable through CIDRTrie (no exported accessor hands out nodes)",
			"github.com/tchap/go-patricia/v2: Insert/Get/Delete are exact-key operations, VisitPrefixes visits items whose key is a prefix of the argument",
		},
		Run: runC36,
		Fixtures: []Fixture{
			{Name: "lookupPath appends intermediate nodes (data guard dropped)", File: "felix/ip/trie.go",
				Old: "\tif n.data != nil {\n\t\tbuffer = append(buffer, CIDRTrieEntry{CIDR: n.cidr, Data: n.data})\n\t}", New: "\tbuffer = append(buffer, CIDRTrieEntry{CIDR: n.cidr, Data: n.data})",
				Expect: "C36.marker/yield/CIDRNode.lookupPath"},
			{Name: "ClosestDescendants takes a childless node for a real one", File: "felix/ip/trie.go",
				Old: "\t\tif child.data != nil {\n\t\t\t// This is a \"real\" child node.", New: "\t\tif child.children[0] == nil {\n\t\t\t// This is a \"real\" child node.",
				Expect: "C36.marker/yield/CIDRTrie.ClosestDescendants"},
			{Name: "Covers answers true on an exactly matching intermediate node", File: "felix/ip/trie.go",
				Old: "\tif n.data != nil {\n\t\treturn true\n\t}", New: "\tif n.data != nil || n.cidr == cidr {\n\t\treturn true\n\t}",
				Expect: "C36.marker/yield/CIDRNode.covers"},
			{Name: "Update accepts nil (stored prefix indistinguishable from an intermediate node)", File: "felix/ip/trie.go",
				Old: "\tif value == nil {\n\t\tlogrus.Panic(\"Can't store nil in a CIDRTrie\")\n\t}\n", New: "",
				Expect: "C36.marker/store/CIDRTrie.Update"},
			{Name: "Update forgets the new leaf when it creates an internal node", File: "felix/ip/trie.go",
				Old: "\t\tnewInternalNode.children[1-childIdx] = &CIDRNode{\n\t\t\tcidr: cidr,\n\t\t\tdata: value,\n\t\t}\n", New: "",
				Expect: "C36.marker/stored/CIDRTrie.Update"},
			{Name: "LPM records a match without testing that the node contains the address", File: "felix/ip/trie.go",
				Old: "\t\tif !n.cidr.Contains(cidr.Addr()) {\n\t\t\tbreak\n\t\t}\n\n\t\tif n.data != nil {\n\t\t\tmatch = n", New: "\t\tif n.data != nil {\n\t\t\tmatch = n",
				Expect: "C36.contain/CIDRTrie.LPM"},
			{Name: "Covers answers true for any data on the bit path (containment test dropped)", File: "felix/ip/trie.go",
				Old: "\tcommonPfx := CommonPrefix(n.cidr, cidr)\n\tif commonPfx != n.cidr {\n\t\t// Not in trie.\n\t\treturn false\n\t}\n\n\tif n.data != nil {", New: "\tif n.data != nil {",
				Expect: "C36.contain/CIDRNode.covers"},
			{Name: "Intersects answers true on the first node with data", File: "felix/ip/trie.go",
				Old: "\tif common == cidr {\n\t\t// This node's CIDR is contained", New: "\tif n.data != nil {\n\t\t// This node's CIDR is contained",
				Expect: "C36.contain/CIDRNode.intersects"},
			{Name: "getNode descends by the node's own address bit", File: "felix/ip/trie.go",
				Old: "\tchildIdx := cidr.Addr().NthBit(uint(n.cidr.Prefix() + 1))\n\tchild := n.children[childIdx]\n\treturn child.getNode(", New: "\tchildIdx := n.cidr.Addr().NthBit(uint(n.cidr.Prefix() + 1))\n\tchild := n.children[childIdx]\n\treturn child.getNode(",
				Expect: "C36.descend/CIDRNode.getNode/descend"},
			{Name: "Update hangs the existing node under the new prefix's bit", File: "felix/ip/trie.go",
				Old: "\t\tchildIdx := thisNode.cidr.Addr().NthBit(uint(commonPrefix.Prefix() + 1))\n\t\tnewInternalNode.children[childIdx] = thisNode", New: "\t\tchildIdx := cidr.Addr().NthBit(uint(commonPrefix.Prefix() + 1))\n\t\tnewInternalNode.children[childIdx] = thisNode",
				Expect: "C36.descend/CIDRTrie.Update/reparent-internal"},
			{Name: "Update puts the new leaf into the slot of the existing node", File: "felix/ip/trie.go",
				Old: "\t\tnewInternalNode.children[1-childIdx] = &CIDRNode{", New: "\t\tnewInternalNode.children[childIdx] = &CIDRNode{",
				Expect: "C36.descend/CIDRTrie.Update/newleaf"},
			{Name: "Delete drops the pruned root", File: "felix/ip/trie.go",
				Old: "\tt.root = deleteInternal(t.root, cidr)", New: "\tdeleteInternal(t.root, cidr)",
				Expect: "C36.prune/writeback/CIDRTrie.Delete"},
			{Name: "lazy delete: data cleared whatever children are left", File: "felix/ip/trie.go",
				Old: "\t\tif n.children[0] == nil {\n\t\t\t// 0th child is nil, return the other child (or nil if both children were nil)\n\t\t\treturn n.children[1]\n\t\t} else if n.children[1] == nil {\n\t\t\t// oth child non-nil but 1st child is nil, return oth child.\n\t\t\treturn n.children[0]\n\t\t} else {\n", New: "\t\t{\n",
				Expect: "C36.prune/demote/deleteInternal"},
			{Name: "data-less node kept after its child subtree vanished", File: "felix/ip/trie.go",
				Old: "\t\tif n.data == nil {\n\t\t\treturn n.children[1-childIdx]\n\t\t}\n", New: "",
				Expect: "C36.prune/return/deleteInternal/self"},
			{Name: "node replaced by the vanished child instead of the surviving one", File: "felix/ip/trie.go",
				Old: "\t\t\treturn n.children[1-childIdx]", New: "\t\t\treturn n.children[childIdx]",
				Expect: "C36.prune/return/deleteInternal/"},
			{Name: "deleted node replaced by its nil child (other subtree lost)", File: "felix/ip/trie.go",
				Old: "\t\t\treturn n.children[1]\n\t\t} else if", New: "\t\t\treturn n.children[0]\n\t\t} else if",
				Expect: "C36.prune/return/deleteInternal/slot0"},
			{Name: "Update inserts a parent without re-attaching the node it replaces", File: "felix/ip/trie.go",
				Old: "\t\t\tchildIdx := thisNode.cidr.Addr().NthBit(uint(commonPrefix.Prefix() + 1))\n\t\t\tnewNode.children[childIdx] = thisNode\n", New: "",
				Expect: "C36.prune/keep/CIDRTrie.Update/entry"},
			{Name: "CommonPrefix case labels swapped", File: "felix/ip/trie.go",
				Old: "\tcase 4:\n\t\tcidr = V4CommonPrefix(a.(V4CIDR), b.(V4CIDR))\n\tcase 6:", New: "\tcase 6:\n\t\tcidr = V4CommonPrefix(a.(V4CIDR), b.(V4CIDR))\n\tcase 4:",
				Expect: "C36.dispatch/CommonPrefix/V4CIDR"},
			{Name: "GetKeys probes the trie with the full address instead of the prefix", File: "felix/calc/iplpm.go",
				Old: "\tcidrb := cidr.AsBinary()\n\tval := ptrie.Get(patricia.Prefix(cidrb))\n\n\tif val != nil {", New: "\tcidrb := cidr.Addr().AsBinary()\n\tval := ptrie.Get(patricia.Prefix(cidrb))\n\n\tif val != nil {",
				Expect: "C36.lpmkey/IpTrie.GetKeys"},
			{Name: "InsertKey inserts under a key other than the one it probed", File: "felix/calc/iplpm.go",
				Old: "\t\tptrie.Insert(patricia.Prefix(cidrb), newNode)", New: "\t\tptrie.Insert(patricia.Prefix(cidr.String()), newNode)",
				Expect: "C36.lpmkey/IpTrie.InsertKey"},
		},
	})
	c36PositionDoc(registry["C36"]) // s7 hook: fixtures + documentation of C36.position (engine_C36pos.go)
}

// ------------------------------------------------------------------ model --

type c36Model struct {
	c     *Ctx
	p     *Prog
	pkg   *ssa.Package
	nodeT *types.Named
	trieT *types.Named
	cidrI *types.Interface
	addrI *types.Interface
	// field indices
	fCidr, fKids, fData int // CIDRNode
	fRoot               int // CIDRTrie
	funcs               []*ssa.Function
	paramMemo           map[*ssa.Parameter]*c36Esc
	freshMemo           map[ssa.Value]*c36Fresh
}

func c36Build(c *Ctx, p *Prog) *c36Model {
	m := &c36Model{c: c, p: p, pkg: p.SSAPkg(c36IPPkg), paramMemo: map[*ssa.Parameter]*c36Esc{}, freshMemo: map[ssa.Value]*c36Fresh{}}
	if m.pkg == nil {
		c.Lost("package %s", c36IPPkg)
	}
	named := func(name string) *types.Named {
		tn, _ := p.LookupObj(c36IPPkg, name).(*types.TypeName)
		if tn == nil {
			c.Lost("ip.%s", name)
		}
		n, _ := tn.Type().(*types.Named)
		if n == nil {
			c.Lost("ip.%s is not a named type", name)
		}
		return n
	}
	m.nodeT, m.trieT = named("CIDRNode"), named("CIDRTrie")
	m.cidrI, _ = named("CIDR").Underlying().(*types.Interface)
	m.addrI, _ = named("Addr").Underlying().(*types.Interface)
	if m.cidrI == nil || m.addrI == nil {
		c.Lost("ip.CIDR / ip.Addr are not interfaces")
	}
	// CIDRNode's fields are found by type, not by name: the prefix (ip.CIDR), the
	// child slots (array of *CIDRNode), the payload (empty interface).
	m.fCidr, m.fKids, m.fData, m.fRoot = -1, -1, -1, -1
	st, _ := m.nodeT.Underlying().(*types.Struct)
	if st == nil {
		c.Lost("ip.CIDRNode is not a struct")
	}
	set := func(dst *int, i int, what string) {
		if *dst != -1 {
			c.Lost("ip.CIDRNode has more than one %s field", what)
		}
		*dst = i
	}
	for i := 0; i < st.NumFields(); i++ {
		ft := st.Field(i).Type()
		switch {
		case types.Identical(ft.Underlying(), m.cidrI) && !isEmptyIface(ft):
			set(&m.fCidr, i, "prefix (ip.CIDR)")
		case isEmptyIface(ft):
			set(&m.fData, i, "payload (any)")
		default:
			if a, ok := ft.Underlying().(*types.Array); ok && m.isNodePtr(a.Elem()) && a.Len() == 2 {
				set(&m.fKids, i, "child-slot ([2]*CIDRNode)")
			}
		}
	}
	if m.fCidr < 0 || m.fKids < 0 || m.fData < 0 {
		c.Lost("ip.CIDRNode fields (prefix %d, children %d, payload %d)", m.fCidr, m.fKids, m.fData)
	}
	ts, _ := m.trieT.Underlying().(*types.Struct)
	if ts == nil {
		c.Lost("ip.CIDRTrie is not a struct")
	}
	for i := 0; i < ts.NumFields(); i++ {
		if m.isNodePtr(ts.Field(i).Type()) {
			if m.fRoot != -1 {
				c.Lost("ip.CIDRTrie has more than one *CIDRNode field")
			}
			m.fRoot = i
		}
	}
	if m.fRoot < 0 {
		c.Lost("ip.CIDRTrie root field")
	}
	for _, f := range p.AllFuncs() {
		if f.Pkg == m.pkg && f.Blocks != nil {
			m.funcs = append(m.funcs, f)
		}
	}
	sort.Slice(m.funcs, func(i, j int) bool { return m.funcs[i].Pos() < m.funcs[j].Pos() })
	if len(m.funcs) == 0 {
		c.Lost("no function bodies in %s", c36IPPkg)
	}
	return m
}

func isEmptyIface(t types.Type) bool {
	i, ok := t.Underlying().(*types.Interface)
	return ok && i.NumMethods() == 0
}

func (m *c36Model) isNodePtr(t types.Type) bool {
	pt, ok := t.Underlying().(*types.Pointer)
	return ok && types.Identical(pt.Elem(), m.nodeT)
}

func (m *c36Model) site(in ssa.Instruction) string { return m.p.Pos(in.Pos()) }

// fnSite is the position of the function (instructions such as Return of a
// constant may carry no position of their own).
func (m *c36Model) posOf(in ssa.Instruction) string {
	if in.Pos().IsValid() {
		return m.p.Pos(in.Pos())
	}
	return m.p.Pos(in.Parent().Pos())
}

// nodeFieldAddr: v is &X.f with X a *CIDRNode.
func (m *c36Model) nodeFieldAddr(v ssa.Value) (base ssa.Value, field int, ok bool) {
	fa, isFA := v.(*ssa.FieldAddr)
	if !isFA || !m.isNodePtr(fa.X.Type()) {
		return nil, 0, false
	}
	return fa.X, fa.Field, true
}

// nodeLoad: v is the value of field f of node X (load of &X.f, or X.f on a struct value).
func (m *c36Model) nodeLoad(v ssa.Value) (base ssa.Value, field int, ok bool) {
	switch x := v.(type) {
	case *ssa.UnOp:
		if x.Op == token.MUL {
			return m.nodeFieldAddr(x.X)
		}
	case *ssa.Field:
		if types.Identical(x.X.Type(), m.nodeT) {
			return x.X, x.Field, true
		}
	}
	return nil, 0, false
}

// slotAddr: v is &X.children[idx].
func (m *c36Model) slotAddr(v ssa.Value) (base, idx ssa.Value, ok bool) {
	ia, isIA := v.(*ssa.IndexAddr)
	if !isIA {
		return nil, nil, false
	}
	b, f, ok := m.nodeFieldAddr(ia.X)
	if !ok || f != m.fKids {
		return nil, nil, false
	}
	return b, ia.Index, true
}

// slotLoad: v is the value X.children[idx].
func (m *c36Model) slotLoad(v ssa.Value) (base, idx ssa.Value, ok bool) {
	switch x := v.(type) {
	case *ssa.UnOp:
		if x.Op == token.MUL {
			return m.slotAddr(x.X)
		}
	case *ssa.Index:
		if b, f, ok := m.nodeLoad(x.X); ok && f == m.fKids {
			return b, x.Index, true
		}
	}
	return nil, nil, false
}

// c36Fresh describes a node created in the function under analysis: a CIDRNode
// literal, or the result of an in-package constructor (a function all of whose
// results are such literals).  fields holds, per field index, the values stored
// into it in the caller's terms (nil = a value that cannot be named there).
type c36Fresh struct {
	val    ssa.Value
	fields map[int][]ssa.Value
}

func (m *c36Model) fresh(v ssa.Value) *c36Fresh {
	if fr, ok := m.freshMemo[v]; ok {
		return fr
	}
	m.freshMemo[v] = nil // recursion guard
	var fr *c36Fresh
	// foreign: a field value of a node made elsewhere, in the terms of function `in`
	// whose call `args` bind the maker's parameters (nil args: nothing can be named)
	foreign := func(sv ssa.Value, maker *ssa.Function, args []ssa.Value) ssa.Value {
		switch y := sv.(type) {
		case *ssa.Parameter:
			if maker == nil {
				return nil
			}
			for i, pa := range maker.Params {
				if pa == y && i < len(args) {
					return args[i]
				}
			}
		case *ssa.Const:
			return y
		}
		return nil
	}
	switch x := v.(type) {
	case *ssa.Alloc:
		if m.isNodePtr(x.Type()) {
			fr = &c36Fresh{val: v, fields: map[int][]ssa.Value{}}
		}
	case *ssa.Call:
		// constructor: every result is a node created in the callee (a literal, the
		// result of a further constructor, or a parameter that is itself always fresh)
		sf := x.Common().StaticCallee()
		if sf == nil || sf.Pkg != m.pkg || sf.Blocks == nil || !m.isNodePtr(x.Type()) {
			break
		}
		rets := returnsOf(sf)
		out := &c36Fresh{val: v, fields: map[int][]ssa.Value{}}
		ok := len(rets) > 0
		for _, r := range rets {
			if len(r.Results) != 1 {
				ok = false
				break
			}
			inner := m.fresh(r.Results[0])
			if inner == nil {
				ok = false
				break
			}
			for f, vals := range inner.fields {
				for _, sv := range vals {
					out.fields[f] = append(out.fields[f], foreign(sv, sf, x.Common().Args))
				}
			}
		}
		if ok {
			fr = out
		}
	case *ssa.Parameter:
		// node parameter of an unexported helper that is handed a fresh node at every
		// one of its (static) call sites: the helper works on a node under construction
		fn := x.Parent()
		if !m.isNodePtr(x.Type()) || fn == nil || fn.Pkg != m.pkg || fn.Parent() != nil || c36Exported(fn) || m.usedAsValue(fn) {
			break
		}
		idx := -1
		for i, pa := range fn.Params {
			if pa == x {
				idx = i
			}
		}
		sites := m.callSites(fn)
		out := &c36Fresh{val: v, fields: map[int][]ssa.Value{}}
		ok := idx >= 0 && len(sites) > 0
		for _, cs := range sites {
			if !ok || idx >= len(cs.Common().Args) {
				ok = false
				break
			}
			inner := m.fresh(cs.Common().Args[idx])
			if inner == nil {
				ok = false
				break
			}
			for f, vals := range inner.fields {
				for _, sv := range vals {
					out.fields[f] = append(out.fields[f], foreign(sv, nil, nil))
				}
			}
		}
		if ok {
			fr = out
		}
	}
	if fr != nil {
		// fields assigned directly through v in its own function
		if refs := v.Referrers(); refs != nil {
			for _, r := range *refs {
				fa, ok := r.(*ssa.FieldAddr)
				if !ok || fa.X != v {
					continue
				}
				for _, rr := range *fa.Referrers() {
					if st, ok := rr.(*ssa.Store); ok && st.Addr == fa {
						fr.fields[fa.Field] = append(fr.fields[fa.Field], st.Val)
					}
				}
			}
		}
	}
	m.freshMemo[v] = fr
	return fr
}

// usedAsValue: fn is referred to other than as the callee of a static call (its
// call sites are then not all known).
func (m *c36Model) usedAsValue(fn *ssa.Function) bool {
	used := false
	for _, g := range m.funcs {
		allInstrs(g, false, func(_ *ssa.Function, in ssa.Instruction) {
			if used {
				return
			}
			var callee *ssa.Value
			if ci, ok := in.(ssa.CallInstruction); ok {
				callee = &ci.Common().Value
			}
			for _, op := range in.Operands(nil) {
				if op != nil && *op == ssa.Value(fn) && op != callee {
					used = true
				}
			}
		})
	}
	return used
}

func (m *c36Model) isFreshNode(v ssa.Value) bool { return m.fresh(v) != nil }

// freshField lists the values stored into field f of the fresh node v.
func (m *c36Model) freshField(v ssa.Value, f int) []ssa.Value {
	if fr := m.fresh(v); fr != nil {
		return fr.fields[f]
	}
	return nil
}

// hasData: the fresh node is created holding a (non-nil-constant) payload.
func (m *c36Model) freshHasData(v ssa.Value) bool {
	for _, d := range m.freshField(v, m.fData) {
		if d == nil || !isNilConst(d) {
			return true
		}
	}
	return false
}

// callSites of an in-package function.
func (m *c36Model) callSites(fn *ssa.Function) []ssa.CallInstruction {
	var out []ssa.CallInstruction
	for _, g := range m.funcs {
		allInstrs(g, false, func(_ *ssa.Function, in ssa.Instruction) {
			if ci, ok := in.(ssa.CallInstruction); ok && ci.Common().StaticCallee() == fn {
				out = append(out, ci)
			}
		})
	}
	return out
}

func c36Exported(fn *ssa.Function) bool {
	o, ok := fn.Object().(*types.Func)
	return ok && o.Exported()
}

// c36Lift is one place where a lifted guard is (ok) or should have been (!ok) established.
type c36Lift struct {
	v  ssa.Value
	at ssa.Instruction
	ok bool
}

// lift: like holdsLifted, but reports where the fact is established or missing.
func (m *c36Model) lift(v ssa.Value, at ssa.Instruction, mk func(ssa.Value) EdgePred, depth int) []c36Lift {
	return m.liftRec(v, at, mk, depth, map[*ssa.Parameter]bool{})
}

func (m *c36Model) liftRec(v ssa.Value, at ssa.Instruction, mk func(ssa.Value) EdgePred, depth int, seen map[*ssa.Parameter]bool) []c36Lift {
	if guardedCut(at, mk(v)) {
		return []c36Lift{{v, at, true}}
	}
	fn := at.Parent()
	pa, ok := v.(*ssa.Parameter)
	if ok && seen[pa] {
		return nil // recursion: the fact is carried by the parameter itself
	}
	if !ok || depth == 0 || fn == nil || c36Exported(fn) {
		return []c36Lift{{v, at, false}}
	}
	seen[pa] = true
	idx := -1
	for i, q := range fn.Params {
		if q == pa {
			idx = i
		}
	}
	sites := m.callSites(fn)
	if idx < 0 || len(sites) == 0 {
		return []c36Lift{{v, at, false}}
	}
	var out []c36Lift
	for _, cs := range sites {
		if idx >= len(cs.Common().Args) {
			out = append(out, c36Lift{v, at, false})
			continue
		}
		out = append(out, m.liftRec(cs.Common().Args[idx], cs, mk, depth-1, seen)...)
	}
	return out
}

// holdsLifted: the edge fact mk(v) is established on every path to `at`; or, when
// v is a parameter of an unexported function (an extracted helper), for the
// corresponding argument at every one of its call sites.
func (m *c36Model) holdsLifted(v ssa.Value, at ssa.Instruction, mk func(ssa.Value) EdgePred, depth int) bool {
	for _, l := range m.lift(v, at, mk, depth) {
		if !l.ok {
			return false
		}
	}
	return true
}

// slotStoresOf lists the stores into child slots of node value x (any index).
func (m *c36Model) slotStoresOf(fn *ssa.Function, x ssa.Value) []*ssa.Store {
	var out []*ssa.Store
	allInstrs(fn, false, func(_ *ssa.Function, in ssa.Instruction) {
		if st, ok := in.(*ssa.Store); ok {
			if b, _, ok := m.slotAddr(st.Addr); ok && b == x {
				out = append(out, st)
			}
		}
	})
	return out
}

// EdgePreds -----------------------------------------------------------------

func c36Not(v ssa.Value) bool { return isNilConst(v) }

// dataIs(base, nil?) : edge on which base.data ==/!= nil is established.
func (m *c36Model) dataCond(base ssa.Value, wantNil bool) EdgePred {
	return eqCond(wantNil, func(v ssa.Value) bool {
		b, f, ok := m.nodeLoad(v)
		return ok && f == m.fData && (base == nil || b == base)
	}, c36Not)
}

// slotCond: edge on which base.children[k] ==/!= nil is established (k<0: any slot).
func (m *c36Model) slotCond(base ssa.Value, k int64, wantNil bool) EdgePred {
	return eqCond(wantNil, func(v ssa.Value) bool {
		b, idx, ok := m.slotLoad(v)
		if !ok || b != base {
			return false
		}
		if k < 0 {
			return true
		}
		cv, isC := constOf(idx)
		return isC && cv.ExactString() == fmt.Sprint(k)
	}, c36Not)
}

func c36ValNil(val ssa.Value, wantNil bool) EdgePred {
	return eqCond(wantNil, func(v ssa.Value) bool { return v == val }, c36Not)
}

// c36Point is a program point: before instruction `in`, or on the CFG edge from->to.
type c36Point struct {
	in       ssa.Instruction
	from, to *ssa.BasicBlock
}

// cutAt: every path from entry to the point crosses an edge accepted by pred.
func c36CutAt(pt c36Point, pred EdgePred) bool {
	if pt.in != nil {
		return guardedCut(pt.in, pred)
	}
	last := pt.from.Instrs[len(pt.from.Instrs)-1]
	if ifi, ok := last.(*ssa.If); ok && len(pt.from.Succs) == 2 && pt.from.Succs[0] != pt.from.Succs[1] {
		for k, s := range pt.from.Succs {
			if s == pt.to {
				c, pol := stripNot(ifi.Cond, k == 0)
				if pred(c, pol) {
					return true
				}
			}
		}
	}
	return guardedCut(last, pred)
}

// c36CutFrom: every path that leaves `from` (executed) and reaches `target`
// crosses an edge accepted by pred.  Same block, from before target: no edge.
func c36CutFrom(from, target ssa.Instruction, pred EdgePred) bool {
	if from.Block() == target.Block() && instrIndex(from) < instrIndex(target) {
		return false
	}
	tb := target.Block()
	seen := map[*ssa.BasicBlock]bool{}
	var st []*ssa.BasicBlock
	expand := func(b *ssa.BasicBlock) {
		if ifi, ok := b.Instrs[len(b.Instrs)-1].(*ssa.If); ok && len(b.Succs) == 2 {
			for k, s := range b.Succs {
				c, pol := stripNot(ifi.Cond, k == 0)
				if b.Succs[0] != b.Succs[1] && pred(c, pol) {
					continue
				}
				st = append(st, s)
			}
			return
		}
		st = append(st, b.Succs...)
	}
	expand(from.Block())
	for len(st) > 0 {
		b := st[len(st)-1]
		st = st[:len(st)-1]
		if seen[b] {
			continue
		}
		seen[b] = true
		if b == tb {
			return false
		}
		if isPanicBlock(b) {
			continue
		}
		expand(b)
	}
	return true
}

func c36SameVal(a, b ssa.Value) bool {
	if a == b {
		return true
	}
	ca, oka := constOf(a)
	cb, okb := constOf(b)
	return oka && okb && ca.ExactString() == cb.ExactString()
}

// c36SameAddr: two address expressions denote the same cell (structurally).
func c36SameAddr(a, b ssa.Value) bool {
	if a == b {
		return true
	}
	switch x := a.(type) {
	case *ssa.FieldAddr:
		y, ok := b.(*ssa.FieldAddr)
		return ok && x.Field == y.Field && c36SameVal(x.X, y.X)
	case *ssa.IndexAddr:
		y, ok := b.(*ssa.IndexAddr)
		return ok && c36SameAddr(x.X, y.X) && c36SameVal(x.Index, y.Index)
	}
	return false
}

// occupant: v is the value held in the cell addr (a load of it, or - for two
// loop-carried phis of one block - edge-wise the load of the address edge).
func c36Occupant(addr, v ssa.Value, depth int) bool {
	if depth > 4 {
		return false
	}
	if ld, ok := v.(*ssa.UnOp); ok && ld.Op == token.MUL && c36SameAddr(ld.X, addr) {
		return true
	}
	pa, ok1 := addr.(*ssa.Phi)
	pv, ok2 := v.(*ssa.Phi)
	if ok1 && ok2 && pa.Block() == pv.Block() && len(pa.Edges) == len(pv.Edges) {
		for i := range pa.Edges {
			if pa.Edges[i] == addr && pv.Edges[i] == v {
				continue
			}
			if !c36Occupant(pa.Edges[i], pv.Edges[i], depth+1) {
				return false
			}
		}
		return true
	}
	return false
}

// ------------------------------------------------------------------- run --

func runC36(c *Ctx) {
	// felix/ip is loaded on its own: it is small and nothing it imports depends on it.
	p := c.Load(c36IPPkg)
	m := c36Build(c, p)

	c.Rule("C36.marker", "E-GUARD/E-PATH", "data==nil marks an intermediate node: non-nil guard dominates every store of a value into node data; an insert stores its value into a linked node on every return path; a node's prefix escapes to a caller (entry literal, callback, slice, result, Covers' true) only under data!=nil of that node", 8)
	c.Rule("C36.contain", "E-GUARD", "LPM's matched node and the constant-true answers of Covers/Intersects are control-dependent (on every path, phi edges included) on a test that relates the query to that node's prefix, with the accepting polarity", 3)
	c.Rule("C36.descend", "E-PAIR", "every bit-indexed child slot is selected by the address of the prefix that belongs below it: the query when descending, the existing node's own address when it is re-parented under a new node, the complementary slot for the new leaf", 10)
	c.Rule("C36.prune", "E-PATH/E-GUARD", "the pruner's result is stored back where its argument was loaded from; data is cleared only while a child is left; a data-less node is not returned after its child subtree vanished; a node is replaced only by a child whose sibling slot is nil; Update publishes a new node over a slot only if the slot is nil or the occupant is re-attached", 10)
	c.Rule("C36.dispatch", "E-TWIN", "under Version()==k a non-comma-ok type assertion names the concrete CIDR/Addr type whose Version() returns k", 3)
	c.Rule("C36.lpmkey", "E-PAIR", "calc.IpTrie: every patricia-trie operation of a method is keyed by one encoding expression of the method's own CIDR/Addr parameter; all exact-key operations use one encoding, all prefix walks one", 5)
	c.Rule("C36.position", "E-SIBLING", c36PositionText, 7) // s7 hook: bit position of every child index (engine_C36pos.go)

	// the families are independent: a lost anchor in one is recorded as a broken check
	// but does not keep the others from being evaluated
	var yields []c36Yield
	c36Isolated(c, func() { yields = c36Marker(m) })
	c36Isolated(c, func() { c36Contain(m, yields) })
	c36Isolated(c, func() { c36Descend(m) })
	c36Isolated(c, func() { c36Position(c, m, nil) }) // s7 hook (engine_C36pos.go)
	c36Isolated(c, func() { c36Prune(m) })
	c36Isolated(c, func() { c36Dispatch(m) })
	c36Isolated(c, func() { c36LpmKey(c, c36LoadCalc(c)) })
}

func c36Isolated(c *Ctx, f func()) {
	defer func() {
		if r := recover(); r != nil {
			if al, ok := r.(anchorLost); ok {
				c.broken = append(c.broken, al.msg)
				return
			}
			if os.Getenv("CALINT_DEBUG") != "" {
				panic(r)
			}
			c.broken = append(c.broken, fmt.Sprintf("ENGINE-PANIC: %v", r))
		}
	}()
	f()
}

// c36LoadCalc loads felix/calc for the lpmkey family.  That family reads only
// the methods of calc.IpTrie; a source variant of a felix/ip file (the fixtures of
// the other families) cannot change its verdict, so such files are left out of the
// overlay: otherwise every variant recompiles the export data of everything
// between felix/ip and felix/calc.
func c36LoadCalc(c *Ctx) *Prog {
	key := "c36|" + c36CalcPkg
	if p, ok := c.progs[key]; ok {
		return p
	}
	ov := map[string][]byte{}
	for f, b := range c.Overlay {
		if !strings.Contains(f, "/"+c36IPPkg+"/") {
			ov[f] = b
		}
	}
	p, err := Load(LoadOpts{Repo: c.Repo, Module: modMain, Overlay: ov}, c36CalcPkg)
	if err != nil {
		panic(anchorLost{"LOAD-FAILED: " + err.Error()})
	}
	if c.progs == nil {
		c.progs = map[string]*Prog{}
	}
	c.progs[key] = p
	c.nLoaded += len(p.Roots)
	c.nFuncs += p.nFuncs
	return p
}

// ---------------------------------------------------------------- marker --

// c36Esc is the result of following the uses of a prefix value.
type c36Esc struct {
	sites []ssa.Instruction // where it escapes to a caller-visible place
	rets  []*ssa.Return     // returned from the function it was read in
	busy  bool
}

// c36DataEvent: node `node` holds the payload from instruction `at` on.
type c36DataEvent struct {
	node ssa.Value
	at   ssa.Instruction
}

// c36Yield is one place where the prefix of node `base` leaves the trie.
type c36Yield struct {
	fn   *ssa.Function
	base ssa.Value
	at   ssa.Instruction
}

func (m *c36Model) isLogPkg(pkg *types.Package) bool {
	if pkg == nil {
		return false
	}
	pp := pkg.Path()
	return strings.HasSuffix(pp, "sirupsen/logrus") || pp == "fmt" || pp == "log"
}

func (m *c36Model) walkUses(v ssa.Value, seen map[ssa.Value]bool, out *c36Esc) {
	if seen[v] {
		return
	}
	seen[v] = true
	refs := v.Referrers()
	if refs == nil {
		return
	}
	for _, ref := range *refs {
		switch r := ref.(type) {
		case *ssa.DebugRef, *ssa.BinOp, *ssa.Field, *ssa.FieldAddr, *ssa.Index, *ssa.IndexAddr, *ssa.If:
			// comparison / projection: navigation
		case *ssa.ChangeInterface, *ssa.MakeInterface, *ssa.ChangeType, *ssa.Convert, *ssa.Phi, *ssa.TypeAssert, *ssa.Extract:
			m.walkUses(r.(ssa.Value), seen, out)
		case *ssa.Store:
			if r.Val != v {
				continue
			}
			if _, _, ok := m.nodeFieldAddr(r.Addr); ok {
				continue // copied into another node: stays inside the trie
			}
			if al, ok := r.Addr.(*ssa.Alloc); ok {
				// spill of a whole variable (address-taken local/parameter): follow its loads
				for _, ar := range *al.Referrers() {
					switch u := ar.(type) {
					case *ssa.UnOp:
						m.walkUses(u, seen, out)
					case *ssa.Store, *ssa.FieldAddr, *ssa.IndexAddr, *ssa.Slice, *ssa.DebugRef:
						// (re)assignment or projection
					default:
						out.sites = append(out.sites, ar)
					}
				}
				continue
			}
			out.sites = append(out.sites, r)
		case *ssa.MapUpdate:
			if n, ok := r.Map.Type().(*types.Named); ok && m.isLogPkg(n.Obj().Pkg()) {
				continue // logrus.Fields
			}
			out.sites = append(out.sites, r)
		case *ssa.Return:
			out.rets = append(out.rets, r)
		case ssa.CallInstruction:
			cc := r.Common()
			if cc.IsInvoke() {
				inArgs := false
				for _, a := range cc.Args {
					if a == v {
						inArgs = true
					}
				}
				if inArgs && (cc.Method.Pkg() == nil || cc.Method.Pkg() != m.pkg.Pkg) {
					out.sites = append(out.sites, r) // handed to a foreign interface (collector)
				}
				continue // method of / argument to an ip interface method: arithmetic
			}
			for i, a := range cc.Args {
				if a != v {
					continue
				}
				switch callee := cc.Value.(type) {
				case *ssa.Builtin:
					if callee.Name() == "append" || callee.Name() == "copy" {
						out.sites = append(out.sites, r)
					}
				default:
					sf := cc.StaticCallee()
					if sf == nil {
						out.sites = append(out.sites, r) // call of a func value: visitor callback
						continue
					}
					if sf.Pkg == m.pkg && sf.Blocks != nil && i < len(sf.Params) {
						sub := m.paramEsc(sf.Params[i])
						if len(sub.sites) > 0 {
							out.sites = append(out.sites, r)
						}
						if len(sub.rets) > 0 {
							if cv, ok := r.(*ssa.Call); ok {
								m.walkUses(cv, seen, out)
							}
						}
						continue
					}
					if sf.Object() != nil && m.isLogPkg(sf.Object().Pkg()) {
						continue
					}
					out.sites = append(out.sites, r)
				}
			}
		default:
			out.sites = append(out.sites, ref)
		}
	}
}

func (m *c36Model) paramEsc(pa *ssa.Parameter) *c36Esc {
	if e, ok := m.paramMemo[pa]; ok {
		return e // (busy: recursion - contributes nothing new)
	}
	e := &c36Esc{busy: true}
	m.paramMemo[pa] = e
	m.walkUses(pa, map[ssa.Value]bool{}, e)
	e.busy = false
	return e
}

func (m *c36Model) isAccessor(fn *ssa.Function, base ssa.Value) (int, bool) {
	if o, ok := fn.Object().(*types.Func); ok && o.Exported() {
		return 0, false
	}
	for i, pa := range fn.Params {
		if pa == base {
			return i, true
		}
	}
	return 0, false
}

func c36Marker(m *c36Model) []c36Yield {
	c := m.c
	// (store) every store of a possibly-nil value into node data is guarded by value != nil
	type agg struct {
		site string
		n    int
		bad  []string
	}
	stores := map[*ssa.Function]*agg{}
	inserters := map[*ssa.Function]map[ssa.Value][]c36DataEvent{}
	addEvent := func(fn *ssa.Function, pa ssa.Value, ev c36DataEvent) {
		if inserters[fn] == nil {
			inserters[fn] = map[ssa.Value][]c36DataEvent{}
		}
		inserters[fn][pa] = append(inserters[fn][pa], ev)
	}
	for _, fn := range m.funcs {
		allInstrs(fn, false, func(_ *ssa.Function, in ssa.Instruction) {
			st, ok := in.(*ssa.Store)
			if !ok {
				return
			}
			_, f, ok := m.nodeFieldAddr(st.Addr)
			if !ok || f != m.fData || isNilConst(st.Val) {
				return
			}
			a := stores[fn]
			if a == nil {
				a = &agg{site: m.site(st)}
				stores[fn] = a
			}
			a.n++
			val := st.Val
			if mi, ok := val.(*ssa.MakeInterface); ok && !isNilablePtrLike(mi.X.Type()) {
				return // boxing a non-pointer concrete value: never nil
			}
			if !m.holdsLifted(val, st, func(v ssa.Value) EdgePred { return c36ValNil(v, false) }, 2) {
				a.bad = append(a.bad, fmt.Sprintf("store of %s into node data at %s is not dominated by a `!= nil` test of it", path(val), m.site(st)))
			}
			if pa, ok := val.(*ssa.Parameter); ok {
				n, _, _ := m.nodeFieldAddr(st.Addr)
				addEvent(fn, pa, c36DataEvent{n, st})
			}
		})
		// nodes made by a constructor that is handed a parameter of fn as payload
		allInstrs(fn, false, func(_ *ssa.Function, in ssa.Instruction) {
			cv, ok := in.(*ssa.Call)
			if !ok || !m.isFreshNode(cv) {
				return
			}
			for _, d := range m.freshField(cv, m.fData) {
				if pa, ok := d.(*ssa.Parameter); ok && pa.Parent() == fn {
					addEvent(fn, pa, c36DataEvent{cv, cv})
				}
			}
		})
	}
	// a parameter handed on to an in-package function that stores (or forwards) it: the
	// call is where the value gets stored (recursive inserts, wrappers)
	for round := 0; round < 3; round++ {
		for _, fn := range m.funcs {
			allInstrs(fn, false, func(_ *ssa.Function, in ssa.Instruction) {
				ci, ok := in.(ssa.CallInstruction)
				if !ok {
					return
				}
				sf := ci.Common().StaticCallee()
				if sf == nil || inserters[sf] == nil || m.isFreshNode(c36AsValue(in)) {
					return
				}
				for i, arg := range ci.Common().Args {
					pa, ok := arg.(*ssa.Parameter)
					if !ok || i >= len(sf.Params) || inserters[sf][sf.Params[i]] == nil {
						continue
					}
					dup := false
					for _, ev := range inserters[fn][pa] {
						if ev.at == in {
							dup = true
						}
					}
					if !dup {
						addEvent(fn, pa, c36DataEvent{nil, in})
					}
				}
			})
		}
	}
	for _, fn := range m.funcs {
		a := stores[fn]
		if a == nil {
			continue
		}
		c.Check(len(a.bad) == 0, "C36.marker/store/"+fnName(fn), a.site,
			fmt.Sprintf("all %d store(s) of a value into node data are guarded by value != nil (nil stays the intermediate-node marker)", a.n),
			strings.Join(a.bad, "; ")+" (a nil value makes a stored prefix indistinguishable from an intermediate node)")
	}
	// (stored) an inserter stores its value into a linked node on every return path
	for _, fn := range m.funcs {
		for val, sts := range inserters[fn] {
			var bad []string
			rets := returnsOf(fn)
			for _, r := range rets {
				ok := false
				for _, ev := range sts {
					if instrDominates(ev.at, r) && m.linked(fn, ev.node, r, 0) {
						ok = true
					}
				}
				if !ok {
					bad = append(bad, fmt.Sprintf("return at %s is reached without %s having been stored into the data of a node that is linked into the trie", m.posOf(r), path(val)))
				}
			}
			c.Check(len(bad) == 0, "C36.marker/stored/"+fnName(fn), m.p.Pos(fn.Pos()),
				fmt.Sprintf("every one of %d return path(s) is dominated by a store of %s into the data of an existing or linked node", len(rets), path(val)),
				strings.Join(bad, "; "))
		}
	}

	// (yield) escaping reads of a node's prefix
	type read struct {
		v    ssa.Value
		base ssa.Value
		fn   *ssa.Function
	}
	var work []read
	for _, fn := range m.funcs {
		allInstrs(fn, false, func(_ *ssa.Function, in ssa.Instruction) {
			v, ok := in.(ssa.Value)
			if !ok {
				return
			}
			if b, f, ok := m.nodeLoad(v); ok && f == m.fCidr {
				work = append(work, read{v, b, fn})
			}
		})
	}
	var yields []c36Yield
	doneAcc := map[*ssa.Function]bool{}
	for len(work) > 0 {
		rd := work[0]
		work = work[1:]
		e := &c36Esc{}
		m.walkUses(rd.v, map[ssa.Value]bool{}, e)
		for _, s := range e.sites {
			yields = append(yields, c36Yield{rd.fn, rd.base, s})
		}
		if len(e.rets) == 0 {
			continue
		}
		if pi, ok := m.isAccessor(rd.fn, rd.base); ok {
			// unexported accessor: its callers read the prefix of the node they pass
			if doneAcc[rd.fn] {
				continue
			}
			doneAcc[rd.fn] = true
			for _, g := range m.funcs {
				allInstrs(g, false, func(_ *ssa.Function, in ssa.Instruction) {
					if cv, ok := in.(*ssa.Call); ok && cv.Common().StaticCallee() == rd.fn && pi < len(cv.Common().Args) {
						work = append(work, read{cv, cv.Common().Args[pi], g})
					}
				})
			}
			continue
		}
		for _, r := range e.rets {
			yields = append(yields, c36Yield{rd.fn, rd.base, r})
		}
	}
	// The obligation is attributed to the function in which the guard is (or should be)
	// established: the function of the yield itself, or - for a helper that is handed
	// the node - each of its callers.
	type yacc struct {
		site string
		n    int
		bad  []string
	}
	byFn := map[*ssa.Function]*yacc{}
	for _, y := range yields {
		for _, l := range m.lift(y.base, y.at, func(b ssa.Value) EdgePred { return m.dataCond(b, false) }, 2) {
			g := l.at.Parent()
			a := byFn[g]
			if a == nil {
				a = &yacc{site: m.posOf(l.at)}
				byFn[g] = a
			}
			a.n++
			if !l.ok {
				where := m.posOf(y.at)
				if l.at != y.at {
					where += " (reached through the call at " + m.posOf(l.at) + ")"
				}
				a.bad = append(a.bad, fmt.Sprintf("prefix of node %s leaves the trie at %s without a dominating `data != nil` test of that node", path(l.v), where))
			}
		}
	}
	for _, fn := range m.funcs {
		a := byFn[fn]
		if a == nil {
			continue
		}
		c.Check(len(a.bad) == 0, "C36.marker/yield/"+fnName(fn), a.site,
			fmt.Sprintf("%d place(s) where a node's prefix is handed out, all under data != nil of the same node", a.n),
			strings.Join(a.bad, "; ")+" (an intermediate node would be reported as a stored prefix)")
	}
	// Covers: a constant-true answer names a node that covers the query - it must hold data.
	for _, fn := range m.boolQueryFuncs("Covers") {
		pts := c36TruePoints(fn)
		if len(pts) == 0 {
			continue
		}
		var bad []string
		for _, pt := range pts {
			if !c36CutAt(pt.pt, m.dataCond(nil, false)) {
				bad = append(bad, fmt.Sprintf("answer true at %s is not control-dependent on `data != nil` of a node", m.posOf(pt.ret)))
			}
		}
		c.Check(len(bad) == 0, "C36.marker/yield/"+fnName(fn), m.posOf(pts[0].ret),
			fmt.Sprintf("%d constant-true answer(s), all under data != nil", len(pts)),
			strings.Join(bad, "; ")+" (an intermediate node is not a stored prefix and covers nothing)")
	}
	return yields
}

func c36AsValue(in ssa.Instruction) ssa.Value {
	v, _ := in.(ssa.Value)
	return v
}

func isNilablePtrLike(t types.Type) bool {
	switch t.Underlying().(type) {
	case *types.Pointer, *types.Map, *types.Slice, *types.Chan, *types.Signature, *types.Interface:
		return true
	}
	return false
}

// linked: node value n is part of the trie when r executes: an existing node, or
// a fresh one stored (before r) into a cell of the existing structure or into a
// slot of a fresh node that is itself linked.
func (m *c36Model) linked(fn *ssa.Function, n ssa.Value, r ssa.Instruction, depth int) bool {
	if n == nil || !m.isFreshNode(n) {
		return true
	}
	if depth > 3 {
		return false
	}
	for _, rt := range returnsOf(fn) {
		for _, res := range rt.Results {
			if res == n {
				return true // constructor: linking is the caller's business
			}
		}
	}
	if _, isPa := n.(*ssa.Parameter); isPa {
		return true // node under construction handed in by the caller: linking is the caller's business
	}
	for _, ref := range *n.Referrers() {
		if ci, ok := ref.(ssa.CallInstruction); ok && instrDominates(ci, r) {
			// handed to an in-package function that hangs it below the node it returns,
			// or below another node it is handed: linked if that node is
			sf := ci.Common().StaticCallee()
			args := ci.Common().Args
			if sf == nil || sf.Pkg != m.pkg || sf.Blocks == nil || len(args) > len(sf.Params) {
				continue
			}
			for j, a := range args {
				if a != n {
					continue
				}
				isJ := func(v ssa.Value) bool { return v == sf.Params[j] }
				rets := returnsOf(sf)
				if cv, ok := ref.(*ssa.Call); ok && m.isNodePtr(cv.Type()) && len(rets) > 0 {
					all := true
					for _, rt := range rets {
						if len(rt.Results) != 1 || !m.reattached(sf, rt.Results[0], isJ, rt, 2) {
							all = false
						}
					}
					if all && m.linked(fn, cv, r, depth+1) {
						return true
					}
				}
				for i, host := range args {
					if i == j || !m.isNodePtr(host.Type()) || len(rets) == 0 {
						continue
					}
					all := true
					for _, rt := range rets {
						if !m.reattached(sf, sf.Params[i], isJ, rt, 2) {
							all = false
						}
					}
					if all && m.linked(fn, host, r, depth+1) {
						return true
					}
				}
			}
			continue
		}
		st, ok := ref.(*ssa.Store)
		if !ok || st.Val != n || !instrDominates(st, r) {
			continue
		}
		if b, _, ok := m.slotAddr(st.Addr); ok && m.isFreshNode(b) {
			if m.linked(fn, b, r, depth+1) {
				return true
			}
			continue
		}
		return true
	}
	return false
}

// boolQueryFuncs: functions of the ip package reachable from CIDRTrie.<method>
// that touch CIDRNode fields and return a single bool.
func (m *c36Model) boolQueryFuncs(method string) []*ssa.Function {
	root := m.p.Func(c36IPPkg, "CIDRTrie."+method)
	if root == nil {
		m.c.Lost("ip.CIDRTrie.%s", method)
	}
	var out []*ssa.Function
	for f := range m.p.closure(root) {
		if f.Pkg != m.pkg || f.Blocks == nil {
			continue
		}
		res := f.Signature.Results()
		if res.Len() != 1 || !types.Identical(res.At(0).Type().Underlying(), types.Typ[types.Bool]) {
			continue
		}
		touches := false
		allInstrs(f, false, func(_ *ssa.Function, in ssa.Instruction) {
			if fa, ok := in.(*ssa.FieldAddr); ok && m.isNodePtr(fa.X.Type()) {
				touches = true
			}
		})
		if touches {
			out = append(out, f)
		}
	}
	sort.Slice(out, func(i, j int) bool { return out[i].Pos() < out[j].Pos() })
	return out
}

type c36TruePt struct {
	ret *ssa.Return
	pt  c36Point
}

// c36TruePoints: the program points at which a returned bool is the constant true.
func c36TruePoints(fn *ssa.Function) []c36TruePt {
	var out []c36TruePt
	var walk func(r *ssa.Return, v ssa.Value, pt c36Point, seen map[ssa.Value]bool)
	walk = func(r *ssa.Return, v ssa.Value, pt c36Point, seen map[ssa.Value]bool) {
		if seen[v] {
			return
		}
		switch x := v.(type) {
		case *ssa.Const:
			if cv, ok := constOf(x); ok && cv.String() == "true" {
				out = append(out, c36TruePt{r, pt})
			}
		case *ssa.Phi:
			seen[v] = true
			for i, e := range x.Edges {
				walk(r, e, c36Point{from: x.Block().Preds[i], to: x.Block()}, seen)
			}
		}
	}
	for _, r := range returnsOf(fn) {
		if len(r.Results) == 1 {
			walk(r, r.Results[0], c36Point{in: r}, map[ssa.Value]bool{})
		}
	}
	return out
}

// --------------------------------------------------------------- contain --

// queryParams: parameters of fn that carry the query (CIDR / Addr typed).
func (m *c36Model) queryParams(fn *ssa.Function) []ssa.Value {
	var out []ssa.Value
	for _, pa := range fn.Params {
		t := pa.Type()
		if m.isNodePtr(t) {
			continue
		}
		if types.Implements(t, m.cidrI) || types.Implements(t, m.addrI) {
			out = append(out, pa)
		}
	}
	return out
}

// depends: does v depend on the prefix of node `base`, and on one of qs?
func (m *c36Model) depends(v ssa.Value, base ssa.Value, qs []ssa.Value) (onNode, onQuery bool) {
	seen := map[ssa.Value]bool{}
	var walk func(v ssa.Value, d int)
	walk = func(v ssa.Value, d int) {
		if v == nil || seen[v] || d > 14 {
			return
		}
		seen[v] = true
		for _, q := range qs {
			if v == q {
				onQuery = true
				return
			}
		}
		if b, f, ok := m.nodeLoad(v); ok {
			if f == m.fCidr && b == base {
				onNode = true
			}
			return
		}
		in, ok := v.(ssa.Instruction)
		if !ok {
			return
		}
		for _, op := range in.Operands(nil) {
			if op != nil && *op != nil {
				walk(*op, d+1)
			}
		}
	}
	walk(v, 0)
	return
}

// relCond accepts an edge that establishes a relation between the query and the
// prefix of node `base`: the condition depends on both; for ==/!= the edge must be
// the "equal" one, for a Contains call the true one; other shapes: either edge.
func (m *c36Model) relCond(base ssa.Value, qs []ssa.Value) EdgePred {
	return func(cond ssa.Value, pol bool) bool {
		dn, dq := m.depends(cond, base, qs)
		if !dn || !dq {
			return false
		}
		switch x := cond.(type) {
		case *ssa.BinOp:
			if x.Op == token.EQL {
				return pol
			}
			if x.Op == token.NEQ {
				return !pol
			}
		case *ssa.Call:
			if f := calleeOf(x.Common()); f != nil && strings.HasPrefix(f.Name(), "Contains") {
				return pol
			}
		}
		return true
	}
}

// relHolds: the relation is established for node value b at point pt; for a phi,
// alternatively for every incoming non-nil node on its edge.
func (m *c36Model) relHolds(b ssa.Value, pt c36Point, qs []ssa.Value, seen map[ssa.Value]bool) bool {
	if c36CutAt(pt, m.relCond(b, qs)) {
		return true
	}
	phi, ok := b.(*ssa.Phi)
	if !ok {
		return false
	}
	if seen[b] {
		return true // loop-carried: established where the value entered the cycle
	}
	seen[b] = true
	for i, e := range phi.Edges {
		if isNilConst(e) {
			continue
		}
		if !m.relHolds(e, c36Point{from: phi.Block().Preds[i], to: phi.Block()}, qs, seen) {
			return false
		}
	}
	return true
}

func c36Contain(m *c36Model, yields []c36Yield) {
	c := m.c
	lpm := m.p.Func(c36IPPkg, "CIDRTrie.LPM")
	if lpm == nil {
		c.Lost("ip.CIDRTrie.LPM")
	}
	inLPM := m.p.closure(lpm)
	byFn := map[*ssa.Function][]c36Yield{}
	for _, y := range yields {
		if inLPM[y.fn] {
			byFn[y.fn] = append(byFn[y.fn], y)
		}
	}
	n := 0
	for _, fn := range m.funcs {
		ys := byFn[fn]
		if len(ys) == 0 {
			continue
		}
		n++
		qs := m.queryParams(fn)
		var bad []string
		for _, y := range ys {
			if !m.relHolds(y.base, c36Point{in: y.at}, qs, map[ssa.Value]bool{}) {
				bad = append(bad, fmt.Sprintf("node %s whose prefix is returned at %s was not, on every path, selected under a test relating the query to its prefix", path(y.base), m.posOf(y.at)))
			}
		}
		c.Check(len(bad) == 0, "C36.contain/"+fnName(fn), m.posOf(ys[0].at),
			fmt.Sprintf("%d matched-node result(s), each selected under a test of the query against that node's prefix", len(ys)),
			strings.Join(bad, "; ")+" (a node that does not contain the address would be returned as longest match)")
	}
	if n == 0 {
		c.Lost("no place in the closure of CIDRTrie.LPM hands out a node's prefix")
	}
	for _, method := range []string{"Covers", "Intersects"} {
		found := 0
		for _, fn := range m.boolQueryFuncs(method) {
			pts := c36TruePoints(fn)
			if len(pts) == 0 {
				continue
			}
			found++
			qs := m.queryParams(fn)
			var bases []ssa.Value
			for _, pa := range fn.Params {
				if m.isNodePtr(pa.Type()) {
					bases = append(bases, pa)
				}
			}
			var bad []string
			for _, pt := range pts {
				ok := false
				for _, b := range bases {
					if c36CutAt(pt.pt, m.relCond(b, qs)) {
						ok = true
					}
				}
				if !ok {
					bad = append(bad, fmt.Sprintf("answer true at %s is not control-dependent on a test relating the query to the node's prefix", m.posOf(pt.ret)))
				}
			}
			c.Check(len(bad) == 0, "C36.contain/"+fnName(fn), m.posOf(pts[0].ret),
				fmt.Sprintf("%d constant-true answer(s), all under a test of the query against the node's prefix", len(pts)),
				strings.Join(bad, "; "))
		}
		if found == 0 {
			c.Lost("no constant-true answer in the closure of CIDRTrie.%s", method)
		}
	}
}

// --------------------------------------------------------------- descend --

type c36Bit struct {
	call  *ssa.Call
	recv  ssa.Value
	compl bool
	env   map[*ssa.Parameter]ssa.Value
}

type c36Src struct {
	kind string // query | node | unknown
	node ssa.Value
	q    ssa.Value
}

func c36Env(call *ssa.Call, callee *ssa.Function) map[*ssa.Parameter]ssa.Value {
	env := map[*ssa.Parameter]ssa.Value{}
	for i, a := range call.Common().Args {
		if i < len(callee.Params) {
			env[callee.Params[i]] = a
		}
	}
	return env
}

// resolveIdx follows a child index back to the NthBit calls it is made of.
func (m *c36Model) resolveIdx(v ssa.Value, compl bool, env map[*ssa.Parameter]ssa.Value, depth int, bits *[]c36Bit, other *bool, seen map[ssa.Value]bool) {
	if seen[v] {
		return
	}
	seen[v] = true
	switch x := v.(type) {
	case *ssa.BinOp:
		if cv, ok := constOf(x.X); ok && x.Op == token.SUB && cv.ExactString() == "1" {
			m.resolveIdx(x.Y, !compl, env, depth, bits, other, seen)
			return
		}
		if cv, ok := constOf(x.Y); ok && x.Op == token.XOR && cv.ExactString() == "1" {
			m.resolveIdx(x.X, !compl, env, depth, bits, other, seen)
			return
		}
		*other = true
	case *ssa.Convert:
		m.resolveIdx(x.X, compl, env, depth, bits, other, seen)
	case *ssa.ChangeType:
		m.resolveIdx(x.X, compl, env, depth, bits, other, seen)
	case *ssa.Phi:
		for _, e := range x.Edges {
			m.resolveIdx(e, compl, env, depth, bits, other, seen)
		}
	case *ssa.Parameter:
		if a, ok := env[x]; ok {
			m.resolveIdx(a, compl, nil, depth, bits, other, seen)
			return
		}
		*other = true
	case *ssa.Call:
		cc := x.Common()
		if f := calleeOf(cc); f != nil && f.Name() == "NthBit" {
			var recv ssa.Value
			if cc.IsInvoke() {
				recv = cc.Value
			} else if len(cc.Args) > 0 {
				recv = cc.Args[0]
			}
			*bits = append(*bits, c36Bit{x, recv, compl, env})
			return
		}
		if sf := cc.StaticCallee(); sf != nil && sf.Pkg == m.pkg && sf.Blocks != nil && depth > 0 && env == nil {
			for _, r := range returnsOf(sf) {
				if len(r.Results) == 1 {
					m.resolveIdx(r.Results[0], compl, c36Env(x, sf), depth-1, bits, other, seen)
				}
			}
			return
		}
		*other = true
	default:
		*other = true
	}
}

func c36Subst(v ssa.Value, env map[*ssa.Parameter]ssa.Value) ssa.Value {
	if pa, ok := v.(*ssa.Parameter); ok {
		if a, ok := env[pa]; ok {
			return a
		}
	}
	return v
}

// classifyCIDR: whose prefix is v?
func (m *c36Model) classifyCIDR(v ssa.Value, env map[*ssa.Parameter]ssa.Value, seen map[ssa.Value]bool) []c36Src {
	if seen[v] {
		return nil
	}
	seen[v] = true
	switch x := v.(type) {
	case *ssa.ChangeInterface:
		return m.classifyCIDR(x.X, env, seen)
	case *ssa.MakeInterface:
		return m.classifyCIDR(x.X, env, seen)
	case *ssa.TypeAssert:
		return m.classifyCIDR(x.X, env, seen)
	case *ssa.Extract:
		return m.classifyCIDR(x.Tuple, env, seen)
	case *ssa.Phi:
		var out []c36Src
		for _, e := range x.Edges {
			out = append(out, m.classifyCIDR(e, env, seen)...)
		}
		return out
	case *ssa.Parameter:
		if a, ok := env[x]; ok {
			return m.classifyCIDR(a, nil, seen)
		}
		return []c36Src{{kind: "query", q: x}}
	}
	if b, f, ok := m.nodeLoad(v); ok && f == m.fCidr {
		return []c36Src{{kind: "node", node: c36Subst(b, env)}}
	}
	return []c36Src{{kind: "unknown"}}
}

// classifyAddr: whose address is v (the receiver of NthBit)?
func (m *c36Model) classifyAddr(v ssa.Value, env map[*ssa.Parameter]ssa.Value, seen map[ssa.Value]bool) []c36Src {
	if seen[v] {
		return nil
	}
	seen[v] = true
	switch x := v.(type) {
	case *ssa.ChangeInterface:
		return m.classifyAddr(x.X, env, seen)
	case *ssa.MakeInterface:
		return m.classifyAddr(x.X, env, seen)
	case *ssa.TypeAssert:
		return m.classifyAddr(x.X, env, seen)
	case *ssa.Phi:
		var out []c36Src
		for _, e := range x.Edges {
			out = append(out, m.classifyAddr(e, env, seen)...)
		}
		return out
	case *ssa.Parameter:
		if a, ok := env[x]; ok {
			return m.classifyAddr(a, nil, seen)
		}
		return []c36Src{{kind: "query", q: x}}
	case *ssa.Call:
		cc := x.Common()
		if f := calleeOf(cc); f != nil && f.Name() == "Addr" {
			recv := cc.Value
			if !cc.IsInvoke() {
				if len(cc.Args) == 0 {
					return []c36Src{{kind: "unknown"}}
				}
				recv = cc.Args[0]
			}
			return m.classifyCIDR(recv, env, map[ssa.Value]bool{})
		}
	}
	return []c36Src{{kind: "unknown"}}
}

func c36Descend(m *c36Model) {
	c := m.c
	type acc struct {
		site string
		n    int
		bad  []string
		und  []string
	}
	reads := map[*ssa.Function]*acc{}
	report := func(key string, a *acc, okText, why string) {
		switch {
		case len(a.bad) > 0:
			c.Violate(key, a.site, "%s (%s)", strings.Join(a.bad, "; "), why)
		case len(a.und) > 0:
			c.Undecided(key, a.site, "%s", strings.Join(a.und, "; "))
		default:
			c.Ok(key, a.site, "%s", okText)
		}
	}
	describe := func(ss []c36Src) string {
		var out []string
		for _, s := range ss {
			switch s.kind {
			case "query":
				out = append(out, "the query "+path(s.q))
			case "node":
				out = append(out, "node "+path(s.node)+"'s own prefix")
			default:
				out = append(out, "an unrecognised value")
			}
		}
		sort.Strings(out)
		return strings.Join(out, ", ")
	}
	for _, fn := range m.funcs {
		// index value -> stores into slots of fresh nodes in this function (for the new-leaf rule)
		allInstrs(fn, false, func(_ *ssa.Function, in ssa.Instruction) {
			ia, ok := in.(*ssa.IndexAddr)
			if !ok {
				return
			}
			x, idx, ok := m.slotAddr(ia)
			if !ok {
				return
			}
			if _, isC := constOf(idx); isC {
				return // explicit slot: traversal / pruning
			}
			var bits []c36Bit
			other := false
			m.resolveIdx(idx, false, nil, 2, &bits, &other, map[ssa.Value]bool{})
			if len(bits) == 0 {
				return // not a bit index (range/loop variable): traversal
			}
			// classify uses of the slot address
			isRead, isPtr := false, false
			var writes []*ssa.Store
			for _, r := range *ia.Referrers() {
				switch u := r.(type) {
				case *ssa.UnOp:
					isRead = true
				case *ssa.Store:
					if u.Addr == ia {
						writes = append(writes, u)
					} else {
						isPtr = true
					}
				case *ssa.Phi:
					isPtr = true
				case *ssa.DebugRef:
				default:
					isPtr = true
				}
			}
			var srcs []c36Src
			compl := false
			for _, b := range bits {
				srcs = append(srcs, m.classifyAddr(b.recv, b.env, map[ssa.Value]bool{})...)
				if b.compl {
					compl = true
				}
			}
			if isRead || isPtr {
				a := reads[fn]
				if a == nil {
					a = &acc{site: m.site(ia)}
					reads[fn] = a
				}
				a.n++
				if other {
					a.und = append(a.und, fmt.Sprintf("child index at %s mixes an address bit with other arithmetic", m.site(ia)))
				}
				for _, s := range srcs {
					switch s.kind {
					case "node":
						a.bad = append(a.bad, fmt.Sprintf("child of %s selected at %s by the address bit of node %s's own prefix", path(x), m.site(ia), path(s.node)))
					case "unknown":
						a.und = append(a.und, fmt.Sprintf("child index at %s: cannot tell whose address the bit is taken from", m.site(ia)))
					}
				}
			}
			for _, w := range writes {
				val := w.Val
				switch {
				case m.isFreshNode(val):
					a := &acc{site: m.site(w)}
					key := "C36.descend/" + fnName(fn) + "/newleaf"
					leafCidr := m.freshField(val, m.fCidr)
					okLeaf := false
					if !compl {
						// indexed by the bit of the leaf's own prefix
						for _, s := range srcs {
							for _, lc := range leafCidr {
								if s.kind == "query" && lc != nil && s.q == lc {
									okLeaf = true
								}
							}
						}
						if !okLeaf {
							a.bad = append(a.bad, fmt.Sprintf("new leaf stored at %s into the slot selected by the bit of %s, not by its own prefix and not the complement of its sibling's", m.site(w), describe(srcs)))
						}
					} else {
						// complement of the slot an existing node was stored into, indexed by that node's own bit
						base := idxBase(idx)
						var sibs []ssa.Value // existing nodes stored into slot [base] of x
						for _, sib := range m.slotStoresOf(fn, x) {
							_, sidx, _ := m.slotAddr(sib.Addr)
							if sib == w || sidx != base || m.isFreshNode(sib.Val) {
								continue
							}
							sibs = append(sibs, sib.Val)
						}
						sibs = append(sibs, m.storedAtResult(base, x)...)
						for _, sibVal := range sibs {
							all := len(srcs) > 0
							for _, s := range srcs {
								if s.kind != "node" || s.node != sibVal {
									all = false
								}
							}
							if all {
								okLeaf = true
							}
						}
						if !okLeaf {
							a.bad = append(a.bad, fmt.Sprintf("new leaf stored at %s into the complement of a slot that is not the one its sibling was stored into by the sibling's own address bit (%s)", m.site(w), describe(srcs)))
						}
					}
					report(key, a, "new leaf takes the slot complementary to the re-parented node's own address bit (or its own bit)", "the leaf would overwrite its sibling or be unreachable by descent")
				case isCallResult(val):
					// result of a recursive pruner written back: C36.prune/writeback
				default:
					a := &acc{site: m.site(w)}
					kindOf := func(host ssa.Value) string {
						if !m.freshHasData(host) {
							return "internal"
						}
						return "entry"
					}
					// The obligation is attributed to the function that creates the new
					// parent: fn itself, or - for an attaching helper that is handed the
					// node under construction - each of its call sites.
					keys := []string{"C36.descend/" + fnName(fn) + "/reparent-" + kindOf(x)}
					if pa, isPa := x.(*ssa.Parameter); isPa && m.isFreshNode(x) {
						keys = nil
						for i, q := range fn.Params {
							if q != pa {
								continue
							}
							for _, cs := range m.callSites(fn) {
								if i < len(cs.Common().Args) {
									keys = append(keys, "C36.descend/"+fnName(cs.Parent())+"/reparent-"+kindOf(cs.Common().Args[i]))
								}
							}
						}
					}
					if !m.isFreshNode(x) {
						a.und = append(a.und, fmt.Sprintf("existing node stored into a bit-indexed slot of an existing node at %s", m.site(w)))
					}
					if compl || other {
						a.bad = append(a.bad, fmt.Sprintf("existing node %s stored at %s into a complemented/derived slot", path(val), m.site(w)))
					}
					for _, s := range srcs {
						if s.kind != "node" || s.node != val {
							a.bad = append(a.bad, fmt.Sprintf("existing node %s stored at %s into the slot selected by the address bit of %s instead of its own prefix", path(val), m.site(w), describe([]c36Src{s})))
						}
					}
					for _, key := range keys {
						report(key, a, "re-parented node goes into the slot selected by its own address bit", "descent by the query's bit would no longer reach it")
					}
				}
			}
		})
	}
	for _, fn := range m.funcs {
		a := reads[fn]
		if a == nil {
			continue
		}
		report("C36.descend/"+fnName(fn)+"/descend", a,
			fmt.Sprintf("%d bit-indexed child selection(s), all by the query's address bit", a.n),
			"the bits of a node's address beyond its prefix are zero: slot 1 would never be searched")
	}
}

// storedAtResult: `base` (a child index) is the result of an in-package helper that
// is handed node x; lists the caller's (non-fresh) arguments which that helper stores,
// on every return path, into the slot of x indexed by the very value it returns.
func (m *c36Model) storedAtResult(base, x ssa.Value) []ssa.Value {
	cv, ok := base.(*ssa.Call)
	if !ok {
		return nil
	}
	sf := cv.Common().StaticCallee()
	args := cv.Common().Args
	if sf == nil || sf.Pkg != m.pkg || sf.Blocks == nil || len(args) > len(sf.Params) {
		return nil
	}
	var out []ssa.Value
	for i, a := range args {
		if a != x {
			continue
		}
		for j, b := range args {
			if j == i || !m.isNodePtr(b.Type()) || m.isFreshNode(b) {
				continue
			}
			rets := returnsOf(sf)
			all := len(rets) > 0
			for _, r := range rets {
				hit := false
				if len(r.Results) == 1 {
					ridx := idxBase(r.Results[0])
					for _, s := range m.slotStoresOf(sf, sf.Params[i]) {
						_, sidx, _ := m.slotAddr(s.Addr)
						if s.Val == sf.Params[j] && idxBase(sidx) == ridx && instrDominates(s, r) {
							hit = true
						}
					}
				}
				if !hit {
					all = false
				}
			}
			if all {
				out = append(out, b)
			}
		}
	}
	return out
}

func isCallResult(v ssa.Value) bool {
	_, ok := v.(*ssa.Call)
	return ok
}

// idxBase strips `1 - i` / conversions from an index value.
func idxBase(v ssa.Value) ssa.Value {
	for {
		switch x := v.(type) {
		case *ssa.BinOp:
			if cv, ok := constOf(x.X); ok && x.Op == token.SUB && cv.ExactString() == "1" {
				v = x.Y
				continue
			}
			if cv, ok := constOf(x.Y); ok && x.Op == token.XOR && cv.ExactString() == "1" {
				v = x.X
				continue
			}
		case *ssa.Convert:
			v = x.X
			continue
		}
		return v
	}
}

// ----------------------------------------------------------------- prune --

func c36Prune(m *c36Model) {
	c := m.c
	// pruners: in-package functions whose *CIDRNode result is stored into the root or a child slot
	isCell := func(addr ssa.Value) bool {
		if _, _, ok := m.slotAddr(addr); ok {
			return true
		}
		if fa, ok := addr.(*ssa.FieldAddr); ok && fa.Field == m.fRoot {
			if pt, ok := fa.X.Type().Underlying().(*types.Pointer); ok && types.Identical(pt.Elem(), m.trieT) {
				return true
			}
		}
		return false
	}
	// pruners: the in-package functions with a *CIDRNode result that CIDRTrie.Delete
	// reaches (deleteInternal and whatever it is split into)
	pruners := map[*ssa.Function]bool{}
	del := m.p.Func(c36IPPkg, "CIDRTrie.Delete")
	if del == nil {
		c.Lost("ip.CIDRTrie.Delete")
	}
	for sf := range m.p.closure(del) {
		if sf == del || sf.Pkg != m.pkg || sf.Blocks == nil || sf.Parent() != nil {
			continue
		}
		res := sf.Signature.Results()
		if res.Len() == 1 && m.isNodePtr(res.At(0).Type()) {
			pruners[sf] = true
		}
	}
	if len(pruners) == 0 {
		c.Lost("no function whose *CIDRNode result replaces the root or a child slot (deleteInternal)")
	}
	nodeParam := func(f *ssa.Function) (int, *ssa.Parameter) {
		for i, pa := range f.Params {
			if m.isNodePtr(pa.Type()) {
				return i, pa
			}
		}
		return -1, nil
	}
	// (writeback)
	type acc struct {
		site string
		n    int
		bad  []string
		und  []string
	}
	emit := func(key string, a *acc, okText string) {
		switch {
		case len(a.bad) > 0:
			c.Violate(key, a.site, "%s", strings.Join(a.bad, "; "))
		case len(a.und) > 0:
			c.Undecided(key, a.site, "%s", strings.Join(a.und, "; "))
		default:
			c.Ok(key, a.site, "%s", okText)
		}
	}
	for _, fn := range m.funcs {
		var a *acc
		var pd map[*ssa.BasicBlock]map[*ssa.BasicBlock]bool
		allInstrs(fn, false, func(_ *ssa.Function, in ssa.Instruction) {
			ci, ok := in.(ssa.CallInstruction)
			if !ok {
				return
			}
			sf := ci.Common().StaticCallee()
			if sf == nil || !pruners[sf] {
				return
			}
			pi, _ := nodeParam(sf)
			if pi < 0 || pi >= len(ci.Common().Args) {
				return
			}
			if a == nil {
				a = &acc{site: m.site(in)}
				pd = postDominators(fn)
			}
			a.n++
			arg := ci.Common().Args[pi]
			ld, ok := arg.(*ssa.UnOp)
			if !ok || ld.Op != token.MUL || !isCell(ld.X) {
				a.und = append(a.und, fmt.Sprintf("%s is called at %s on a node that was not loaded from the root or a child slot", fnName(sf), m.site(in)))
				return
			}
			cv, _ := in.(*ssa.Call)
			found := false
			if cv != nil {
				for _, r := range *cv.Referrers() {
					if st, ok := r.(*ssa.Store); ok && st.Val == cv && c36SameAddr(st.Addr, ld.X) && instrPostDominates(pd, st, in) {
						found = true
					}
				}
			}
			if !found {
				a.bad = append(a.bad, fmt.Sprintf("result of %s at %s is not stored back into %s on every path (a replaced or removed node stays linked)", fnName(sf), m.site(in), path(ld.X)))
			}
		})
		if a != nil {
			emit("C36.prune/writeback/"+fnName(fn), a, fmt.Sprintf("%d pruning call(s), result stored back into the cell the argument was loaded from", a.n))
		}
	}
	// (demote) data is cleared only while some child is left
	for _, fn := range m.funcs {
		var a *acc
		allInstrs(fn, false, func(_ *ssa.Function, in ssa.Instruction) {
			st, ok := in.(*ssa.Store)
			if !ok || !isNilConst(st.Val) {
				return
			}
			x, f, ok := m.nodeFieldAddr(st.Addr)
			if !ok || f != m.fData {
				return
			}
			if a == nil {
				a = &acc{site: m.site(st)}
			}
			a.n++
			if !guardedCut(st, m.slotCond(x, -1, false)) {
				a.bad = append(a.bad, fmt.Sprintf("data of %s cleared at %s on a path where no child of it is known to be left (a data-less leaf stays in the trie and Intersects reports it)", path(x), m.site(st)))
			}
		})
		if a != nil {
			emit("C36.prune/demote/"+fnName(fn), a, fmt.Sprintf("%d clearing store(s) of node data, each under a non-nil child of that node", a.n))
		}
	}
	// (return) path rules over the pruner's returns
	var ps []*ssa.Function
	for f := range pruners {
		ps = append(ps, f)
	}
	sort.Slice(ps, func(i, j int) bool { return ps[i].Pos() < ps[j].Pos() })
	for _, f := range ps {
		_, n := nodeParam(f)
		if n == nil {
			c.Lost("pruner %s has no *CIDRNode parameter", fnName(f))
		}
		self := &acc{site: m.p.Pos(f.Pos())}
		child := map[string]*acc{}
		slotStores := m.slotStoresOf(f, n)
		for _, r := range returnsOf(f) {
			if len(r.Results) != 1 {
				continue
			}
			val := r.Results[0]
			if val == n {
				for _, s := range slotStores {
					if m.isFreshNode(s.Val) || !instrReaches(s, r) {
						continue
					}
					self.n++
					if !c36CutFrom(s, r, anyOf(c36ValNil(s.Val, false), m.dataCond(n, false))) {
						self.bad = append(self.bad, fmt.Sprintf("after the store of %s into a child slot at %s, %s is returned at %s although the stored child may be nil and the node may hold no data (a data-less node with a vanished subtree is kept)", path(s.Val), m.site(s), path(n), m.posOf(r)))
					}
				}
				continue
			}
			if isNilConst(val) {
				a := child["nil"]
				if a == nil {
					a = &acc{site: m.posOf(r)}
					child["nil"] = a
				}
				a.n++
				if !guardedCut(r, m.slotCond(n, 0, true)) || !guardedCut(r, m.slotCond(n, 1, true)) {
					a.bad = append(a.bad, fmt.Sprintf("node dropped at %s without both child slots being known nil (subtree lost)", m.posOf(r)))
				}
				continue
			}
			b, idx, ok := m.slotLoad(val)
			if !ok || b != n {
				a := child["other"]
				if a == nil {
					a = &acc{site: m.posOf(r)}
					child["other"] = a
				}
				a.und = append(a.und, fmt.Sprintf("return of %s at %s: neither the node, nor one of its child slots", path(val), m.posOf(r)))
				continue
			}
			if cv, isC := constOf(idx); isC {
				k := cv.ExactString()
				name := "slot" + k
				a := child[name]
				if a == nil {
					a = &acc{site: m.posOf(r)}
					child[name] = a
				}
				a.n++
				var sib int64 = 1
				if k == "1" {
					sib = 0
				}
				if !guardedCut(r, m.slotCond(n, sib, true)) {
					a.bad = append(a.bad, fmt.Sprintf("node replaced at %s by its child %s without slot %d being known nil (that subtree is lost)", m.posOf(r), k, sib))
				}
				continue
			}
			a := child["sibling"]
			if a == nil {
				a = &acc{site: m.posOf(r)}
				child["sibling"] = a
			}
			a.n++
			base := idxBase(idx)
			ok = false
			if base != idx {
				for _, s := range slotStores {
					_, sidx, _ := m.slotAddr(s.Addr)
					if sidx == base && instrDominates(s, r) && guardedCut(r, c36ValNil(s.Val, true)) {
						ok = true
					}
				}
			}
			if !ok {
				a.bad = append(a.bad, fmt.Sprintf("node replaced at %s by child slot [%s], which is not the complement of a slot just stored with a value known to be nil (the surviving subtree is lost)", m.posOf(r), path(idx)))
			}
		}
		emit("C36.prune/return/"+fnName(f)+"/self", self, fmt.Sprintf("%d (child store, return node) pair(s): the node is returned only if the stored child is non-nil or the node holds data", self.n))
		for _, k := range sortedKeys(child) {
			emit("C36.prune/return/"+fnName(f)+"/"+k, child[k], "node replaced by a child only while the sibling slot is known nil")
		}
	}
	// (keep) a fresh node is published over a cell only if the cell is nil or the occupant is re-attached
	c36Keep(m, pruners)
}

// reattached: a value accepted by occ is stored into a child slot of node x on
// every path to `before` (an instruction of fn).  The store may sit
//   - in fn itself,
//   - in the constructor that made x (x is the result of an in-package call: then
//     on every return path of that function an argument accepted by occ is stored
//     into the returned node - computed from the callee's body, recursively), or
//   - in an in-package helper that is handed both x and the occupant before
//     `before` and stores the one into a slot of the other on all its return paths.
func (m *c36Model) reattached(fn *ssa.Function, x ssa.Value, occ func(ssa.Value) bool, before ssa.Instruction, depth int) bool {
	for _, cs := range m.slotStoresOf(fn, x) {
		if occ(cs.Val) && instrDominates(cs, before) {
			return true
		}
	}
	if depth <= 0 {
		return false
	}
	inPkg := func(cc *ssa.CallCommon) *ssa.Function {
		sf := cc.StaticCallee()
		if sf == nil || sf.Pkg != m.pkg || sf.Blocks == nil || len(cc.Args) > len(sf.Params) {
			return nil
		}
		return sf
	}
	// x made by a constructor
	if cv, ok := x.(*ssa.Call); ok {
		if sf := inPkg(cv.Common()); sf != nil && m.isNodePtr(cv.Type()) {
			cand := map[ssa.Value]bool{}
			for i, a := range cv.Common().Args {
				if occ(a) {
					cand[sf.Params[i]] = true
				}
			}
			rets := returnsOf(sf)
			all := len(cand) > 0 && len(rets) > 0
			for _, r := range rets {
				if len(r.Results) != 1 || !m.reattached(sf, r.Results[0], func(v ssa.Value) bool { return cand[v] }, r, depth-1) {
					all = false
					break
				}
			}
			if all {
				return true
			}
		}
	}
	// x and the occupant handed to an attaching helper
	found := false
	allInstrs(fn, false, func(_ *ssa.Function, in ssa.Instruction) {
		ci, ok := in.(ssa.CallInstruction)
		if !ok || found || ssa.Instruction(ci) == before || c36AsValue(in) == x || !instrDominates(in, before) {
			return
		}
		sf := inPkg(ci.Common())
		if sf == nil {
			return
		}
		args := ci.Common().Args
		for i, a := range args {
			if a != x {
				continue
			}
			cand := map[ssa.Value]bool{}
			for j, b := range args {
				if j != i && occ(b) {
					cand[sf.Params[j]] = true
				}
			}
			if len(cand) == 0 {
				continue
			}
			rets := returnsOf(sf)
			all := len(rets) > 0
			for _, r := range rets {
				if !m.reattached(sf, sf.Params[i], func(v ssa.Value) bool { return cand[v] }, r, depth-1) {
					all = false
					break
				}
			}
			if all {
				found = true
			}
		}
	})
	return found
}

// c36Keep: a fresh node is published over a cell (stored into the root / a child
// slot / through a cell pointer, or returned in place of a node parameter) only if
// the cell is known nil or its occupant is re-attached below the new node.  When
// the publishing store sits in an unexported helper that is handed the cell
// pointer and the occupant as two parameters, "is the occupant of" is demanded of
// the two arguments at every call site.
func c36Keep(m *c36Model, pruners map[*ssa.Function]bool) {
	c := m.c
	kindOf := func(x ssa.Value) string {
		if m.freshHasData(x) {
			return "entry"
		}
		return "internal"
	}
	for _, fn := range m.funcs {
		allInstrs(fn, false, func(_ *ssa.Function, in ssa.Instruction) {
			st, ok := in.(*ssa.Store)
			if !ok || !m.isFreshNode(st.Val) || !m.isNodePtr(st.Val.Type()) {
				return
			}
			at, ok := st.Addr.Type().Underlying().(*types.Pointer)
			if !ok || !m.isNodePtr(at.Elem()) {
				return
			}
			if b, _, ok := m.slotAddr(st.Addr); ok && m.isFreshNode(b) {
				return // building the new subtree, not publishing
			}
			x := st.Val
			occ := func(v ssa.Value) bool { return c36Occupant(st.Addr, v, 0) }
			if guardedCut(st, eqCond(true, occ, c36Not)) {
				c.Ok("C36.prune/keep/"+fnName(fn)+"/append", m.site(st), "new node published into a cell whose occupant is known nil")
				return
			}
			kind := kindOf(x)
			kept := m.reattached(fn, x, occ, st, 3)
			okText := "the node previously in the cell is re-attached as a child of the new node before it is published"
			if !kept {
				// cell pointer and occupant are both parameters of an extracted helper
				if pp, isPa := st.Addr.(*ssa.Parameter); isPa && !c36Exported(fn) {
					if how := m.keepLifted(fn, st, x, pp); how != "" {
						kept, okText = true, how
					}
				}
			}
			c.Check(kept, "C36.prune/keep/"+fnName(fn)+"/"+kind, m.site(st), okText,
				fmt.Sprintf("new node published at %s over a cell that may hold a node, and that node is not stored into a child slot of the new one (its whole subtree is lost)", m.site(st)))
		})
	}
	// the same for a function that is handed the occupant and returns its replacement
	// (recursive insert, extracted constructor of the replacing node): a fresh node is
	// returned only if the occupant is nil or re-attached
	for _, fn := range m.funcs {
		if pruners[fn] {
			continue
		}
		var nodes []*ssa.Parameter
		for _, pa := range fn.Params {
			if m.isNodePtr(pa.Type()) && !m.isFreshNode(pa) {
				nodes = append(nodes, pa) // (a node under construction handed in is not an occupant)
			}
		}
		res := fn.Signature.Results()
		if len(nodes) == 0 || res.Len() != 1 || !m.isNodePtr(res.At(0).Type()) {
			continue
		}
		for _, r := range returnsOf(fn) {
			x := r.Results[0]
			if !m.isFreshNode(x) {
				continue
			}
			var lost []string
			appended := true
			for _, n := range nodes {
				n := n
				if guardedCut(r, c36ValNil(n, true)) {
					continue
				}
				appended = false
				if !m.reattached(fn, x, func(v ssa.Value) bool { return v == n }, r, 3) {
					lost = append(lost, path(n))
				}
			}
			if appended {
				c.Ok("C36.prune/keep/"+fnName(fn)+"/append", m.posOf(r), "new node returned in place of an occupant known nil")
				continue
			}
			c.Check(len(lost) == 0, "C36.prune/keep/"+fnName(fn)+"/"+kindOf(x), m.posOf(r),
				"the node being replaced is re-attached as a child of the new node before it is returned",
				fmt.Sprintf("new node returned at %s in place of %s, which may be a node and is not stored into a child slot of the new one (its whole subtree is lost)", m.posOf(r), strings.Join(lost, ", ")))
		}
	}
}

// keepLifted: the publishing store `st` (of fresh node x, through cell-pointer
// parameter pp of the unexported helper fn) is sound if some node parameter q of fn
// is known nil or re-attached below x at the store, and at every call site of fn the
// argument for q is the occupant of the cell the argument for pp points to.
// Returns a description of how the obligation is met ("" if it is not).
func (m *c36Model) keepLifted(fn *ssa.Function, st *ssa.Store, x ssa.Value, pp *ssa.Parameter) string {
	pi := -1
	for i, pa := range fn.Params {
		if pa == pp {
			pi = i
		}
	}
	sites := m.callSites(fn)
	if pi < 0 || len(sites) == 0 {
		return ""
	}
	for qi, q := range fn.Params {
		q := q
		if !m.isNodePtr(q.Type()) {
			continue
		}
		if !guardedCut(st, c36ValNil(q, true)) && !m.reattached(fn, x, func(v ssa.Value) bool { return v == q }, st, 3) {
			continue
		}
		all := true
		for _, cs := range sites {
			args := cs.Common().Args
			if pi >= len(args) || qi >= len(args) || !c36Occupant(args[pi], args[qi], 0) {
				all = false
			}
		}
		if all {
			return fmt.Sprintf("%s is nil or re-attached below the new node, and at each of %d call site(s) it is the occupant of the cell handed in as %s", path(q), len(sites), path(pp))
		}
	}
	return ""
}

// -------------------------------------------------------------- dispatch --

func c36Dispatch(m *c36Model) {
	c := m.c
	versionOf := func(t types.Type) (string, bool) {
		if !types.Implements(t, m.cidrI) && !types.Implements(t, m.addrI) {
			return "", false
		}
		if _, isI := t.Underlying().(*types.Interface); isI {
			return "", false
		}
		obj, _, _ := types.LookupFieldOrMethod(t, true, m.pkg.Pkg, "Version")
		f, _ := obj.(*types.Func)
		if f == nil {
			return "", false
		}
		sf := m.p.SSA.FuncValue(f)
		if sf == nil || sf.Blocks == nil {
			return "", false
		}
		k := ""
		for _, r := range returnsOf(sf) {
			if len(r.Results) != 1 {
				return "", false
			}
			cv, ok := constOf(r.Results[0])
			if !ok || (k != "" && k != cv.ExactString()) {
				return "", false
			}
			k = cv.ExactString()
		}
		return k, k != ""
	}
	type inst struct {
		site string
		n    int
		bad  []string
	}
	for _, fn := range m.funcs {
		insts := map[string]*inst{}
		allInstrs(fn, false, func(_ *ssa.Function, in ssa.Instruction) {
			ta, ok := in.(*ssa.TypeAssert)
			if !ok || ta.CommaOk {
				return
			}
			kT, ok := versionOf(ta.AssertedType)
			if !ok {
				return
			}
			for _, g := range guardsOf(ta) {
				bo, ok := g.Cond.(*ssa.BinOp)
				if !ok || !((bo.Op == token.EQL && g.True) || (bo.Op == token.NEQ && !g.True)) {
					continue
				}
				var k string
				for _, pr := range [][2]ssa.Value{{bo.X, bo.Y}, {bo.Y, bo.X}} {
					cs, isCall := pr[0].(*ssa.Call)
					cv, isConst := constOf(pr[1])
					if isCall && isConst {
						if f := calleeOf(cs.Common()); f != nil && f.Name() == "Version" {
							k = cv.ExactString()
						}
					}
				}
				if k == "" {
					continue
				}
				name := namedTypeName(ta.AssertedType)
				a := insts[name]
				if a == nil {
					a = &inst{site: m.site(ta)}
					insts[name] = a
				}
				a.n++
				if k != kT {
					a.bad = append(a.bad, fmt.Sprintf("under Version()==%s the value is asserted to %s, whose Version() is %s (the assertion panics for every input of that family)", k, name, kT))
				}
			}
		})
		for _, name := range sortedKeys(insts) {
			a := insts[name]
			c.Check(len(a.bad) == 0, "C36.dispatch/"+fnName(fn)+"/"+name, a.site,
				fmt.Sprintf("%d assertion(s) to %s, all under the matching Version() case", a.n, name), strings.Join(a.bad, "; "))
		}
	}
}

// ---------------------------------------------------------------- lpmkey --

func c36LpmKey(c *Ctx, p *Prog) {
	const patricia = "github.com/tchap/go-patricia/v2/patricia"
	isTrieOp := func(f *types.Func) bool {
		sig, _ := f.Type().(*types.Signature)
		if sig == nil || sig.Recv() == nil || f.Pkg() == nil || f.Pkg().Path() != patricia {
			return false
		}
		if namedTypeName(sig.Recv().Type()) != "Trie" {
			return false
		}
		// keyed operations: first parameter is the patricia.Prefix key
		return sig.Params().Len() >= 1 && namedTypeName(sig.Params().At(0).Type()) == "Prefix"
	}
	var enc func(v ssa.Value, d int) string
	enc = func(v ssa.Value, d int) string {
		if d > 8 {
			return "…"
		}
		switch x := v.(type) {
		case *ssa.Convert:
			return enc(x.X, d+1)
		case *ssa.ChangeType:
			return enc(x.X, d+1)
		case *ssa.ChangeInterface:
			return enc(x.X, d+1)
		case *ssa.MakeInterface:
			return enc(x.X, d+1)
		case *ssa.Parameter:
			return "<param:" + namedTypeName(x.Type()) + ">"
		case *ssa.Call:
			cc := x.Common()
			name := "<dyn>"
			if f := calleeOf(cc); f != nil {
				name = f.Name()
			}
			var as []string
			if cc.IsInvoke() {
				as = append(as, enc(cc.Value, d+1))
			}
			for _, a := range cc.Args {
				as = append(as, enc(a, d+1))
			}
			return name + "(" + strings.Join(as, ",") + ")"
		}
		return path(v)
	}
	type op struct {
		fn   *ssa.Function
		name string
		enc  string
		site string
		keyP string // which parameter the key is derived from
	}
	var ops []op
	pk := p.SSAPkg(c36CalcPkg)
	if pk == nil {
		c.Lost("package %s", c36CalcPkg)
	}
	tn, _ := p.LookupObj(c36CalcPkg, "IpTrie").(*types.TypeName)
	if tn == nil {
		c.Lost("calc.IpTrie")
	}
	for _, fn := range p.methodsOf(c36CalcPkg, "IpTrie") {
		for _, cs := range callsIn(fn, true, isTrieOp) {
			args := cs.Args()
			if len(args) < 2 {
				continue
			}
			key := args[1]
			e := enc(key, 0)
			ops = append(ops, op{fn: fn, name: cs.Callee.Name(), enc: e, site: p.Pos(cs.Instr.Pos())})
		}
	}
	if len(ops) == 0 {
		c.Lost("no keyed patricia.Trie operation in the methods of calc.IpTrie")
	}
	// the encoding the operations of one class agree on: the most frequent one (a tie
	// means there is no agreement).  Classes: exact-key operations (Insert/Get/Delete/
	// Set...) and prefix walks (Visit*/Match*); how the two encodings relate is arithmetic.
	classOf := func(name string) string {
		if strings.HasPrefix(name, "Visit") || strings.HasPrefix(name, "Match") {
			return "walk"
		}
		return "exact"
	}
	type agree struct {
		best string
		tie  bool
	}
	agreed := map[string]agree{}
	for _, cl := range []string{"exact", "walk"} {
		count := map[string]int{}
		for _, o := range ops {
			if classOf(o.name) == cl {
				count[o.enc]++
			}
		}
		best, bestN, tie := "", 0, false
		for _, e := range sortedKeys(count) {
			switch {
			case count[e] > bestN:
				best, bestN, tie = e, count[e], false
			case count[e] == bestN:
				tie = true
			}
		}
		agreed[cl] = agree{best, tie}
	}
	byFn := map[*ssa.Function][]op{}
	var order []*ssa.Function
	for _, o := range ops {
		if len(byFn[o.fn]) == 0 {
			order = append(order, o.fn)
		}
		byFn[o.fn] = append(byFn[o.fn], o)
	}
	for _, fn := range order {
		var bad []string
		for _, o := range byFn[fn] {
			if !strings.Contains(o.enc, "<param:") {
				bad = append(bad, fmt.Sprintf("%s at %s is keyed by %s, which is not derived from a parameter of the method", o.name, o.site, o.enc))
				continue
			}
			if ag := agreed[classOf(o.name)]; ag.tie || o.enc != ag.best {
				bad = append(bad, fmt.Sprintf("%s at %s is keyed by %s while the other operations of its kind use %s (an entry stored under one encoding is not found under another)", o.name, o.site, o.enc, ag.best))
			}
			if o.enc != byFn[fn][0].enc {
				bad = append(bad, fmt.Sprintf("%s at %s is keyed by %s but %s in the same method by %s", o.name, o.site, o.enc, byFn[fn][0].name, byFn[fn][0].enc))
			}
		}
		c.Check(len(bad) == 0, "C36.lpmkey/"+fnName(fn), byFn[fn][0].site,
			fmt.Sprintf("%d keyed trie operation(s), all keyed by %s", len(byFn[fn]), byFn[fn][0].enc), strings.Join(bad, "; "))
	}
}
