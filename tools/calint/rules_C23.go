package main

import (
	"fmt"
	"go/constant"
	"go/token"
	"go/types"
	"sort"
	"strings"

	"golang.org/x/tools/go/ssa"
)

const c23Pkg = "kube-controllers/pkg/controllers/node"
const c23IPAMPkg = "libcalico-go/lib/ipam"

func init() {
	register(&Property{
		ID:        "C23",
		Title:     "IPAM garbage collection never frees an address that is still in use",
		Technique: "static analysis: who-may-call, cut-set guards with flag-variable (phi) reasoning incl. absorbing (veto) flags, slice-element provenance, pairing of bookkeeping maps, return-contract of derived name sources, edge facts lifted through flags and helper functions (go/ssa over kube-controllers/pkg/controllers/node)",
		DesignRef: "DESIGN.md §3 C23",
		Explanation: "Decides structural clauses of the IPAM GC in the node controller: (own) every releasing call on the IPAM client is made from its one GC function; " +
			"(final) every ReleaseOptions appended to the argument of ReleaseIPs comes from allocation.ReleaseOptions() of an allocation a for which, on every path, allocationIsValid(a,…) " +
			"returned false and handleTracker.isConfirmedLeak(a.handle) returned true; (confirm) entries are stored into confirmedLeaks only for allocations tested or marked confirmed, " +
			"keyed by a.id(); markConfirmedLeak without a timer is called only where the Kubernetes node is known not to exist (flag variable traced to nodeExists()/empty node name), " +
			"and additionally only with evidence that nothing on the node is in use: allocationIsValid(a,…)==false for the same allocation, or (tunnel addresses) behind a flag variable that every allocationIsValid()==true edge of the scan loop forces to the opposite value until it is tested; the timed path confirms only under time.Since(*leakedAt) > grace && grace > 0; the timer is started only when unset and cleared together with the confirmed flag by markValid; " +
			"VM allocations get a grace of at least vmRecreationGracePeriod; a changed sequence number re-validates the allocation; (handle) handleTracker.isConfirmedLeak returns true only " +
			"after the loop over all of the handle's allocations and false as soon as one is not confirmed, and every tracked allocation is unconditionally registered with the handle tracker; " +
			"(lastblock) ReleaseBlockAffinity is reached only with len(blocksByNode[node]) >= 2 for the node of the ranged empty block, after blockReleaseTracker.markEmpty(cidr) returned true, " +
			"for the cached block of the same CIDR, with mustBeEmpty=true, and a successful release is followed by forgetBlock(cidr) before the next iteration; markEmpty returns true only " +
			"on a second observation later than the grace period; (book) forgetBlock deletes the CIDR from every per-block map that onBlockUpdated fills (maps and deletes are collected in these functions and in every in-package helper they hand the block's CIDR to), and releaseAllocation undoes " +
			"every registration of assignAllocation plus the confirmedLeaks entry; " +
			"(knode) the node name that the scan passes to nodeExists() - whose emptiness counts as 'the Kubernetes node is gone' - comes from a (string, error) lookup, untimed confirmation is only reachable where that lookup's error was nil, and the lookup (kubernetesNodeForCalico, followed through `return f(x)` into getK8sNodeName) returns a nil error only together with a name tested non-empty or after Nodes().Get() failed with ErrorResourceDoesNotExist (type assertion or errors.As), so a cached \"\" placeholder, a non-Kubernetes node or a transient error never reads as a deleted node; " +
			"(vm) every function that consults DeferredInformers.VMInstanceIndexer() returns false only where VMIndexer().GetByKey reported the VirtualMachine absent and VMInstanceIndexer().GetByKey reported the instance absent or a metav1.OwnerReference.Kind == \"VirtualMachine\" (name of the KubeVirt API type) comparison held - established directly, through a flag variable, or inside boolean / nil-returning helper functions.",
		NotDecided: "Correctness of allocationIsValid's decision tree for pods (pod lookup, rescheduling, IP match) and stale caches; for VMs only the evidence behind a false verdict is decided, not that the owner reference belongs to the looked-up instance or carries the KubeVirt API group; behaviour of the IPAM library (sequence-number compare, partial release), " +
			"splitting of one handle across two batches by maxBatchSize, timing (what 'now' is), and that onBlockUpdated's diff of current vs. known allocations is complete.",
		Assumptions: []string{
			"go/types + go/ssa (x/tools v0.50.0) model of the current source, CGO_ENABLED=0 build",
			"logrus Panic*/Fatal* do not return",
			"the IPAM controller runs on one goroutine (design/ipam/ipam-gc.md)",
		},
		Run: runC23,
		Fixtures: []Fixture{
			{Name: "final re-validation removed", File: "kube-controllers/pkg/controllers/node/ipam.go",
				Old: "\t\tif c.allocationIsValid(a, a.knode == \"\") {\n\t\t\tlogc.Info(\"Leaked IP has been resurrected after querying latest state\")\n\t\t\tdelete(c.confirmedLeaks, id)\n\t\t\ta.markValid()\n\t\t\tcontinue\n\t\t}\n",
				New: "\t\t_ = id\n", Expect: "C23.final/revalidate"},
			{Name: "final re-validation inverted", File: "kube-controllers/pkg/controllers/node/ipam.go",
				Old: "if c.allocationIsValid(a, a.knode == \"\") {", New: "if !c.allocationIsValid(a, a.knode == \"\") {", Expect: "C23.final/revalidate"},
			{Name: "handle all-or-none check dropped", File: "kube-controllers/pkg/controllers/node/ipam.go",
				Old: "\t\tif !c.handleTracker.isConfirmedLeak(a.handle) {\n\t\t\tlogc.Debug(\"Some IPs with this handle are still valid, skipping\")\n\t\t\tcontinue\n\t\t}\n",
				New: "", Expect: "C23.final/handle"},
			{Name: "second release path by handle", File: "kube-controllers/pkg/controllers/node/ipam.go",
				Old: "\t\t\tlogc.Info(\"Leaked IP has been resurrected\")\n", New: "\t\t\tlogc.Info(\"Leaked IP has been resurrected\")\n\t\t\t_ = c.client.IPAM().ReleaseByHandle(context.TODO(), a.handle)\n", Expect: "C23.own/ReleaseByHandle"},
			{Name: "immediate confirmation regardless of node existence", File: "kube-controllers/pkg/controllers/node/ipam.go",
				Old: "\t\t\t} else if !kubernetesNodeExists {\n\t\t\t\t// The allocation is NOT valid, we can skip the candidacy stage.", New: "\t\t\t} else if kubernetesNodeExists || !kubernetesNodeExists {\n\t\t\t\t// The allocation is NOT valid, we can skip the candidacy stage.", Expect: "C23.confirm/nograce"},
			{Name: "node-exists flag initialised wrongly", File: "kube-controllers/pkg/controllers/node/ipam.go",
				Old: "\t\tif knode != \"\" && c.nodeExists(knode) {\n\t\t\tlogc.Debug(\"Node still exists\")\n\t\t\tkubernetesNodeExists = true\n\t\t}", New: "\t\tif knode != \"\" && c.nodeExists(knode) {\n\t\t\tlogc.Debug(\"Node still exists\")\n\t\t\tkubernetesNodeExists = false\n\t\t}", Expect: "C23.confirm/nograce"},
			{Name: "tunnel addresses confirmed while node exists", File: "kube-controllers/pkg/controllers/node/ipam.go",
				Old: "\t\tif !kubernetesNodeExists {\n\t\t\tif !canDelete {", New: "\t\tif true {\n\t\t\tif !canDelete {", Expect: "C23.confirm/nograce"},
			{Name: "tunnel addresses confirmed before the still-in-use check", File: "kube-controllers/pkg/controllers/node/ipam.go",
				Old: "\t\t\tif !canDelete {\n\t\t\t\t// There are still valid allocations on the node.\n",
				New: "\t\t\tfor _, a := range tunnelAddresses {\n\t\t\t\ta.markConfirmedLeak()\n\t\t\t\tc.confirmedLeaks[a.id()] = a\n\t\t\t}\n\t\t\tif !canDelete {\n\t\t\t\t// There are still valid allocations on the node.\n", Expect: "C23.confirm/evidence"},
			{Name: "valid allocation no longer vetoes node cleanup", File: "kube-controllers/pkg/controllers/node/ipam.go",
				Old: "\t\t\t\tcanDelete = false\n\t\t\t\ta.markValid()\n", New: "\t\t\t\ta.markValid()\n", Expect: "C23.confirm/evidence"},
			{Name: "veto re-armed by a later tunnel address", File: "kube-controllers/pkg/controllers/node/ipam.go",
				Old: "\t\t\t\ttunnelAddresses = append(tunnelAddresses, a)\n", New: "\t\t\t\ttunnelAddresses = append(tunnelAddresses, a)\n\t\t\t\tcanDelete = true\n", Expect: "C23.confirm/evidence"},
			{Name: "candidate stored as confirmed leak", File: "kube-controllers/pkg/controllers/node/ipam.go",
				Old: "\t\t\tif a.isConfirmedLeak() {\n\t\t\t\t// If the address", New: "\t\t\tif a.isCandidateLeak() {\n\t\t\t\t// If the address", Expect: "C23.confirm/store"},
			{Name: "grace comparison dropped in markLeak", File: "kube-controllers/pkg/controllers/node/ipam_allocation.go",
				Old: "if time.Since(*a.leakedAt) > leakGracePeriod && !a.isConfirmedLeak() {", New: "if !a.isConfirmedLeak() {", Expect: "C23.grace/elapsed"},
			{Name: "zero grace (GC disabled) confirms", File: "kube-controllers/pkg/controllers/node/ipam_allocation.go",
				Old: "\t\tif leakGracePeriod > 0 {\n\t\t\t// If the duration is 0, that means the user has turned off IPAM GC.\n\t\t\t// We don't want to mark as a confirmed leak. We still allow marking as a candidate\n\t\t\t// leak for informational purposes.\n\t\t\ta.markConfirmedLeak()\n\t\t}", New: "\t\ta.markConfirmedLeak()", Expect: "C23.grace/enabled"},
			{Name: "markValid keeps the old timer", File: "kube-controllers/pkg/controllers/node/ipam_allocation.go",
				Old: "\ta.confirmedLeak = false\n\ta.leakedAt = nil\n", New: "\ta.confirmedLeak = false\n", Expect: "C23.grace/reset"},
			{Name: "timer restarted on every scan", File: "kube-controllers/pkg/controllers/node/ipam_allocation.go",
				Old: "\tif a.leakedAt == nil {\n\t\tt := time.Now()\n\t\ta.leakedAt = &t\n\t\tlog.WithFields(a.fields()).Infof(\"Candidate IP leak\")\n\t}\n", New: "\tt := time.Now()\n\ta.leakedAt = &t\n", Expect: "C23.grace/start"},
			{Name: "VM allocation gets the plain pod grace", File: "kube-controllers/pkg/controllers/node/ipam.go",
				Old: "\t\t\t\tgracePeriod := c.vmRecreationGracePeriod\n\t\t\t\tif c.config.LeakGracePeriod != nil && c.config.LeakGracePeriod.Duration > gracePeriod {", New: "\t\t\t\tgracePeriod := c.vmRecreationGracePeriod\n\t\t\t\tif c.config.LeakGracePeriod != nil {", Expect: "C23.grace/vm-floor"},
			{Name: "re-allocated address keeps its leak state", File: "kube-controllers/pkg/controllers/node/ipam.go",
				Old: "\t\t\t\texisting.attrs = alloc.attrs\n\t\t\t\texisting.markValid()\n", New: "\t\t\t\texisting.attrs = alloc.attrs\n", Expect: "C23.confirm/reuse"},
			{Name: "handle counted confirmed on first confirmed address", File: "kube-controllers/pkg/controllers/node/ipam_allocation.go",
				Old: "\t\tif !a.isConfirmedLeak() {\n\t\t\t// If any IP with this handle is still valid, the whole\n\t\t\t// handle is valid.\n\t\t\tlog.WithFields(a.fields()).Debug(\"IP allocation that shares a handle is still valid\")\n\t\t\treturn false\n\t\t}\n", New: "\t\tif a.isConfirmedLeak() {\n\t\t\treturn true\n\t\t}\n", Expect: "C23.handle/all"},
			{Name: "handle tracker only fed for allocations with a node", File: "kube-controllers/pkg/controllers/node/ipam.go",
				Old: "\tif a.node() != \"\" {\n\t\tc.allocationState.allocate(a)\n\t}\n\tc.handleTracker.setAllocation(a)\n", New: "\tif a.node() != \"\" {\n\t\tc.allocationState.allocate(a)\n\t\tc.handleTracker.setAllocation(a)\n\t}\n", Expect: "C23.handle/registered"},
			{Name: "last-block test removed", File: "kube-controllers/pkg/controllers/node/ipam.go",
				Old: "\t\tif len(nodeBlocks) <= 1 {\n\t\t\tcontinue\n\t\t}\n", New: "\t\t_ = nodeBlocks\n", Expect: "C23.lastblock/count"},
			{Name: "last-block test off by one", File: "kube-controllers/pkg/controllers/node/ipam.go",
				Old: "if len(nodeBlocks) <= 1 {", New: "if len(nodeBlocks) < 1 {", Expect: "C23.lastblock/count"},
			{Name: "released block not forgotten", File: "kube-controllers/pkg/controllers/node/ipam.go",
				Old: "\t\tc.forgetBlock(blockCIDR)\n\t}\n\treturn nil\n}", New: "\t}\n\treturn nil\n}", Expect: "C23.lastblock/forget"},
			{Name: "single observation releases a block", File: "kube-controllers/pkg/controllers/node/ipam.go",
				Old: "\t\tif !c.blockReleaseTracker.markEmpty(blockCIDR) {\n\t\t\tlogc.Debug(\"Block is empty, but still within grace period\")\n\t\t\tcontinue\n\t\t}\n", New: "\t\tc.blockReleaseTracker.markEmpty(blockCIDR)\n", Expect: "C23.lastblock/two-observations"},
			{Name: "release a non-empty block", File: "kube-controllers/pkg/controllers/node/ipam.go",
				Old: "block.Value.(*model.AllocationBlock), true)", New: "block.Value.(*model.AllocationBlock), false)", Expect: "C23.lastblock/must-be-empty"},
			{Name: "first observation already releases", File: "kube-controllers/pkg/controllers/node/ipam_allocation.go",
				Old: "\t\t\tt.blocks[cidr] = time.Now()\n\t\t\treturn false\n", New: "\t\t\tt.blocks[cidr] = time.Now()\n\t\t\treturn true\n", Expect: "C23.lastblock/markEmpty"},
			{Name: "forgetBlock leaves the empty-block entry", File: "kube-controllers/pkg/controllers/node/ipam.go",
				Old: "\tdelete(c.nodesByBlock, blockCIDR)\n\tdelete(c.emptyBlocks, blockCIDR)\n\tdelete(c.coldBlocks, blockCIDR)\n", New: "\tdelete(c.nodesByBlock, blockCIDR)\n\tdelete(c.coldBlocks, blockCIDR)\n", Expect: "C23.book/forgetBlock/emptyBlocks"},
			{Name: "releaseAllocation keeps the confirmed-leak entry", File: "kube-controllers/pkg/controllers/node/ipam.go",
				Old: "\tc.handleTracker.removeAllocation(a)\n\tdelete(c.confirmedLeaks, a.id())\n", New: "\tc.handleTracker.removeAllocation(a)\n", Expect: "C23.book/releaseAllocation/confirmedLeaks"},
			{Name: "cached placeholder for a non-Kubernetes node returned as the node name", File: "kube-controllers/pkg/controllers/node/ipam.go",
				Old: "if kn, ok := c.kubernetesNodesByCalicoName[cnode]; ok && kn != \"\" {", New: "if kn, ok := c.kubernetesNodesByCalicoName[cnode]; ok {", Expect: "C23.knode/gone/IPAMController.kubernetesNodeForCalico"},
			{Name: "any datastore error reads as 'Calico node does not exist'", File: "kube-controllers/pkg/controllers/node/ipam.go",
				Old: "\t\tif _, ok := err.(cerrors.ErrorResourceDoesNotExist); ok {\n\t\t\tlog.WithError(err).Info(\"Calico Node referenced in IPAM data does not exist\")", New: "\t\tif _, ok := err.(cerrors.ErrorResourceDoesNotExist); !ok {\n\t\t\tlog.WithError(err).Info(\"Calico Node referenced in IPAM data does not exist\")", Expect: "C23.knode/gone/IPAMController.kubernetesNodeForCalico"},
			{Name: "k8s orchRef without a node name yields an empty name and no error", File: "kube-controllers/pkg/controllers/node/controller.go",
				Old: "\t\t\tif orchRef.NodeName == \"\" {\n\t\t\t\treturn \"\", &ErrorNotKubernetes{calicoNode.Name}\n\t\t\t} else {\n\t\t\t\treturn orchRef.NodeName, nil\n\t\t\t}\n", New: "\t\t\treturn orchRef.NodeName, nil\n", Expect: "C23.knode/gone/getK8sNodeName"},
			{Name: "node-name lookup error no longer skips the node", File: "kube-controllers/pkg/controllers/node/ipam.go",
				Old: "\t\t\tc.allocationState.markClean(cnode, \"node lookup skipped\")\n\t\t\tcontinue\n", New: "\t\t\tc.allocationState.markClean(cnode, \"node lookup skipped\")\n", Expect: "C23.knode/lookup-ok/IPAMController.checkAllocations"},
			{Name: "any controller owner counts as a VirtualMachine owner", File: "kube-controllers/pkg/controllers/node/ipam.go",
				Old: "\t\tif vmi.OwnerReferences[i].Kind == \"VirtualMachine\" {", New: "\t\tif vmi.OwnerReferences[i].Controller != nil && *vmi.OwnerReferences[i].Controller {", Expect: "C23.vm/standalone/IPAMController.isVMAllocationValid"},
			{Name: "standalone test inverted", File: "kube-controllers/pkg/controllers/node/ipam.go",
				Old: "\t\tif !hasVMOwner(vmi) {", New: "\t\tif hasVMOwner(vmi) {", Expect: "C23.vm/standalone/IPAMController.isVMAllocationValid"},
			{Name: "existing VirtualMachine no longer justifies its address", File: "kube-controllers/pkg/controllers/node/ipam.go",
				Old: "\tif vmExists {\n\t\tlogc.Debug(\"VM found, allocation is valid\")\n\t\treturn true\n\t}\n", New: "\t_ = vmExists\n", Expect: "C23.vm/novm/IPAMController.isVMAllocationValid"},
			{Name: "releaseAllocation leaves the handle tracker entry", File: "kube-controllers/pkg/controllers/node/ipam.go",
				Old: "\tc.handleTracker.removeAllocation(a)\n\tdelete(c.confirmedLeaks, a.id())\n", New: "\tdelete(c.confirmedLeaks, a.id())\n", Expect: "C23.book/releaseAllocation/handleTracker"},
		},
	})
}

type c23Model struct {
	c *Ctx
	p *Prog
	// fields
	fConfirmedLeaks, fBlocksByNode, fAllBlocks, fEmptyBlocks, fHandle, fLeakedAt, fConfirmed, fSeq, fVMGrace, fByHandle *types.Var
	funcs                                                                                                               []*ssa.Function
}

func (m *c23Model) isM(cs CallSite, typ, name string) bool {
	return cs.Callee != nil && isFunc(cs.Callee, c23Pkg, typ+"."+name)
}

func c23IsIPAMMethod(f *types.Func) bool {
	return f != nil && f.Pkg() != nil && f.Pkg().Path() == calicoPrefix+c23IPAMPkg && recvTypeName(f) == "Interface"
}

func runC23(c *Ctx) {
	p := c.Load(c23Pkg)
	m := &c23Model{c: c, p: p}
	m.fConfirmedLeaks = c23FieldObj(c, p, c23Pkg, "IPAMController.confirmedLeaks")
	m.fBlocksByNode = c23FieldObj(c, p, c23Pkg, "IPAMController.blocksByNode")
	m.fAllBlocks = c23FieldObj(c, p, c23Pkg, "IPAMController.allBlocks")
	m.fEmptyBlocks = c23FieldObj(c, p, c23Pkg, "IPAMController.emptyBlocks")
	m.fVMGrace = c23FieldObj(c, p, c23Pkg, "IPAMController.vmRecreationGracePeriod")
	m.fHandle = c23FieldObj(c, p, c23Pkg, "allocation.handle")
	m.fLeakedAt = c23FieldObj(c, p, c23Pkg, "allocation.leakedAt")
	m.fConfirmed = c23FieldObj(c, p, c23Pkg, "allocation.confirmedLeak")
	m.fSeq = c23FieldObj(c, p, c23Pkg, "allocation.sequenceNumber")
	m.fByHandle = c23FieldObj(c, p, c23Pkg, "handleTracker.allocationsByHandle")
	m.funcs = p.AllFuncs()

	c.Rule("C23.own", "E-OWN", "every Release*/Remove* call on the IPAM client in the node controller is made by the one function that owns that kind of release", 3)
	c.Rule("C23.final", "E-FLOW/E-GUARD", "every element appended to the argument of ReleaseIPs is a.ReleaseOptions() with !allocationIsValid(a,…) and handleTracker.isConfirmedLeak(a.handle) established on every path", 3)
	c.Rule("C23.confirm", "E-GUARD/E-OWN/E-PAIR", "confirmedLeaks stores only for confirmed allocations keyed by id(); untimed markConfirmedLeak only where the node is known not to exist; untimed confirmation needs invalidity evidence (own test or node-wide flag); re-allocation re-validates", 11)
	c.Rule("C23.grace", "E-GUARD/E-OWN", "timed confirmation only after time.Since(*leakedAt) > grace with grace > 0; timer started only when unset, cleared by markValid; VM grace floored by vmRecreationGracePeriod", 10)
	c.Rule("C23.handle", "E-GUARD/E-PAIR", "handleTracker.isConfirmedLeak is a universal quantifier over the handle's allocations; every tracked allocation is registered with the handle tracker", 3)
	c.Rule("C23.lastblock", "E-GUARD/E-FLOW/E-PAIR", "ReleaseBlockAffinity only with >= 2 blocks on the block's node, after a second-observation markEmpty, mustBeEmpty=true, followed by forgetBlock; markEmpty true only after the grace period", 8)
	c.Rule("C23.knode", "E-GUARD/E-FLOW", "the node name the scan tests with nodeExists() comes from a (string, error) lookup whose error was nil; that lookup (followed through tail delegation) returns a nil error only with a name tested non-empty or after ErrorResourceDoesNotExist from Nodes().Get()", 3)
	c.Rule("C23.vm", "E-GUARD", "the VM/VMI cache consulter returns false only where the VirtualMachine lookup said absent and the instance lookup said absent or an OwnerReference.Kind == VirtualMachine comparison held (directly, via flag, or inside a boolean helper)", 2)
	c.Rule("C23.book", "E-PAIR", "forgetBlock clears every per-block map filled by onBlockUpdated; releaseAllocation undoes every registration made by assignAllocation and the confirmedLeaks entry", 13)

	// Each family resolves its own anchors.  A lost anchor breaks the check (exit
	// 2) but only silences the family that needs it: the others still run, so an
	// unrelated refactor never hides their verdicts.
	var lost []string
	for _, fam := range []func(*c23Model){c23Own, c23Final, c23Confirm, c23Grace, c23Handle, c23LastBlock,
		c23BookBlocks, c23BookForget, c23BookAllocations, c23KNode, c23VM} {
		c23Guarded(&lost, func() { fam(m) })
	}
	if len(lost) > 0 {
		c.Lost("%s", strings.Join(lost, " | "))
	}
}

// ------------------------------------------------------------------- own --

var c23Owners = map[string]string{
	"ReleaseIPs":            "IPAMController.garbageCollectKnownLeaks",
	"ReleaseBlockAffinity":  "IPAMController.releaseUnusedBlocks",
	"ReleaseHostAffinities": "IPAMController.cleanupNode",
}

func c23Releasing(name string) bool {
	return strings.HasPrefix(name, "Release") || strings.HasPrefix(name, "Remove")
}

func c23Own(m *c23Model) {
	c, p := m.c, m.p
	found := map[string]int{}
	for _, f := range m.funcs {
		for _, cs := range callsIn(f, false, func(fn *types.Func) bool { return c23IsIPAMMethod(fn) && c23Releasing(fn.Name()) }) {
			name := cs.Callee.Name()
			owner := c23Owners[name]
			host := fnName(topFn(f))
			found[name]++
			c.Check(owner != "" && host == owner && f.Parent() == nil, "C23.own/"+name+"@"+host, p.Pos(cs.Instr.Pos()),
				"IPAM "+name+" called from its owning GC function "+owner,
				fmt.Sprintf("IPAM %s called from %s; the GC's guards live in %q only", name, fnName(f), owner))
		}
	}
	for name, owner := range c23Owners {
		if found[name] == 0 {
			c.Lost("no call of ipam.Interface.%s in %s (expected in %s)", name, c23Pkg, owner)
		}
	}
}

// ----------------------------------------------------------------- final --

func c23Final(m *c23Model) {
	c, p := m.c, m.p
	n := 0
	for _, f := range m.funcs {
		for _, cs := range callsIn(f, false, func(fn *types.Func) bool { return c23IsIPAMMethod(fn) && fn.Name() == "ReleaseIPs" }) {
			n++
			host := fnName(f)
			args := cs.Args() // recv, ctx, ips...
			if len(args) != 3 {
				c.Lost("ReleaseIPs call shape in %s", host)
			}
			var stray []string
			elems := c23Appended(args[2], func(v ssa.Value) {
				if !isNilConst(v) {
					stray = append(stray, path(v))
				}
			})
			c.Check(len(stray) == 0 && len(elems) > 0, "C23.final/provenance/"+host, p.Pos(cs.Instr.Pos()),
				fmt.Sprintf("argument of ReleaseIPs is built only by %d append site(s) in %s", len(elems), host),
				fmt.Sprintf("argument of ReleaseIPs has sources other than local appends: %v (elements=%d)", stray, len(elems)))
			for _, e := range elems {
				site := p.Pos(e.App.Pos())
				call, _ := e.Elem.(*ssa.Call)
				var a ssa.Value
				if call != nil {
					a = c23CallOn(CallSite{call, calleeOf(call.Common()), f}, c23Pkg, "allocation", "ReleaseOptions")
				}
				if a == nil {
					c.Violate("C23.final/revalidate/"+host, site, "element appended for release is %s, not allocation.ReleaseOptions() (sequence number and guards cannot be tied to an allocation)", path(e.Elem))
					continue
				}
				reval := guardedCut(e.App, callCond(false, func(g CallSite) bool {
					return m.isM(g, "IPAMController", "allocationIsValid") && len(g.Args()) == 3 && c23Same(g.Args()[1], a)
				}))
				c.Check(reval, "C23.final/revalidate/"+host, site,
					"append of "+path(a)+".ReleaseOptions() only reachable after allocationIsValid("+path(a)+",…) returned false",
					"append of "+path(a)+".ReleaseOptions() reachable without a final allocationIsValid("+path(a)+",…)==false on the same allocation")
				handle := guardedCut(e.App, callCond(true, func(g CallSite) bool {
					if !m.isM(g, "handleTracker", "isConfirmedLeak") || len(g.Args()) != 2 {
						return false
					}
					h := g.Args()[1]
					_, _, base, ok := fieldOf(h)
					return ok && fieldVar(h) == m.fHandle && c23Same(base, a)
				}))
				c.Check(handle, "C23.final/handle/"+host, site,
					"append only reachable after handleTracker.isConfirmedLeak("+path(a)+".handle) returned true",
					"append of "+path(a)+".ReleaseOptions() reachable without handleTracker.isConfirmedLeak("+path(a)+".handle)==true (a handle could be released partially)")
			}
		}
	}
	if n == 0 {
		c.Lost("no ReleaseIPs call")
	}
}

// --------------------------------------------------------------- confirm --

// c23NotExists: edge establishes "the Kubernetes node does not exist": nodeExists(x)
// returned false, or x (an argument of a nodeExists call in fn) is the empty string.
func c23NotExists(m *c23Model, fn *ssa.Function) EdgePred {
	var names []ssa.Value
	for _, cs := range callsIn(fn, false, func(f *types.Func) bool { return isFunc(f, c23Pkg, "IPAMController.nodeExists") }) {
		if a := cs.Args(); len(a) == 2 {
			names = append(names, a[1])
		}
	}
	isName := func(v ssa.Value) bool {
		for _, n := range names {
			if c23Same(v, n) {
				return true
			}
		}
		return false
	}
	isEmpty := func(v ssa.Value) bool {
		cv, ok := constOf(v)
		return ok && cv.ExactString() == `""`
	}
	base := anyOf(
		callCond(false, func(g CallSite) bool { return m.isM(g, "IPAMController", "nodeExists") }),
		eqCond(true, isName, isEmpty),
	)
	return anyOf(base, c23FlagPred(base))
}

func c23Confirm(m *c23Model) {
	c, p := m.c, m.p
	// (1) stores into confirmedLeaks
	nStores := 0
	for _, f := range m.funcs {
		for _, mu := range mapUpdatesOfField(f, false, "IPAMController", "confirmedLeaks") {
			if fieldVar(mu.Map) != m.fConfirmedLeaks {
				continue
			}
			nStores++
			host := fnName(f)
			site := p.Pos(mu.Pos())
			a := mu.Value
			tested := guardedCut(mu, callCond(true, func(g CallSite) bool {
				return m.isM(g, "allocation", "isConfirmedLeak") && c23Same(g.Args()[0], a)
			}))
			marked := false
			for _, cs := range callsIn(f, false, func(fn *types.Func) bool { return isFunc(fn, c23Pkg, "allocation.markConfirmedLeak") }) {
				if c23Same(cs.Args()[0], a) && instrDominates(cs.Instr, mu) {
					marked = true
				}
			}
			c.Check(tested || marked, "C23.confirm/store/"+host, site,
				fmt.Sprintf("confirmedLeaks[...] = %s only after %s (tested=%v marked=%v)", path(a), "isConfirmedLeak()/markConfirmedLeak() on the same allocation", tested, marked),
				"store of "+path(a)+" into confirmedLeaks is neither guarded by "+path(a)+".isConfirmedLeak() nor dominated by "+path(a)+".markConfirmedLeak()")
			keyOK := false
			if kc, ok := mu.Key.(*ssa.Call); ok {
				if r := c23CallOn(CallSite{kc, calleeOf(kc.Common()), f}, c23Pkg, "allocation", "id"); r != nil && c23Same(r, a) {
					keyOK = true
				}
			}
			c.Check(keyOK, "C23.confirm/key/"+host, site, "confirmedLeaks key is id() of the stored allocation", "confirmedLeaks key "+path(mu.Key)+" is not "+path(a)+".id() (releaseAllocation deletes by id())")
		}
	}
	if nStores == 0 {
		c.Lost("no store into IPAMController.confirmedLeaks")
	}
	// (2) callers of markConfirmedLeak
	nCalls := 0
	for _, f := range m.funcs {
		for _, cs := range callsIn(f, false, func(fn *types.Func) bool { return isFunc(fn, c23Pkg, "allocation.markConfirmedLeak") }) {
			nCalls++
			host := fnName(f)
			if host == "allocation.markLeak" {
				continue // timed path: C23.grace
			}
			ok := guardedCut(cs.Instr, c23NotExists(m, f))
			c.Check(ok, "C23.confirm/nograce/"+host, p.Pos(cs.Instr.Pos()),
				"untimed markConfirmedLeak only reachable where nodeExists() returned false or the node name is empty (directly or through a flag variable set only on such edges)",
				"markConfirmedLeak (no grace period) in "+host+" is reachable on a path where the Kubernetes node may still exist")
			c23Evidence(m, f, cs)
		}
	}
	if nCalls < 3 {
		c.Lost("expected >= 3 callers of allocation.markConfirmedLeak, found %d", nCalls)
	}
	// (3) stores of the confirmed flag only in markConfirmedLeak(true)/markValid(false)
	for _, f := range m.funcs {
		for _, st := range storesToField(f, false, "allocation", "confirmedLeak") {
			host := fnName(f)
			cv, isConst := constOf(st.Val)
			val := "non-constant"
			if isConst {
				val = cv.String()
			}
			ok := (host == "allocation.markConfirmedLeak" && val == "true") || (host == "allocation.markValid" && val == "false")
			c.Check(ok, "C23.confirm/flag-writer/"+host, p.Pos(st.Pos()), "confirmedLeak="+val+" written by "+host, "confirmedLeak="+val+" written in "+host+"; only markConfirmedLeak (true) and markValid (false) may write it")
		}
	}
	// (4) re-allocation: a store to sequenceNumber of an existing allocation is followed by markValid
	nSeq := 0
	for _, f := range m.funcs {
		pd := postDominators(f)
		for _, st := range storesToField(f, false, "allocation", "sequenceNumber") {
			fa := st.Addr.(*ssa.FieldAddr)
			if _, fresh := fa.X.(*ssa.Alloc); fresh {
				continue // composite literal of a new allocation
			}
			nSeq++
			ok := false
			for _, cs := range callsIn(f, false, func(fn *types.Func) bool { return isFunc(fn, c23Pkg, "allocation.markValid") }) {
				if c23Same(cs.Args()[0], fa.X) && (instrPostDominates(pd, cs.Instr, st) || instrDominates(cs.Instr, st) && cs.Instr.Block() == st.Block()) {
					ok = true
				}
			}
			c.Check(ok, "C23.confirm/reuse/"+fnName(f), p.Pos(st.Pos()),
				"a changed sequence number (address re-allocated) is always followed by markValid() on the same allocation",
				"sequenceNumber of "+path(fa.X)+" is updated without markValid(): a re-allocated address inherits the old leak timer/confirmation and would be released with the new sequence number")
		}
	}
	if nSeq == 0 {
		c.Lost("no in-place update of allocation.sequenceNumber")
	}
}

// c23Evidence: a missing Kubernetes node alone does not justify skipping the
// grace period.  Every untimed markConfirmedLeak(a) additionally needs evidence
// that nothing on the node is in use any more: either (own) a itself was just
// found invalid - allocationIsValid(a,…) returned false on every path - or
// (node-wide, for allocations that have no validity test of their own such as
// tunnel addresses) the call is guarded by a flag variable that every
// allocationIsValid(…)==true edge of the scan forces to the opposite value.
func c23Evidence(m *c23Model, f *ssa.Function, cs CallSite) {
	c, p := m.c, m.p
	host := fnName(f)
	site := p.Pos(cs.Instr.Pos())
	a := cs.Args()[0]
	isValidCall := func(g CallSite) bool { return m.isM(g, "IPAMController", "allocationIsValid") && len(g.Args()) == 3 }
	own := guardedCut(cs.Instr, callCond(false, func(g CallSite) bool { return isValidCall(g) && c23Same(g.Args()[1], a) }))
	if own {
		c.Ok("C23.confirm/evidence/"+host, site, "untimed markConfirmedLeak(%s) only after allocationIsValid(%s,…) returned false", c23Short(a), c23Short(a))
		return
	}
	stillValid := callCond(true, isValidCall)
	nEvents := 0
	notExists := c23NotExists(m, f)
	nodeWide := guardedCut(cs.Instr, func(cond ssa.Value, pol bool) bool {
		ok, n := c23FlagAbsorbs(cond, pol, stillValid)
		if ok {
			nEvents = n
		}
		return ok
	})
	if nodeWide {
		c.Ok("C23.confirm/evidence/"+host, site, "untimed markConfirmedLeak(%s) has no validity test of its own and is only reachable behind a flag that every allocationIsValid()==true edge of the scan (%d) clears", c23Short(a), nEvents)
		return
	}
	// A guard we cannot interpret (flag computed by a helper, …): do not guess.
	opaque := guardedCut(cs.Instr, func(cond ssa.Value, pol bool) bool {
		if notExists(cond, pol) {
			return false
		}
		switch x := cond.(type) {
		case *ssa.Phi:
			_, n := c23FlagAbsorbs(cond, pol, stillValid)
			return n == 0 // a flag no still-valid edge leads to: its meaning is unknown
		case *ssa.Call:
			_, builtin := x.Call.Value.(*ssa.Builtin)
			return !builtin
		}
		return false
	})
	if opaque {
		c.Undecided("C23.confirm/evidence/"+host, site, "untimed markConfirmedLeak(%s) is guarded only by conditions whose relation to allocationIsValid cannot be decided", c23Short(a))
		return
	}
	c.Violate("C23.confirm/evidence/"+host, site,
		"untimed markConfirmedLeak(%s) in %s is reachable although an allocation of the node may still be valid: neither allocationIsValid(%s,…)==false nor a flag cleared by every allocationIsValid()==true edge guards it (a vanished Node object alone does not prove the node's addresses unused)",
		c23Short(a), host, c23Short(a))
}

// c23Short renders a value for a message, truncating long phi/append paths.
func c23Short(v ssa.Value) string {
	s := pathN(v, 3)
	if strings.Contains(s, "phi(") {
		return "<" + v.Type().String() + " taken from a locally built collection>"
	}
	if r := []rune(s); len(r) > 60 {
		return string(r[:60]) + "…"
	}
	return s
}

// ----------------------------------------------------------------- grace --

func c23Grace(m *c23Model) {
	c, p := m.c, m.p
	markLeak := c23Func(c, p, c23Pkg, "allocation.markLeak")
	markValid := c23Func(c, p, c23Pkg, "allocation.markValid")
	if len(markLeak.Params) != 2 {
		c.Lost("markLeak signature")
	}
	recv, grace := markLeak.Params[0], markLeak.Params[1]
	isSince := func(v ssa.Value) bool {
		call, ok := v.(*ssa.Call)
		if !ok {
			return false
		}
		f := calleeOf(call.Common())
		if f == nil || f.Pkg() == nil || f.Pkg().Path() != "time" || f.Name() != "Since" {
			return false
		}
		arg := call.Call.Args[0]
		_, _, base, ok2 := fieldOf(arg)
		return ok2 && fieldVar(arg) == m.fLeakedAt && base == ssa.Value(recv)
	}
	isGrace := func(v ssa.Value) bool { return v == ssa.Value(grace) }
	n := 0
	for _, cs := range callsIn(markLeak, false, func(fn *types.Func) bool { return isFunc(fn, c23Pkg, "allocation.markConfirmedLeak") }) {
		n++
		site := p.Pos(cs.Instr.Pos())
		c.Check(guardedCut(cs.Instr, c23GreaterCond(true, isSince, isGrace)), "C23.grace/elapsed/markLeak", site,
			"markConfirmedLeak in markLeak only after time.Since(*a.leakedAt) > leakGracePeriod",
			"markConfirmedLeak in markLeak is reachable without time.Since(*a.leakedAt) exceeding the grace period parameter")
		c.Check(guardedCut(cs.Instr, c23IntAtLeast(1, isGrace)), "C23.grace/enabled/markLeak", site,
			"markConfirmedLeak in markLeak only with leakGracePeriod > 0 (0 = GC disabled)",
			"markConfirmedLeak in markLeak reachable with leakGracePeriod == 0 (GC disabled by the operator)")
		c.Check(c23Same(cs.Args()[0], recv), "C23.grace/self/markLeak", site, "confirms its own receiver", "markLeak confirms a different allocation than its receiver")
	}
	if n == 0 {
		c.Lost("markLeak does not call markConfirmedLeak")
	}
	// writers of leakedAt
	nStart := 0
	for _, f := range m.funcs {
		for _, st := range storesToField(f, false, "allocation", "leakedAt") {
			host := fnName(f)
			site := p.Pos(st.Pos())
			fa := st.Addr.(*ssa.FieldAddr)
			switch {
			case isNilConst(st.Val):
				c.Check(host == "allocation.markValid", "C23.grace/reset-writer/"+host, site, "leak timer cleared by markValid", "leak timer cleared in "+host+" (only markValid may clear it)")
			default:
				nStart++
				unset := guardedCut(st, c23NilCond(true, func(v ssa.Value) bool {
					_, _, base, ok := fieldOf(v)
					return ok && fieldVar(v) == m.fLeakedAt && c23Same(base, fa.X)
				}))
				c.Check(host == "allocation.markLeak" && unset, "C23.grace/start/"+host, site,
					"leak timer started in markLeak only while leakedAt == nil",
					"leakedAt set in "+host+" without a leakedAt == nil guard: the grace period restarts (or is started outside markLeak)")
			}
		}
	}
	if nStart == 0 {
		c.Lost("no store starting allocation.leakedAt")
	}
	// markValid clears both
	for _, want := range []struct {
		fld   string
		isVal func(ssa.Value) bool
	}{
		{"leakedAt", isNilConst},
		{"confirmedLeak", func(v ssa.Value) bool { cv, ok := constOf(v); return ok && cv.String() == "false" }},
	} {
		ok := false
		for _, st := range storesToField(markValid, false, "allocation", want.fld) {
			fa := st.Addr.(*ssa.FieldAddr)
			if want.isVal(st.Val) && fa.X == ssa.Value(markValid.Params[0]) && c23DominatesReturns(st) {
				ok = true
			}
		}
		c.Check(ok, "C23.grace/reset/markValid/"+want.fld, p.Pos(markValid.Pos()),
			"markValid clears "+want.fld+" on every path", "markValid does not clear "+want.fld+" on every path: a later invalid observation would reuse stale leak state (no fresh grace period)")
	}
	// arguments of markLeak in the scanner
	nArgs := 0
	for _, f := range m.funcs {
		for _, cs := range callsIn(f, false, func(fn *types.Func) bool { return isFunc(fn, c23Pkg, "allocation.markLeak") }) {
			nArgs++
			host := fnName(f)
			site := p.Pos(cs.Instr.Pos())
			arg := cs.Args()[1]
			vm := guardedCut(cs.Instr, callCond(true, func(g CallSite) bool {
				return m.isM(g, "allocation", "isVMAllocation") && c23Same(g.Args()[0], cs.Args()[0])
			}))
			isVMGrace := func(v ssa.Value) bool { return fieldVar(v) == m.fVMGrace }
			var consts []string
			c23Back(arg, nil, func(v ssa.Value) {
				if _, ok := v.(*ssa.Const); ok {
					consts = append(consts, path(v))
				}
			})
			c.Check(len(consts) == 0, "C23.grace/configured/"+host, site, "grace period passed to markLeak comes from configuration fields", fmt.Sprintf("markLeak called with a literal grace period %v", consts))
			if !vm {
				continue
			}
			ok := c23AtLeast(arg, isVMGrace)
			c.Check(ok, "C23.grace/vm-floor/"+host, site,
				"grace period of a VM allocation is vmRecreationGracePeriod, or a value selected only where it is greater",
				"grace period passed to markLeak for a VM allocation ("+path(arg)+") is not bounded below by vmRecreationGracePeriod")
		}
	}
	if nArgs < 2 {
		c.Lost("expected >= 2 markLeak call sites, found %d", nArgs)
	}
}

// c23AtLeast: value v is >= some value satisfying floor on every path: v is the
// floor itself, max(...floor...), or a phi each of whose edges is the floor or is
// taken only where that edge's value was compared greater than the floor.
func c23AtLeast(v ssa.Value, floor func(ssa.Value) bool) bool {
	if floor(v) {
		return true
	}
	switch x := v.(type) {
	case *ssa.Call:
		if b, ok := x.Call.Value.(*ssa.Builtin); ok && b.Name() == "max" {
			for _, a := range x.Call.Args {
				if c23AtLeast(a, floor) {
					return true
				}
			}
		}
	case *ssa.Phi:
		for i, e := range x.Edges {
			if c23AtLeast(e, floor) {
				continue
			}
			e := e
			pred := c23GreaterCond(true, func(h ssa.Value) bool { return c23Same(h, e) }, floor)
			if !c23EdgeEstablished(x.Block().Preds[i], x.Block(), pred) {
				return false
			}
		}
		return true
	}
	return false
}

// ---------------------------------------------------------------- handle --

func c23Handle(m *c23Model) {
	c, p := m.c, m.p
	f := c23Func(c, p, c23Pkg, "handleTracker.isConfirmedLeak")
	site := p.Pos(f.Pos())
	handle := f.Params[1]
	// the loop over allocationsByHandle[handle]
	isLoopOverHandle := func(next *ssa.Next) bool {
		rg, ok := next.Iter.(*ssa.Range)
		if !ok {
			return false
		}
		lk, ok := rg.X.(*ssa.Lookup)
		return ok && fieldVar(lk.X) == m.fByHandle && lk.Index == ssa.Value(handle)
	}
	var tests []*ssa.If
	for _, b := range f.Blocks {
		ifi, ok := b.Instrs[len(b.Instrs)-1].(*ssa.If)
		if !ok {
			continue
		}
		cond, _ := stripNot(ifi.Cond, true)
		cs, ok := condCall(cond)
		if !ok || !m.isM(cs, "allocation", "isConfirmedLeak") {
			continue
		}
		ex, ok := cs.Args()[0].(*ssa.Extract)
		if !ok {
			continue
		}
		nx, ok := ex.Tuple.(*ssa.Next)
		if ok && ex.Index == 2 && isLoopOverHandle(nx) {
			tests = append(tests, ifi)
		}
	}
	if len(tests) == 0 {
		c.Violate("C23.handle/all/isConfirmedLeak", site, "handleTracker.isConfirmedLeak has no test of allocation.isConfirmedLeak() on the elements of allocationsByHandle[handle]")
	} else {
		// (a) every `return true` lies behind the loop's exhaustion edge
		okTrue, okFalse, undecided := true, true, false
		nTrue := 0
		for _, r := range returnsOf(f) {
			if len(r.Results) != 1 {
				continue
			}
			cv, isConst := constOf(r.Results[0])
			if isConst && cv.String() == "false" {
				continue
			}
			if !isConst {
				undecided = true
			}
			nTrue++
			exhausted := guardedCut(r, func(cond ssa.Value, pol bool) bool {
				ex, ok := cond.(*ssa.Extract)
				if !ok || ex.Index != 0 || pol {
					return false
				}
				nx, ok := ex.Tuple.(*ssa.Next)
				return ok && isLoopOverHandle(nx)
			})
			if !exhausted {
				okTrue = false
			}
		}
		// (b) from the not-confirmed edge only `return false` is reachable
		for _, ifi := range tests {
			_, pol := stripNot(ifi.Cond, true)
			k := 1 // successor on which the call returned false
			if !pol {
				k = 0
			}
			seen := map[*ssa.BasicBlock]bool{}
			st := []*ssa.BasicBlock{ifi.Block().Succs[k]}
			for len(st) > 0 {
				b := st[len(st)-1]
				st = st[:len(st)-1]
				if seen[b] {
					continue
				}
				seen[b] = true
				if r, ok := b.Instrs[len(b.Instrs)-1].(*ssa.Return); ok {
					cv, isConst := constOf(r.Results[0])
					if !isConst {
						undecided = true
					} else if cv.String() != "false" {
						okFalse = false
					}
					continue
				}
				if isPanicBlock(b) {
					continue
				}
				st = append(st, b.Succs...)
			}
		}
		if undecided {
			c.Undecided("C23.handle/all/isConfirmedLeak", site, "isConfirmedLeak returns a computed (non-constant) value; the universal-quantifier shape cannot be decided")
			return
		}
		c.Check(okTrue && okFalse && nTrue > 0, "C23.handle/all/isConfirmedLeak", site,
			"returns true only after the loop over allocationsByHandle[handle] is exhausted; an unconfirmed element leads to return false",
			fmt.Sprintf("handleTracker.isConfirmedLeak is not a universal check over the handle's allocations (true-only-after-loop=%v, unconfirmed-returns-false=%v)", okTrue, okFalse))
	}
	// registration: assignAllocation calls handleTracker.setAllocation(a) unconditionally; allocationsByBlock store too
	assign := c23Func(c, p, c23Pkg, "IPAMController.assignAllocation")
	a := assign.Params[2]
	reg := false
	for _, cs := range callsIn(assign, false, func(fn *types.Func) bool { return isFunc(fn, c23Pkg, "handleTracker.setAllocation") }) {
		if cs.Args()[1] == ssa.Value(a) && c23DominatesReturns(cs.Instr) {
			reg = true
		}
	}
	c.Check(reg, "C23.handle/registered/assignAllocation", p.Pos(assign.Pos()),
		"assignAllocation registers every allocation with the handle tracker on every path",
		"assignAllocation does not call handleTracker.setAllocation(a) on every path: isConfirmedLeak(handle) would not see all of the handle's addresses")
	// setAllocation is called only from assignAllocation (one registration path)
	for _, f := range m.funcs {
		for _, cs := range callsIn(f, false, func(fn *types.Func) bool { return isFunc(fn, c23Pkg, "handleTracker.setAllocation") }) {
			c.Check(f == assign, "C23.handle/register-owner/"+fnName(f), p.Pos(cs.Instr.Pos()), "handleTracker.setAllocation called from assignAllocation", "handleTracker.setAllocation called outside assignAllocation (tracking maps can drift)")
		}
	}
}

// ------------------------------------------------------------- lastblock --

func c23LastBlock(m *c23Model) {
	c, p := m.c, m.p
	n := 0
	for _, f := range m.funcs {
		for _, cs := range callsIn(f, false, func(fn *types.Func) bool { return c23IsIPAMMethod(fn) && fn.Name() == "ReleaseBlockAffinity" }) {
			n++
			host := fnName(f)
			site := p.Pos(cs.Instr.Pos())
			args := cs.Args() // recv, ctx, block, mustBeEmpty
			if len(args) != 4 {
				c.Lost("ReleaseBlockAffinity call shape")
			}
			// which cached block?  block value <- c.allBlocks[cidr]
			var cidr ssa.Value
			c23Back(args[2], func(v ssa.Value) bool { _, ok := v.(*ssa.Lookup); return ok }, func(v ssa.Value) {
				if lk, ok := v.(*ssa.Lookup); ok && fieldVar(lk.X) == m.fAllBlocks {
					cidr = lk.Index
				}
			})
			if cidr == nil {
				c.Violate("C23.lastblock/block/"+host, site, "block passed to ReleaseBlockAffinity (%s) is not read from the allBlocks cache", path(args[2]))
				continue
			}
			// cidr and node come from one iteration over emptyBlocks
			rng := c23RangeOf(cidr, 1)
			fromEmpty := rng != nil && fieldVar(rng) == m.fEmptyBlocks
			c.Check(fromEmpty, "C23.lastblock/block/"+host, site, "released block is allBlocks[cidr] for a cidr ranged from emptyBlocks", "released block's CIDR "+path(cidr)+" is not a key ranged from emptyBlocks")
			var node ssa.Value
			if ex, ok := cidr.(*ssa.Extract); ok {
				for _, r := range *ex.Tuple.Referrers() {
					if e2, ok := r.(*ssa.Extract); ok && e2.Index == 2 {
						node = e2
					}
				}
			}
			isLenOfNodeBlocks := func(v ssa.Value) bool {
				call, ok := v.(*ssa.Call)
				if !ok {
					return false
				}
				b, ok := call.Call.Value.(*ssa.Builtin)
				if !ok || b.Name() != "len" {
					return false
				}
				lk, ok := call.Call.Args[0].(*ssa.Lookup)
				return ok && fieldVar(lk.X) == m.fBlocksByNode && node != nil && c23Same(lk.Index, node)
			}
			c.Check(guardedCut(cs.Instr, c23IntAtLeast(2, isLenOfNodeBlocks)), "C23.lastblock/count/"+host, site,
				"release only reachable with len(blocksByNode[node of this block]) >= 2",
				"ReleaseBlockAffinity reachable without len(blocksByNode[node]) >= 2 for the block's own node: a node's last block can be released")
			c.Check(guardedCut(cs.Instr, callCond(true, func(g CallSite) bool {
				return m.isM(g, "blockReleaseTracker", "markEmpty") && c23Same(g.Args()[1], cidr)
			})), "C23.lastblock/two-observations/"+host, site,
				"release only reachable after blockReleaseTracker.markEmpty(cidr) returned true",
				"ReleaseBlockAffinity reachable without blockReleaseTracker.markEmpty("+path(cidr)+") == true")
			cv, isConst := constOf(args[3])
			c.Check(isConst && cv.String() == "true", "C23.lastblock/must-be-empty/"+host, site, "mustBeEmpty is the constant true", "ReleaseBlockAffinity called with mustBeEmpty="+path(args[3]))
			// forgetBlock(cidr) before the next iteration / return on the success edge
			errVal := ssa.Value(cs.Instr.(*ssa.Call))
			failed := c23NilCond(false, func(v ssa.Value) bool { return v == errVal })
			escape := c23ReachAvoiding(cs.Instr,
				func(in ssa.Instruction) bool {
					ci, ok := in.(ssa.CallInstruction)
					if !ok {
						return false
					}
					g := CallSite{ci, calleeOf(ci.Common()), f}
					return m.isM(g, "IPAMController", "forgetBlock") && c23Same(g.Args()[1], cidr)
				}, failed,
				func(in ssa.Instruction) bool {
					switch in.(type) {
					case *ssa.Return, *ssa.Next:
						return true
					}
					return false
				})
			c.Check(escape == nil, "C23.lastblock/forget/"+host, site,
				"after a successful release forgetBlock(cidr) runs before the next iteration (blocksByNode stays exact for the node's remaining empty blocks)",
				"after a successful ReleaseBlockAffinity the loop continues without forgetBlock("+path(cidr)+"): the stale blocksByNode count lets the node's other empty blocks, including its last, be released")
		}
	}
	if n == 0 {
		c.Lost("no ReleaseBlockAffinity call")
	}
	// markEmpty: true only on a later observation, after the grace period
	me := c23Func(c, p, c23Pkg, "blockReleaseTracker.markEmpty")
	fBlocks := c23FieldObj(c, p, c23Pkg, "blockReleaseTracker.blocks")
	fGrace := c23FieldObj(c, p, c23Pkg, "blockReleaseTracker.leakGracePeriod")
	cidr := me.Params[1]
	seenBefore := lookupOkCond(true, func(v ssa.Value) bool { return fieldVar(v) == fBlocks })
	okAll, nRet := true, 0
	why := ""
	for _, r := range returnsOf(me) {
		cv, isConst := constOf(r.Results[0])
		if isConst && cv.String() == "false" {
			continue
		}
		nRet++
		if !guardedCut(r, seenBefore) {
			okAll, why = false, "a non-false return is reachable without a previous observation (blocks[cidr] present)"
			continue
		}
		// result must be Since(first) > *grace with first = blocks[cidr]
		hi, lo, _, ok := c23Greater(r.Results[0], true)
		if !ok {
			okAll, why = false, "returned value "+path(r.Results[0])+" is not a comparison with the grace period"
			continue
		}
		sinceOK, graceOK := false, fieldVar(lo) == fGrace
		if call, ok := hi.(*ssa.Call); ok {
			if fn := calleeOf(call.Common()); fn != nil && fn.Pkg() != nil && fn.Pkg().Path() == "time" && fn.Name() == "Since" {
				c23Back(call.Call.Args[0], func(v ssa.Value) bool { _, ok := v.(*ssa.Lookup); return ok }, func(v ssa.Value) {
					if lk, ok := v.(*ssa.Lookup); ok && fieldVar(lk.X) == fBlocks && lk.Index == ssa.Value(cidr) {
						sinceOK = true
					}
				})
			}
		}
		if !sinceOK || !graceOK {
			okAll, why = false, fmt.Sprintf("returned comparison is not time.Since(blocks[cidr]) > *leakGracePeriod (since=%v grace=%v)", sinceOK, graceOK)
		}
	}
	c.Check(okAll && nRet > 0, "C23.lastblock/markEmpty/second-observation", p.Pos(me.Pos()),
		"markEmpty returns non-false only when blocks[cidr] was already recorded and time.Since(it) > *leakGracePeriod",
		"blockReleaseTracker.markEmpty: "+why)
	// markInUse / onBlockDeleted clear the observation
	for _, name := range []string{"markInUse", "onBlockDeleted"} {
		fn := c23Func(c, p, c23Pkg, "blockReleaseTracker."+name)
		ok := false
		for _, d := range c23MapDeletes(fn) {
			if fieldVar(d.Args[0]) == fBlocks && d.Args[1] == ssa.Value(fn.Params[1]) {
				ok = true
			}
		}
		c.Check(ok, "C23.lastblock/markEmpty/cleared-by-"+name, p.Pos(fn.Pos()), name+" deletes the first-observation timestamp", "blockReleaseTracker."+name+" no longer deletes blocks[cidr]: an old empty observation survives block activity")
	}
}

// ------------------------------------------------------------------ book --

// c23CtlMapField returns the IPAMController field a map operand belongs to:
// c.F or c.F[x] (also through the comma-ok form).
func c23CtlMapField(m *c23Model, v ssa.Value) *types.Var {
	ctl, _ := m.p.LookupObj(c23Pkg, "IPAMController").(*types.TypeName)
	if ctl == nil {
		m.c.Lost("type IPAMController")
	}
	if ex, ok := v.(*ssa.Extract); ok {
		v = ex.Tuple
	}
	if lk, ok := v.(*ssa.Lookup); ok {
		v = lk.X
	}
	fv := fieldVar(v)
	if fv == nil {
		return nil
	}
	st := ctl.Type().Underlying().(*types.Struct)
	for i := 0; i < st.NumFields(); i++ {
		if st.Field(i) == fv {
			return fv
		}
	}
	return nil
}

// c23PkgCallee: the function with a body in the node-controller package that a
// call instruction invokes statically.
func c23PkgCallee(m *c23Model, in ssa.Instruction) (*ssa.Function, []ssa.Value) {
	ci, ok := in.(ssa.CallInstruction)
	if !ok {
		return nil, nil
	}
	g := calleeFn(ci.Common())
	if g == nil || g.Blocks == nil || g.Pkg == nil || g.Pkg != m.p.SSAPkg(c23Pkg) {
		return nil, nil
	}
	return g, ci.Common().Args
}

// c23KeyFlow visits fn and, transitively (bounded), every in-package callee that
// receives one of the `keys` values as an argument (the callee's parameter then
// is the key there).  visit sees each function with its key test.  Extracting a
// part of fn into a helper that is handed the key keeps the helper in view.
func c23KeyFlow(m *c23Model, fn *ssa.Function, keys []ssa.Value, depth int, seen map[*ssa.Function]bool, visit func(f *ssa.Function, isKey func(ssa.Value) bool)) {
	if seen[fn] || depth > 4 {
		return
	}
	seen[fn] = true
	isKey := func(v ssa.Value) bool {
		for _, k := range keys {
			if c23Same(v, k) {
				return true
			}
		}
		return false
	}
	visit(fn, isKey)
	allInstrs(fn, false, func(_ *ssa.Function, in ssa.Instruction) {
		g, args := c23PkgCallee(m, in)
		if g == nil {
			return
		}
		var sub []ssa.Value
		for i, a := range args {
			if i < len(g.Params) && isKey(a) {
				sub = append(sub, g.Params[i])
			}
		}
		if len(sub) > 0 {
			c23KeyFlow(m, g, sub, depth+1, seen, visit)
		}
	})
}

// c23BlockCIDRs: the values in the block-update handler that are the block's
// CIDR string: String() of something selected from the model.BlockKey of the
// update, plus (as a cross-check) whatever is passed as the block to
// assignAllocation.
func c23BlockCIDRs(m *c23Model, upd *ssa.Function) []ssa.Value {
	var out []ssa.Value
	allInstrs(upd, false, func(_ *ssa.Function, in ssa.Instruction) {
		call, ok := in.(*ssa.Call)
		if !ok {
			return
		}
		f := calleeOf(call.Common())
		if f == nil || f.Name() != "String" || len(call.Call.Args) == 0 && !call.Call.IsInvoke() {
			return
		}
		if b, ok := call.Type().Underlying().(*types.Basic); !ok || b.Kind() != types.String {
			return
		}
		recv := call.Call.Value
		if !call.Call.IsInvoke() {
			recv = call.Call.Args[0]
		}
		fromKey := false
		c23Back(recv, func(v ssa.Value) bool {
			if ta, ok := v.(*ssa.TypeAssert); ok && qualTypeName(ta.AssertedType) == "libcalico-go/lib/backend/model.BlockKey" {
				fromKey = true
			}
			return false
		}, func(ssa.Value) {})
		if fromKey {
			out = append(out, call)
		}
	})
	for _, cs := range callsIn(upd, false, func(fn *types.Func) bool { return isFunc(fn, c23Pkg, "IPAMController.assignAllocation") }) {
		out = append(out, cs.Args()[1])
	}
	return out
}

// c23BookBlocks: forgetBlock deletes the CIDR from every per-block map that the
// block-update handler fills.  The maps are derived from the code: controller
// map fields updated with the block's CIDR as key in onBlockUpdated or in any
// in-package function it (transitively) hands the CIDR to; the deletes are
// looked for the same way below forgetBlock.
func c23BookBlocks(m *c23Model) {
	c, p := m.c, m.p
	upd := c23Func(c, p, c23Pkg, "IPAMController.onBlockUpdated")
	forget := c23Func(c, p, c23Pkg, "IPAMController.forgetBlock")
	cidrs := c23BlockCIDRs(m, upd)
	if len(cidrs) == 0 {
		c.Lost("onBlockUpdated: no value is the String() of the updated model.BlockKey's CIDR or the block passed to assignAllocation")
	}
	perBlock := map[*types.Var]bool{}
	c23KeyFlow(m, upd, cidrs, 0, map[*ssa.Function]bool{}, func(f *ssa.Function, isKey func(ssa.Value) bool) {
		allInstrs(f, false, func(_ *ssa.Function, in ssa.Instruction) {
			if mu, ok := in.(*ssa.MapUpdate); ok && isKey(mu.Key) {
				if fv := c23CtlMapField(m, mu.Map); fv != nil {
					perBlock[fv] = true
				}
			}
		})
	})
	var fields []*types.Var
	for fv := range perBlock {
		fields = append(fields, fv)
	}
	sort.Slice(fields, func(i, j int) bool { return fields[i].Name() < fields[j].Name() })
	if len(perBlock) < 5 {
		var names []string
		for _, fv := range fields {
			names = append(names, fv.Name())
		}
		c.Lost("expected >= 5 per-block maps filled by onBlockUpdated and the helpers it hands the block CIDR to, derived %v", names)
	}
	deleted := map[*types.Var]bool{}
	if len(forget.Params) < 2 {
		c.Lost("forgetBlock signature")
	}
	c23KeyFlow(m, forget, []ssa.Value{forget.Params[1]}, 0, map[*ssa.Function]bool{}, func(f *ssa.Function, isKey func(ssa.Value) bool) {
		for _, d := range c23MapDeletes(f) {
			if fv := c23CtlMapField(m, d.Args[0]); fv != nil && isKey(d.Args[1]) {
				deleted[fv] = true
			}
		}
	})
	for _, fv := range fields {
		c.Check(deleted[fv], "C23.book/forgetBlock/"+fv.Name(), p.Pos(forget.Pos()),
			"forgetBlock deletes the CIDR from "+fv.Name(), "onBlockUpdated fills "+fv.Name()+"[cidr] but forgetBlock does not delete it: the GC keeps acting on a block that no longer exists")
	}
}

// c23BookForget: forgetBlock releases every allocation of the block and informs
// the two sub-trackers (itself or in a helper it calls).
func c23BookForget(m *c23Model) {
	c, p := m.c, m.p
	forget := c23Func(c, p, c23Pkg, "IPAMController.forgetBlock")
	for _, sub := range []struct{ typ, name string }{{"IPAMController", "releaseAllocation"}, {"blockReleaseTracker", "onBlockDeleted"}, {"poolManager", "onBlockDeleted"}} {
		n := 0
		c23KeyFlow(m, forget, []ssa.Value{forget.Params[1]}, 0, map[*ssa.Function]bool{}, func(f *ssa.Function, _ func(ssa.Value) bool) {
			n += len(callsIn(f, false, func(fn *types.Func) bool { return isFunc(fn, c23Pkg, sub.typ+"."+sub.name) }))
		})
		c.Check(n > 0, "C23.book/forgetBlock/"+sub.typ+"."+sub.name, p.Pos(forget.Pos()), "forgetBlock calls "+sub.typ+"."+sub.name, "forgetBlock no longer calls "+sub.typ+"."+sub.name)
	}
}

// c23BookAllocations: releaseAllocation undoes every registration made by
// assignAllocation, and drops the confirmedLeaks entry.
func c23BookAllocations(m *c23Model) {
	c, p := m.c, m.p
	assign := c23Func(c, p, c23Pkg, "IPAMController.assignAllocation")
	release := c23Func(c, p, c23Pkg, "IPAMController.releaseAllocation")
	mapField := func(v ssa.Value) *types.Var { return c23CtlMapField(m, v) }
	// assign/release pairing
	a := release.Params[1]
	pairs := []struct{ typ, add, del string }{{"handleTracker", "setAllocation", "removeAllocation"}, {"allocationState", "allocate", "release"}}
	for _, pr := range pairs {
		nAdd := len(callsIn(assign, false, func(fn *types.Func) bool { return isFunc(fn, c23Pkg, pr.typ+"."+pr.add) }))
		if nAdd == 0 {
			c.Lost("assignAllocation does not call %s.%s", pr.typ, pr.add)
		}
		ok := false
		for _, cs := range callsIn(release, false, func(fn *types.Func) bool { return isFunc(fn, c23Pkg, pr.typ+"."+pr.del) }) {
			if cs.Args()[1] == ssa.Value(a) {
				ok = true
			}
		}
		c.Check(ok, "C23.book/releaseAllocation/"+pr.typ, p.Pos(release.Pos()),
			"releaseAllocation undoes "+pr.typ+"."+pr.add+" with "+pr.del, "assignAllocation registers with "+pr.typ+"."+pr.add+" but releaseAllocation does not call "+pr.typ+"."+pr.del+"(a)")
	}
	for _, fv := range []*types.Var{m.fConfirmedLeaks, c23FieldObj(c, p, c23Pkg, "IPAMController.allocationsByBlock")} {
		ok := false
		for _, d := range c23MapDeletes(release) {
			if mapField(d.Args[0]) != fv {
				continue
			}
			if kc, isCall := d.Args[1].(*ssa.Call); isCall {
				if r := c23CallOn(CallSite{kc, calleeOf(kc.Common()), release}, c23Pkg, "allocation", "id"); r == ssa.Value(a) {
					ok = true
				}
			}
		}
		c.Check(ok, "C23.book/releaseAllocation/"+fv.Name(), p.Pos(release.Pos()),
			"releaseAllocation deletes a.id() from "+fv.Name(), "releaseAllocation does not delete a.id() from "+fv.Name()+": a released (possibly re-allocated) address stays scheduled for garbage collection")
	}
}

// ----------------------------------------------------------------- knode --
//
// The scan treats "Kubernetes node name is empty, lookup error is nil" as proof
// that the node is gone: it is what makes kubernetesNodeExists false without a
// nodeExists() query (c23NotExists accepts `name == ""`), which in turn skips the
// grace period and hands the node to releaseNodes.  That reading is only sound if
// the function(s) producing the name keep the contract
//
//	(name, nil)  =>  name != ""  or  the datastore said the Calico node does not exist
//
// on every return, i.e. "this is not a Kubernetes node" / "lookup failed" / a
// cached placeholder can never come back as ("", nil).  The name sources are
// derived from the code: whatever call produces the value passed to nodeExists()
// in a function that confirms leaks without a timer, followed through tail
// delegation (`return f(x)`).

const c23ErrorsPkg = "libcalico-go/lib/errors"
const c23ClientPkg = "libcalico-go/lib/clientv3"

func c23IsEmptyString(v ssa.Value) bool {
	cv, ok := constOf(v)
	return ok && cv.Kind() == constant.String && constant.StringVal(cv) == ""
}

// c23NotFoundEvidence: edge on which an error obtained from NodeInterface.Get was
// identified as "resource does not exist": a typed assertion to
// errors.ErrorResourceDoesNotExist succeeded, or errors.As(err, &target) with a
// target of that type returned true.  Inside a helper (a function that is not
// itself a name source) the error may be the helper's parameter.
func c23NotFoundEvidence(isSource func(*ssa.Function) bool) EdgePred {
	fromNodeGet := func(v ssa.Value) bool {
		return c23OriginCalls(v, func(call *ssa.Call) bool {
			f := calleeOf(call.Common())
			return f != nil && f.Name() == "Get" && f.Pkg() != nil && f.Pkg().Path() == calicoPrefix+c23ClientPkg && recvTypeName(f) == "NodeInterface"
		}, func(leaf ssa.Value) bool {
			prm, ok := leaf.(*ssa.Parameter)
			return ok && !isSource(prm.Parent())
		})
	}
	isDNE := func(t types.Type) bool { return qualTypeName(t) == c23ErrorsPkg+".ErrorResourceDoesNotExist" }
	return func(cond ssa.Value, pol bool) bool {
		if !pol {
			return false
		}
		switch x := cond.(type) {
		case *ssa.Extract:
			ta, ok := x.Tuple.(*ssa.TypeAssert)
			return ok && x.Index == 1 && ta.CommaOk && isDNE(ta.AssertedType) && fromNodeGet(ta.X)
		case *ssa.Call:
			f := calleeOf(x.Common())
			if f == nil || f.Pkg() == nil || f.Pkg().Path() != "errors" || f.Name() != "As" || len(x.Call.Args) != 2 {
				return false
			}
			target := x.Call.Args[1]
			if mi, ok := target.(*ssa.MakeInterface); ok {
				target = mi.X
			}
			pt, ok := target.Type().Underlying().(*types.Pointer)
			return ok && isDNE(pt.Elem()) && fromNodeGet(x.Call.Args[0])
		}
		return false
	}
}

type c23NameSource struct {
	host *ssa.Function // function that consumes the name
	call *ssa.Call     // the (string, error) call producing it
}

func c23KNode(m *c23Model) {
	c, p := m.c, m.p
	// (0) derive the name sources
	var sources []c23NameSource
	untimed := map[*ssa.Function][]CallSite{}
	for _, f := range m.funcs {
		if fnName(f) == "allocation.markLeak" {
			continue
		}
		for _, cs := range callsIn(f, false, func(fn *types.Func) bool { return isFunc(fn, c23Pkg, "allocation.markConfirmedLeak") }) {
			untimed[f] = append(untimed[f], cs)
		}
	}
	var hosts []*ssa.Function
	for f := range untimed {
		hosts = append(hosts, f)
	}
	sort.Slice(hosts, func(i, j int) bool { return fnName(hosts[i]) < fnName(hosts[j]) })
	for _, f := range hosts {
		seen := map[*ssa.Call]bool{}
		for _, cs := range callsIn(f, false, func(fn *types.Func) bool { return isFunc(fn, c23Pkg, "IPAMController.nodeExists") }) {
			if a := cs.Args(); len(a) == 2 {
				c23Back(a[1], nil, func(leaf ssa.Value) {
					call, ok := leaf.(*ssa.Call)
					if !ok || seen[call] {
						return
					}
					if res := call.Call.Signature().Results(); res.Len() == 2 && c23IsStringErr(res) {
						seen[call] = true
						sources = append(sources, c23NameSource{f, call})
					}
				})
			}
		}
	}
	if len(sources) == 0 {
		c.Lost("no (string, error) call produces the node name that the untimed-confirmation scan passes to nodeExists()")
	}
	// (1) the consumer acts on the name only when the lookup reported no error
	var roots []*ssa.Function
	for _, src := range sources {
		host := fnName(src.host)
		var errVal ssa.Value
		for _, r := range *src.call.Referrers() {
			if ex, ok := r.(*ssa.Extract); ok && ex.Index == 1 {
				errVal = ex
			}
		}
		calleeName := "?"
		if f := calleeOf(src.call.Common()); f != nil {
			calleeName = f.Name()
		}
		ok := errVal != nil
		if ok {
			noErr := eqCond(true, func(v ssa.Value) bool { return v == errVal }, isNilConst)
			for _, cs := range untimed[src.host] {
				if !guardedCut(cs.Instr, noErr) {
					ok = false
				}
			}
		}
		c.Check(ok, "C23.knode/lookup-ok/"+host, p.Pos(src.call.Pos()),
			"every untimed markConfirmedLeak in "+host+" is only reachable where the error of "+calleeName+"() was nil",
			"untimed markConfirmedLeak in "+host+" is reachable although "+calleeName+"() returned an error (or its error is discarded): an unknown / non-Kubernetes node reads as \"node is gone\" and its addresses are confirmed leaks without a grace period")
		callee := calleeFn(src.call.Common())
		if callee == nil || callee.Blocks == nil {
			c.Undecided("C23.knode/gone/"+calleeName, p.Pos(src.call.Pos()), "the node name comes from %s, which has no body in the loaded program", calleeName)
			continue
		}
		roots = append(roots, callee)
	}
	// (2) the contract of the name sources
	done := map[*ssa.Function]bool{}
	gone := c23NewLifter(c23NotFoundEvidence(func(f *ssa.Function) bool { return done[f] }))
	for len(roots) > 0 {
		fn := roots[0]
		roots = roots[1:]
		if done[fn] {
			continue
		}
		done[fn] = true
		name := fnName(fn)
		var bad, unsure []string
		nNil := 0
		for _, r := range returnsOf(fn) {
			if isPanicBlock(r.Block()) {
				continue
			}
			if len(r.Results) != 2 {
				c.Lost("%s: expected (string, error) results", name)
			}
			s, e := r.Results[0], r.Results[1]
			// tail delegation: return g(x)
			if es, ok := s.(*ssa.Extract); ok {
				if ee, ok2 := e.(*ssa.Extract); ok2 && es.Tuple == ee.Tuple && es.Index == 0 && ee.Index == 1 {
					if call, isCall := es.Tuple.(*ssa.Call); isCall {
						if g := calleeFn(call.Common()); g != nil && g.Blocks != nil {
							roots = append(roots, g)
						} else {
							unsure = append(unsure, "delegates to "+path(call)+" (no body)")
						}
						continue
					}
				}
			}
			// a return that certainly carries an error
			if _, isMI := e.(*ssa.MakeInterface); isMI {
				continue
			}
			if guardedCut(r, eqCond(false, func(v ssa.Value) bool { return c23Same(v, e) }, isNilConst)) {
				continue
			}
			nNil++
			nonEmpty := false
			if cv, isConst := constOf(s); isConst {
				nonEmpty = cv.Kind() == constant.String && constant.StringVal(cv) != ""
			} else {
				isS := func(v ssa.Value) bool { return c23Same(v, s) }
				isLenS := func(v ssa.Value) bool {
					call, ok := v.(*ssa.Call)
					if !ok {
						return false
					}
					b, ok := call.Call.Value.(*ssa.Builtin)
					return ok && b.Name() == "len" && isS(call.Call.Args[0])
				}
				nonEmpty = guardedCut(r, anyOf(eqCond(false, isS, c23IsEmptyString), c23IntAtLeast(1, isLenS)))
			}
			if nonEmpty || guardedCut(r, gone.Pred) {
				continue
			}
			what := fmt.Sprintf("returns (%s, %s) at %s", c23Short(s), c23Short(e), p.Pos(r.Pos()))
			fromCall := false // the name is computed by another function: its emptiness cannot be judged here
			c23Back(s, nil, func(leaf ssa.Value) {
				if call, ok := leaf.(*ssa.Call); ok {
					if _, builtin := call.Call.Value.(*ssa.Builtin); !builtin {
						fromCall = true
					}
				}
			})
			switch {
			case !isNilConst(e):
				unsure = append(unsure, what+" and the error may be nil")
			case fromCall:
				unsure = append(unsure, what+" with a name computed by a call")
			case len(gone.Unsure) > 0 || guardedCut(r, gone.PredOrOpaque):
				unsure = append(unsure, what+" behind conditions computed by functions without a body")
			default:
				bad = append(bad, what)
			}
		}
		site := p.Pos(fn.Pos())
		switch {
		case len(bad) > 0:
			c.Violate("C23.knode/gone/"+name, site,
				"%s %s: a nil error with a name that is neither tested non-empty nor backed by ErrorResourceDoesNotExist from Nodes().Get(). The scan reads (\"\", nil) as \"the Kubernetes node is gone\" (no nodeExists() query, no grace period, node handed to ReleaseHostAffinities); a cached placeholder or a node that is not a Kubernetes node must not produce it",
				name, strings.Join(bad, "; "))
		case len(unsure) > 0:
			c.Undecided("C23.knode/gone/"+name, site, "%s: %s", name, strings.Join(unsure, "; "))
		default:
			c.Ok("C23.knode/gone/"+name, site, "%d return(s) of %s may carry a nil error; each returns a name tested non-empty or follows ErrorResourceDoesNotExist from Nodes().Get()", nNil, name)
		}
	}
}

func c23IsStringErr(res *types.Tuple) bool {
	b, ok := res.At(0).Type().Underlying().(*types.Basic)
	if !ok || b.Info()&types.IsString == 0 {
		return false
	}
	n, ok := res.At(1).Type().(*types.Named)
	return ok && n.Obj().Pkg() == nil && n.Obj().Name() == "error"
}

// -------------------------------------------------------------------- vm --
//
// A VM allocation is justified by its VirtualMachine, or - if that is absent - by
// a VirtualMachineInstance of the same name unless the instance is the left-over
// of a VirtualMachine (owner reference of that kind).  So the function that
// consults the VM/VMI informer caches may answer "not valid" only where
//   (novm)       the VirtualMachine lookup said "does not exist", and
//   (standalone) the VirtualMachineInstance lookup said "does not exist", or an
//                owner reference of the instance was compared equal to the
//                VirtualMachine kind.
// Both facts may be established directly, through a flag variable or inside a
// boolean helper (c23Lifter).  Any other classification of an existing instance
// ("has some controller", "has any owner", a different kind) dismisses instances
// that nothing is going to delete.

const c23KubevirtPkg = "libcalico-go/lib/kubevirt"
const c23KubevirtAPI = "kubevirt.io/api/core/v1"
const c23MetaV1 = "k8s.io/apimachinery/pkg/apis/meta/v1"

func c23VM(m *c23Model) {
	c, p := m.c, m.p
	kindVar, _ := p.LookupExt(c23MetaV1, "OwnerReference.Kind").(*types.Var)
	if kindVar == nil {
		c.Lost("field %s.OwnerReference.Kind", c23MetaV1)
	}
	vmType, _ := p.LookupExt(c23KubevirtAPI, "VirtualMachine").(*types.TypeName)
	if vmType == nil {
		c.Lost("type %s.VirtualMachine", c23KubevirtAPI)
	}
	for _, n := range []string{"VMIndexer", "VMInstanceIndexer"} {
		if p.LookupExt(c23KubevirtPkg, "DeferredInformers."+n) == nil {
			c.Lost("method %s.DeferredInformers.%s", c23KubevirtPkg, n)
		}
	}
	wantKind := vmType.Name() // a Kubernetes kind is the name of its Go API type
	isIndexer := func(which string) func(*ssa.Call) bool {
		return func(call *ssa.Call) bool {
			return isFunc(calleeOf(call.Common()), c23KubevirtPkg, "DeferredInformers."+which)
		}
	}
	// exists(which) == want, from `_, exists, _ := <which>().GetByKey(key)`
	existsCond := func(want bool, which string) EdgePred {
		return func(cond ssa.Value, pol bool) bool {
			if pol != want {
				return false
			}
			ex, ok := cond.(*ssa.Extract)
			if !ok || ex.Index != 1 {
				return false
			}
			call, ok := ex.Tuple.(*ssa.Call)
			if !ok || !call.Call.IsInvoke() || call.Call.Method.Name() != "GetByKey" {
				return false
			}
			return c23OriginCalls(call.Call.Value, isIndexer(which), nil)
		}
	}
	isKind := func(v ssa.Value) bool { return fieldVar(v) == kindVar }
	isVMKind := func(v ssa.Value) bool {
		if cv, ok := constOf(v); ok {
			return cv.Kind() == constant.String && constant.StringVal(cv) == wantKind
		}
		// kubevirtv1.VirtualMachineGroupVersionKind.Kind
		if fv := fieldVar(v); fv != nil && fv.Name() == "Kind" {
			if _, _, base, ok := fieldOf(v); ok {
				if g, isG := base.(*ssa.Global); isG && g.Pkg != nil && g.Pkg.Pkg.Path() == c23KubevirtAPI && g.Name() == wantKind+"GroupVersionKind" {
					return true
				}
			}
		}
		return false
	}
	ownedByVM := eqCond(true, isKind, isVMKind)
	// A call without a body can only have tested for the VirtualMachine kind if it
	// knows the kind: it is told (a constant equal to the kind, a GroupVersionKind /
	// GroupKind value, a function value) or it belongs to the KubeVirt API / Calico's
	// KubeVirt library.  Generic Kubernetes helpers that are only handed the object
	// cannot establish the fact, so they are not "opaque".
	mayKnowKind := func(call *ssa.Call) bool {
		f := calleeOf(call.Common())
		if f == nil || f.Pkg() == nil {
			return true
		}
		if pp := f.Pkg().Path(); strings.HasPrefix(pp, "kubevirt.io/") || pp == calicoPrefix+c23KubevirtPkg {
			return true
		}
		for _, a := range call.Call.Args {
			if isVMKind(a) {
				return true
			}
			if mi, ok := a.(*ssa.MakeInterface); ok {
				a = mi.X
			}
			if _, isFn := a.Type().Underlying().(*types.Signature); isFn {
				return true
			}
			if tn := qualTypeName(a.Type()); strings.HasSuffix(tn, ".GroupVersionKind") || strings.HasSuffix(tn, ".GroupKind") {
				return true
			}
		}
		return false
	}
	// ... and it can only have looked at the instance's owners if it is handed the
	// instance, its metadata or its owner references.
	takesInstance := func(call *ssa.Call) bool {
		args := call.Call.Args
		if call.Call.IsInvoke() {
			args = append([]ssa.Value{call.Call.Value}, args...)
		}
		for _, a := range args {
			if mi, ok := a.(*ssa.MakeInterface); ok {
				a = mi.X
			}
			t := a.Type()
			if sl, ok := t.Underlying().(*types.Slice); ok {
				t = sl.Elem()
			}
			switch qualTypeName(t) {
			case c23KubevirtAPI + ".VirtualMachineInstance", c23MetaV1 + ".ObjectMeta", c23MetaV1 + ".OwnerReference":
				return true
			}
		}
		return false
	}
	// conditions whose meaning is known (whatever their polarity): never "opaque"
	understood := func(cond ssa.Value) bool {
		for _, which := range []string{"VMIndexer", "VMInstanceIndexer"} {
			if existsCond(true, which)(cond, true) {
				return true
			}
		}
		return false
	}

	n := 0
	for _, f := range m.funcs {
		if f.Parent() != nil || len(callsIn(f, false, func(fn *types.Func) bool { return isFunc(fn, c23KubevirtPkg, "DeferredInformers.VMInstanceIndexer") })) == 0 {
			continue
		}
		host := fnName(f)
		site := p.Pos(f.Pos())
		if !c23BoolResult(f) {
			c.Undecided("C23.vm/standalone/"+host, site, "%s consults the VMI informer cache but does not return a single bool; its verdict cannot be located", host)
			continue
		}
		n++
		noVM := c23NewLifter(existsCond(false, "VMIndexer"))
		noVM.Opaque = func(v ssa.Value) bool { return c23BodylessCall(v) && !understood(v) }
		noInst := c23NewLifter(anyOf(existsCond(false, "VMInstanceIndexer"), ownedByVM))
		noInst.Depth = 2
		noInst.Opaque = func(v ssa.Value) bool {
			if understood(v) {
				return false
			}
			if c23BodylessCall(v) {
				if ex, ok := v.(*ssa.Extract); ok {
					v = ex.Tuple
				}
				call := v.(*ssa.Call)
				return mayKnowKind(call) && takesInstance(call)
			}
			// OwnerReference.Kind compared with something that is not a constant
			if bo, ok := v.(*ssa.BinOp); ok && (bo.Op == token.EQL || bo.Op == token.NEQ) {
				for _, pr := range [][2]ssa.Value{{bo.X, bo.Y}, {bo.Y, bo.X}} {
					if _, isConst := constOf(pr[1]); isKind(pr[0]) && !isConst && !isVMKind(pr[1]) {
						return true
					}
				}
			}
			return false
		}
		type verdict struct{ bad, opaque []string }
		var vVM, vInst verdict
		computed := false
		nFalse := 0
		for _, r := range returnsOf(f) {
			if isPanicBlock(r.Block()) || len(r.Results) != 1 {
				continue
			}
			cv, isConst := constOf(r.Results[0])
			if isConst && cv.Kind() == constant.Bool && constant.BoolVal(cv) {
				continue // "assume valid" is always safe
			}
			if !isConst {
				computed = true
				continue
			}
			nFalse++
			for _, chk := range []struct {
				l *c23Lifter
				v *verdict
			}{{noVM, &vVM}, {noInst, &vInst}} {
				if guardedCut(r, chk.l.Pred) {
					continue
				}
				at := p.Pos(r.Pos())
				if len(chk.l.Unsure) > 0 || guardedCut(r, chk.l.PredOrOpaque) {
					chk.v.opaque = append(chk.v.opaque, at)
				} else {
					chk.v.bad = append(chk.v.bad, at)
				}
			}
		}
		if computed {
			c.Undecided("C23.vm/standalone/"+host, site, "%s returns a computed verdict; the evidence behind a false result cannot be decided", host)
			continue
		}
		if nFalse == 0 {
			c.Lost("%s never returns false", host)
		}
		rejected := func(l *c23Lifter) string {
			if len(l.Rejected) == 0 {
				return ""
			}
			var parts []string
			for _, k := range sortedKeys(l.Rejected) {
				parts = append(parts, k+"() "+l.Rejected[k])
			}
			return " [" + strings.Join(parts, "; ") + "]"
		}
		switch {
		case len(vVM.bad) > 0:
			c.Violate("C23.vm/novm/"+host, site, "%s returns false at %v without the VirtualMachine lookup (VMIndexer().GetByKey) having reported \"does not exist\": the address of an existing VM would be collected%s", host, vVM.bad, rejected(noVM))
		case len(vVM.opaque) > 0:
			c.Undecided("C23.vm/novm/"+host, site, "%s returns false at %v behind conditions computed by functions without a body", host, vVM.opaque)
		default:
			c.Ok("C23.vm/novm/"+host, site, "%d false verdict(s) of %s, each only after VMIndexer().GetByKey reported that the VM does not exist", nFalse, host)
		}
		switch {
		case len(vInst.bad) > 0:
			c.Violate("C23.vm/standalone/"+host, site,
				"%s returns false at %v on a path where the VirtualMachineInstance exists and no owner reference was compared equal to kind %q: an instance that is not the left-over of a VirtualMachine (no owner, or a controller of another kind) is still running and its address would be collected%s",
				host, vInst.bad, wantKind, rejected(noInst))
		case len(vInst.opaque) > 0:
			c.Undecided("C23.vm/standalone/"+host, site, "%s returns false at %v behind conditions computed by functions without a body", host, vInst.opaque)
		default:
			c.Ok("C23.vm/standalone/"+host, site, "%d false verdict(s) of %s, each only where VMInstanceIndexer().GetByKey reported no instance or an OwnerReference.Kind == %q comparison held", nFalse, host, wantKind)
		}
	}
	if n == 0 {
		c.Lost("no function of %s consults DeferredInformers.VMInstanceIndexer()", c23Pkg)
	}
}
