package main

import (
	"fmt"
	"go/token"
	"go/types"

	"golang.org/x/tools/go/ssa"
)

const (
	c24Snap      = "typha/pkg/snapcache"
	c24Srv       = "typha/pkg/syncserver"
	c24Proto     = "typha/pkg/syncproto"
	c24CacheFile = "typha/pkg/snapcache/cache.go"
	c24SrvFile   = "typha/pkg/syncserver/sync_server.go"
)

func init() {
	register(&Property{
		ID:        "C24",
		Title:     "Typha clients converge to the datastore view from any join point",
		Technique: "static analysis: safe-publication ordering, per-iteration path analysis, cut-set guards and value provenance on go/ssa of typha snapcache + syncserver",
		DesignRef: "DESIGN.md §3 C24",
		Explanation: "Decides structural clauses on the server side of the Typha protocol.  Cache (snapcache): (publish) a new Breadcrumb is never written after the atomic stores that publish it; " +
			"Breadcrumb.KVs is always a Clone() of the tree, taken after the last tree mutation of the batch; within one iteration of the update loop every tree mutation is recorded as a delta and every " +
			"recorded delta was applied to the tree, Delete only under Value==nil and ReplaceOrInsert only under Value!=nil; the crumb linked as `next` of the current crumb is the one that becomes current; " +
			"(dedupe) the `previous` value that SerializedUpdate.WouldBeNoOp judges an incoming update against derives only from Get on the live tree (Cache.kvs, through locals and in-package helpers), never from a published snapshot or clone, so updates earlier in the same batch are taken into account; " +
			"(status) the pending sync status is copied into a crumb only when that crumb drains pendingUpdates (so in-sync is never announced before the updates that preceded it).  " +
			"Connection (syncserver): (stream) the breadcrumb handed to the delta sender is the one whose snapshot was just sent (returned by SendSnapshot, or passed to the snapshot streamer on every path); " +
			"the delta sender's breadcrumb advances only through breadcrumb.Next(); between two Next() calls the crumb's Deltas are read, and every Deltas read flows into the MsgKVs that is sent; " +
			"a binary snapshot is bound to one crumb: SendSnapshot returns the crumb field of the snapshot object it sent, that field is set only at construction, and the function that fills the snapshot's buffer streams the KVs of that same object's crumb field; " +
			"after a Next() the status message is sent only after the MsgKVs (or with no deltas to send); MsgSyncStatus is constructed only by the delta sender.",
		NotDecided: "Convergence itself; the client side (sync_client.go applies messages in order); gob encoding/decoding and WouldBeNoOp's definition of 'unchanged'; per-key ordering inside one batch " +
			"(deltas are appended in arrival order, the slice order is not analysed); that the binary snapshot's buffer is complete before/while it is read (multireadbuf) and that the cached snapshot object handed to a connection is the one that was populated; for the de-duplication only the provenance of the compared value is decided (a live-tree Get), not that the Get is re-executed for each update nor that its key is the update's key.",
		Assumptions: []string{
			"go/types + go/ssa (x/tools v0.50.0) model of the current source, CGO_ENABLED=0 build, non-test files",
			"google/btree Clone() is a copy-on-write snapshot; Get/Len/Ascend/Clone do not mutate",
			"the Cache main loop is the only goroutine that mutates Cache state (channel-fed); logrus Panic*/Fatal* do not return",
		},
		Run: runC24,
		Fixtures: []Fixture{
			{Name: "breadcrumb shares the live tree", File: c24CacheFile,
				Old: "\tnewCrumb.KVs = c.kvs.Clone()\n", New: "\tnewCrumb.KVs = c.kvs\n", Expect: "C24.publish/kvs-is-clone/Cache.publishBreadcrumb"},
			{Name: "tree mutated after the snapshot was taken", File: c24CacheFile,
				Old: "\tnewCrumb.KVs = c.kvs.Clone()\n", New: "\tnewCrumb.KVs = c.kvs.Clone()\n\tc.kvs.Clear(false)\n", Expect: "C24.publish/snapshot-after-updates"},
			{Name: "crumb modified after publication", File: c24CacheFile,
				Old: "\tc.breadcrumbCond.L.Unlock()\n\t// Then wake up", New: "\tc.breadcrumbCond.L.Unlock()\n\tnewCrumb.SyncStatus = c.pendingStatus\n\t// Then wake up", Expect: "C24.publish/no-write-after-link"},
			{Name: "deletion recorded as delta but not applied to the tree", File: c24CacheFile,
				Old: "\t\t\tc.kvs.Delete(newUpd)\n", New: "", Expect: "C24.publish/delta-mirrors-tree/Cache.publishBreadcrumb/delta-applied"},
			{Name: "deletions applied to the tree but not sent as deltas", File: c24CacheFile,
				Old: "\t\tnewCrumb.Deltas = append(newCrumb.Deltas, newUpd)\n", New: "\t\tif upd.Value != nil {\n\t\t\tnewCrumb.Deltas = append(newCrumb.Deltas, newUpd)\n\t\t}\n", Expect: "C24.publish/delta-mirrors-tree/Cache.publishBreadcrumb/mutation-recorded"},
			{Name: "tree operation chosen with inverted sense", File: c24CacheFile,
				Old: "\t\tif upd.Value == nil {\n\t\t\t// This is either a deletion", New: "\t\tif upd.Value != nil {\n\t\t\t// This is either a deletion", Expect: "C24.publish/tree-op-guard"},
			{Name: "new crumb becomes current without being linked from the old one", File: c24CacheFile,
				Old: "\tatomic.StorePointer(&(oldCrumb.next), (unsafe.Pointer)(newCrumb))\n", New: "", Expect: "C24.publish/link-same-crumb"},
			{Name: "unchanged-key test compares with the last published snapshot", File: c24CacheFile,
				Old: "oldUpd, exists := c.kvs.Get(newUpd)", New: "oldUpd, exists := oldCrumb.KVs.Get(newUpd)", Expect: "C24.dedupe/live-tree"},
			{Name: "unchanged-key test compares with a clone taken before the batch", File: c24CacheFile,
				Old: "\t// Update the main trie and record the updates in the new crumb.\n\tfor _, upd := range updates {\n\t\t// Update stats.\n\t\tc.counterUpdatesTotal.Inc()\n\t\t// Pre-serialise the KV so that we only serialise once per update instead of once\n\t\t// for each client.\n\t\tnewUpd, err := syncproto.SerializeUpdate(upd)\n\t\tif err != nil {\n\t\t\tlog.WithError(err).WithField(\"upd\", upd).Error(\n\t\t\t\t\"Bug: dropping unserializable KV\")\n\t\t\tcontinue\n\t\t}\n\t\t// Update the master KV map.\n\t\toldUpd, exists := c.kvs.Get(newUpd)\n",
				New: "\t// Update the main trie and record the updates in the new crumb.\n\tbeforeBatch := c.kvs.Clone()\n\tfor _, upd := range updates {\n\t\t// Update stats.\n\t\tc.counterUpdatesTotal.Inc()\n\t\t// Pre-serialise the KV so that we only serialise once per update instead of once\n\t\t// for each client.\n\t\tnewUpd, err := syncproto.SerializeUpdate(upd)\n\t\tif err != nil {\n\t\t\tlog.WithError(err).WithField(\"upd\", upd).Error(\n\t\t\t\t\"Bug: dropping unserializable KV\")\n\t\t\tcontinue\n\t\t}\n\t\t// Update the master KV map.\n\t\toldUpd, exists := beforeBatch.Get(newUpd)\n", Expect: "C24.dedupe/live-tree"},
			{Name: "status published with a partial batch", File: c24CacheFile,
				Old: "\t\tc.pendingUpdates = c.pendingUpdates[c.config.MaxBatchSize:]\n", New: "\t\tc.pendingUpdates = c.pendingUpdates[c.config.MaxBatchSize:]\n\t\tlastUpdate = true\n", Expect: "C24.status/last-batch-only"},
			{Name: "delta sender starts from the newest crumb, not the one sent", File: c24SrvFile,
				Old: "go h.sendDeltaUpdatesToClient(h.logCxt.WithField(\"thread\", \"kv-sender\"), breadcrumb)", New: "go h.sendDeltaUpdatesToClient(h.logCxt.WithField(\"thread\", \"kv-sender\"), h.cache.CurrentBreadcrumb())", Expect: "C24.stream/handoff"},
			{Name: "binary snapshot sender returns the newest crumb instead of the one it serialised", File: "typha/pkg/syncserver/snap_precalc.go",
				Old: "\treturn snap.crumb, nil\n", New: "\treturn s.cache.CurrentBreadcrumb(), nil\n", Expect: "C24.stream/binsnap"},
			{Name: "binary snapshot bytes taken from whatever crumb is newest when the background serialiser runs", File: "typha/pkg/syncserver/snap_precalc.go",
				Old: "\t\tsnap.crumb,\n\t\twriteMsg,\n", New: "\t\ts.cache.CurrentBreadcrumb(),\n\t\twriteMsg,\n", Expect: "C24.stream/binsnap/SnappySnapshotCache.writeDataToSnapshot/bytes-from-own-crumb"},
			{Name: "binary snapshot bytes taken from the crumb of whichever snapshot is active now", File: "typha/pkg/syncserver/snap_precalc.go",
				Old: "\t\tsnap.crumb,\n\t\twriteMsg,\n", New: "\t\ts.activeSnapshot.crumb,\n\t\twriteMsg,\n", Expect: "C24.stream/binsnap/SnappySnapshotCache.writeDataToSnapshot/bytes-from-own-crumb"},
			{Name: "delta sender skips ahead to the newest crumb", File: c24SrvFile,
				Old: "breadcrumb, err = breadcrumb.Next(h.cxt)", New: "breadcrumb, err = h.cache.CurrentBreadcrumb().Next(h.cxt)", Expect: "C24.stream/advance-by-next"},
			{Name: "deltas of crumbs passed while batching are dropped", File: c24SrvFile,
				Old: "\t\t\tdeltas = append(deltas, breadcrumb.Deltas...)\n", New: "", Expect: "C24.stream/no-skipped-deltas"},
			{Name: "only the last crumb's deltas are sent", File: c24SrvFile,
				Old: "\t\t\t\tKVs: deltas,\n", New: "\t\t\t\tKVs: breadcrumb.Deltas,\n", Expect: "C24.stream/deltas-flow-to-msg"},
			{Name: "status sent before the deltas of the same crumb", File: c24SrvFile,
				Old: "\t\tif len(deltas) > 0 {\n\t\t\t// Send the deltas relative", New: "\t\tif err := maybeSendStatus(); err != nil {\n\t\t\treturn\n\t\t}\n\t\tif len(deltas) > 0 {\n\t\t\t// Send the deltas relative", Expect: "C24.stream/deltas-before-status"},
		},
	})
}

type c24Model struct {
	c *Ctx
	p *Prog

	crumbT                              *types.Named
	fKVs, fDeltas, fNext, fStatus       *types.Var // Breadcrumb fields
	cKvs, cCurrent, cPendingU, cPending *types.Var // Cache fields
	kvValue                             *types.Var
}

func (m *c24Model) fld(pkg, name string) *types.Var {
	v, _ := m.p.LookupObj(pkg, name).(*types.Var)
	if v == nil {
		m.c.Lost("%s.%s", pkg, name)
	}
	return v
}

func runC24(c *Ctx) {
	p := c.Load(c24Snap, c24Srv)
	m := &c24Model{c: c, p: p}
	tn, _ := p.LookupObj(c24Snap, "Breadcrumb").(*types.TypeName)
	if tn == nil {
		c.Lost("snapcache.Breadcrumb")
	}
	m.crumbT = tn.Type().(*types.Named)
	m.fKVs, m.fDeltas, m.fNext, m.fStatus = m.fld(c24Snap, "Breadcrumb.KVs"), m.fld(c24Snap, "Breadcrumb.Deltas"), m.fld(c24Snap, "Breadcrumb.next"), m.fld(c24Snap, "Breadcrumb.SyncStatus")
	m.cKvs, m.cCurrent, m.cPendingU, m.cPending = m.fld(c24Snap, "Cache.kvs"), m.fld(c24Snap, "Cache.currentBreadcrumb"), m.fld(c24Snap, "Cache.pendingUpdates"), m.fld(c24Snap, "Cache.pendingStatus")
	m.kvValue, _ = p.LookupExt(c25ModelPkg, "KVPair.Value").(*types.Var)
	if m.kvValue == nil {
		c.Lost("model.KVPair.Value")
	}

	c.Rule("C24.publish", "E-ORDER/E-FLOW/E-PAIR", "Breadcrumb safe publication: no write after the atomic link, KVs is a Clone taken after the batch's mutations, deltas mirror tree mutations, linked crumb == current crumb", 9)
	c.Rule("C24.status", "E-GUARD", "pendingStatus is copied into a crumb only when the crumb drains pendingUpdates", 1)
	c.Rule("C24.stream", "E-ORDER/E-FLOW/E-OWN", "delta sender starts at the crumb whose snapshot was sent, advances only via Next, never skips or drops Deltas, sends status after the deltas; single status sender; binary snapshot bound to one crumb (returned crumb == serialised crumb)", 9)

	c.Rule("C24.dedupe", "E-FLOW (provenance)", "an update is dropped as unchanged only after comparing it with the entry looked up in the live tree (Cache.kvs) the batch is being applied to, never with a snapshot", 1)

	// the families are independent: a lost anchor in one must not silence the others
	c01Isolated(c, m.publishRules)
	c01Isolated(c, m.statusRule)
	c01Isolated(c, m.streamRules)
	c01Isolated(c, m.dedupeRules)
}

func (m *c24Model) isCrumbPtr(t types.Type) bool {
	pt, ok := types.Unalias(t).(*types.Pointer)
	return ok && types.Identical(types.Unalias(pt.Elem()), m.crumbT)
}

func c24IsStorePointer(in ssa.Instruction) (*ssa.Call, bool) {
	ci, ok := in.(*ssa.Call)
	if !ok {
		return nil, false
	}
	f := calleeOf(ci.Common())
	if f == nil || f.Pkg() == nil || f.Pkg().Path() != "sync/atomic" || f.Name() != "StorePointer" || len(ci.Call.Args) != 2 {
		return nil, false
	}
	return ci, true
}

// c24Unconvert strips Convert/ChangeType (unsafe.Pointer casts).
func c24Unconvert(v ssa.Value) ssa.Value {
	for {
		switch x := v.(type) {
		case *ssa.Convert:
			v = x.X
			continue
		case *ssa.ChangeType:
			v = x.X
			continue
		}
		return v
	}
}

// treeCall classifies a call on the Cache.kvs tree: "" (not a tree call), "read" or the mutator's name.
func (m *c24Model) treeCall(in ssa.Instruction) string {
	ci, ok := in.(*ssa.Call)
	if !ok {
		return ""
	}
	f := calleeOf(ci.Common())
	if f == nil || recvTypeName(f) != "BTreeG" || len(ci.Call.Args) == 0 || fieldVar(ci.Call.Args[0]) != m.cKvs {
		return ""
	}
	switch f.Name() {
	case "Get", "Has", "Len", "Clone", "Min", "Max", "Ascend", "AscendRange", "AscendLessThan", "AscendGreaterOrEqual",
		"Descend", "DescendRange", "DescendLessThanOrEqual", "DescendGreaterThan":
		return "read"
	}
	return f.Name()
}

func (m *c24Model) publishRules() {
	c, p := m.c, m.p
	var fns []*ssa.Function
	for _, f := range p.AllFuncs() {
		if f.Pkg != nil && f.Pkg.Pkg.Path() == calicoPrefix+c24Snap {
			fns = append(fns, f)
		}
	}
	nPub, nKVs, nLink := 0, 0, 0
	mir := m.newMirror(fns)
	for _, f := range fns {
		// publications of locally built crumbs
		pubs := map[*ssa.Alloc][]*ssa.Call{}
		var curStores []*ssa.Call
		allInstrs(f, false, func(_ *ssa.Function, in ssa.Instruction) {
			if sp, ok := c24IsStorePointer(in); ok {
				if a, ok := c24Unconvert(sp.Call.Args[1]).(*ssa.Alloc); ok && m.isCrumbPtr(a.Type()) {
					pubs[a] = append(pubs[a], sp)
				}
				if fieldVar(sp.Call.Args[0]) == m.cCurrent {
					curStores = append(curStores, sp)
				}
			}
		})
		for a, sps := range pubs {
			nPub++
			var late ssa.Instruction
			allInstrs(f, false, func(_ *ssa.Function, in ssa.Instruction) {
				st, ok := in.(*ssa.Store)
				if !ok || c25Root(st.Addr) != ssa.Value(a) {
					return
				}
				for _, sp := range sps {
					if instrReaches(sp, st) && late == nil {
						late = st
					}
				}
			})
			key := "C24.publish/no-write-after-link/" + fnName(f)
			if late == nil {
				c.Ok(key, p.Pos(sps[0].Pos()), "no store into the new Breadcrumb is reachable after the atomic store that publishes it")
			} else {
				c.Violate(key, p.Pos(late.Pos()), "the Breadcrumb is written at %s after it was published by atomic.StorePointer at %s: followers may read a torn/old value", p.Pos(late.Pos()), p.Pos(sps[0].Pos()))
			}
		}
		// the crumb that becomes current is linked from the previous current crumb
		for _, cur := range curStores {
			nLink++
			v := c24Unconvert(cur.Call.Args[1])
			ok := false
			allInstrs(f, false, func(_ *ssa.Function, in ssa.Instruction) {
				sp, is := c24IsStorePointer(in)
				if !is || fieldVar(sp.Call.Args[0]) != m.fNext || c24Unconvert(sp.Call.Args[1]) != v || !instrDominates(sp, cur) {
					return
				}
				// whose next?  the crumb that was current
				for _, o := range origins(c25Root(sp.Call.Args[0]), nil) {
					if cs, isCall := condCall(o.V); isCall && cs.Callee != nil && cs.Callee.Name() == "CurrentBreadcrumb" {
						ok = true
					}
					if fieldVar(o.V) == m.cCurrent {
						ok = true
					}
				}
			})
			c.Check(ok, "C24.publish/link-same-crumb/"+fnName(f), p.Pos(cur.Pos()),
				"the crumb stored as current was first linked as `next` of the previously current crumb",
				"a crumb becomes current without having been linked as `next` of the current crumb: clients following the chain never reach it (they stall or miss its deltas)")
		}
		// KVs is a clone, taken after the batch's mutations
		for _, st := range c25StoresToFieldVar(f, m.fKVs) {
			nKVs++
			var clone *ssa.Call
			os := origins(st.Val, nil)
			if len(os) == 1 && os[0].Kind == "call" {
				if ci, ok := os[0].V.(*ssa.Call); ok {
					if cal := calleeOf(ci.Common()); cal != nil && cal.Name() == "Clone" && recvTypeName(cal) == "BTreeG" {
						clone = ci
					}
				}
			}
			c.Check(clone != nil, "C24.publish/kvs-is-clone/"+fnName(f), p.Pos(st.Pos()),
				"Breadcrumb.KVs = <tree>.Clone()",
				"Breadcrumb.KVs is assigned "+path(st.Val)+", not a Clone(): the snapshot would change under clients that are reading it")
			if clone == nil || fieldVar(clone.Call.Args[0]) != m.cKvs {
				continue
			}
			var mut ssa.Instruction
			allInstrs(f, false, func(_ *ssa.Function, in ssa.Instruction) {
				isMut := mir.directMut(in)
				if ci, ok := in.(*ssa.Call); ok && !isMut {
					if g := mir.callee(ci); g != nil && mir.mayMut[g] {
						isMut = true // an in-package helper that (transitively) mutates the tree
					}
				}
				if isMut && instrReaches(clone, in) && mut == nil {
					mut = in
				}
			})
			key := "C24.publish/snapshot-after-updates/" + fnName(f)
			if mut == nil {
				c.Ok(key, p.Pos(clone.Pos()), "no mutation of the tree is reachable after the Clone() that becomes the crumb's snapshot")
			} else {
				c.Violate(key, p.Pos(mut.Pos()), "the tree is mutated at %s after the crumb's snapshot was cloned at %s: snapshot and deltas of the crumb disagree", p.Pos(mut.Pos()), p.Pos(clone.Pos()))
			}
		}
	}
	// deltas mirror tree mutations, per iteration (interprocedural: engine_C24mirror.go)
	mir.run()
	if nPub == 0 || nKVs == 0 || nLink == 0 {
		c.Lost("snapcache publication sites: %d crumb publications, %d KVs stores, %d currentBreadcrumb stores", nPub, nKVs, nLink)
	}
}

func c24AsInstr(v ssa.Value) ssa.Instruction {
	in, _ := v.(ssa.Instruction)
	return in
}

// ---------------------------------------------------------------- status --

func (m *c24Model) statusRule() {
	c, p := m.c, m.p
	isLenPending := func(v ssa.Value) bool {
		ci, ok := v.(*ssa.Call)
		if !ok {
			return false
		}
		cc, ok := isBuiltinCall(ci, "len")
		return ok && len(cc.Args) == 1 && fieldVar(cc.Args[0]) == m.cPendingU
	}
	// drain(cond, pol): the edge establishes len(pendingUpdates) <= limit, i.e. this crumb takes everything
	drain := func(cond ssa.Value, pol bool) bool {
		bo, ok := cond.(*ssa.BinOp)
		if !ok {
			return false
		}
		switch {
		case bo.Op == token.GTR && isLenPending(bo.X):
			return !pol
		case bo.Op == token.LEQ && isLenPending(bo.X):
			return pol
		case bo.Op == token.LSS && isLenPending(bo.Y):
			return !pol
		case bo.Op == token.GEQ && isLenPending(bo.Y):
			return pol
		}
		return false
	}
	pred := func(cond ssa.Value, pol bool) bool {
		if drain(cond, pol) {
			return true
		}
		phi, ok := cond.(*ssa.Phi)
		if !ok || !pol {
			return false
		}
		nTrue := 0
		for i, e := range phi.Edges {
			cv, isC := constOf(e)
			if !isC {
				return false
			}
			if cv.ExactString() != "true" {
				continue
			}
			nTrue++
			pb := phi.Block().Preds[i]
			okEdge := false
			for _, g := range guardsOfBlock(pb) {
				if drain(g.Cond, g.True) {
					okEdge = true
				}
			}
			if !okEdge {
				return false
			}
		}
		return nTrue > 0
	}
	n := 0
	for _, f := range p.AllFuncs() {
		if f.Pkg == nil || f.Pkg.Pkg.Path() != calicoPrefix+c24Snap {
			continue
		}
		for _, st := range c25StoresToFieldVar(f, m.fStatus) {
			fromPending := false
			for _, o := range origins(st.Val, nil) {
				if fieldVar(o.V) == m.cPending {
					fromPending = true
				}
			}
			if !fromPending {
				continue
			}
			n++
			c.Check(guardedCut(st, pred), "C24.status/last-batch-only/"+fnName(f), p.Pos(st.Pos()),
				"crumb.SyncStatus = pendingStatus only on the path where this crumb drains pendingUpdates",
				"crumb.SyncStatus = pendingStatus is reachable when updates received before the status are still pending: clients would be told in-sync before receiving them")
		}
	}
	if n == 0 {
		c.Lost("no store of Cache.pendingStatus into Breadcrumb.SyncStatus")
	}
}

// ---------------------------------------------------------------- stream --

func (m *c24Model) streamRules() {
	c, p := m.c, m.p
	var fns []*ssa.Function
	for _, f := range p.AllFuncs() {
		if f.Pkg != nil && f.Pkg.Pkg.Path() == calicoPrefix+c24Srv && f.Parent() == nil {
			fns = append(fns, f)
		}
	}
	isNext := func(in ssa.Instruction) (*ssa.Call, bool) {
		ci, ok := in.(*ssa.Call)
		if !ok {
			return nil, false
		}
		cal := calleeOf(ci.Common())
		return ci, cal != nil && isFunc(cal, c24Snap, "Breadcrumb.Next")
	}
	// the delta sender: the function that follows the breadcrumb chain
	var fnDelta *ssa.Function
	for _, f := range fns {
		for _, g := range withClosures([]*ssa.Function{f}) {
			allInstrs(g, false, func(_ *ssa.Function, in ssa.Instruction) {
				if nx, ok := isNext(in); ok {
					used := false
					if refs := nx.Referrers(); refs != nil {
						for _, r := range *refs {
							if ex, isEx := r.(*ssa.Extract); isEx && ex.Index == 0 && ex.Referrers() != nil {
								for _, rr := range *ex.Referrers() {
									if _, dbg := rr.(*ssa.DebugRef); !dbg {
										used = true
									}
								}
							}
						}
					}
					if !used {
						return // only waits for the next crumb (binary snapshot expiry)
					}
					if fnDelta != nil && fnDelta != f {
						c.Lost("two functions of syncserver call Breadcrumb.Next: %s and %s", fnName(fnDelta), fnName(f))
					}
					fnDelta = f
				}
			})
		}
	}
	if fnDelta == nil {
		c.Lost("no function of syncserver calls Breadcrumb.Next")
	}
	streams := func(f *ssa.Function) bool {
		return f != nil && containsCall(f, 3, func(cal *types.Func) bool { return cal.Name() == "Ascend" && recvTypeName(cal) == "BTreeG" })
	}

	// (1) hand-off
	nHand := 0
	for _, f := range fns {
		for _, g := range withClosures([]*ssa.Function{f}) {
			for _, b := range g.Blocks {
				for _, in := range b.Instrs {
					ci, ok := in.(ssa.CallInstruction)
					if !ok || calleeFn(ci.Common()) != fnDelta {
						continue
					}
					nHand++
					key := "C24.stream/handoff/" + fnName(f)
					var crumbArg ssa.Value
					for _, a := range ci.Common().Args[1:] {
						if m.isCrumbPtr(a.Type()) {
							crumbArg = a
						}
					}
					if crumbArg == nil {
						c.Undecided(key, p.Pos(in.Pos()), "no *Breadcrumb argument")
						continue
					}
					bad := ""
					for _, o := range origins(crumbArg, nil) {
						oc, isCall := o.V.(*ssa.Call)
						if !isCall {
							bad = "the breadcrumb comes from " + path(o.V) + " (" + o.Kind + "), not from a snapshot send"
							break
						}
						if cal := calleeOf(oc.Common()); cal != nil && cal.Name() == "SendSnapshot" {
							continue // the sender returns the crumb it sent
						}
						hit := c25Reach(g, oc, func(x ssa.Instruction) bool { return x == in },
							func(x ssa.Instruction) bool {
								xc, ok := x.(*ssa.Call)
								if !ok || !streams(calleeFn(xc.Common())) {
									return false
								}
								for _, a := range xc.Call.Args {
									if a == ssa.Value(oc) {
										return true
									}
								}
								return false
							}, nil)
						if hit != nil {
							bad = "the breadcrumb obtained at " + p.Pos(oc.Pos()) + " reaches the delta sender without its snapshot having been streamed to the client"
							break
						}
					}
					c.Check(bad == "", key, p.Pos(in.Pos()),
						"the delta sender starts from the crumb whose snapshot was sent (SendSnapshot result, or streamed on every path)",
						bad+": updates between the snapshot and that crumb are lost (or replayed)")
				}
			}
		}
	}
	if nHand == 0 {
		c.Lost("%s is never started", fnName(fnDelta))
	}

	// (1b) a binary snapshot is bound to one crumb: SendSnapshot returns the crumb of the snapshot object it sent,
	//      and that crumb field is never reassigned
	snapCrumb, _ := p.LookupObj(c24Srv, "snapshot.crumb").(*types.Var)
	if snapCrumb == nil {
		c.Lost("syncserver.snapshot.crumb")
	}
	nSS := 0
	for _, f := range fns {
		if f.Name() != "SendSnapshot" || f.Signature.Recv() == nil {
			continue
		}
		nSS++
		bad := ""
		for _, r := range c25Returns(f) {
			if len(r.Results) == 0 || isNilConst(r.Results[0]) {
				continue
			}
			v := r.Results[0]
			if fieldVar(v) != snapCrumb {
				bad = "returns " + path(v) + ", not the crumb of the snapshot it sent"
				break
			}
			obj := c25Root(v)
			sent := false
			allInstrs(f, false, func(_ *ssa.Function, in ssa.Instruction) {
				ci, ok := in.(*ssa.Call)
				if !ok || len(ci.Call.Args) == 0 || ci.Call.Args[0] != obj || !instrDominates(ci, r) {
					return
				}
				if sf := calleeFn(ci.Common()); sf != nil && sf.Signature.Recv() != nil {
					for _, a := range ci.Call.Args[1:] {
						if types.Implements(a.Type(), c24IoWriter(p)) || qualTypeName(a.Type()) == "io.Writer" {
							sent = true
						}
					}
				}
			})
			if !sent {
				bad = "returns " + path(v) + " but no send of that snapshot object to the connection dominates the return"
			}
		}
		c.Check(bad == "", "C24.stream/binsnap/"+fnName(f)+"/returns-sent-crumb", p.Pos(f.Pos()),
			"SendSnapshot returns the crumb field of the snapshot object whose bytes it wrote to the client",
			fnName(f)+" "+bad+": the delta sender would start from a crumb that does not match the snapshot bytes")
	}
	if nSS == 0 {
		c.Lost("no SendSnapshot implementation in syncserver")
	}
	reassigned := ""
	nCrumbStores := 0
	for _, f := range fns {
		for _, g := range withClosures([]*ssa.Function{f}) {
			for _, st := range c25StoresToFieldVar(g, snapCrumb) {
				nCrumbStores++
				if _, fresh := c25Root(st.Addr).(*ssa.Alloc); !fresh {
					reassigned = p.Pos(st.Pos())
				}
			}
		}
	}
	if nCrumbStores == 0 {
		c.Lost("snapshot.crumb is never set")
	}
	c.Check(reassigned == "", "C24.stream/binsnap/crumb-fixed", p.Pos(snapCrumb.Pos()),
		fmt.Sprintf("snapshot.crumb is only set when the snapshot object is constructed (%d site(s))", nCrumbStores),
		"snapshot.crumb is reassigned at "+reassigned+" after construction: cached bytes and returned crumb can diverge")

	// (1c) the bytes of a binary snapshot are serialised from the crumb recorded in the same snapshot object:
	//      wherever a function that works on a *snapshot (touches its fields) hands a breadcrumb to a function
	//      that streams the crumb's KVs, that breadcrumb is the crumb field of that very snapshot object.
	snapBuf, _ := p.LookupObj(c24Srv, "snapshot.buf").(*types.Var)
	if snapBuf == nil {
		c.Lost("syncserver.snapshot.buf")
	}
	nSer := 0
	for _, f := range fns {
		var fills []ssa.Value // snapshot objects whose buffer f (or its closures) touches
		var calls []*ssa.Call
		for _, g := range withClosures([]*ssa.Function{f}) {
			allInstrs(g, false, func(_ *ssa.Function, in ssa.Instruction) {
				switch x := in.(type) {
				case *ssa.FieldAddr:
					if structField(derefType(x.X.Type()), x.Field) == snapBuf {
						fills = append(fills, x.X)
					}
				case *ssa.Call:
					if streams(calleeFn(x.Common())) {
						for _, a := range x.Call.Args {
							if m.isCrumbPtr(a.Type()) {
								calls = append(calls, x)
								break
							}
						}
					}
				}
			})
		}
		if len(fills) == 0 || len(calls) == 0 {
			continue // not a snapshot serialiser (the legacy streamer is covered by C24.stream/handoff)
		}
		for _, ci := range calls {
			nSer++
			key := "C24.stream/binsnap/" + fnName(f) + "/bytes-from-own-crumb"
			var crumbArg ssa.Value
			for _, a := range ci.Call.Args {
				if m.isCrumbPtr(a.Type()) {
					crumbArg = a
				}
			}
			bad := ""
			ld, isLoad := crumbArg.(*ssa.UnOp)
			var fa *ssa.FieldAddr
			if isLoad && ld.Op == token.MUL {
				fa, _ = ld.X.(*ssa.FieldAddr)
			}
			switch {
			case fa == nil || structField(derefType(fa.X.Type()), fa.Field) != snapCrumb:
				if _, isParam := crumbArg.(*ssa.Parameter); isParam {
					c.Undecided(key, p.Pos(ci.Pos()), "the breadcrumb serialised into the snapshot buffer is a parameter of %s; its relation to snapshot.crumb is not modelled", fnName(f))
					continue
				}
				bad = "serialises " + path(crumbArg) + " into the snapshot's buffer, not the crumb recorded in the snapshot object"
			default:
				for _, o := range fills {
					if !c23Same(o, fa.X) {
						bad = "serialises the crumb of " + path(fa.X) + " into the buffer of a different snapshot object (" + path(o) + ")"
					}
				}
			}
			c.Check(bad == "", key, p.Pos(ci.Pos()),
				"the KVs written into a snapshot's buffer are those of the crumb stored in the same snapshot object (the one SendSnapshot returns)",
				fnName(f)+" "+bad+": the cached bytes and the crumb handed to the delta sender can differ, so deltas are replayed (older value after newer) or skipped")
		}
	}
	if nSer == 0 {
		c.Lost("no function of syncserver serialises a breadcrumb into snapshot.buf")
	}

	// the breadcrumb variable of the delta sender (captured → a cell)
	var cell *ssa.Alloc
	for _, b := range fnDelta.Blocks {
		for _, in := range b.Instrs {
			if st, ok := in.(*ssa.Store); ok {
				if pa, isP := st.Val.(*ssa.Parameter); isP && m.isCrumbPtr(pa.Type()) {
					if a, isA := st.Addr.(*ssa.Alloc); isA {
						cell = a
					}
				}
			}
		}
	}
	if cell == nil {
		c.Undecided("C24.stream/advance-by-next/"+fnName(fnDelta), p.Pos(fnDelta.Pos()), "the breadcrumb parameter is not a captured variable; this rule models the captured form only")
		return
	}
	isCell := func(v ssa.Value) bool {
		switch x := v.(type) {
		case *ssa.Alloc:
			return x == cell
		case *ssa.FreeVar:
			// closure of fnDelta capturing the cell
			fn := x.Parent()
			for i, fv := range fn.FreeVars {
				if fv == x {
					for _, mc := range c25MakeClosures(fn) {
						if i < len(mc.Bindings) && mc.Bindings[i] == ssa.Value(cell) {
							return true
						}
					}
				}
			}
		}
		return false
	}
	isCellLoad := func(v ssa.Value) bool {
		u, ok := v.(*ssa.UnOp)
		return ok && u.Op == token.MUL && isCell(u.X)
	}
	all := withClosures([]*ssa.Function{fnDelta})

	// (2) advances only through Next
	okAdv, nAdv := true, 0
	var advSite ssa.Instruction
	for _, g := range all {
		allInstrs(g, false, func(_ *ssa.Function, in ssa.Instruction) {
			st, ok := in.(*ssa.Store)
			if !ok {
				return
			}
			if !isCell(st.Addr) {
				return
			}
			if _, isP := st.Val.(*ssa.Parameter); isP {
				return
			}
			nAdv++
			good := false
			if ex, isEx := st.Val.(*ssa.Extract); isEx && ex.Index == 0 {
				if nx, isN := isNext(c24AsInstr(ex.Tuple)); isN && isCellLoad(nx.Call.Args[0]) {
					good = true
				}
			}
			if !good {
				okAdv = false
				advSite = in
			}
		})
	}
	if nAdv == 0 {
		c.Lost("%s never advances its breadcrumb", fnName(fnDelta))
	}
	site := p.Pos(fnDelta.Pos())
	if advSite != nil {
		site = p.Pos(advSite.Pos())
	}
	c.Check(okAdv, "C24.stream/advance-by-next/"+fnName(fnDelta), site,
		fmt.Sprintf("all %d assignment(s) to the breadcrumb are breadcrumb = breadcrumb.Next(…)", nAdv),
		"the delta sender's breadcrumb is assigned something other than breadcrumb.Next(): crumbs (and their deltas) can be skipped")

	// (3) between two Next() calls the Deltas are read
	isDeltasRead := func(in ssa.Instruction) bool {
		u, ok := in.(*ssa.UnOp)
		if !ok || u.Op != token.MUL {
			return false
		}
		fa, ok := u.X.(*ssa.FieldAddr)
		return ok && fieldVar(fa) == m.fDeltas && isCellLoad(fa.X)
	}
	var nexts []*ssa.Call
	var deltaReads []ssa.Value
	allInstrs(fnDelta, false, func(_ *ssa.Function, in ssa.Instruction) {
		if nx, ok := isNext(in); ok {
			nexts = append(nexts, nx)
		}
		if isDeltasRead(in) {
			deltaReads = append(deltaReads, in.(ssa.Value))
		}
	})
	var skipped ssa.Instruction
	for _, nx := range nexts {
		h := c25Reach(fnDelta, nx, func(in ssa.Instruction) bool { _, ok := isNext(in); return ok }, isDeltasRead, nil)
		if h != nil && skipped == nil {
			skipped = nx
		}
	}
	if skipped == nil {
		c.Ok("C24.stream/no-skipped-deltas/"+fnName(fnDelta), p.Pos(fnDelta.Pos()), "after each of %d Next() call(s) the crumb's Deltas are read before the next Next()", len(nexts))
	} else {
		c.Violate("C24.stream/no-skipped-deltas/"+fnName(fnDelta), p.Pos(skipped.Pos()), "after breadcrumb.Next() at %s the next Next() can be reached without reading that crumb's Deltas: its updates never reach the client", p.Pos(skipped.Pos()))
	}

	// (4) every Deltas read flows into the MsgKVs that is sent;  (5) status after deltas
	msgSend := func(in ssa.Instruction, typ string) (*ssa.Call, *ssa.Alloc) {
		ci, ok := in.(*ssa.Call)
		if !ok {
			return nil, nil
		}
		cal := calleeOf(ci.Common())
		if cal == nil || !isFunc(cal, c24Srv, "connection.sendMsg") || len(ci.Call.Args) < 2 {
			return nil, nil
		}
		mi, ok := ci.Call.Args[1].(*ssa.MakeInterface)
		if !ok || qualTypeName(mi.X.Type()) != c24Proto+"."+typ {
			return nil, nil
		}
		if ld, ok := mi.X.(*ssa.UnOp); ok {
			if a, ok := ld.X.(*ssa.Alloc); ok {
				return ci, a
			}
		}
		return ci, nil
	}
	var kvSends []*ssa.Call
	flowed := map[ssa.Value]bool{}
	allInstrs(fnDelta, false, func(_ *ssa.Function, in ssa.Instruction) {
		ci, lit := msgSend(in, "MsgKVs")
		if ci == nil {
			return
		}
		kvSends = append(kvSends, ci)
		if lit == nil {
			return
		}
		for _, v := range literalFieldStores(lit)["KVs"] {
			for _, o := range origins(v, func(x ssa.Value) []ssa.Value {
				if ci, ok := x.(*ssa.Call); ok {
					if cc, isApp := isBuiltinCall(ci, "append"); isApp {
						return cc.Args
					}
				}
				return nil
			}) {
				flowed[o.V] = true
			}
		}
	})
	if len(kvSends) == 0 || len(deltaReads) == 0 {
		c.Lost("%s: %d MsgKVs send(s), %d Deltas read(s)", fnName(fnDelta), len(kvSends), len(deltaReads))
	}
	lostRead := ""
	for _, r := range deltaReads {
		// origins() reports a field load as its address (FieldAddr) leaf
		if !flowed[r] && !flowed[r.(*ssa.UnOp).X] {
			lostRead = p.Pos(r.(ssa.Instruction).Pos())
		}
	}
	c.Check(lostRead == "", "C24.stream/deltas-flow-to-msg/"+fnName(fnDelta), p.Pos(kvSends[0].Pos()),
		fmt.Sprintf("all %d reads of breadcrumb.Deltas flow into the KVs of the MsgKVs that is sent", len(deltaReads)),
		"the Deltas read at "+lostRead+" does not flow into the MsgKVs sent to the client: those updates are dropped")

	var statusFn *ssa.Function
	for _, g := range all {
		allInstrs(g, false, func(_ *ssa.Function, in ssa.Instruction) {
			if ci, _ := msgSend(in, "MsgSyncStatus"); ci != nil {
				statusFn = g
			}
		})
	}
	if statusFn == nil {
		c.Lost("%s does not send MsgSyncStatus", fnName(fnDelta))
	}
	isStatusSend := func(in ssa.Instruction) bool {
		if statusFn == fnDelta {
			ci, _ := msgSend(in, "MsgSyncStatus")
			return ci != nil
		}
		ci, ok := in.(*ssa.Call)
		if !ok {
			return false
		}
		if mc, ok := ci.Call.Value.(*ssa.MakeClosure); ok {
			return mc.Fn == ssa.Value(statusFn)
		}
		return calleeFn(ci.Common()) == statusFn
	}
	isKVSend := func(in ssa.Instruction) bool {
		for _, k := range kvSends {
			if ssa.Instruction(k) == in {
				return true
			}
		}
		return false
	}
	noDeltas := func(cond ssa.Value, pol bool) bool {
		bo, ok := cond.(*ssa.BinOp)
		if !ok {
			return false
		}
		isLen := func(v ssa.Value) bool {
			ci, ok := v.(*ssa.Call)
			if !ok {
				return false
			}
			cc, ok := isBuiltinCall(ci, "len")
			if !ok || len(cc.Args) != 1 {
				return false
			}
			sl, ok := cc.Args[0].Type().Underlying().(*types.Slice)
			return ok && qualTypeName(sl.Elem()) == c24Proto+".SerializedUpdate"
		}
		isZero := func(v ssa.Value) bool { cv, ok := constOf(v); return ok && cv.ExactString() == "0" }
		if !isLen(bo.X) || !isZero(bo.Y) {
			return false
		}
		switch bo.Op {
		case token.GTR, token.NEQ:
			return !pol
		case token.EQL, token.LEQ:
			return pol
		}
		return false
	}
	var early ssa.Instruction
	for _, nx := range nexts {
		h := c25Reach(fnDelta, nx, isStatusSend, func(in ssa.Instruction) bool {
			_, again := isNext(in)
			return isKVSend(in) || again
		}, noDeltas)
		if h != nil && early == nil {
			early = h
		}
	}
	if early == nil {
		c.Ok("C24.stream/deltas-before-status/"+fnName(fnDelta), p.Pos(fnDelta.Pos()), "after Next() the status is sent only after the MsgKVs send (or when there are no deltas)")
	} else {
		c.Violate("C24.stream/deltas-before-status/"+fnName(fnDelta), p.Pos(early.Pos()), "after breadcrumb.Next() the status can be sent at %s before the crumb's deltas: the client may hear in-sync without holding the in-sync view", p.Pos(early.Pos()))
	}

	// (6) nobody else sends a status
	nStatus, foreign := 0, ""
	for _, f := range fns {
		for _, g := range withClosures([]*ssa.Function{f}) {
			allInstrs(g, false, func(_ *ssa.Function, in ssa.Instruction) {
				if mi, ok := in.(*ssa.MakeInterface); ok && qualTypeName(mi.X.Type()) == c24Proto+".MsgSyncStatus" {
					nStatus++
					if f != fnDelta {
						foreign = p.Pos(in.Pos())
					}
				}
			})
		}
	}
	if nStatus == 0 {
		c.Lost("no MsgSyncStatus constructed in syncserver")
	}
	c.Check(foreign == "", "C24.stream/status-single-sender", p.Pos(fnDelta.Pos()),
		fmt.Sprintf("MsgSyncStatus is constructed only in %s (%d site(s))", fnName(fnDelta), nStatus),
		"MsgSyncStatus is also constructed at "+foreign+", outside the delta sender: its ordering against the deltas is not controlled")
}

// ioWriter returns the io.Writer interface type (from the loaded program).
func c24IoWriter(p *Prog) *types.Interface {
	if o := p.LookupExt("io", "Writer"); o != nil {
		if it, ok := o.Type().Underlying().(*types.Interface); ok {
			return it
		}
	}
	return types.NewInterfaceType(nil, nil)
}
