// calint: repository-specific static analyser deciding structural necessary
// conditions of the given calico properties.  See /verif/DESIGN.md.
package main

import (
	"encoding/json"
	"flag"
	"fmt"
	"os"
	"sort"
	"strconv"
)

func main() {
	prop := flag.String("prop", "", "property id (C01..C45)")
	tier := flag.String("tier", "quick", "quick|thorough")
	repo := flag.String("repo", "/repo", "repository root")
	verif := flag.String("verif", "/verif", "verif root (evidence, known_findings.txt)")
	list := flag.Bool("list", false, "list registered properties as JSON (used to generate MANIFEST.json)")
	warm := flag.Bool("warm", false, "load all rule roots once to warm the Go build cache")
	explain := flag.String("explain", "", "print a stored violation file")
	flag.Parse()
	// go/packages resolves the `go` command through the process PATH.
	os.Setenv("PATH", "/opt/veriftools/go1.26.8/bin:"+os.Getenv("PATH"))
	os.Setenv("GOTOOLCHAIN", "local")

	if *explain != "" {
		b, err := os.ReadFile(*explain)
		if err != nil {
			fmt.Fprintln(os.Stderr, err)
			os.Exit(2)
		}
		os.Stdout.Write(b)
		return
	}
	if *warm {
		// Populate the Go build cache with export data for everything the rules load.
		_, err := Load(LoadOpts{Repo: *repo, NoSSA: true}, "felix/...", "libcalico-go/lib/...", "typha/pkg/...",
			"kube-controllers/pkg/controllers/...", "cni-plugin/pkg/ipamplugin", "apiserver/pkg/registry/projectcalico/authorizer",
			"app-policy/checker", "goldmane/pkg/storage", "confd/pkg/backends/calico")
		if err != nil {
			fmt.Fprintln(os.Stderr, "warm:", err)
			os.Exit(2)
		}
		if _, err := Load(LoadOpts{Repo: *repo, Module: modDS, NoSSA: true}, "./hashring"); err != nil {
			fmt.Fprintln(os.Stderr, "warm:", err)
			os.Exit(2)
		}
		fmt.Println("warm: ok")
		return
	}
	if *list {
		var ids []string
		for id := range registry {
			ids = append(ids, id)
		}
		sort.Strings(ids)
		var out []map[string]any
		for _, id := range ids {
			p := registry[id]
			out = append(out, map[string]any{"id": p.ID, "title": p.Title, "level": p.Level,
				"technique": p.Technique, "explanation": p.Explanation, "not_decided": p.NotDecided,
				"assumptions": p.Assumptions, "design_ref": p.DesignRef, "fixtures": len(p.Fixtures)})
		}
		b, _ := json.MarshalIndent(out, "", " ")
		fmt.Println(string(b))
		return
	}
	p := registry[*prop]
	if p == nil {
		fmt.Fprintf(os.Stderr, "unknown property %q\n", *prop)
		os.Exit(2)
	}
	if t := os.Getenv("VERIF_TIER"); t != "" && !isFlagSet("tier") {
		*tier = t
	}
	if *tier != "quick" && *tier != "thorough" {
		fmt.Fprintf(os.Stderr, "bad tier %q\n", *tier)
		os.Exit(2)
	}
	verifRoot = *verif
	seed, _ := strconv.Atoi(os.Getenv("VERIF_SEED"))
	os.Exit(runProperty(p, *tier, *repo, *verif, seed))
}

func isFlagSet(name string) bool {
	set := false
	flag.Visit(func(f *flag.Flag) {
		if f.Name == name {
			set = true
		}
	})
	return set
}
