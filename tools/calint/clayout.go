package main

import (
	"crypto/sha256"
	"encoding/hex"
	"encoding/json"
	"fmt"
	"os"
	"os/exec"
	"path/filepath"
	"sort"
	"strings"
)

// C side: record layouts and map declarations of felix/bpf-gpl, computed by
// /verif/cside/layouts.py (clang 14 front end only).  Results are cached by the
// content hash of every input (all bpf-gpl sources, the script, the stub headers),
// so the answer always corresponds to /repo's current working tree.

type cField struct {
	Path      string `json:"path"`
	Offset    int    `json:"offset"`
	Size      *int   `json:"size"`
	Type      string `json:"type"`
	Aggregate bool   `json:"aggregate"`
	Bits      []int  `json:"bits"`
}

type cRecord struct {
	Size   int      `json:"size"`
	Align  int      `json:"align"`
	Fields []cField `json:"fields"`
}

type cMap struct {
	KeyType    string `json:"key_type"`
	ValueType  string `json:"value_type"`
	KeySize    *int   `json:"key_size"`
	ValueSize  *int   `json:"value_size"`
	MapType    string `json:"map_type"`
	MaxEntries string `json:"max_entries"`
}

type cConfig struct {
	Missing        bool                `json:"missing"`
	Flags          []string            `json:"flags"`
	Records        map[string]*cRecord `json:"records"`
	Maps           map[string]*cMap    `json:"maps"`
	FrontEndErrors int                 `json:"front_end_errors"`
	FirstErrors    []string            `json:"first_errors"`
}

type cLayouts struct {
	Configs map[string]*cConfig `json:"configs"`
}

func (c *cConfig) isV6() bool {
	for _, f := range c.Flags {
		if f == "-DIPVER6" {
			return true
		}
	}
	return false
}

// loadCLayouts runs (or re-uses) the clang layout extraction for repo.
func loadCLayouts(c *Ctx, verif string) *cLayouts {
	script := filepath.Join(verif, "cside", "layouts.py")
	h := sha256.New()
	add := func(p string) {
		b, err := os.ReadFile(p)
		if err != nil {
			c.Lost("cannot read %s: %v", p, err)
		}
		fmt.Fprintf(h, "%s\x00%d\x00", p, len(b))
		h.Write(b)
	}
	add(script)
	for _, dir := range []string{filepath.Join(verif, "cstubs"), filepath.Join(c.Repo, "felix/bpf-gpl")} {
		ents, err := os.ReadDir(dir)
		if err != nil {
			c.Lost("cannot list %s: %v", dir, err)
		}
		var names []string
		for _, e := range ents {
			if !e.IsDir() && (strings.HasSuffix(e.Name(), ".h") || strings.HasSuffix(e.Name(), ".c") || e.Name() == "calculate-flags") {
				names = append(names, e.Name())
			}
		}
		sort.Strings(names)
		for _, n := range names {
			add(filepath.Join(dir, n))
		}
	}
	key := hex.EncodeToString(h.Sum(nil))[:24]
	cacheDir := filepath.Join(verif, ".cache")
	cachePath := filepath.Join(cacheDir, "clayouts-"+key+".json")
	var data []byte
	for ov := range c.Overlay {
		if strings.Contains(ov, "/felix/bpf-gpl/") {
			c.Lost("in-memory variants of C sources are not supported (%s)", ov)
		}
	}
	if b, err := os.ReadFile(cachePath); err == nil {
		data = b
	} else {
		cmd := exec.Command("python3", script, "--repo", c.Repo)
		out, err := cmd.Output()
		if err != nil {
			c.Lost("clang layout extraction failed: %v", err)
		}
		data = out
		os.MkdirAll(cacheDir, 0o755)
		os.WriteFile(cachePath, data, 0o644)
	}
	var l cLayouts
	if err := json.Unmarshal(data, &l); err != nil {
		c.Lost("bad layout JSON: %v", err)
	}
	n := 0
	for name, cfg := range l.Configs {
		if cfg.Missing {
			c.Lost("BPF program source for config %s is missing", name)
		}
		n += len(cfg.Records)
	}
	if len(l.Configs) < 8 || n < 500 {
		c.Lost("implausibly small C layout extraction: %d configs, %d records", len(l.Configs), n)
	}
	return &l
}

// record returns the named record in every config that has it, keyed by config.
func (l *cLayouts) record(name string) map[string]*cRecord {
	out := map[string]*cRecord{}
	for cn, cfg := range l.Configs {
		if r, ok := cfg.Records[name]; ok {
			out[cn] = r
		}
	}
	return out
}

// mapDecls returns the declarations of map symbol sym in every config that has it.
func (l *cLayouts) mapDecls(sym string) map[string]*cMap {
	out := map[string]*cMap{}
	for cn, cfg := range l.Configs {
		if m, ok := cfg.Maps[sym]; ok {
			out[cn] = m
		}
	}
	return out
}

// boundaries returns the set of byte offsets at which some field (leaf or
// aggregate) of the record starts, and at which some field ends.  For unions all
// alternatives contribute.
func (r *cRecord) boundaries() (starts, ends map[int]bool) {
	starts, ends = map[int]bool{0: true}, map[int]bool{r.Size: true}
	for _, f := range r.Fields {
		if f.Bits != nil || f.Size == nil {
			continue
		}
		starts[f.Offset] = true
		ends[f.Offset+*f.Size] = true
		// elements of byte arrays are addressable one by one
		if strings.Contains(f.Type, "[") && *f.Size > 0 {
			if n := arrayLen(f.Type); n > 0 && *f.Size%n == 0 {
				es := *f.Size / n
				for i := 0; i <= n; i++ {
					starts[f.Offset+i*es] = true
					ends[f.Offset+i*es] = true
				}
			}
		}
	}
	return
}

func arrayLen(t string) int {
	i := strings.Index(t, "[")
	j := strings.Index(t, "]")
	if i < 0 || j < i {
		return 0
	}
	n := 0
	fmt.Sscanf(t[i+1:j], "%d", &n)
	return n
}

// fieldByPath finds a field by its dotted path (exact), else by last component.
func (r *cRecord) fieldByPath(p string) *cField {
	for i := range r.Fields {
		if r.Fields[i].Path == p {
			return &r.Fields[i]
		}
	}
	return nil
}

// topLevelAt returns the extent [lo,hi) of the outermost member containing off.
func (r *cRecord) topLevelAt(off int) (int, int, bool) {
	lo, hi, ok := 0, 0, false
	for _, f := range r.Fields {
		if f.Size == nil || strings.Contains(f.Path, ".") {
			continue
		}
		if f.Offset <= off && off < f.Offset+*f.Size {
			if !ok || *f.Size > hi-lo {
				lo, hi, ok = f.Offset, f.Offset+*f.Size, true
			}
		}
	}
	return lo, hi, ok
}
