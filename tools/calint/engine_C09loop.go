package main

// Loop structure for C09: natural loops of an SSA function, "ranges over every
// element of S" recognition, and the loop-carried part of a value's backward
// data slice.  Everything is derived from the CFG and def-use edges; no source
// text, statement shape or local name is looked at, so `for range`, a classic
// `for i := 0; i < len(s); i++`, early-continue vs nested-if and renamed or
// re-declared locals all normalise to the same answer.

import (
	"go/constant"
	"go/token"
	"go/types"
	"strconv"
	"strings"

	"golang.org/x/tools/go/ssa"
)

type c09Loop struct {
	Header *ssa.BasicBlock
	Blocks map[*ssa.BasicBlock]bool
}

// c09Loops returns the natural loops of fn (one per header; back edges to the
// same header are merged).
func c09Loops(fn *ssa.Function) []*c09Loop {
	by := map[*ssa.BasicBlock]*c09Loop{}
	var out []*c09Loop
	for _, b := range fn.Blocks {
		for _, h := range b.Succs {
			if !h.Dominates(b) {
				continue
			}
			l := by[h]
			if l == nil {
				l = &c09Loop{Header: h, Blocks: map[*ssa.BasicBlock]bool{h: true}}
				by[h] = l
				out = append(out, l)
			}
			st := []*ssa.BasicBlock{b}
			for len(st) > 0 {
				x := st[len(st)-1]
				st = st[:len(st)-1]
				if l.Blocks[x] {
					continue
				}
				l.Blocks[x] = true
				st = append(st, x.Preds...)
			}
		}
	}
	return out
}

func (l *c09Loop) has(in ssa.Instruction) bool { return in != nil && l.Blocks[in.Block()] }

// c09InnermostLoop: the smallest loop containing all the given instructions.
func c09InnermostLoop(loops []*c09Loop, ins ...ssa.Instruction) *c09Loop {
	var best *c09Loop
	for _, l := range loops {
		ok := true
		for _, in := range ins {
			if !l.has(in) {
				ok = false
			}
		}
		if ok && (best == nil || len(l.Blocks) < len(best.Blocks)) {
			best = l
		}
	}
	return best
}

func c09IntConst(v ssa.Value) (int64, bool) {
	k, ok := v.(*ssa.Const)
	if !ok || k.Value == nil || k.Value.Kind() != constant.Int {
		return 0, false
	}
	return constant.Int64Val(k.Value)
}

// c09StepOf: v == phi + 1 for a phi of integer type.
func c09StepOf(v ssa.Value) *ssa.Phi {
	bo, ok := v.(*ssa.BinOp)
	if !ok || bo.Op != token.ADD {
		return nil
	}
	for _, pr := range [][2]ssa.Value{{bo.X, bo.Y}, {bo.Y, bo.X}} {
		if ph, ok := pr[0].(*ssa.Phi); ok {
			if k, ok := c09IntConst(pr[1]); ok && k == 1 {
				return ph
			}
		}
	}
	return nil
}

// c09IsCounter: phi (in the header of l) only counts iterations: every value
// arriving over a back edge is phi+const and every value arriving from outside
// is defined outside the loop.
func c09IsCounter(l *c09Loop, phi *ssa.Phi) bool {
	if phi.Block() != l.Header {
		return false
	}
	if b, ok := phi.Type().Underlying().(*types.Basic); !ok || b.Info()&types.IsInteger == 0 {
		return false
	}
	for i, e := range phi.Edges {
		if l.Blocks[phi.Block().Preds[i]] {
			bo, ok := e.(*ssa.BinOp)
			if !ok || (bo.Op != token.ADD && bo.Op != token.SUB) || bo.X != ssa.Value(phi) {
				return false
			}
			if _, ok := c09IntConst(bo.Y); !ok {
				return false
			}
			continue
		}
		if in, ok := e.(ssa.Instruction); ok && l.has(in) {
			return false
		}
	}
	return true
}

// c09SameSlice: two values denote the same slice: the same SSA value, or loads
// of the same field chain of the same base value.
func c09SameSlice(a, b ssa.Value) bool {
	if a == b {
		return true
	}
	ba, sa := c09Norm(a)
	bb, sb := c09Norm(b)
	return sa != "" && sa == sb && (ba == bb || (path(ba) == path(bb) && path(ba) != ""))
}

// c09FullRange decides whether idx, used to index S, visits every element of S:
// idx is the iteration counter of a loop that starts at the first element, steps
// by one and is left by its header exactly when idx reaches len(S).  Returns the
// loop and its header If, or why not.
func c09FullRange(loops []*c09Loop, idx, S ssa.Value) (*c09Loop, *ssa.If, string) {
	var phi *ssa.Phi
	start := int64(0)
	if ph, ok := idx.(*ssa.Phi); ok {
		phi = ph
	} else if ph := c09StepOf(idx); ph != nil {
		phi, start = ph, -1
	}
	if phi == nil {
		if k, ok := c09IntConst(idx); ok {
			return nil, nil, "the index is the constant " + constant.MakeInt64(k).ExactString()
		}
		return nil, nil, "the index " + pathN(idx, 3) + " is not a loop counter"
	}
	var l *c09Loop
	for _, c := range loops {
		if c.Header == phi.Block() {
			l = c
		}
	}
	if l == nil {
		return nil, nil, "the index " + pathN(idx, 3) + " is not carried round a loop"
	}
	for i, e := range phi.Edges {
		if l.Blocks[phi.Block().Preds[i]] {
			// back edge: next value is this one plus one
			if c09StepOf(e) != phi {
				return nil, nil, "the loop does not step the index by one"
			}
			if start == -1 && e != idx {
				return nil, nil, "the loop does not step the index by one"
			}
			continue
		}
		if k, ok := c09IntConst(e); !ok || k != start {
			return nil, nil, "the loop does not start at the first element"
		}
	}
	ifi, ok := l.Header.Instrs[len(l.Header.Instrs)-1].(*ssa.If)
	if !ok || len(l.Header.Succs) != 2 || !l.Blocks[l.Header.Succs[0]] || l.Blocks[l.Header.Succs[1]] {
		return nil, nil, "the loop header does not test the index against the length"
	}
	bo, ok := ifi.Cond.(*ssa.BinOp)
	if !ok {
		return nil, nil, "the loop header does not test the index against the length"
	}
	var i, n ssa.Value
	switch bo.Op {
	case token.LSS:
		i, n = bo.X, bo.Y
	case token.GTR:
		i, n = bo.Y, bo.X
	default:
		return nil, nil, "the loop header does not test index < length"
	}
	if i != idx {
		return nil, nil, "the loop header tests " + pathN(i, 3) + ", not the index used"
	}
	lc, ok := n.(*ssa.Call)
	if !ok {
		return nil, nil, "the loop bound " + pathN(n, 3) + " is not len() of the slice"
	}
	cc, isLen := isBuiltinCall(lc, "len")
	if !isLen || len(cc.Args) != 1 || !c09SameSlice(cc.Args[0], S) {
		return nil, nil, "the loop bound " + pathN(n, 3) + " is not len() of the slice indexed"
	}
	return l, ifi, ""
}

// c09ElemIndex: v = *(&S[i]) or S[i] -> (S, i).
func c09ElemIndex(v ssa.Value) (S, idx ssa.Value) {
	switch x := v.(type) {
	case *ssa.UnOp:
		if x.Op == token.MUL {
			if ia, ok := x.X.(*ssa.IndexAddr); ok {
				return ia.X, ia.Index
			}
		}
	case *ssa.Index:
		return x.X, x.Index
	}
	return nil, nil
}

// ----------------------------------------------------- loop-carried slices --

// c09Carried is one way a value depends on an earlier iteration of a loop.
type c09Carried struct {
	V    ssa.Value // the header phi, or the variable (Alloc) that keeps the value
	What string
}

func c09AllocRoot(v ssa.Value) *ssa.Alloc {
	for {
		switch x := v.(type) {
		case *ssa.Alloc:
			return x
		case *ssa.FieldAddr:
			v = x.X
		case *ssa.IndexAddr:
			v = x.X
		default:
			return nil
		}
	}
}

// c09AddrKey: the field/element selection an address applies to its root
// variable ("" = the variable itself, ".2;.0;" = field 0 of field 2).
func c09AddrKey(v ssa.Value) string {
	switch x := v.(type) {
	case *ssa.FieldAddr:
		return c09AddrKey(x.X) + "." + strconv.Itoa(x.Field) + ";"
	case *ssa.IndexAddr:
		return c09AddrKey(x.X) + "[" + pathN(x.Index, 2) + "];"
	}
	return ""
}

// c09StoresTo: every Store whose address is a or a field/element address of a.
func c09StoresTo(a *ssa.Alloc) []*ssa.Store {
	var out []*ssa.Store
	seen := map[ssa.Value]bool{}
	var rec func(addr ssa.Value)
	rec = func(addr ssa.Value) {
		if seen[addr] || addr.Referrers() == nil {
			return
		}
		seen[addr] = true
		for _, r := range *addr.Referrers() {
			switch x := r.(type) {
			case *ssa.Store:
				if x.Addr == addr {
					out = append(out, x)
				}
			case *ssa.FieldAddr:
				if x.X == addr {
					rec(x)
				}
			case *ssa.IndexAddr:
				if x.X == addr {
					rec(x)
				}
			}
		}
	}
	rec(a)
	return out
}

// c09LoopCarried walks the backward data slice of root (operands of
// instructions, all phi edges, values stored into locals that are read) and
// returns the places where it picks up a value computed by an EARLIER iteration
// of loop l: a phi in l's header that is not a plain iteration counter, or a
// variable that lives outside the loop, is written inside it and is read at a
// point no write of the current iteration dominates.  Values defined outside
// the loop are invariant and end the walk.
func c09LoopCarried(l *c09Loop, root ssa.Value) []c09Carried {
	var out []c09Carried
	seen := map[ssa.Value]bool{}
	var walk func(v ssa.Value)
	walk = func(v ssa.Value) {
		if v == nil || seen[v] {
			return
		}
		seen[v] = true
		in, isInstr := v.(ssa.Instruction)
		if !isInstr {
			return // parameter, constant, global, function, free variable, builtin
		}
		if a, ok := v.(*ssa.Alloc); ok {
			if l.has(a) {
				for _, st := range c09StoresTo(a) {
					walk(st.Val)
				}
			}
			return
		}
		if !l.has(in) {
			return
		}
		switch x := v.(type) {
		case *ssa.Phi:
			if x.Block() == l.Header {
				if !c09IsCounter(l, x) {
					out = append(out, c09Carried{x, "the value " + c09PhiName(x) + " is carried over from the previous iteration (it is only initialised before the loop)"})
				}
				return
			}
		case *ssa.UnOp:
			if x.Op == token.MUL {
				if a := c09AllocRoot(x.X); a != nil && !l.has(a) {
					var inLoop []*ssa.Store
					reinit := false
					for _, st := range c09StoresTo(a) {
						if l.has(st) {
							inLoop = append(inLoop, st)
							if instrDominates(st, x) && strings.HasPrefix(c09AddrKey(x.X), c09AddrKey(st.Addr)) {
								reinit = true // the location read (or the whole variable) is rewritten in this iteration first
							}
						}
					}
					if len(inLoop) > 0 && !reinit {
						out = append(out, c09Carried{a, "the variable " + c09AllocName(a) + " lives outside the loop, is written inside it and is read where no write of the current iteration dominates"})
						return
					}
					for _, st := range inLoop {
						walk(st.Val)
					}
					return
				}
			}
		}
		for _, op := range in.Operands(nil) {
			if op != nil {
				walk(*op)
			}
		}
	}
	walk(root)
	return out
}

func c09PhiName(p *ssa.Phi) string {
	if p.Comment != "" {
		return p.Comment
	}
	return p.Name()
}

func c09AllocName(a *ssa.Alloc) string {
	if a.Comment != "" {
		return a.Comment
	}
	return a.Name()
}
