package main

import (
	"fmt"
	"go/constant"
	"go/token"
	"go/types"
	"sort"
	"strings"

	"golang.org/x/tools/go/ssa"
)

// ===================================================================== E-PROV
//
// c30Prov: backward *pointer provenance* of the values a function hands out.
// ptr(v) enumerates where a pointer value can come from, elems(v) where the
// element pointers of a slice / array value can come from.  It follows phis,
// append/copy, slicing, local arrays (varargs literals), address-taken locals,
// and calls of functions whose bodies are loaded (returns are followed in a new
// frame; parameters are mapped back to the call's arguments).  Leaves are
// classified; anything the walker does not model is an "unknown" leaf (the
// caller must then report Undecided, never a pass).
//
// A leaf of kind "cached" is a pointer (or the slice of pointers) read out of
// the designated cache field: the caller's result then aliases the cache.

type c30Frame struct {
	call   ssa.CallInstruction
	parent *c30Frame
	depth  int
}

type c30Prov struct {
	p       *Prog
	cache   *types.Var // the cache field (slice of pointers)
	seen    map[string]bool
	fresh   map[string]bool // description of benign leaves
	cached  map[string]token.Pos
	unknown map[string]token.Pos
}

func newC30Prov(p *Prog, cache *types.Var) *c30Prov {
	return &c30Prov{p: p, cache: cache, seen: map[string]bool{}, fresh: map[string]bool{}, cached: map[string]token.Pos{}, unknown: map[string]token.Pos{}}
}

func (a *c30Prov) visit(v ssa.Value, mode string, fr *c30Frame) bool {
	k := fmt.Sprintf("%p|%s|%p", v, mode, fr)
	if fr != nil {
		k = fmt.Sprintf("%p|%s|%p", v, mode, fr.call)
	}
	if a.seen[k] {
		return false
	}
	a.seen[k] = true
	return true
}

func (a *c30Prov) param(v *ssa.Parameter, fr *c30Frame, next func(ssa.Value, *c30Frame)) {
	if fr == nil {
		a.fresh["parameter "+v.Name()+" of "+fnName(v.Parent())] = true
		return
	}
	fn := v.Parent()
	for i, prm := range fn.Params {
		if prm == v {
			args := fr.call.Common().Args
			if fr.call.Common().IsInvoke() {
				args = append([]ssa.Value{fr.call.Common().Value}, args...)
			}
			if i < len(args) {
				next(args[i], fr.parent)
				return
			}
		}
	}
	a.unknown["parameter "+v.Name()+" of "+fnName(fn)+" (cannot map to an argument)"] = v.Pos()
}

// call follows the idx-th result of a call into the callee's returns.
func (a *c30Prov) call(c *ssa.Call, idx int, fr *c30Frame, elems bool) {
	if b, ok := c.Call.Value.(*ssa.Builtin); ok {
		switch b.Name() {
		case "append":
			if elems {
				a.elems(c.Call.Args[0], fr)
				a.elems(c.Call.Args[1], fr)
				return
			}
		}
		a.unknown["builtin "+b.Name()] = c.Pos()
		return
	}
	fn := calleeFn(c.Common())
	depth := 0
	if fr != nil {
		depth = fr.depth
	}
	if fn != nil && fn.Blocks != nil && depth < 4 {
		nf := &c30Frame{call: c, parent: fr, depth: depth + 1}
		for _, r := range returnsOf(fn) {
			if idx < len(r.Results) {
				if elems {
					a.elems(r.Results[idx], nf)
				} else {
					a.ptr(r.Results[idx], nf)
				}
			}
		}
		return
	}
	// no body: the result may pass any like-typed argument through
	name := "a function value"
	if f := calleeOf(c.Common()); f != nil {
		name = funcID(f)
	}
	a.fresh["result of "+name] = true
	var rt types.Type
	if tup, ok := c.Type().(*types.Tuple); ok {
		if idx < tup.Len() {
			rt = tup.At(idx).Type()
		}
	} else {
		rt = c.Type()
	}
	for _, arg := range c.Call.Args {
		if rt != nil && types.Identical(arg.Type(), rt) {
			if elems {
				a.elems(arg, fr)
			} else {
				a.ptr(arg, fr)
			}
		}
	}
}

// ptr: where can pointer value v come from?
func (a *c30Prov) ptr(v ssa.Value, fr *c30Frame) {
	if v == nil || !a.visit(v, "p", fr) {
		return
	}
	switch x := v.(type) {
	case *ssa.Phi:
		for _, e := range x.Edges {
			a.ptr(e, fr)
		}
	case *ssa.Const:
		// nil
	case *ssa.Alloc:
		a.fresh["a fresh "+types.TypeString(derefType(x.Type()), func(p *types.Package) string { return p.Name() })] = true
	case *ssa.Parameter:
		a.param(x, fr, a.ptr)
	case *ssa.Call:
		a.call(x, 0, fr, false)
	case *ssa.Extract:
		if c, ok := x.Tuple.(*ssa.Call); ok {
			a.call(c, x.Index, fr, false)
		} else {
			a.unknown[path(v)] = v.Pos()
		}
	case *ssa.ChangeType:
		a.ptr(x.X, fr)
	case *ssa.Convert:
		a.ptr(x.X, fr)
	case *ssa.MakeInterface:
		a.ptr(x.X, fr)
	case *ssa.TypeAssert:
		a.ptr(x.X, fr)
	case *ssa.UnOp:
		if x.Op != token.MUL {
			a.unknown[path(v)] = v.Pos()
			return
		}
		switch ad := x.X.(type) {
		case *ssa.IndexAddr:
			a.elems(ad.X, fr) // one of the container's elements
		case *ssa.Alloc:
			n := 0
			for _, r := range *ad.Referrers() {
				if st, ok := r.(*ssa.Store); ok && st.Addr == ad {
					a.ptr(st.Val, fr)
					n++
				}
			}
			if n == 0 {
				a.unknown["never-stored local "+ad.Name()] = ad.Pos()
			}
		case *ssa.FieldAddr:
			if fv := fieldVar(ad); fv != nil {
				a.fresh["pointer field "+c30FieldDesc(ad, fv)] = true
			} else {
				a.unknown[path(v)] = v.Pos()
			}
		default:
			a.unknown[path(v)] = v.Pos()
		}
	case *ssa.Lookup:
		a.fresh["an entry of map "+path(x.X)] = true
	default:
		a.unknown[path(v)] = v.Pos()
	}
}

func c30FieldDesc(fa *ssa.FieldAddr, fv *types.Var) string {
	return namedTypeName(derefType(fa.X.Type())) + "." + fv.Name()
}

// elems: where can the element pointers of container value v come from?
func (a *c30Prov) elems(v ssa.Value, fr *c30Frame) {
	if v == nil || !a.visit(v, "e", fr) {
		return
	}
	fromStores := func(cont ssa.Value) {
		refs := cont.Referrers()
		if refs == nil {
			return
		}
		for _, r := range *refs {
			switch y := r.(type) {
			case *ssa.IndexAddr:
				if y.X != cont {
					continue
				}
				for _, rr := range *y.Referrers() {
					if st, ok := rr.(*ssa.Store); ok && st.Addr == y {
						a.ptr(st.Val, fr)
					}
				}
			case *ssa.Store:
				if y.Addr == cont {
					a.elems(y.Val, fr)
				}
			case *ssa.Call:
				if b, ok := y.Call.Value.(*ssa.Builtin); ok && b.Name() == "copy" && len(y.Call.Args) == 2 && y.Call.Args[0] == cont {
					a.elems(y.Call.Args[1], fr)
				}
			case *ssa.Slice:
				// s := arr[:]; copy(s, src) / s[i] = p
				if y.X == cont && a.visit(y, "e-fwd", fr) {
					for _, rr := range *y.Referrers() {
						switch z := rr.(type) {
						case *ssa.IndexAddr:
							for _, r3 := range *z.Referrers() {
								if st, ok := r3.(*ssa.Store); ok && st.Addr == z {
									a.ptr(st.Val, fr)
								}
							}
						case *ssa.Call:
							if b, ok := z.Call.Value.(*ssa.Builtin); ok && b.Name() == "copy" && len(z.Call.Args) == 2 && z.Call.Args[0] == ssa.Value(y) {
								a.elems(z.Call.Args[1], fr)
							}
						}
					}
				}
			}
		}
	}
	switch x := v.(type) {
	case *ssa.Phi:
		for _, e := range x.Edges {
			a.elems(e, fr)
		}
	case *ssa.Const:
		// nil slice
	case *ssa.Parameter:
		a.param(x, fr, a.elems)
	case *ssa.Slice:
		a.elems(x.X, fr)
	case *ssa.Alloc:
		fromStores(x)
	case *ssa.MakeSlice:
		fromStores(x)
	case *ssa.Call:
		a.call(x, 0, fr, true)
	case *ssa.Extract:
		if c, ok := x.Tuple.(*ssa.Call); ok {
			a.call(c, x.Index, fr, true)
		} else {
			a.unknown[path(v)] = v.Pos()
		}
	case *ssa.ChangeType:
		a.elems(x.X, fr)
	case *ssa.UnOp:
		if x.Op != token.MUL {
			a.unknown[path(v)] = v.Pos()
			return
		}
		switch ad := x.X.(type) {
		case *ssa.FieldAddr:
			fv := fieldVar(ad)
			switch {
			case fv == nil:
				a.unknown[path(v)] = v.Pos()
			case fv == a.cache:
				a.cached["the elements of "+c30FieldDesc(ad, fv)] = v.Pos()
			default:
				a.fresh["the elements of "+c30FieldDesc(ad, fv)] = true
			}
		case *ssa.Alloc:
			fromStores(ad)
		default:
			a.unknown[path(v)] = v.Pos()
		}
	default:
		a.unknown[path(v)] = v.Pos()
	}
}

func c30Keys[V any](m map[string]V) []string {
	var out []string
	for k := range m {
		out = append(out, k)
	}
	sort.Strings(out)
	return out
}

// ===================================================================== E-EVAL
//
// c30Interp: a bounded concrete evaluator of go/ssa for small integer/slice
// functions (list chunkers).  Nothing of the repository is compiled or run: the
// SSA of the source is interpreted over a model of ints, bools, slices of
// opaque tokens and local arrays.  Anything outside the fragment aborts with
// c30Outside (→ Undecided); a Go run-time panic of the modelled program
// (index/slice out of range) aborts with c30Panic (→ reported as such).

type c30Arr struct{ el []any }
type c30Slice struct {
	arr     *c30Arr
	lo, hi  int
	capEnd  int
	nilness bool
}
type c30Ptr struct {
	arr *c30Arr
	idx int
}
type c30ArrPtr struct{ arr *c30Arr }
type c30Tok int
type c30Nil struct{}

type c30Outside struct{ msg string }
type c30Panic struct{ msg string }

type c30Interp struct {
	fuel int
	// intercept, when set, models a call by contract instead of evaluating the
	// callee's body (ok=false: evaluate normally).
	intercept func(callee *ssa.Function, args []any) (res []any, ok bool)
	// opaque: calls without a loaded body (and interface calls) yield c30Unknown
	// results instead of aborting; any use of such a result that matters
	// (arithmetic, comparison, branching) still aborts with c30Outside.
	opaque bool
}

// struct model: a struct object is a c30Arr of its fields; c30StructPtr points
// at the object, c30StructVal is a by-value copy (copied on load and on store).
type c30StructPtr struct{ arr *c30Arr }
type c30StructVal struct{ el []any }
type c30GlobalAddr struct{ g *ssa.Global }

// c30GlobalVal is "the value of package-level variable g" (assumed never
// reassigned and, for the error sentinels it is used for, non-nil).
type c30GlobalVal struct{ g *ssa.Global }
type c30Unknown struct{}

func c30CopyStruct(v c30StructVal) c30StructVal {
	out := c30StructVal{el: make([]any, len(v.el))}
	for i, e := range v.el {
		if sv, ok := e.(c30StructVal); ok {
			e = c30CopyStruct(sv)
		}
		out.el[i] = e
	}
	return out
}

func (s c30Slice) len() int { return s.hi - s.lo }

func c30Zero(t types.Type) any {
	switch u := t.Underlying().(type) {
	case *types.Basic:
		switch {
		case u.Info()&types.IsInteger != 0:
			return int64(0)
		case u.Info()&types.IsBoolean != 0:
			return false
		case u.Info()&types.IsString != 0:
			return ""
		}
	case *types.Slice:
		return c30Slice{nilness: true}
	case *types.Pointer, *types.Map, *types.Interface, *types.Signature, *types.Chan:
		return c30Nil{}
	case *types.Array:
		arr := &c30Arr{el: make([]any, u.Len())}
		for i := range arr.el {
			arr.el[i] = c30Zero(u.Elem())
		}
		return arr
	case *types.Struct:
		sv := c30StructVal{el: make([]any, u.NumFields())}
		for i := range sv.el {
			sv.el[i] = c30Zero(u.Field(i).Type())
		}
		return sv
	}
	panic(c30Outside{"zero value of " + t.String()})
}

func (it *c30Interp) run(fn *ssa.Function, args []any, depth int) []any {
	if fn.Blocks == nil {
		panic(c30Outside{"no body for " + fnName(fn)})
	}
	if depth > 4 {
		panic(c30Outside{"call depth"})
	}
	env := map[ssa.Value]any{}
	for i, p := range fn.Params {
		env[p] = args[i]
	}
	get := func(v ssa.Value) any {
		switch x := v.(type) {
		case *ssa.Const:
			if x.Value == nil {
				return c30Zero(x.Type())
			}
			switch x.Value.Kind() {
			case constant.Int:
				n, ok := constant.Int64Val(x.Value)
				if !ok {
					panic(c30Outside{"big constant"})
				}
				return n
			case constant.Bool:
				return constant.BoolVal(x.Value)
			case constant.String:
				return constant.StringVal(x.Value)
			}
			panic(c30Outside{"constant " + x.String()})
		case *ssa.Global:
			return c30GlobalAddr{x}
		}
		r, ok := env[v]
		if !ok {
			panic(c30Outside{"value " + v.Name() + " (" + fmt.Sprintf("%T", v) + ") not evaluated"})
		}
		return r
	}
	asInt := func(v any) int64 {
		n, ok := v.(int64)
		if !ok {
			panic(c30Outside{fmt.Sprintf("expected an integer, have %T", v)})
		}
		return n
	}
	var prev *ssa.BasicBlock
	b := fn.Blocks[0]
	for {
		var next *ssa.BasicBlock
		for _, in := range b.Instrs {
			it.fuel--
			if it.fuel <= 0 {
				panic(c30Panic{"does not terminate within the evaluation budget"})
			}
			switch x := in.(type) {
			case *ssa.DebugRef:
			case *ssa.Phi:
				for i, pr := range b.Preds {
					if pr == prev {
						env[x] = get(x.Edges[i])
					}
				}
			case *ssa.BinOp:
				env[x] = c30BinOp(x.Op, get(x.X), get(x.Y))
			case *ssa.UnOp:
				switch x.Op {
				case token.NOT:
					env[x] = !get(x.X).(bool)
				case token.SUB:
					env[x] = -asInt(get(x.X))
				case token.MUL:
					switch p := get(x.X).(type) {
					case c30Ptr:
						env[x] = p.arr.el[p.idx]
						if sv, ok := env[x].(c30StructVal); ok {
							env[x] = c30CopyStruct(sv)
						}
					case c30StructPtr:
						env[x] = c30CopyStruct(c30StructVal{el: p.arr.el})
					case c30GlobalAddr:
						env[x] = c30GlobalVal{p.g}
					case c30Nil:
						panic(c30Panic{"nil pointer dereference"})
					default:
						panic(c30Outside{"load through " + path(x.X)})
					}
				default:
					panic(c30Outside{"unary " + x.Op.String()})
				}
			case *ssa.Convert:
				v := get(x.X)
				if _, ok := v.(int64); !ok {
					panic(c30Outside{"conversion of non-integer"})
				}
				env[x] = v
			case *ssa.ChangeType:
				env[x] = get(x.X)
			case *ssa.Alloc:
				t := derefType(x.Type())
				if at, ok := t.Underlying().(*types.Array); ok {
					env[x] = c30ArrPtr{c30Zero(at).(*c30Arr)}
				} else if st, ok := t.Underlying().(*types.Struct); ok {
					env[x] = c30StructPtr{&c30Arr{el: c30Zero(st).(c30StructVal).el}}
				} else {
					env[x] = c30Ptr{&c30Arr{el: []any{c30Zero(t)}}, 0}
				}
			case *ssa.MakeSlice:
				n, cp := int(asInt(get(x.Len))), int(asInt(get(x.Cap)))
				if n < 0 || cp < n {
					panic(c30Panic{"makeslice: len out of range"})
				}
				arr := &c30Arr{el: make([]any, cp)}
				for i := range arr.el {
					arr.el[i] = c30Zero(x.Type().Underlying().(*types.Slice).Elem())
				}
				env[x] = c30Slice{arr: arr, lo: 0, hi: n, capEnd: cp}
			case *ssa.IndexAddr:
				i := int(asInt(get(x.Index)))
				switch c := get(x.X).(type) {
				case c30ArrPtr:
					if i < 0 || i >= len(c.arr.el) {
						panic(c30Panic{"index out of range"})
					}
					env[x] = c30Ptr{c.arr, i}
				case c30Slice:
					if i < 0 || i >= c.len() {
						panic(c30Panic{fmt.Sprintf("index out of range [%d] with length %d", i, c.len())})
					}
					env[x] = c30Ptr{c.arr, c.lo + i}
				default:
					panic(c30Outside{"index of " + path(x.X)})
				}
			case *ssa.FieldAddr:
				switch p := get(x.X).(type) {
				case c30StructPtr:
					env[x] = c30Ptr{p.arr, x.Field}
				case c30Nil:
					panic(c30Panic{"nil pointer dereference"})
				default:
					panic(c30Outside{"field address of " + path(x.X)})
				}
			case *ssa.Field:
				sv, ok := get(x.X).(c30StructVal)
				if !ok {
					panic(c30Outside{"field of " + path(x.X)})
				}
				env[x] = sv.el[x.Field]
			case *ssa.MakeInterface:
				env[x] = get(x.X)
			case *ssa.ChangeInterface:
				env[x] = get(x.X)
			case *ssa.Store:
				val := get(x.Val)
				if sv, ok := val.(c30StructVal); ok {
					val = c30CopyStruct(sv)
				}
				switch p := get(x.Addr).(type) {
				case c30Ptr:
					p.arr.el[p.idx] = val
				case c30StructPtr:
					sv, ok := val.(c30StructVal)
					if !ok || len(sv.el) != len(p.arr.el) {
						panic(c30Outside{"store of a non-struct through " + path(x.Addr)})
					}
					copy(p.arr.el, sv.el)
				case c30Nil:
					panic(c30Panic{"nil pointer dereference"})
				default:
					panic(c30Outside{"store through " + path(x.Addr)})
				}
			case *ssa.Slice:
				env[x] = c30SliceOp(get(x.X), x, func(v ssa.Value) (int, bool) {
					if v == nil {
						return 0, false
					}
					return int(asInt(get(v))), true
				})
			case *ssa.Call:
				var av []any
				for _, a := range x.Call.Args {
					av = append(av, get(a))
				}
				if bi, ok := x.Call.Value.(*ssa.Builtin); ok {
					env[x] = c30Builtin(bi.Name(), av)
					continue
				}
				callee := calleeFn(x.Common())
				var res []any
				modelled := false
				if callee != nil && !x.Call.IsInvoke() && it.intercept != nil {
					res, modelled = it.intercept(callee, av)
				}
				if !modelled && (callee == nil || x.Call.IsInvoke() || callee.Blocks == nil) {
					if !it.opaque {
						panic(c30Outside{"call of " + path(x.Call.Value)})
					}
					n := x.Call.Signature().Results().Len()
					res = make([]any, n)
					for i := range res {
						res[i] = c30Unknown{}
					}
					modelled = true
					if n == 0 {
						continue
					}
				}
				if !modelled {
					res = it.run(callee, av, depth+1)
				}
				if len(res) == 1 {
					env[x] = res[0]
				} else {
					env[x] = res
				}
			case *ssa.Extract:
				tup, ok := get(x.Tuple).([]any)
				if !ok {
					panic(c30Outside{"extract"})
				}
				env[x] = tup[x.Index]
			case *ssa.If:
				cv, isBool := get(x.Cond).(bool)
				if !isBool {
					panic(c30Outside{"branch on a value the evaluator does not know: " + path(x.Cond)})
				}
				if cv {
					next = b.Succs[0]
				} else {
					next = b.Succs[1]
				}
			case *ssa.Jump:
				next = b.Succs[0]
			case *ssa.Return:
				var out []any
				for _, r := range x.Results {
					out = append(out, get(r))
				}
				return out
			default:
				panic(c30Outside{fmt.Sprintf("instruction %T in %s", in, fnName(fn))})
			}
		}
		if next == nil {
			panic(c30Outside{"block without terminator"})
		}
		prev, b = b, next
	}
}

func c30BinOp(op token.Token, a, b any) any {
	switch x := a.(type) {
	case int64:
		y, ok := b.(int64)
		if !ok {
			break
		}
		switch op {
		case token.ADD:
			return x + y
		case token.SUB:
			return x - y
		case token.MUL:
			return x * y
		case token.QUO:
			if y == 0 {
				panic(c30Panic{"integer divide by zero"})
			}
			return x / y
		case token.REM:
			if y == 0 {
				panic(c30Panic{"integer divide by zero"})
			}
			return x % y
		case token.LSS:
			return x < y
		case token.LEQ:
			return x <= y
		case token.GTR:
			return x > y
		case token.GEQ:
			return x >= y
		case token.EQL:
			return x == y
		case token.NEQ:
			return x != y
		}
	case bool:
		y, ok := b.(bool)
		if !ok {
			break
		}
		switch op {
		case token.EQL:
			return x == y
		case token.NEQ:
			return x != y
		}
	case string:
		y, ok := b.(string)
		if !ok {
			break
		}
		switch op {
		case token.ADD:
			return x + y
		case token.EQL:
			return x == y
		case token.NEQ:
			return x != y
		case token.LSS:
			return x < y
		case token.LEQ:
			return x <= y
		case token.GTR:
			return x > y
		case token.GEQ:
			return x >= y
		}
	case c30Nil, c30StructPtr, c30GlobalVal:
		// identity comparison of pointers / interface values holding them
		switch b.(type) {
		case c30Nil, c30StructPtr, c30GlobalVal:
			switch op {
			case token.EQL:
				return a == b
			case token.NEQ:
				return a != b
			}
		}
	case c30Slice:
		y, ok := b.(c30Slice)
		if ok && (y.arr == nil && y.nilness || x.arr == nil && x.nilness) {
			isNil := x.nilness && y.nilness
			switch op {
			case token.EQL:
				return isNil
			case token.NEQ:
				return !isNil
			}
		}
	}
	panic(c30Outside{fmt.Sprintf("binary %s on %T, %T", op, a, b)})
}

func c30SliceOp(base any, x *ssa.Slice, bound func(ssa.Value) (int, bool)) any {
	var arr *c30Arr
	var off, ln, cp int
	nilness := false
	switch c := base.(type) {
	case c30ArrPtr:
		arr, off, ln, cp = c.arr, 0, len(c.arr.el), len(c.arr.el)
	case c30Slice:
		arr, off, ln, cp = c.arr, c.lo, c.len(), c.capEnd-c.lo
		nilness = c.nilness
	default:
		panic(c30Outside{"slice of " + path(x.X)})
	}
	lo, okLo := bound(x.Low)
	hi, okHi := bound(x.High)
	mx, okMx := bound(x.Max)
	if !okLo {
		lo = 0
	}
	if !okHi {
		hi = ln
	}
	if !okMx {
		mx = cp
	}
	if lo < 0 || hi < lo || mx < hi || mx > cp {
		panic(c30Panic{fmt.Sprintf("slice bounds out of range [%d:%d] with capacity %d", lo, hi, cp)})
	}
	return c30Slice{arr: arr, lo: off + lo, hi: off + hi, capEnd: off + mx, nilness: nilness && arr == nil}
}

func c30Builtin(name string, av []any) any {
	ints := func() []int64 {
		var out []int64
		for _, a := range av {
			n, ok := a.(int64)
			if !ok {
				panic(c30Outside{name + " of non-integers"})
			}
			out = append(out, n)
		}
		return out
	}
	switch name {
	case "len", "cap":
		switch c := av[0].(type) {
		case c30Slice:
			if name == "cap" {
				return int64(c.capEnd - c.lo)
			}
			return int64(c.len())
		case string:
			return int64(len(c))
		}
	case "min":
		v := ints()
		m := v[0]
		for _, n := range v[1:] {
			if n < m {
				m = n
			}
		}
		return m
	case "max":
		v := ints()
		m := v[0]
		for _, n := range v[1:] {
			if n > m {
				m = n
			}
		}
		return m
	case "append":
		s, ok1 := av[0].(c30Slice)
		t, ok2 := av[1].(c30Slice)
		if !ok1 || !ok2 {
			break
		}
		need := s.len() + t.len()
		var add []any
		if t.arr != nil {
			add = append(add, t.arr.el[t.lo:t.hi]...)
		}
		if s.arr != nil && s.lo+need <= s.capEnd {
			copy(s.arr.el[s.hi:], add)
			return c30Slice{arr: s.arr, lo: s.lo, hi: s.hi + len(add), capEnd: s.capEnd}
		}
		if need == 0 {
			return s
		}
		ncap := 2 * need
		arr := &c30Arr{el: make([]any, ncap)}
		if s.arr != nil {
			copy(arr.el, s.arr.el[s.lo:s.hi])
		}
		copy(arr.el[s.len():], add)
		for i := need; i < ncap; i++ {
			arr.el[i] = c30Nil{}
		}
		return c30Slice{arr: arr, lo: 0, hi: need, capEnd: ncap}
	case "copy":
		d, ok1 := av[0].(c30Slice)
		s, ok2 := av[1].(c30Slice)
		if ok1 && ok2 {
			n := min(d.len(), s.len())
			if n > 0 {
				copy(d.arr.el[d.lo:d.lo+n], s.arr.el[s.lo:s.lo+n])
			}
			return int64(n)
		}
	}
	panic(c30Outside{"builtin " + name})
}

// c30EvalChunker evaluates chunker(list of n tokens, size) and returns the
// chunks as token lists.
func c30EvalChunker(fn *ssa.Function, listIdx, sizeIdx, n, size int) (chunks [][]int, err error) {
	defer func() {
		if r := recover(); r != nil {
			switch e := r.(type) {
			case c30Outside:
				err = e
			case c30Panic:
				err = e
			default:
				err = c30Outside{fmt.Sprintf("evaluator fault: %v", r)}
			}
		}
	}()
	arr := &c30Arr{el: make([]any, n)}
	for i := range arr.el {
		arr.el[i] = c30Tok(i)
	}
	list := c30Slice{arr: arr, lo: 0, hi: n, capEnd: n}
	if n == 0 {
		list = c30Slice{nilness: true}
	}
	args := make([]any, len(fn.Params))
	args[listIdx] = list
	args[sizeIdx] = int64(size)
	it := &c30Interp{fuel: 20000}
	res := it.run(fn, args, 0)
	if len(res) != 1 {
		return nil, c30Outside{"result arity"}
	}
	outer, ok := res[0].(c30Slice)
	if !ok {
		return nil, c30Outside{"result is not a slice"}
	}
	for i := outer.lo; i < outer.hi; i++ {
		in, ok := outer.arr.el[i].(c30Slice)
		if !ok {
			return nil, c30Outside{"chunk is not a slice"}
		}
		ch := []int{}
		for j := in.lo; j < in.hi; j++ {
			t, ok := in.arr.el[j].(c30Tok)
			if !ok {
				return nil, c30Outside{"chunk element is not a list element"}
			}
			ch = append(ch, int(t))
		}
		chunks = append(chunks, ch)
	}
	return chunks, nil
}

func (e c30Outside) Error() string { return "outside the evaluator's fragment: " + e.msg }
func (e c30Panic) Error() string   { return "the function panics: " + e.msg }

func c30ChunksString(ch [][]int) string {
	var parts []string
	for _, c := range ch {
		parts = append(parts, fmt.Sprint(c))
	}
	return "[" + strings.Join(parts, " ") + "]"
}
