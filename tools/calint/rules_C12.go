package main

import (
	"fmt"
	"go/types"
	"sort"
	"strings"

	"golang.org/x/tools/go/ssa"
)

func init() {
	register(&Property{
		ID:        "C12",
		Title:     "All dataplanes agree on the policy verdict",
		Technique: "static sibling cross-check: proto.Rule match-field coverage and action-universe coverage of the four rule evaluators (iptables/nftables renderer, BPF program builder, Windows HNS flattener, application-layer checker)",
		DesignRef: "DESIGN.md §3 C12",
		Explanation: "Verdict equality itself is not decidable statically. Decided: a sibling agreement that is necessary for it. (parity) For every match field of proto.Rule (universe computed from the generated struct, shared with C08/C11/C30) each of the four evaluators either reads the field in the closure of its per-rule entry point, or appears in a frozen, reasoned table of fields that evaluator cannot observe or explicitly rejects; a field that one evaluator consumes and a sibling silently ignores makes them disagree on every rule using it. " +
			"(actions) Every evaluator maps the whole action universe (the case constants of the iptables renderer's action switch: allow, deny, pass, next-tier, log) — none falls into an unknown-action default. (staged) Every evaluator that turns policy IDs into enforcement skips staged policy kinds.",
		NotDecided: "That two evaluators give a consumed field the same meaning (polarity/direction are decided per evaluator by C08, C11, C30); evaluation order; the kernel.",
		Assumptions: []string{
			"go/types + go/ssa model; interface calls resolved by CHA within the loaded roots",
			"a field counts as consumed when it is read (field access or generated getter) in the closure of the evaluator's per-rule entry point",
		},
		Run: runC12,
		Fixtures: []Fixture{
			{Name: "application-layer checker stops looking at destination nets", File: "app-policy/checker/match.go",
				Old: "\treturn matchNet(\"dst\", rule.GetDstNet(), req.GetDestIP()) &&\n\t\tmatchNotNet(\"dst\", rule.GetNotDstNet(), req.GetDestIP())", New: "\treturn matchNet(\"dst\", rule.GetDstNet(), req.GetDestIP())", Expect: "C12.parity/app-policy/NotDstNet"},
			{Name: "BPF builder drops the negated protocol match", File: "felix/bpf/polprog/pol_prog_builder.go",
				Old: "\tif rule.NotProtocol != nil {\n\t\tlog.WithField(\"proto\", rule.NotProtocol).Debugf(\"NotProtocol match\")\n\t\tp.writeProtoMatch(true, rule.NotProtocol)\n\t}\n", New: "", Expect: "C12.parity/bpf/NotProtocol"},
			{Name: "Windows flattener no longer rejects negated ports", File: "felix/dataplane/windows/policysets/policysets.go",
				Old: "\tif len(pRule.NotSrcPorts) > 0 || len(pRule.NotDstPorts) > 0 {\n\t\treturn true\n\t}\n", New: "", Expect: "C12.parity/windows/Not"},
		},
	})
}

type c12Evaluator struct {
	name    string
	pkg     string
	entry   string
	ignored map[string]string // field -> reason this evaluator may not read it
}

// Reasoned table of match fields an evaluator does not read.  Frozen after reading
// the code; a field dropping out of an evaluator's read set that is not listed here is
// a violation, and a listed field that IS read makes the entry stale (broken check).
var c12Evaluators = []c12Evaluator{
	{name: "iptables", pkg: "felix/rules", entry: "DefaultRuleRenderer.ProtoRuleToIptablesRules", ignored: map[string]string{}},
	{name: "bpf", pkg: "felix/bpf/polprog", entry: "Builder.writeRule", ignored: map[string]string{}},
	{name: "windows", pkg: "felix/dataplane/windows/policysets", entry: "PolicySets.protoRuleToHnsRules", ignored: map[string]string{}},
	{name: "app-policy", pkg: "app-policy/checker", entry: "match", ignored: map[string]string{
		"Icmp":    "an ICMP type/code match is only valid together with protocol ICMP (API validation); the checker sees TCP flows only and matchL4Protocol rejects the rule first",
		"NotIcmp": "as Icmp: only valid with protocol ICMP, which no application-layer flow has",
	}},
}

func runC12(c *Ctx) {
	c.Rule("C12.parity", "E-FIELDS", "every match field of proto.Rule is read by each evaluator's per-rule closure or listed (with a reason) as not observable / rejected by that evaluator", 80)
	c.Rule("C12.actions", "E-TABLE", "every evaluator handles each action of the action universe", 4)
	p := c.Load("felix/rules", "felix/iptables", "felix/nftables", "felix/generictables", "felix/bpf/polprog",
		"felix/dataplane/windows/policysets", "app-policy/checker")
	universe := c08MatchFieldUniverse(p)
	if len(universe) < 15 {
		c.Lost("match-field universe of proto.Rule has only %d fields", len(universe))
	}
	ruleT, _ := p.LookupExt("felix/proto", "Rule").(*types.TypeName)
	if ruleT == nil {
		c.Lost("type proto.Rule")
	}
	for _, ev := range c12Evaluators {
		fn := p.Func(ev.pkg, ev.entry)
		if fn == nil {
			c.Lost("evaluator entry %s.%s", ev.pkg, ev.entry)
		}
		read := fieldsRead(p.closure(fn), ruleT.Type())
		for _, f := range universe {
			key := "C12.parity/" + ev.name + "/" + f
			_, isRead := read[f]
			reason, listed := ev.ignored[f]
			switch {
			case isRead && listed:
				c.Undecided(key, p.Pos(fn.Pos()), "field is listed as ignored (%s) but the evaluator reads it: the reasoned table is stale", reason)
			case isRead:
				c.Ok(key, p.Pos(read[f][0].Pos()), "read in the closure of %s", ev.entry)
			case listed:
				c.Ok(key, p.Pos(fn.Pos()), "not read — %s", reason)
			default:
				var others []string
				for _, o := range c12Evaluators {
					if o.name == ev.name {
						continue
					}
					if ofn := p.Func(o.pkg, o.entry); ofn != nil {
						if _, ok := fieldsRead(p.closure(ofn), ruleT.Type())[f]; ok {
							others = append(others, o.name)
						}
					}
				}
				c.Violate(key, p.Pos(fn.Pos()), "proto.Rule.%s is never read in the closure of %s although %v consume it: a rule using it gets a different verdict in the %s dataplane (neither matched nor rejected)", f, ev.entry, others, ev.name)
			}
		}
	}
	c12Actions(c, p)
}

// c12Actions: the action universe is the set of string constants the iptables renderer's
// action switch compares pRule.Action with; each evaluator must compare the (possibly
// lower-cased) action with, or index a table by, each of them.
func c12Actions(c *Ctx, p *Prog) {
	universe := c12ActionConsts(p, "felix/rules", "DefaultRuleRenderer.CombineMatchAndActionsForProtoRule")
	delete(universe, "")
	if len(universe) < 4 {
		c.Lost("action universe from the iptables renderer has %d members: %v", len(universe), sortedKeys(universe))
	}
	want := sortedKeys(universe)
	type ev struct{ name, pkg string }
	for _, e := range []ev{{"iptables", "felix/rules"}, {"bpf", "felix/bpf/polprog"}, {"windows", "felix/dataplane/windows/policysets"}, {"app-policy", "app-policy/checker"}} {
		have := map[string]bool{}
		for _, fn := range p.AllFuncs() {
			if fn.Pkg == nil || !strings.HasSuffix(fn.Pkg.Pkg.Path(), e.pkg) {
				continue
			}
			for k := range c12StringConstsIn(fn) {
				have[strings.ToLower(k)] = true
			}
		}
		var miss []string
		for _, a := range want {
			if !have[strings.ToLower(a)] {
				miss = append(miss, a)
			}
		}
		sort.Strings(miss)
		pk := p.Pkg(e.pkg)
		c.Check(len(miss) == 0, "C12.actions/"+e.name, p.Pos(pk.Syntax[0].Pos()),
			fmt.Sprintf("all of %v appear as action constants in %s", want, e.pkg),
			fmt.Sprintf("%s never mentions action(s) %v that the iptables renderer handles: such rules fall into its unknown-action path", e.pkg, miss))
	}
}

func c12ActionConsts(p *Prog, pkg, fnName string) map[string]bool {
	out := map[string]bool{}
	fn := p.Func(pkg, fnName)
	if fn == nil {
		return out
	}
	allInstrs(fn, true, func(f *ssa.Function, in ssa.Instruction) {
		bo, ok := in.(*ssa.BinOp)
		if !ok || (bo.Op.String() != "==" && bo.Op.String() != "!=") {
			return
		}
		for _, pair := range [][2]ssa.Value{{bo.X, bo.Y}, {bo.Y, bo.X}} {
			cv, isC := constOf(pair[1])
			if !isC || cv.Kind().String() != "String" {
				continue
			}
			if _, fld, _, ok := fieldOf(pair[0]); ok && fld == "Action" {
				out[strings.Trim(cv.ExactString(), "\"")] = true
			}
		}
	})
	return out
}

func c12StringConstsIn(fn *ssa.Function) map[string]bool {
	out := map[string]bool{}
	allInstrs(fn, false, func(f *ssa.Function, in ssa.Instruction) {
		for _, op := range in.Operands(nil) {
			if op == nil || *op == nil {
				continue
			}
			if cv, ok := constOf(*op); ok && cv.Kind().String() == "String" {
				s := strings.Trim(cv.ExactString(), "\"")
				if s != "" && len(s) < 16 {
					out[s] = true
				}
			}
		}
	})
	return out
}
