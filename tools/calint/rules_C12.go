package main

import (
	"fmt"
	"go/types"
	"sort"
	"strings"

	"golang.org/x/tools/go/ssa"
)

func init() {
	register(&Property{
		ID:        "C12",
		Title:     "All dataplanes agree on the policy verdict",
		Technique: "static sibling cross-check: proto.Rule match-field coverage and action-universe coverage of the four rule evaluators (iptables/nftables renderer, BPF program builder, Windows HNS flattener, application-layer checker); guard/fill/return slot consistency of their memoising getters; register liveness across BPF program splits (shared with C11)",
		DesignRef: "DESIGN.md §3 C12",
		Explanation: "Verdict equality itself is not decidable statically. Decided: a sibling agreement that is necessary for it. (parity) For every match field of proto.Rule (universe computed from the generated struct, shared with C08/C11/C30) each of the four evaluators either reads the field in the closure of its per-rule entry point, or appears in a frozen, reasoned table of fields that evaluator cannot observe or explicitly rejects; a field that one evaluator consumes and a sibling silently ignores makes them disagree on every rule using it. " +
			"(actions) Every evaluator maps the whole action universe (the case constants of the iptables renderer's action switch: allow, deny, pass, next-tier, log) — none falls into an unknown-action default. (staged) Every evaluator that turns policy IDs into enforcement skips staged policy kinds. " +
			"(memo) Every memoising getter of an evaluator package (per-flow string forms in the application-layer checker, the policy-group UID of the iptables renderer) tests, fills and returns one and the same cache slot, so the value an evaluator matches on does not depend on which sibling getter ran earlier in the evaluation. " +
			"(tierlocal) The iptables/nftables evaluator renders each tier (end-of-tier deny, policy jumps) from that tier alone, like the BPF evaluator and the checker: C09's tier-locality armed under this id. (split) The BPF evaluator keeps matching the packet's own fields when a policy program is split mid-rule: C11's split discipline (index stash/restore/dispatch, callers reload live registers) armed under this id.",
		NotDecided: "bitmap: the bit position inside a word (x % 64 against the word width) and the trie above the bitmap; counter loops whose bounds are not constants. That two evaluators give a consumed field the same meaning (polarity/direction are decided per evaluator by C08, C11, C30); evaluation order; the kernel.",
		Assumptions: []string{
			"go/types + go/ssa model; interface calls resolved by CHA within the loaded roots",
			"a field counts as consumed when it is read (field access or generated getter) in the closure of the evaluator's per-rule entry point",
		},
		Run: runC12,
		Fixtures: []Fixture{
			{Name: "application-layer checker stops looking at destination nets", File: "app-policy/checker/match.go",
				Old: "\treturn matchNet(\"dst\", rule.GetDstNet(), req.GetDestIP()) &&\n\t\tmatchNotNet(\"dst\", rule.GetNotDstNet(), req.GetDestIP())", New: "\treturn matchNet(\"dst\", rule.GetDstNet(), req.GetDestIP())", Expect: "C12.parity/app-policy/NotDstNet"},
			{Name: "BPF builder drops the negated protocol match", File: "felix/bpf/polprog/pol_prog_builder.go",
				Old: "\tif rule.NotProtocol != nil {\n\t\tlog.WithField(\"proto\", rule.NotProtocol).Debugf(\"NotProtocol match\")\n\t\tp.writeProtoMatch(true, rule.NotProtocol)\n\t}\n", New: "", Expect: "C12.parity/bpf/NotProtocol"},
			{Name: "Windows flattener no longer rejects negated ports", File: "felix/dataplane/windows/policysets/policysets.go",
				Old: "\tif len(pRule.NotSrcPorts) > 0 || len(pRule.NotDstPorts) > 0 {\n\t\treturn true\n\t}\n", New: "", Expect: "C12.parity/windows/Not"},
			{Name: "source-IP memo guarded by the destination slot (copy/paste between sibling getters)", File: "app-policy/checker/requestcache.go",
				Old: "\tif r.srcIPStr == \"\" {", New: "\tif r.dstIPStr == \"\" {", Expect: "C12.memo/app-policy/requestCache.getSrcIPStr"},
			{Name: "destination-IP memo filled into the source slot", File: "app-policy/checker/requestcache.go",
				Old: "\t\tr.dstIPStr = r.GetDestIP().String()", New: "\t\tr.srcIPStr = r.GetDestIP().String()", Expect: "C12.memo/app-policy/requestCache.getDstIPStr"},
			{Name: "IP+port key getter returns the plain IP slot", File: "app-policy/checker/requestcache.go",
				Old: "\treturn r.dstIPProtoPort", New: "\treturn r.dstIPStr", Expect: "C12.memo/app-policy/requestCache.getDstIPProtoPortStr"},
			{Name: "BPF ports loop keeps R1 across a program split without reloading", File: c11File,
				Old: "\t\tif p.maybeSplitProgram() {\n\t\t\t// Program was split so the next instruction goes in the new program.\n\t\t\t// Need to reload our register(s).\n\t\t\tp.b.Load16(asm.R1, asm.R9, leg.offsetToStatePortField())\n\t\t}\n",
				New: "\t\tp.maybeSplitProgram()\n", Expect: "C12.split/caller/Builder.writePortsMatch"},
			{Name: "checker IP set: emptiness scan of the /24 bitmap stops one word early (a node whose remaining members have last octet >= 192 is pruned)", File: "app-policy/policystore/ipset.go",
				Old: "\tfor i := range BitmapSize {\n", New: "\tfor i := 0; i < BitmapSize-1; i++ {\n", Expect: "C12.bitmap/networkBitmap.isEmpty/scan"},
			{Name: "checker IP set: lookup addresses a different bitmap word than insertion", File: "app-policy/policystore/ipset.go",
				Old: "func (bm *networkBitmap) contains(index byte) bool {\n\tii := index / 64\n", New: "func (bm *networkBitmap) contains(index byte) bool {\n\tii := index / 128\n", Expect: "C12.bitmap/networkBitmap.contains/word"},
			{Name: "iptables renderer: per-tier end-of-tier-drop flag hoisted out of the tier loop and never reset (a staged-only tier after an enforced one drops; BPF and the checker pass)", File: "felix/rules/endpoints.go",
				Old: c09FxTierHead + c09FxTierMid + "\t\t\tendOfTierDrop := false\n",
				New: "\tvar (\n\t\tpolicyGroups  []*PolicyGroup\n\t\tendOfTierDrop bool\n\t)\n\tfor _, tier := range tiers {\n" + c09FxTierSel + c09FxTierMid, Expect: "C12.tierlocal/end-of-tier-deny"},
			{Name: "iptables renderer: groups of the previous tier rendered again when this tier has none for the direction", File: "felix/rules/endpoints.go",
				Old: c09FxTierHead,
				New: "\tvar policyGroups []*PolicyGroup\n\tfor _, tier := range tiers {\n\t\tif policyType == ingressPolicy {\n\t\t\tpolicyGroups = tier.IngressPolicies\n\t\t} else if len(tier.EgressPolicies) > 0 {\n\t\t\tpolicyGroups = tier.EgressPolicies\n\t\t}\n", Expect: "C12.tierlocal/policy-jump"},
			{Name: "BPF program split inside the CIDR section loop loses R2", File: c11File,
				Old: "\t\t\tlastAddr = addr\n", New: "\t\t\tlastAddr = addr\n\t\t\tp.maybeSplitProgram()\n", Expect: "C12.split/caller/Builder.writeCIDRSMatch"},
		},
	})
}

type c12Evaluator struct {
	name    string
	pkg     string
	entry   string
	ignored map[string]string // field -> reason this evaluator may not read it
}

// Reasoned table of match fields an evaluator does not read.  Frozen after reading
// the code; a field dropping out of an evaluator's read set that is not listed here is
// a violation, and a listed field that IS read makes the entry stale (broken check).
var c12Evaluators = []c12Evaluator{
	{name: "iptables", pkg: "felix/rules", entry: "DefaultRuleRenderer.ProtoRuleToIptablesRules", ignored: map[string]string{}},
	{name: "bpf", pkg: "felix/bpf/polprog", entry: "Builder.writeRule", ignored: map[string]string{}},
	{name: "windows", pkg: "felix/dataplane/windows/policysets", entry: "PolicySets.protoRuleToHnsRules", ignored: map[string]string{}},
	{name: "app-policy", pkg: "app-policy/checker", entry: "match", ignored: map[string]string{
		"Icmp":    "an ICMP type/code match is only valid together with protocol ICMP (API validation); the checker sees TCP flows only and matchL4Protocol rejects the rule first",
		"NotIcmp": "as Icmp: only valid with protocol ICMP, which no application-layer flow has",
	}},
}

func runC12(c *Ctx) {
	c.Rule("C12.parity", "E-FIELDS", "every match field of proto.Rule is read by each evaluator's per-rule closure or listed (with a reason) as not observable / rejected by that evaluator", 80)
	c.Rule("C12.actions", "E-TABLE", "every evaluator handles each action of the action universe", 4)
	p := c.Load("felix/rules", "felix/iptables", "felix/nftables", "felix/generictables", "felix/bpf/polprog",
		"felix/dataplane/windows/policysets", "app-policy/checker")
	universe := c08MatchFieldUniverse(p)
	if len(universe) < 15 {
		c.Lost("match-field universe of proto.Rule has only %d fields", len(universe))
	}
	ruleT, _ := p.LookupExt("felix/proto", "Rule").(*types.TypeName)
	if ruleT == nil {
		c.Lost("type proto.Rule")
	}
	for _, ev := range c12Evaluators {
		fn := p.Func(ev.pkg, ev.entry)
		if fn == nil {
			c.Lost("evaluator entry %s.%s", ev.pkg, ev.entry)
		}
		read := fieldsRead(p.closure(fn), ruleT.Type())
		for _, f := range universe {
			key := "C12.parity/" + ev.name + "/" + f
			_, isRead := read[f]
			reason, listed := ev.ignored[f]
			switch {
			case isRead && listed:
				c.Undecided(key, p.Pos(fn.Pos()), "field is listed as ignored (%s) but the evaluator reads it: the reasoned table is stale", reason)
			case isRead:
				c.Ok(key, p.Pos(read[f][0].Pos()), "read in the closure of %s", ev.entry)
			case listed:
				c.Ok(key, p.Pos(fn.Pos()), "not read — %s", reason)
			default:
				var others []string
				for _, o := range c12Evaluators {
					if o.name == ev.name {
						continue
					}
					if ofn := p.Func(o.pkg, o.entry); ofn != nil {
						if _, ok := fieldsRead(p.closure(ofn), ruleT.Type())[f]; ok {
							others = append(others, o.name)
						}
					}
				}
				c.Violate(key, p.Pos(fn.Pos()), "proto.Rule.%s is never read in the closure of %s although %v consume it: a rule using it gets a different verdict in the %s dataplane (neither matched nor rejected)", f, ev.entry, others, ev.name)
			}
		}
	}
	c12Actions(c, p)
	c.Rule("C12.memo", "E-PAIR", "in every memoising getter of an evaluator package (a receiver field tested for zero, filled on the zero edge, and returned) the guard field, the filled field(s) and the returned field name one cache slot", 4)
	c12Memo(c, p)
	// The BPF evaluator matches ports/addresses held in scratch registers; when the program is
	// split mid-rule those registers no longer hold the packet's fields, so the part of the rule
	// after the split point is evaluated on garbage while iptables/nftables/the checker evaluate
	// the packet's own port: the split discipline of C11 is a necessary condition of agreement.
	c.Rule("C12.split", "E-PAIR/E-ORDER", "the BPF evaluator keeps evaluating the packet's own fields across a program split: trampoline index stash/restore/dispatch pair up and callers reload the registers that are live across maybeSplitProgram (c11Split)", 11)
	p11 := c.Load(c11PolPkg, c11AsmPkg, c11StatePkg, c11RulesPkg)
	m11 := c11BuildModel(c, p11)
	c.Alias("C11.split", "C12.split", func() { c11Split(c, m11) })
	// The BPF evaluator and the application-layer checker decide the end of a tier from
	// that tier's own policies (a tier holding only staged policies falls through to the
	// next tier).  The iptables/nftables evaluator agrees only if what it renders for a
	// tier is a function of that tier alone: C09's tier-locality armed under this id.
	c.Rule("C12.tierlocal", "E-FLOW", "the iptables/nftables evaluator renders a tier's end-of-tier deny and policy jumps from that tier alone, as the BPF evaluator and the checker do: no loop-carried dependence of their conditions on an earlier tier (c09TierLocal)", 2)
	p9 := c.Load(c08RulesPkg, c08IptPkg, c08NftPkg, c08GtPkg)
	m9 := &c09Model{c: c, p: p9}
	m9.ev = &c08Eval{
		terminal: func(q string) bool { return q == c08RulesPkg+".Config" },
		bodyOK:   func(f *ssa.Function) bool { return false },
		stopCall: func(call *ssa.Call) bool {
			f := calleeOf(call.Common())
			return f != nil && (isFunc(f, c08RulesPkg, "PolicyChainName") || isFunc(f, c08RulesPkg, "PolicyGroup.ChainName") || isFunc(f, c08RulesPkg, "ProfileChainName"))
		},
	}
	ep9 := p9.Func(c08RulesPkg, "DefaultRuleRenderer.endpointIptablesChain")
	if ep9 == nil {
		c.Lost("DefaultRuleRenderer.endpointIptablesChain")
	}
	c.Alias("C09.tierlocal", "C12.tierlocal", func() { c09TierLocal(m9, ep9) })
	c12Bitmap(c)
}

// c12Actions: the action universe is the set of string constants the iptables renderer's
// action switch compares pRule.Action with; each evaluator must compare the (possibly
// lower-cased) action with, or index a table by, each of them.
func c12Actions(c *Ctx, p *Prog) {
	universe := c12ActionConsts(p, "felix/rules", "DefaultRuleRenderer.CombineMatchAndActionsForProtoRule")
	delete(universe, "")
	if len(universe) < 4 {
		c.Lost("action universe from the iptables renderer has %d members: %v", len(universe), sortedKeys(universe))
	}
	want := sortedKeys(universe)
	type ev struct{ name, pkg string }
	for _, e := range []ev{{"iptables", "felix/rules"}, {"bpf", "felix/bpf/polprog"}, {"windows", "felix/dataplane/windows/policysets"}, {"app-policy", "app-policy/checker"}} {
		have := map[string]bool{}
		for _, fn := range p.AllFuncs() {
			if fn.Pkg == nil || !strings.HasSuffix(fn.Pkg.Pkg.Path(), e.pkg) {
				continue
			}
			for k := range c12StringConstsIn(fn) {
				have[strings.ToLower(k)] = true
			}
		}
		var miss []string
		for _, a := range want {
			if !have[strings.ToLower(a)] {
				miss = append(miss, a)
			}
		}
		sort.Strings(miss)
		pk := p.Pkg(e.pkg)
		c.Check(len(miss) == 0, "C12.actions/"+e.name, p.Pos(pk.Syntax[0].Pos()),
			fmt.Sprintf("all of %v appear as action constants in %s", want, e.pkg),
			fmt.Sprintf("%s never mentions action(s) %v that the iptables renderer handles: such rules fall into its unknown-action path", e.pkg, miss))
	}
}

func c12ActionConsts(p *Prog, pkg, fnName string) map[string]bool {
	out := map[string]bool{}
	fn := p.Func(pkg, fnName)
	if fn == nil {
		return out
	}
	allInstrs(fn, true, func(f *ssa.Function, in ssa.Instruction) {
		bo, ok := in.(*ssa.BinOp)
		if !ok || (bo.Op.String() != "==" && bo.Op.String() != "!=") {
			return
		}
		for _, pair := range [][2]ssa.Value{{bo.X, bo.Y}, {bo.Y, bo.X}} {
			cv, isC := constOf(pair[1])
			if !isC || cv.Kind().String() != "String" {
				continue
			}
			if _, fld, _, ok := fieldOf(pair[0]); ok && fld == "Action" {
				out[strings.Trim(cv.ExactString(), "\"")] = true
			}
		}
	})
	return out
}

func c12StringConstsIn(fn *ssa.Function) map[string]bool {
	out := map[string]bool{}
	allInstrs(fn, false, func(f *ssa.Function, in ssa.Instruction) {
		for _, op := range in.Operands(nil) {
			if op == nil || *op == nil {
				continue
			}
			if cv, ok := constOf(*op); ok && cv.Kind().String() == "String" {
				s := strings.Trim(cv.ExactString(), "\"")
				if s != "" && len(s) < 16 {
					out[s] = true
				}
			}
		}
	})
	return out
}

// ---------------------------------------------------------------------- memo --

// c12Memo: lazily memoised per-flow/per-rule values of the evaluators.  A method with a
// pointer receiver r is a memoising getter when, on the "is zero" edge of a test of a
// receiver field F (r.F == zero, len(r.F) == 0, r.F == nil, !r.F), it stores receiver
// fields G (directly or through helpers it hands r to) and it returns a receiver field
// H that is among G (or F is among G and F has the result's type).  The three roles must
// name one cache slot: the guard must test a field the arm fills (F in G), and a
// returned receiver field must be one the arm fills (H in G).  A guard on a sibling's
// slot makes the value depend on which other getter ran first in the evaluation (empty
// string / nil for the rest of the request), a store into or a return of a sibling's
// slot hands one side's value to the other side's matchers.
func c12Memo(c *Ctx, p *Prog) {
	n := 0
	for _, ev := range c12Evaluators {
		pk := p.SSAPkg(ev.pkg)
		if pk == nil {
			c.Lost("SSA package %s", ev.pkg)
		}
		for _, fn := range p.AllFuncs() {
			if fn.Pkg != pk || fn.Parent() != nil || fn.Signature.Recv() == nil || len(fn.Blocks) == 0 || len(fn.Params) == 0 {
				continue
			}
			if _, isPtr := fn.Signature.Recv().Type().Underlying().(*types.Pointer); !isPtr {
				continue
			}
			if fn.Signature.Results().Len() != 1 {
				continue
			}
			n += c12MemoFn(c, p, ev.name, fn)
		}
	}
	if n == 0 {
		c.Lost("no memoising getter found in the evaluator packages")
	}
}

type c12Guard struct {
	iff    *ssa.If
	field  *types.Var
	region map[*ssa.BasicBlock]bool
	stored map[*types.Var]bool
}

func c12MemoFn(c *Ctx, p *Prog, evName string, fn *ssa.Function) int {
	recv := fn.Params[0]
	var guards []*c12Guard
	for _, b := range fn.Blocks {
		if len(b.Instrs) == 0 {
			continue
		}
		iff, ok := b.Instrs[len(b.Instrs)-1].(*ssa.If)
		if !ok {
			continue
		}
		fv, zeroOnTrue, ok := c12ZeroTest(iff.Cond, recv)
		if !ok {
			continue
		}
		succ := b.Succs[0]
		if !zeroOnTrue {
			succ = b.Succs[1]
		}
		if len(succ.Preds) != 1 {
			continue // the zero edge goes straight to the join: nothing is done only-when-zero
		}
		g := &c12Guard{iff: iff, field: fv, region: map[*ssa.BasicBlock]bool{}, stored: map[*types.Var]bool{}}
		for _, rb := range fn.Blocks {
			if succ == rb || succ.Dominates(rb) {
				g.region[rb] = true
			}
		}
		// direct stores first; only when the arm has none, look into helpers it hands r to
		for _, depthCap := range []int{0, 3} {
			for rb := range g.region {
				for _, in := range rb.Instrs {
					c12RecvStores(in, recv, 3-depthCap, g.stored)
				}
			}
			if len(g.stored) > 0 {
				break
			}
		}
		if len(g.stored) > 0 {
			guards = append(guards, g)
		}
	}
	if len(guards) == 0 {
		return 0
	}
	// receiver fields returned
	returned := map[*types.Var]bool{}
	for _, ret := range returnsOf(fn) {
		for _, rv := range ret.Results {
			for _, leaf := range c43Leaves(rv) {
				if fv := c12RecvFieldLoad(leaf.v, recv); fv != nil {
					returned[fv] = true
				}
			}
		}
	}
	resT := fn.Signature.Results().At(0).Type()
	n := 0
	for _, g := range guards {
		hInG := false
		for h := range returned {
			if g.stored[h] {
				hInG = true
			}
		}
		fInG := g.stored[g.field]
		fInH := false
		if returned[g.field] {
			for st := range g.stored {
				if types.Identical(st.Type(), g.field.Type()) {
					fInH = true // tests and returns F, fills a like-typed slot
				}
			}
		}
		if !(hInG || fInH || (fInG && types.Identical(g.field.Type(), resT) && len(returned) > 0)) {
			continue // not a memoising getter (lazy initialisation of something it does not return)
		}
		// a compound guard (r.a == zero && r.b == zero): one of the nested tests may cover the slot
		if !fInG {
			for _, o := range guards {
				if o != g && o.stored[o.field] && c12SameStores(o.stored, g.stored) {
					fInG = true
				}
			}
		}
		n++
		key := "C12.memo/" + evName + "/" + fnName(fn)
		site := p.Pos(g.iff.Cond.Pos())
		var bad []string
		if !fInG {
			bad = append(bad, fmt.Sprintf("the guard tests %s for its zero value but the guarded arm fills %s: whether the value is ever computed depends on whether the other slot happens to be filled already", g.field.Name(), c12VarNames(g.stored)))
		}
		for h := range returned {
			if !g.stored[h] {
				bad = append(bad, fmt.Sprintf("returns field %s, which the memoising arm (filling %s) never sets", h.Name(), c12VarNames(g.stored)))
			}
		}
		sort.Strings(bad)
		c.Check(len(bad) == 0, key, site,
			fmt.Sprintf("guard field %s, filled field(s) %s and returned field(s) %s name one cache slot", g.field.Name(), c12VarNames(g.stored), c12VarNames(returned)),
			fnName(fn)+": "+strings.Join(bad, "; ")+" — the evaluator then matches on a value that is not this flow's (the sibling dataplanes evaluate the packet's own field)")
	}
	return n
}

func c12SameStores(a, b map[*types.Var]bool) bool {
	for k := range b {
		if !a[k] {
			return false
		}
	}
	return true
}

func c12VarNames(m map[*types.Var]bool) string {
	var out []string
	for v := range m {
		out = append(out, v.Name())
	}
	sort.Strings(out)
	return "{" + strings.Join(out, ",") + "}"
}

// c12RecvFieldLoad: v is a load of a field of *recv (r.F); returns F.
func c12RecvFieldLoad(v ssa.Value, recv ssa.Value) *types.Var {
	u, ok := v.(*ssa.UnOp)
	if !ok || u.Op.String() != "*" {
		return nil
	}
	fa, ok := u.X.(*ssa.FieldAddr)
	if !ok || fa.X != recv {
		return nil
	}
	return structField(fa.X.Type(), fa.Field)
}

// c12ZeroTest: cond tests a receiver field against its zero value; zeroOnTrue tells
// which edge is taken when the field is zero.
func c12ZeroTest(cond ssa.Value, recv ssa.Value) (fv *types.Var, zeroOnTrue bool, ok bool) {
	neg := false
	for {
		u, isU := cond.(*ssa.UnOp)
		if !isU || u.Op.String() != "!" {
			break
		}
		neg = !neg
		cond = u.X
	}
	if f := c12RecvFieldLoad(cond, recv); f != nil { // bool flag: `if r.done` / `if !r.done`
		return f, neg, true
	}
	bo, isB := cond.(*ssa.BinOp)
	if !isB {
		return nil, false, false
	}
	op := bo.Op.String()
	if op != "==" && op != "!=" {
		return nil, false, false
	}
	for _, pr := range [][2]ssa.Value{{bo.X, bo.Y}, {bo.Y, bo.X}} {
		if !c12IsZeroConst(pr[1]) {
			continue
		}
		x := pr[0]
		if call, isC := x.(*ssa.Call); isC {
			if b, isBi := call.Call.Value.(*ssa.Builtin); isBi && b.Name() == "len" && len(call.Call.Args) == 1 {
				x = call.Call.Args[0]
			}
		}
		if f := c12RecvFieldLoad(x, recv); f != nil {
			return f, (op == "==") != neg, true
		}
	}
	return nil, false, false
}

func c12IsZeroConst(v ssa.Value) bool {
	cst, ok := v.(*ssa.Const)
	if !ok {
		return false
	}
	if cst.Value == nil {
		return true // nil / zero struct
	}
	switch s := cst.Value.ExactString(); s {
	case `""`, "0", "false":
		return true
	}
	return false
}

// c12RecvStores adds the fields of *recv stored by in — directly, or (depth ≤ 3) by a
// statically resolved callee that is handed recv.
func c12RecvStores(in ssa.Instruction, recv ssa.Value, depth int, out map[*types.Var]bool) {
	switch x := in.(type) {
	case *ssa.Store:
		if fa, ok := x.Addr.(*ssa.FieldAddr); ok && fa.X == recv {
			if fv := structField(fa.X.Type(), fa.Field); fv != nil {
				out[fv] = true
			}
		}
	case ssa.CallInstruction:
		if depth >= 3 {
			return
		}
		callee := calleeFn(x.Common())
		if callee == nil || len(callee.Blocks) == 0 {
			return
		}
		args := x.Common().Args
		for i, a := range args {
			if a != recv || i >= len(callee.Params) {
				continue
			}
			for _, b := range callee.Blocks {
				for _, cin := range b.Instrs {
					c12RecvStores(cin, callee.Params[i], depth+1, out)
				}
			}
		}
	}
}
