package main

// engine_C29.go — field-sensitive, context-sensitive backward data-flow slicer
// ("provenance"), shared by rules_C29.go and rules_C30.go.
//
// Question answered: from which struct fields (of a set of *tracked* named
// struct types), constants, globals and top-level parameters can the value
// stored at <root>.<f1>.<f2>… derive?  The walk is
//   * backward over SSA def-use: loads → stores into the same alloc / the same
//     base.field, phi edges, extract → call, container ops (append, slice,
//     index, range, map lookup/update) and conversions;
//   * field-sensitive: walking back through a load of base.F pushes F on a
//     pending access path; at a composite literal / alloc only the stores into
//     the matching field are followed (pointers, slices and maps are transparent
//     containers, map keys and values are kept apart);
//   * context-sensitive: calls of functions with bodies (root packages) are
//     descended into (result i → every Return's i-th operand), parameters map
//     back to the arguments of exactly that call;
//   * branch-sensitive w.r.t. bool parameters: a store / phi edge / return whose
//     block is control-dependent on a bool parameter that the calling context
//     binds to a constant of the other polarity is infeasible and pruned.  This
//     is what decides "under ingress", "under isInbound".
//   * calls without bodies (dependencies, interface calls) are opaque: the
//     result derives from every argument (pending path dropped).
// It tracks data dependence only (no control dependence) and does not model
// writes through pointers that escape to opaque calls.

import (
	"fmt"
	"go/token"
	"go/types"
	"sort"
	"strings"

	"golang.org/x/tools/go/ssa"
)

const (
	c29KeyMark = "#key"
	c29ValMark = "#val"
)

type c29Frame struct {
	call   ssa.CallInstruction
	fn     *ssa.Function
	parent *c29Frame
	key    string
	depth  int
}

type c29Slicer struct {
	p        *Prog
	tracked  map[*types.TypeName]bool
	leaves   map[string]bool
	seen     map[string]bool
	maxDepth int
	steps    int
	overflow bool
	gstores  map[*ssa.Global][]*ssa.Store
	guards   map[*ssa.BasicBlock][]Guard
	// Optional assumption: parameter assumeIdx (index into fn.Params) of assumeFn
	// has the value assumeVal; calls of assumeFn whose argument is bound by the
	// context to the other value are infeasible and not descended into.
	assumeFn  *ssa.Function
	assumeIdx int
	assumeVal bool
}

func newC29Slicer(p *Prog, tracked ...types.Object) *c29Slicer {
	s := &c29Slicer{p: p, tracked: map[*types.TypeName]bool{}, maxDepth: 6, guards: map[*ssa.BasicBlock][]Guard{}}
	for _, o := range tracked {
		if tn, ok := o.(*types.TypeName); ok {
			s.tracked[tn] = true
		}
	}
	return s
}

func (s *c29Slicer) reset() {
	s.leaves = map[string]bool{}
	s.seen = map[string]bool{}
	s.steps = 0
	s.overflow = false
}

// Leaves returns the sorted leaf descriptors of the last query:
// "T.F" (tracked field read), "const:<v>", "global:<pkg.name>", "param:<fn>.<name>", "free:<name>".
func (s *c29Slicer) Leaves() []string {
	out := make([]string, 0, len(s.leaves))
	for k := range s.leaves {
		out = append(out, k)
	}
	sort.Strings(out)
	return out
}

// FieldLeaves returns only the tracked field leaves ("T.F").
func (s *c29Slicer) FieldLeaves() []string {
	var out []string
	for _, l := range s.Leaves() {
		if !strings.Contains(l, ":") {
			out = append(out, l)
		}
	}
	return out
}

func (s *c29Slicer) Has(leaf string) bool { return s.leaves[leaf] }

// ConstLeaves returns the constant leaves (exact strings).
func (s *c29Slicer) ConstLeaves() []string {
	var out []string
	for _, l := range s.Leaves() {
		if strings.HasPrefix(l, "const:") {
			out = append(out, strings.TrimPrefix(l, "const:"))
		}
	}
	return out
}

// SliceMem: provenance of the contents of *addr at sub-path pend, evaluated in fn's own context.
func (s *c29Slicer) SliceMem(addr ssa.Value, pend ...string) {
	s.reset()
	s.mem(addr, pend, nil)
}

// SliceVal: provenance of value v at sub-path pend.
func (s *c29Slicer) SliceVal(v ssa.Value, pend ...string) {
	s.reset()
	s.val(v, pend, nil)
}

// SliceCallResult: provenance of result idx (sub-path pend) of one specific call, descending into its callee.
func (s *c29Slicer) SliceCallResult(call ssa.CallInstruction, idx int, pend ...string) {
	s.reset()
	s.callResult(call, idx, pend, nil)
}

// ---------------------------------------------------------------- helpers --

func (s *c29Slicer) trackedField(t types.Type, idx int) string {
	for {
		if p, ok := t.Underlying().(*types.Pointer); ok {
			t = p.Elem()
			continue
		}
		break
	}
	t = types.Unalias(t)
	n, ok := t.(*types.Named)
	if !ok {
		return ""
	}
	if !s.tracked[n.Origin().Obj()] {
		return ""
	}
	return n.Obj().Name() + "." + fieldName(n, idx)
}

func (s *c29Slicer) blockGuards(b *ssa.BasicBlock) []Guard {
	if g, ok := s.guards[b]; ok {
		return g
	}
	g := guardsOfBlock(b)
	s.guards[b] = g
	return g
}

// resolveBool: the truth value of v if the calling context fixes it.
func (s *c29Slicer) resolveBool(v ssa.Value, ctx *c29Frame) (val, known bool) {
	v, pol := stripNot(v, true)
	switch x := v.(type) {
	case *ssa.Const:
		if x.Value != nil && types.Identical(x.Type().Underlying(), types.Typ[types.Bool]) {
			return (x.Value.ExactString() == "true") == pol, true
		}
	case *ssa.BinOp:
		if x.Op == token.EQL || x.Op == token.NEQ {
			a, ka := s.resolveBool(x.X, ctx)
			b, kb := s.resolveBool(x.Y, ctx)
			if ka && kb {
				return ((a == b) == (x.Op == token.EQL)) == pol, true
			}
		}
	case *ssa.Parameter:
		if ctx == nil || x.Parent() != ctx.fn {
			return false, false
		}
		for i, p := range ctx.fn.Params {
			if p == x {
				args := ctx.call.Common().Args
				if i < len(args) {
					r, k := s.resolveBool(args[i], ctx.parent)
					return r == pol, k
				}
			}
		}
	}
	return false, false
}

// feasible: no dominating guard of b contradicts the context.
func (s *c29Slicer) feasible(b *ssa.BasicBlock, ctx *c29Frame) bool {
	if b == nil {
		return true
	}
	for _, g := range s.blockGuards(b) {
		if r, k := s.resolveBool(g.Cond, ctx); k && r != g.True {
			return false
		}
	}
	return true
}

// edgeFeasible: the CFG edge pred→b is not contradicted by the context.
func (s *c29Slicer) edgeFeasible(pred, b *ssa.BasicBlock, ctx *c29Frame) bool {
	if !s.feasible(pred, ctx) {
		return false
	}
	if len(pred.Instrs) == 0 {
		return true
	}
	if ifi, ok := pred.Instrs[len(pred.Instrs)-1].(*ssa.If); ok && len(pred.Succs) == 2 && pred.Succs[0] != pred.Succs[1] {
		want := pred.Succs[0] == b
		if r, k := s.resolveBool(ifi.Cond, ctx); k && r != want {
			return false
		}
	}
	return true
}

func c29PendKey(pend []string) string { return strings.Join(pend, ".") }

func c29Push(f string, pend []string) []string {
	out := make([]string, 0, len(pend)+1)
	out = append(out, f)
	out = append(out, pend...)
	if len(out) > 8 {
		out = out[:8] // dropping the tail only loses precision (matches more)
	}
	return out
}

func (s *c29Slicer) visit(kind string, v ssa.Value, pend []string, ctx *c29Frame) bool {
	ck := ""
	if ctx != nil {
		ck = ctx.key
	}
	k := fmt.Sprintf("%s|%p|%s|%s", kind, v, c29PendKey(pend), ck)
	if s.seen[k] {
		return false
	}
	s.seen[k] = true
	s.steps++
	if s.steps > 400000 {
		s.overflow = true
		return false
	}
	return true
}

func (s *c29Slicer) leaf(l string) { s.leaves[l] = true }

func isRefLike(t types.Type) bool {
	switch t.Underlying().(type) {
	case *types.Pointer, *types.Map:
		return true
	}
	return false
}

// ------------------------------------------------------------------- walk --

// storesInto follows every store made through the reference-like value addr
// (a pointer, or a map) that can contribute to sub-path pend.
func (s *c29Slicer) storesInto(addr ssa.Value, pend []string, ctx *c29Frame) {
	refs := addr.Referrers()
	if refs == nil {
		return
	}
	if !s.visit("st", addr, pend, ctx) {
		return
	}
	for _, r := range *refs {
		switch x := r.(type) {
		case *ssa.Store:
			if x.Addr == addr && s.feasible(x.Block(), ctx) {
				s.val(x.Val, pend, ctx)
			}
		case *ssa.FieldAddr:
			if x.X != addr {
				continue
			}
			f := fieldName(x.X.Type(), x.Field)
			if len(pend) == 0 {
				s.storesInto(x, nil, ctx)
			} else if pend[0] == f {
				s.storesInto(x, pend[1:], ctx)
			}
		case *ssa.IndexAddr:
			if x.X == addr {
				s.storesInto(x, pend, ctx)
			}
		case *ssa.Phi:
			// forward alias: the same reference merged with others; stores through the merge may hit addr
			if isRefLike(x.Type()) {
				s.storesInto(x, pend, ctx)
			}
		case *ssa.MapUpdate:
			if x.Map != addr || !s.feasible(x.Block(), ctx) {
				continue
			}
			switch {
			case len(pend) == 0:
				s.val(x.Key, nil, ctx)
				s.val(x.Value, nil, ctx)
			case pend[0] == c29KeyMark:
				s.val(x.Key, pend[1:], ctx)
			case pend[0] == c29ValMark:
				s.val(x.Value, pend[1:], ctx)
			}
		}
	}
}

// mem: provenance of the contents reachable at *a (sub-path pend).
func (s *c29Slicer) mem(a ssa.Value, pend []string, ctx *c29Frame) {
	if a == nil || !s.visit("m", a, pend, ctx) {
		return
	}
	switch x := a.(type) {
	case *ssa.Alloc:
		s.storesInto(x, pend, ctx)
	case *ssa.FieldAddr:
		if l := s.trackedField(x.X.Type(), x.Field); l != "" {
			s.leaf(l)
		}
		f := fieldName(x.X.Type(), x.Field)
		// stores through any address of the same base.field in this function
		if refs := x.X.Referrers(); refs != nil {
			for _, r := range *refs {
				if fa, ok := r.(*ssa.FieldAddr); ok && fa.X == x.X && fa.Field == x.Field {
					s.storesInto(fa, pend, ctx)
				}
			}
		}
		s.mem(x.X, c29Push(f, pend), ctx)
	case *ssa.IndexAddr:
		if refs := x.X.Referrers(); refs != nil {
			for _, r := range *refs {
				if ia, ok := r.(*ssa.IndexAddr); ok && ia.X == x.X {
					s.storesInto(ia, pend, ctx)
				}
			}
		}
		s.val(x.X, pend, ctx)
	case *ssa.Global:
		s.leaf("global:" + x.Pkg.Pkg.Name() + "." + x.Name())
		for _, st := range s.globalStores(x) {
			s.val(st.Val, pend, ctx)
		}
	default:
		// a pointer value computed some other way (parameter, call result, phi, load…)
		s.val(a, pend, ctx)
	}
}

func (s *c29Slicer) globalStores(g *ssa.Global) []*ssa.Store {
	if s.gstores == nil {
		s.gstores = map[*ssa.Global][]*ssa.Store{}
		visit := func(fn *ssa.Function) {
			allInstrs(fn, true, func(f *ssa.Function, in ssa.Instruction) {
				if st, ok := in.(*ssa.Store); ok {
					if gg, ok := st.Addr.(*ssa.Global); ok {
						s.gstores[gg] = append(s.gstores[gg], st)
					}
				}
			})
		}
		for _, fn := range s.p.AllFuncs() {
			if fn.Parent() == nil {
				visit(fn)
			}
		}
		for _, sp := range s.p.ssaPkgs {
			if init := sp.Func("init"); init != nil {
				visit(init)
			}
		}
	}
	return s.gstores[g]
}

// val: provenance of SSA value v (sub-path pend inside it; pointers/slices/maps transparent).
func (s *c29Slicer) val(v ssa.Value, pend []string, ctx *c29Frame) {
	if v == nil || !s.visit("v", v, pend, ctx) {
		return
	}
	// Stores made through a reference-like value defined here also feed what is read through it.
	switch v.(type) {
	case *ssa.Alloc, *ssa.FieldAddr, *ssa.IndexAddr, *ssa.Global, *ssa.Const, *ssa.Function, *ssa.Builtin:
	default:
		if isRefLike(v.Type()) {
			s.storesInto(v, pend, ctx)
		}
	}
	switch x := v.(type) {
	case *ssa.Const:
		if x.Value == nil {
			s.leaf("const:nil")
		} else {
			s.leaf("const:" + x.Value.ExactString())
		}
	case *ssa.Function:
		s.leaf("func:" + x.Name())
	case *ssa.Builtin:
	case *ssa.FreeVar:
		// captured variable: follow the binding at the MakeClosure in the enclosing function
		cl := x.Parent()
		bound := false
		if encl := cl.Parent(); encl != nil {
			idx := -1
			for i, fv := range cl.FreeVars {
				if fv == x {
					idx = i
				}
			}
			var pctx *c29Frame
			if ctx != nil && ctx.fn == cl && ctx.call.Parent() == encl {
				pctx = ctx.parent
			}
			allInstrs(encl, false, func(f *ssa.Function, in ssa.Instruction) {
				if mc, ok := in.(*ssa.MakeClosure); ok && mc.Fn == cl && idx >= 0 && idx < len(mc.Bindings) {
					bound = true
					s.val(mc.Bindings[idx], pend, pctx)
				}
			})
		}
		if !bound {
			s.leaf("free:" + x.Name())
		}
	case *ssa.Parameter:
		if ctx != nil && x.Parent() == ctx.fn {
			for i, p := range ctx.fn.Params {
				if p == x {
					args := ctx.call.Common().Args
					if i < len(args) {
						s.val(args[i], pend, ctx.parent)
					}
					return
				}
			}
		}
		s.leaf("param:" + fnName(x.Parent()) + "." + x.Name())
	case *ssa.Alloc, *ssa.FieldAddr, *ssa.IndexAddr, *ssa.Global:
		// a pointer used as a value: transparent to its pointee
		s.mem(v, pend, ctx)
	case *ssa.UnOp:
		if x.Op == token.MUL {
			s.mem(x.X, pend, ctx)
		} else {
			s.val(x.X, nil, ctx)
		}
	case *ssa.Field:
		if l := s.trackedField(x.X.Type(), x.Field); l != "" {
			s.leaf(l)
		}
		s.val(x.X, c29Push(fieldName(x.X.Type(), x.Field), pend), ctx)
	case *ssa.Phi:
		for i, e := range x.Edges {
			if i < len(x.Block().Preds) && !s.edgeFeasible(x.Block().Preds[i], x.Block(), ctx) {
				continue
			}
			s.val(e, pend, ctx)
		}
	case *ssa.Extract:
		switch t := x.Tuple.(type) {
		case *ssa.Call:
			s.callResult(t, x.Index, pend, ctx)
		case *ssa.Next:
			if rg, ok := t.Iter.(*ssa.Range); ok {
				switch x.Index {
				case 1:
					if _, isMap := rg.X.Type().Underlying().(*types.Map); isMap {
						s.val(rg.X, c29Push(c29KeyMark, nil), ctx)
					}
				case 2:
					if _, isMap := rg.X.Type().Underlying().(*types.Map); isMap {
						s.val(rg.X, c29Push(c29ValMark, pend), ctx)
					} else {
						s.val(rg.X, pend, ctx)
					}
				}
			}
		case *ssa.Lookup:
			if x.Index == 0 {
				s.val(t, pend, ctx)
			}
		case *ssa.TypeAssert:
			if x.Index == 0 {
				s.val(t.X, pend, ctx)
			}
		case *ssa.UnOp: // <-ch, ok
			s.val(t.X, nil, ctx)
		default:
			s.val(x.Tuple, pend, ctx)
		}
	case *ssa.Call:
		s.callResult(x, 0, pend, ctx)
	case *ssa.Lookup:
		if _, isMap := x.X.Type().Underlying().(*types.Map); isMap {
			s.val(x.X, c29Push(c29ValMark, pend), ctx)
		} else {
			s.val(x.X, nil, ctx) // string indexing
		}
	case *ssa.Index:
		s.val(x.X, pend, ctx)
	case *ssa.Slice:
		s.val(x.X, pend, ctx)
	case *ssa.MakeMap, *ssa.MakeSlice, *ssa.MakeChan:
		if _, ok := v.(*ssa.MakeSlice); ok {
			s.storesInto(v, pend, ctx)
		}
	case *ssa.MakeInterface:
		s.val(x.X, pend, ctx)
	case *ssa.ChangeType:
		s.val(x.X, pend, ctx)
	case *ssa.ChangeInterface:
		s.val(x.X, pend, ctx)
	case *ssa.Convert:
		s.val(x.X, pend, ctx)
	case *ssa.SliceToArrayPointer:
		s.val(x.X, pend, ctx)
	case *ssa.TypeAssert:
		s.val(x.X, pend, ctx)
	case *ssa.BinOp:
		s.val(x.X, nil, ctx)
		s.val(x.Y, nil, ctx)
	case *ssa.MakeClosure:
		s.leaf("func:" + x.Fn.Name())
	case *ssa.Next, *ssa.Range:
	default:
		s.leaf("other:" + fmt.Sprintf("%T", v))
	}
}

func (s *c29Slicer) inCtx(fn *ssa.Function, ctx *c29Frame) bool {
	for f := ctx; f != nil; f = f.parent {
		if f.fn == fn {
			return true
		}
	}
	return false
}

// callResult: provenance of result idx of call.
func (s *c29Slicer) callResult(call ssa.CallInstruction, idx int, pend []string, ctx *c29Frame) {
	cc := call.Common()
	// builtins
	if b, ok := cc.Value.(*ssa.Builtin); ok {
		switch b.Name() {
		case "append":
			for _, a := range cc.Args {
				s.val(a, pend, ctx)
			}
		case "len", "cap", "min", "max", "copy":
			for _, a := range cc.Args {
				s.val(a, nil, ctx)
			}
		default:
			for _, a := range cc.Args {
				s.val(a, nil, ctx)
			}
		}
		return
	}
	// generated getter on a tracked type = read of that field
	if f := calleeOf(cc); f != nil && strings.HasPrefix(f.Name(), "Get") {
		if sig, ok := f.Type().(*types.Signature); ok && sig.Recv() != nil {
			t := sig.Recv().Type()
			if p, ok := t.(*types.Pointer); ok {
				t = p.Elem()
			}
			if n, ok := types.Unalias(t).(*types.Named); ok && s.tracked[n.Origin().Obj()] {
				s.leaf(n.Obj().Name() + "." + strings.TrimPrefix(f.Name(), "Get"))
			}
		}
	}
	if fn := calleeFn(cc); fn != nil && fn.Blocks != nil && s.bodyInRoots(fn) {
		depth := 0
		if ctx != nil {
			depth = ctx.depth
		}
		if fn == s.assumeFn && s.assumeIdx < len(cc.Args) {
			if r, k := s.resolveBool(cc.Args[s.assumeIdx], ctx); k && r != s.assumeVal {
				return // this call is the other direction
			}
		}
		if depth < s.maxDepth && !s.inCtx(fn, ctx) {
			fr := &c29Frame{call: call, fn: fn, parent: ctx, depth: depth + 1}
			pk := ""
			if ctx != nil {
				pk = ctx.key
			}
			fr.key = fmt.Sprintf("%s/%p", pk, call)
			for _, r := range returnsOf(fn) {
				if idx < len(r.Results) && s.feasible(r.Block(), fr) {
					s.val(r.Results[idx], pend, fr)
				}
			}
			return
		}
	}
	// opaque: result derives from every operand
	if cc.IsInvoke() {
		s.val(cc.Value, nil, ctx)
	} else if _, isFn := cc.Value.(*ssa.Function); !isFn {
		s.val(cc.Value, nil, ctx)
	}
	for _, a := range cc.Args {
		s.val(a, nil, ctx)
	}
}

func (s *c29Slicer) bodyInRoots(fn *ssa.Function) bool {
	top := topFn(fn)
	if top.Pkg != nil {
		return s.p.ssaPkgs[top.Pkg.Pkg.Path()] != nil
	}
	if o := top.Origin(); o != nil && o.Pkg != nil {
		return s.p.ssaPkgs[o.Pkg.Pkg.Path()] != nil
	}
	return false
}

// ------------------------------------------------------- shared small utils --

// c29AllocsOf lists the Allocs in fn (with closures) whose element type is the named type tn.
func c29AllocsOf(fn *ssa.Function, tn *types.TypeName) []*ssa.Alloc {
	var out []*ssa.Alloc
	allInstrs(fn, true, func(f *ssa.Function, in ssa.Instruction) {
		if al, ok := in.(*ssa.Alloc); ok {
			if pt, ok := al.Type().Underlying().(*types.Pointer); ok {
				if n, ok := types.Unalias(pt.Elem()).(*types.Named); ok && n.Origin().Obj() == tn {
					out = append(out, al)
				}
			}
		}
	})
	return out
}

// c29ConstsOfType lists the package-level constants declared with exactly type t
// in t's defining package (the declared enum values).
func c29ConstsOfType(tn *types.TypeName) []*types.Const {
	var out []*types.Const
	sc := tn.Pkg().Scope()
	for _, name := range sc.Names() {
		if c, ok := sc.Lookup(name).(*types.Const); ok && types.Identical(c.Type(), tn.Type()) {
			out = append(out, c)
		}
	}
	return out
}

func c29Subset(want []string, have func(string) bool) (missing []string) {
	for _, w := range want {
		if !have(w) {
			missing = append(missing, w)
		}
	}
	return
}
