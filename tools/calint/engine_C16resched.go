package main

// C16.resched — a reschedule request made to InternalDataplane.apply is never
// dropped.
//
// felix/ipsets deliberately spreads work over several apply() calls
// (rate-limited deletions, time-boxed background resync): ApplyDeletions()
// returns true and relies on apply() arming the reschedule kick.  Tables do the
// same with a non-zero time.Duration.  apply() funnels every request through
// local variables (an atomic flag, a delay whose zero value is the "nothing
// requested" sentinel) into the test that arms the timer.  The obligations:
//
//	relay/<M>  in the function that calls M, on every path from the call on
//	           which M's result is non-zero (true) to the function's exit, some
//	           local variable of apply is left provably non-zero (true);
//	armed/<M>  in apply, from the statement that ran M with those variables
//	           non-zero, every path to every return starts the kick timer and
//	           stores its channel in the kick-channel field (and does not
//	           stop / nil it afterwards);
//	kick       the kick-channel field is received from in a select of the
//	           function that calls apply, and that select arm sets a flag that
//	           the call of apply is guarded by.
//
// All of it is decided by the c16nz value analysis (engine_C16nz.go); nothing
// is matched by name except the exported interface methods of the requesters
// and time.Timer.

import (
	"go/constant"
	"go/token"
	"go/types"
	"sort"
	"strings"

	"golang.org/x/tools/go/ssa"
)

func c16IsTimeFunc(f *types.Func, recv, name string) bool {
	return f != nil && f.Pkg() != nil && f.Pkg().Path() == "time" && f.Name() == name && recvTypeName(f) == recv
}

// c16TimerChanValue: v is the C field of a *time.Timer or the result of time.After.
func c16TimerChanValue(v ssa.Value) bool {
	fv := fieldVar(v)
	if fv != nil && fv.Name() == "C" && fv.Pkg() != nil && fv.Pkg().Path() == "time" {
		return true
	}
	if call, ok := v.(*ssa.Call); ok && c16IsTimeFunc(calleeOf(call.Common()), "", "After") {
		return true
	}
	return false
}

func c16LevelName(l int8) string {
	switch l {
	case c16NZv:
		return "non-zero"
	case c16PZ:
		return "possibly zero"
	}
	return "unknown"
}

func c16CellName(v ssa.Value) string {
	if al, ok := v.(*ssa.Alloc); ok && al.Comment != "" {
		return al.Comment
	}
	return path(v)
}

func c16Resched(c *Ctx, p *Prog, apply *ssa.Function, events map[string][]*c16Event) {
	c.Rule("C16.resched", "E-FLOW/E-GUARD", "a reschedule request (ApplyDeletions()==true, Table.Apply()/CleanUp()!=0) leaves a local of apply provably non-zero at the requester's exit, and from there every path of apply to a return starts the kick timer and publishes its channel; the main loop selects on that channel and the arm sets the flag guarding apply()", 7)

	// ---- the kick channel: the field of the receiver that is assigned a timer's channel
	recvT := namedTypeName(apply.Signature.Recv().Type())
	var kick *types.Var
	for _, m := range withClosures(p.methodsOf(c16DPPkg, recvT)) {
		allInstrs(m, false, func(_ *ssa.Function, in ssa.Instruction) {
			st, ok := in.(*ssa.Store)
			if !ok || !c16TimerChanValue(st.Val) {
				return
			}
			fa, ok := st.Addr.(*ssa.FieldAddr)
			if !ok || namedTypeName(fa.X.Type()) != recvT {
				return
			}
			fv := fieldVar(fa)
			if kick != nil && kick != fv {
				c.Lost("more than one field of %s is assigned a timer channel (%s, %s)", recvT, kick.Name(), fv.Name())
			}
			kick = fv
		})
	}
	if kick == nil {
		c.Lost("no field of %s is assigned the channel of a time.Timer (reschedule kick)", recvT)
	}
	isKickAddr := func(v ssa.Value) bool {
		fa, ok := v.(*ssa.FieldAddr)
		return ok && fieldVar(fa) == kick
	}
	relevant := func(in ssa.Instruction) bool {
		switch x := in.(type) {
		case *ssa.Store:
			return isKickAddr(x.Addr)
		case ssa.CallInstruction:
			f := calleeOf(x.Common())
			return c16IsTimeFunc(f, "", "NewTimer") || c16IsTimeFunc(f, "Timer", "Reset") || c16IsTimeFunc(f, "Timer", "Stop")
		}
		return false
	}
	effect := func(st *c16NZState, in ssa.Instruction) (lowered []string) {
		switch x := in.(type) {
		case *ssa.Store:
			if !isKickAddr(x.Addr) {
				return nil
			}
			if !isNilConst(x.Val) && c16TimerChanValue(x.Val) {
				st.mark["chan"] = true
				return nil
			}
			st.mark["chan"] = false
			return []string{"chan"}
		case ssa.CallInstruction:
			f := calleeOf(x.Common())
			switch {
			case c16IsTimeFunc(f, "", "NewTimer"), c16IsTimeFunc(f, "Timer", "Reset"):
				st.mark["timer"] = true
			case c16IsTimeFunc(f, "Timer", "Stop"):
				st.mark["timer"] = false
				return []string{"timer"}
			}
		}
		return nil
	}

	names := []string{}
	for name, evs := range events {
		if len(evs) == 0 {
			continue
		}
		names = append(names, name)
	}
	sort.Strings(names)
	zeroable := map[ssa.Instruction]bool{}
	for _, name := range names {
		for _, ev := range events[name] {
			if ev.Payload != nil {
				zeroable[ev.Payload] = true
			}
		}
	}
	for _, name := range names {
		for _, ev := range events[name] {
			c16ReschedEvent(c, p, apply, name, ev, relevant, effect, zeroable)
		}
	}
	c16KickConsumed(c, p, apply, kick)
}

// c16ReschedEvent checks relay + armed for one site that runs requester `name`.
func c16ReschedEvent(c *Ctx, p *Prog, apply *ssa.Function, name string, ev *c16Event,
	relevant func(ssa.Instruction) bool, effect func(*c16NZState, ssa.Instruction) []string, zeroable map[ssa.Instruction]bool) {
	relayKey, armedKey := "C16.resched/relay/"+name, "C16.resched/armed/"+name
	site := p.Pos(ev.Instr.Pos())
	if ev.Problem != "" {
		c.Undecided(relayKey, site, "%s: %s", name, ev.Problem)
		return
	}
	pay, _ := ev.Payload.(*ssa.Call)
	if ev.Payload == nil || pay == nil {
		c.Undecided(relayKey, site, "cannot find the call of %s whose result is the reschedule request (it runs through a helper the rule does not model)", name)
		return
	}
	an := &c16NZ{relevant: relevant, effect: effect, zeroable: zeroable}
	undecided := func(key, where, what string) {
		c.Undecided(key, where, "%s (%s)", what, strings.Join(an.notes, "; "))
	}

	var start *c16NZState
	if pay.Parent() == apply {
		// requester called synchronously in apply: one stage
		start = c16NewNZState()
		start.lvl[pay] = c16NZv
		c.Ok(relayKey, site, "%s is called by apply itself; its result is the request", name)
		ev2 := *ev
		ev2.Instr = pay
		ev = &ev2
	} else {
		// ---- stage 1: the function that calls the requester relays the request
		G := pay.Parent()
		init := c16NewNZState()
		init.lvl[pay] = c16NZv
		run := an.analyse(G, pay, init, 0)
		if run == nil {
			c.Undecided(relayKey, p.Pos(pay.Pos()), "cannot analyse %s", fnName(G))
			return
		}
		if run.Exit == nil {
			c.Undecided(relayKey, p.Pos(pay.Pos()), "%s never returns after calling %s", fnName(G), name)
			return
		}
		start = c16NewNZState()
		var relayed []string
		opaque := false
		for k, l := range run.Exit.lvl {
			al, ok := k.(*ssa.Alloc)
			if !ok || al.Parent() != apply {
				continue
			}
			if l == c16NZv {
				if why := c16CellEscapes(al); why != "" {
					c.Undecided(relayKey, p.Pos(al.Pos()), "variable %s relays the request but %s", c16CellName(al), why)
					return
				}
				start.lvl[al] = c16NZv
				relayed = append(relayed, c16CellName(al))
			}
			if l == c16OPQ {
				opaque = true
			}
		}
		sort.Strings(relayed)
		switch {
		case len(relayed) > 0:
			c.Ok(relayKey, p.Pos(pay.Pos()), "when %s asks for a reschedule, %s leaves %s non-zero on every path to its exit", name, fnName(G), strings.Join(relayed, ", "))
		case opaque || len(an.notes) > 0:
			undecided(relayKey, p.Pos(pay.Pos()), "cannot decide whether "+fnName(G)+" records the reschedule request of "+name+" in a variable of apply")
			return
		case len(run.Other) > 0 || c16UsedElsewhere(pay):
			// the answer may travel through a field, channel, map or call argument:
			// not a shape this rule models (never guess a violation)
			where := p.Pos(pay.Pos())
			if len(run.Other) > 0 {
				where = p.Pos(run.Other[0].Pos())
			}
			c.Undecided(relayKey, where, "%s does not record the reschedule request of %s in a local variable of apply but may relay it through a field, channel, map or call argument, which the rule does not model", fnName(G), name)
			return
		default:
			c.Violate(relayKey, p.Pos(pay.Pos()), "%s calls %s but there is a path from a non-zero (true) result to its exit that leaves no variable of %s provably non-zero: the reschedule request is dropped and the left-over work is never retried", fnName(G), name, fnName(apply))
			return
		}
	}

	// ---- stage 2: from the statement of apply that ran the requester to every return
	if ev.Instr.Parent() != apply {
		c.Undecided(armedKey, site, "the statement running %s is not in apply's own body", name)
		return
	}
	start.mark["chan"], start.mark["timer"] = false, false
	run := an.analyse(apply, ev.Instr, start, 0)
	if run == nil || len(run.Rets) == 0 {
		c.Undecided(armedKey, site, "cannot analyse apply from the statement that runs %s to its returns", name)
		return
	}
	for _, r := range run.Rets {
		if r.St.mark["chan"] && r.St.mark["timer"] {
			continue
		}
		var cells []string
		opaque := false
		for k, l := range r.St.lvl {
			al, ok := k.(*ssa.Alloc)
			if !ok || al.Parent() != apply {
				continue
			}
			if _, basic := derefType(al.Type()).Underlying().(*types.Basic); !basic && namedTypeName(derefType(al.Type())) != "Bool" {
				continue
			}
			cells = append(cells, c16CellName(al)+" is "+c16LevelName(l))
			if l == c16OPQ {
				opaque = true
			}
		}
		sort.Strings(cells)
		what := "the kick timer is not (re)started"
		if r.St.mark["timer"] {
			what = "the timer's channel is not stored in the kick-channel field"
		}
		where := "its return"
		if r.Ret.Pos().IsValid() {
			where = "the return at " + p.Pos(r.Ret.Pos())
		}
		msg := "after " + name + " asked for a reschedule, apply can reach " + where + " on a path where " + what +
			" [" + strings.Join(cells, "; ") + "]: zero is the 'nothing requested' sentinel of the delay, so a request that leaves it possibly zero is dropped and the left-over work (IP set deletions / background resync, table re-check) is never retried"
		if opaque || len(an.notes) > 0 {
			undecided(armedKey, site, msg)
		} else {
			c.Violate(armedKey, site, "%s", msg)
		}
		return
	}
	c.Ok(armedKey, site, "from the statement running %s, with the relayed request, every path to the %d return(s) of apply starts the kick timer and publishes its channel", name, len(run.Rets))
}

// c16KickConsumed: the kick channel is selected on by the function that calls
// apply, and that select arm sets a flag that guards the call of apply.
func c16KickConsumed(c *Ctx, p *Prog, apply *ssa.Function, kick *types.Var) {
	key := "C16.resched/kick"
	recvT := namedTypeName(apply.Signature.Recv().Type())
	var loop *ssa.Function
	var sel *ssa.Select
	selIdx := -1
	for _, m := range p.methodsOf(c16DPPkg, recvT) {
		if m == apply {
			continue
		}
		for _, b := range m.Blocks {
			for _, in := range b.Instrs {
				s, ok := in.(*ssa.Select)
				if !ok {
					continue
				}
				for i, stt := range s.States {
					if stt.Dir == types.RecvOnly && fieldVar(stt.Chan) == kick {
						if sel != nil {
							c.Undecided(key, p.Pos(in.Pos()), "the kick channel %s is received from in more than one select", kick.Name())
							return
						}
						loop, sel, selIdx = m, s, i
					}
				}
			}
		}
	}
	if sel == nil {
		c.Violate(key, p.Pos(apply.Pos()), "no method of %s selects on the kick channel %s: an armed reschedule never triggers another apply()", recvT, kick.Name())
		return
	}
	site := p.Pos(sel.Pos())
	// the arm: true successor of `index == selIdx`
	var arm *ssa.BasicBlock
	for _, b := range loop.Blocks {
		ifi, ok := b.Instrs[len(b.Instrs)-1].(*ssa.If)
		if !ok {
			continue
		}
		bo, ok := ifi.Cond.(*ssa.BinOp)
		if !ok || bo.Op != token.EQL {
			continue
		}
		ex, ok := bo.X.(*ssa.Extract)
		if !ok || ex.Tuple != ssa.Value(sel) || ex.Index != 0 {
			continue
		}
		if k, ok := constOf(bo.Y); ok {
			if n, ok := constant.Int64Val(k); ok && int(n) == selIdx {
				arm = b.Succs[0]
			}
		}
	}
	if arm == nil {
		c.Undecided(key, site, "cannot find the select arm of the kick channel")
		return
	}
	// calls of apply in loop and the boolean receiver fields guarding them
	calls := callsIn(loop, false, func(f *types.Func) bool { return f == apply.Object() })
	if len(calls) == 0 {
		c.Violate(key, site, "%s receives the reschedule kick but never calls apply", fnName(loop))
		return
	}
	for _, cs := range calls {
		found := ""
		var flags []string
		seen := map[*types.Var]bool{}
		allInstrs(loop, false, func(_ *ssa.Function, in ssa.Instruction) {
			ifi, ok := in.(*ssa.If)
			if !ok {
				return
			}
			cnd, _ := stripNot(ifi.Cond, true)
			fv := fieldVar(cnd)
			if fv == nil || seen[fv] {
				return
			}
			if _, isLoad := cnd.(*ssa.UnOp); !isLoad {
				return
			}
			seen[fv] = true
			isFlag := func(v ssa.Value, pol bool) bool { return pol && fieldVar(v) == fv }
			if !guardedCut(cs.Instr, isFlag) {
				return
			}
			flags = append(flags, fv.Name())
			// every path from the arm to the call sets the flag to true first
			var sets []ssa.Instruction
			allInstrs(loop, false, func(_ *ssa.Function, x ssa.Instruction) {
				if st, ok := x.(*ssa.Store); ok && fieldVar(st.Addr) == fv {
					if k, isK := st.Val.(*ssa.Const); isK && c16ConstLevel(k) == c16NZv {
						sets = append(sets, x)
					}
				}
			})
			// (a path that comes back to the select is a new iteration)
			if len(sets) > 0 && (c16InstrIn(sets, arm.Instrs[0]) || c17PathsThrough(arm.Instrs[0], cs.Instr, append(sets, sel), nil)) {
				found = fv.Name()
			}
		})
		if found == "" {
			c.Violate(key, p.Pos(cs.Instr.Pos()), "%s receives the reschedule kick (%s) but the select arm does not set any of the flags guarding the call of apply (%s): the kick would not trigger another apply()", fnName(loop), kick.Name(), strings.Join(flags, ", "))
			return
		}
		c.Ok(key, site, "%s selects on %s; the arm sets %s, which guards the call of apply", fnName(loop), kick.Name(), found)
	}
}

// c16UsedElsewhere: the value (through phis, conversions and negation) is
// handed to something other than a branch, a comparison or a store into a
// captured/local variable: a call argument, a send, a return, a field store.
func c16UsedElsewhere(v ssa.Value) bool {
	seen := map[ssa.Value]bool{}
	var visit func(v ssa.Value) bool
	visit = func(v ssa.Value) bool {
		if seen[v] || v.Referrers() == nil {
			return false
		}
		seen[v] = true
		for _, r := range *v.Referrers() {
			switch x := r.(type) {
			case *ssa.If, *ssa.DebugRef:
			case *ssa.BinOp:
				switch x.Op {
				case token.EQL, token.NEQ, token.LSS, token.GTR, token.LEQ, token.GEQ:
				default:
					if visit(x) {
						return true
					}
				}
			case *ssa.Phi, *ssa.UnOp, *ssa.Convert, *ssa.ChangeType:
				if visit(x.(ssa.Value)) {
					return true
				}
			case *ssa.Store:
				if _, isCell := c17Cell(x.Addr).(*ssa.Alloc); !isCell || x.Addr == v {
					return true
				}
			case ssa.CallInstruction:
				cc := x.Common()
				if _, isBuiltin := cc.Value.(*ssa.Builtin); isBuiltin {
					if val, ok := r.(ssa.Value); ok && visit(val) {
						return true
					}
					continue
				}
				if c16IsAtomicMethod(calleeOf(cc)) {
					continue
				}
				return true
			default:
				return true
			}
		}
		return false
	}
	return visit(v)
}

func c16InstrIn(list []ssa.Instruction, in ssa.Instruction) bool {
	for _, x := range list {
		if x == in {
			return true
		}
	}
	return false
}
