package main

import (
	"fmt"
	"go/constant"
	"go/token"
	"go/types"
	"sort"
	"strings"

	"golang.org/x/tools/go/ssa"
)

// ------------------------------------------------------------- sorted set --
//
// The selector parser represents a value set (`x in {..}`, and the temporary
// sets used when And/Or merge MustHaveOneOfValues lists) as a named slice type
// whose membership method binary-searches the receiver.  The search is only
// membership if the slice is sorted, and nothing at run time checks that: the
// invariant lives in the TYPE.  Typestate discipline decided here:
//
//   a value of the set type is born only (a) from a value that already has the
//   set type, (b) from nil / a literal of at most one element, or (c) from a
//   plain slice that has been sorted on every path that reaches the conversion
//   (or whose length is known to be <= 1 there); elements appended on the way
//   are elements of that same sorted slice.
//
// The set type is found structurally (named slice type of the parser package
// with a method that calls a binary search on its receiver), every conversion
// to it (explicit T(x) or implicit through assignment/return - both are
// ssa.ChangeType) in the loaded packages is a birth and is checked.

var c07SearchFuncs = map[string]map[string]bool{
	"sort":   {"Search": true, "Find": true, "SearchStrings": true, "SearchInts": true, "SearchFloat64s": true},
	"slices": {"BinarySearch": true, "BinarySearchFunc": true},
}

var c07SortFuncs = map[string]map[string]bool{
	"sort":   {"Slice": true, "SliceStable": true, "Sort": true, "Stable": true, "Strings": true, "Ints": true, "Float64s": true},
	"slices": {"Sort": true, "SortFunc": true, "SortStableFunc": true},
}

var c07KeepOrderFuncs = map[string]map[string]bool{
	"slices": {"Compact": true, "CompactFunc": true, "Clip": true},
}

func c07InFuncSet(f *types.Func, set map[string]map[string]bool) bool {
	if f == nil || f.Pkg() == nil {
		return false
	}
	if sig, ok := f.Type().(*types.Signature); ok && sig.Recv() != nil {
		return false
	}
	return set[f.Pkg().Path()][f.Name()]
}

// c07SliceWalk is a backward walk from a slice value through instructions
// that forward (a part of) the same backing array: phi, sub-slicing, type
// changes, loads of local variables, append (first argument).
type c07SliceWalk struct {
	setT    types.Type
	leaves  []ssa.Value
	appends []*ssa.Call
	bounded bool // passed through s[i:] / s[:j]
	seen    map[ssa.Value]bool
}

func c07IsAppend(v ssa.Value) (*ssa.Call, bool) {
	call, ok := v.(*ssa.Call)
	if !ok {
		return nil, false
	}
	if b, ok := call.Call.Value.(*ssa.Builtin); ok && b.Name() == "append" && len(call.Call.Args) >= 1 {
		return call, true
	}
	return nil, false
}

func (w *c07SliceWalk) walk(v ssa.Value) {
	if v == nil || w.seen[v] {
		return
	}
	w.seen[v] = true
	switch x := v.(type) {
	case *ssa.Phi:
		for _, e := range x.Edges {
			w.walk(e)
		}
		return
	case *ssa.ChangeType:
		w.walk(x.X)
		return
	case *ssa.MakeInterface:
		w.walk(x.X)
		return
	case *ssa.Slice:
		if _, isSlice := x.X.Type().Underlying().(*types.Slice); isSlice {
			if x.Low != nil || x.High != nil {
				w.bounded = true
			}
			w.walk(x.X)
			return
		}
		// slice of an array (composite literal / varargs): a leaf
	case *ssa.UnOp:
		if x.Op == token.MUL {
			if al, ok := x.X.(*ssa.Alloc); ok {
				n := 0
				for _, r := range *al.Referrers() {
					if st, ok := r.(*ssa.Store); ok && st.Addr == al {
						w.walk(st.Val)
						n++
					}
				}
				if n > 0 {
					return
				}
			}
		}
	case *ssa.Call:
		if ap, ok := c07IsAppend(x); ok {
			w.appends = append(w.appends, ap)
			w.walk(ap.Call.Args[0])
			return
		}
		// library helpers that return (a prefix of) their argument with the order kept
		if c07InFuncSet(calleeOf(x.Common()), c07KeepOrderFuncs) && len(x.Call.Args) >= 1 {
			w.bounded = true
			w.walk(x.Call.Args[0])
			return
		}
	}
	w.leaves = append(w.leaves, v)
}

func c07WalkSlice(setT types.Type, v ssa.Value) *c07SliceWalk {
	w := &c07SliceWalk{setT: setT, seen: map[ssa.Value]bool{}}
	w.walk(v)
	return w
}

func c07SameLeaf(a, b ssa.Value) bool {
	if a == b {
		return true
	}
	if _, ok := a.(*ssa.Call); ok {
		return false
	}
	if _, ok := b.(*ssa.Call); ok {
		return false
	}
	pa, pb := path(a), path(b)
	return pa != "" && pa == pb && a.Parent() == b.Parent()
}

// c07WholeOf: v is (a type change / local copy of) the whole of leaf r - no
// sub-slicing, no append.
func c07WholeOf(setT types.Type, v, r ssa.Value) bool {
	w := c07WalkSlice(setT, v)
	return !w.bounded && len(w.appends) == 0 && len(w.leaves) == 1 && c07SameLeaf(w.leaves[0], r)
}

// c07SortCuts: the instructions of fn after which leaf r is sorted: calls of a
// library sort on the whole of r, or of a function that sorts the parameter r
// is passed for on every path to its returns.
func c07SortCuts(setT types.Type, fn *ssa.Function, r ssa.Value, depth int) []ssa.Instruction {
	var out []ssa.Instruction
	for _, b := range fn.Blocks {
		for _, in := range b.Instrs {
			ci, ok := in.(ssa.CallInstruction)
			if !ok {
				continue
			}
			cc := ci.Common()
			if cc.IsInvoke() || len(cc.Args) == 0 {
				continue
			}
			if _, isGo := in.(*ssa.Go); isGo {
				continue
			}
			if _, isDefer := in.(*ssa.Defer); isDefer {
				continue
			}
			if c07InFuncSet(calleeOf(cc), c07SortFuncs) {
				if c07WholeOf(setT, cc.Args[0], r) {
					out = append(out, in)
				}
				continue
			}
			g := calleeFn(cc)
			if g == nil || g.Blocks == nil || depth <= 0 || len(g.Params) != len(cc.Args) {
				continue
			}
			for i, a := range cc.Args {
				if _, isSlice := a.Type().Underlying().(*types.Slice); !isSlice || !c07WholeOf(setT, a, r) {
					continue
				}
				all := true
				rets := returnsOf(g)
				for _, ret := range rets {
					if !c07SortedAt(setT, ret, g.Params[i], true, depth-1) {
						all = false
					}
				}
				if all && len(rets) > 0 {
					out = append(out, in)
				}
			}
		}
	}
	return out
}

// c07LenAtMostOne: the If edge (cond, pol) establishes len(r) <= 1.
func c07LenAtMostOne(setT types.Type, r ssa.Value) EdgePred {
	isLen := func(v ssa.Value) bool {
		call, ok := v.(*ssa.Call)
		if !ok {
			return false
		}
		b, ok := call.Call.Value.(*ssa.Builtin)
		return ok && b.Name() == "len" && len(call.Call.Args) == 1 && c07WholeOf(setT, call.Call.Args[0], r)
	}
	return func(cond ssa.Value, pol bool) bool {
		bo, ok := cond.(*ssa.BinOp)
		if !ok {
			return false
		}
		x, y, op := bo.X, bo.Y, bo.Op
		if isLen(y) {
			// c OP len  ==  len OP' c
			x, y = y, x
			switch op {
			case token.LSS:
				op = token.GTR
			case token.LEQ:
				op = token.GEQ
			case token.GTR:
				op = token.LSS
			case token.GEQ:
				op = token.LEQ
			}
		}
		if !isLen(x) {
			// r == nil
			if (op == token.EQL || op == token.NEQ) && ((isNilConst(y) && c07WholeOf(setT, x, r)) || (isNilConst(x) && c07WholeOf(setT, y, r))) {
				return pol == (op == token.EQL)
			}
			return false
		}
		cv, ok := constOf(y)
		if !ok || cv.Kind() != constant.Int {
			return false
		}
		n, exact := constant.Int64Val(cv)
		if !exact {
			return false
		}
		switch op {
		case token.LEQ:
			return pol && n <= 1
		case token.LSS:
			return pol && n <= 2
		case token.EQL:
			return pol && (n == 0 || n == 1)
		case token.GTR:
			return !pol && n <= 1
		case token.GEQ:
			return !pol && n <= 2
		case token.NEQ:
			return !pol && (n == 0 || n == 1)
		}
		return false
	}
}

// c07CutBy: every path from the entry of target's function to target crosses
// one of the cut instructions or an If edge accepted by pred.
func c07CutBy(target ssa.Instruction, cuts []ssa.Instruction, pred EdgePred) bool {
	fn := target.Parent()
	if fn == nil || len(fn.Blocks) == 0 {
		return false
	}
	cutBlocks := map[*ssa.BasicBlock]bool{}
	for _, cut := range cuts {
		if cut.Block() == target.Block() {
			if instrIndex(cut) < instrIndex(target) {
				return true
			}
			continue
		}
		cutBlocks[cut.Block()] = true
	}
	seen := map[*ssa.BasicBlock]bool{}
	st := []*ssa.BasicBlock{fn.Blocks[0]}
	for len(st) > 0 {
		b := st[len(st)-1]
		st = st[:len(st)-1]
		if seen[b] {
			continue
		}
		seen[b] = true
		if b == target.Block() {
			return false
		}
		if cutBlocks[b] || isPanicBlock(b) {
			continue
		}
		if ifi, ok := b.Instrs[len(b.Instrs)-1].(*ssa.If); ok && len(b.Succs) == 2 {
			for k, s := range b.Succs {
				cnd, pol := stripNot(ifi.Cond, k == 0)
				if pred != nil && b.Succs[0] != b.Succs[1] && pred(cnd, pol) {
					continue
				}
				st = append(st, s)
			}
			continue
		}
		st = append(st, b.Succs...)
	}
	return true
}

// c07SortedAt: leaf r (a plain slice) is sorted whenever `at` executes.
func c07SortedAt(setT types.Type, at ssa.Instruction, r ssa.Value, allowLen bool, depth int) bool {
	fn := at.Parent()
	if fn == nil {
		return false
	}
	cuts := c07SortCuts(setT, fn, r, depth)
	var pred EdgePred
	if allowLen {
		pred = c07LenAtMostOne(setT, r)
	}
	return c07CutBy(at, cuts, pred)
}

// c07ElemsOf: the values appended by an append call (nil, false if they cannot
// be enumerated).
func c07AppendedElems(ap *ssa.Call) (elems []ssa.Value, spread ssa.Value, ok bool) {
	if len(ap.Call.Args) < 2 {
		return nil, nil, true
	}
	rest := ap.Call.Args[1]
	if sl, isSl := rest.(*ssa.Slice); isSl {
		if al, isAl := sl.X.(*ssa.Alloc); isAl && sl.Low == nil && sl.High == nil {
			// varargs array: collect the element stores
			for _, r := range *al.Referrers() {
				ia, isIA := r.(*ssa.IndexAddr)
				if !isIA {
					if r == ssa.Instruction(sl) {
						continue
					}
					return nil, nil, false
				}
				for _, r2 := range *ia.Referrers() {
					st, isSt := r2.(*ssa.Store)
					if !isSt || st.Addr != ia {
						return nil, nil, false
					}
					elems = append(elems, st.Val)
				}
			}
			return elems, nil, true
		}
	}
	// append(x, y...)
	return nil, rest, true
}

// c07Birth is one creation of a set-typed value from something that does not
// have the set type.
type c07Birth struct {
	in      ssa.Instruction
	operand ssa.Value // the plain value that becomes a set
	how     string
}

func c07LeafDesc(v ssa.Value) string {
	switch x := v.(type) {
	case *ssa.Parameter:
		return "parameter " + x.Name()
	case *ssa.Call:
		if f := calleeOf(x.Common()); f != nil {
			return "result of " + f.Name() + "()"
		}
		return "result of a call"
	case *ssa.MakeSlice:
		return "a fresh make()"
	case *ssa.Slice:
		return "a composite literal"
	case *ssa.Const:
		return "constant " + x.String()
	}
	if s := path(v); s != "" {
		return s
	}
	return v.String()
}

// c07SiteOf: position of in, or of its function for instructions without one
// (implicit conversions).
func c07SiteOf(p *Prog, in ssa.Instruction) string {
	if in.Pos().IsValid() {
		return p.Pos(in.Pos())
	}
	if fn := in.Parent(); fn != nil {
		return p.Pos(fn.Pos())
	}
	return "?"
}

// c07CheckBirth returns (violations, undecided) for one birth.
func c07CheckBirth(p *Prog, setT types.Type, b c07Birth) (bad, und []string) {
	w := c07WalkSlice(setT, b.operand)
	fn := b.in.Parent()
	site := c07SiteOf(p, b.in)
	trusted := func(v ssa.Value) bool {
		if isNilConst(v) {
			return true
		}
		if sl, ok := v.(*ssa.Slice); ok {
			// literal: at most one element is trivially sorted
			if pt, ok := sl.X.Type().Underlying().(*types.Pointer); ok {
				if at, ok := pt.Elem().Underlying().(*types.Array); ok {
					return at.Len() <= 1
				}
			}
		}
		if ms, ok := v.(*ssa.MakeSlice); ok {
			if cv, ok := constOf(ms.Len); ok {
				if n, exact := constant.Int64Val(cv); exact && n <= 1 {
					return true
				}
			}
			return false
		}
		return types.Identical(v.Type(), setT) // typestate carried by the type
	}
	// leaves
	var sortedLeaves []ssa.Value // plain leaves proved sorted, with the cuts that prove it
	cutsOf := map[ssa.Value][]ssa.Instruction{}
	for _, leaf := range w.leaves {
		if trusted(leaf) {
			continue
		}
		cuts := c07SortCuts(setT, fn, leaf, 3)
		var pred EdgePred
		if len(w.appends) == 0 {
			pred = c07LenAtMostOne(setT, leaf)
		}
		if c07CutBy(b.in, cuts, pred) {
			sortedLeaves = append(sortedLeaves, leaf)
			cutsOf[leaf] = cuts
			continue
		}
		msg := fmt.Sprintf("%s at %s turns %s, a plain slice that carries no ordering guarantee, into the binary-searched set type %s without it having been sorted on every path (no sort of it / no len<=1 edge cuts all paths from the function entry)",
			b.how, site, c07LeafDesc(leaf), namedTypeName(setT))
		if _, isCall := leaf.(*ssa.Call); isCall {
			und = append(und, msg+" - cannot tell whether the callee returns a sorted slice")
		} else {
			bad = append(bad, msg)
		}
	}
	// appended elements
	fromLeaves := func(v ssa.Value) bool {
		// v is a load of an element of a slice that forwards only the walk's own leaves
		ld, ok := v.(*ssa.UnOp)
		if !ok || ld.Op != token.MUL {
			return false
		}
		ia, ok := ld.X.(*ssa.IndexAddr)
		if !ok {
			return false
		}
		w2 := c07WalkSlice(setT, ia.X)
		if len(w2.leaves) == 0 {
			return false
		}
		for _, l2 := range w2.leaves {
			found := false
			for _, l := range w.leaves {
				if c07SameLeaf(l, l2) {
					found = true
				}
			}
			if !found {
				return false
			}
		}
		return true
	}
	for _, ap := range w.appends {
		elems, spread, ok := c07AppendedElems(ap)
		if !ok {
			und = append(und, fmt.Sprintf("cannot enumerate the elements appended at %s", p.Pos(ap.Pos())))
			continue
		}
		inOrder := true
		for _, e := range elems {
			if !fromLeaves(e) {
				inOrder = false
			}
		}
		if spread != nil {
			inOrder = false
		}
		if inOrder {
			continue
		}
		// elements of unknown order: fine only if every leaf is re-sorted after the append, i.e. the
		// append cannot lie between a proving sort and the birth.
		resorted := len(sortedLeaves) > 0 && len(sortedLeaves) == len(w.leaves)
		if resorted {
			for _, leaf := range sortedLeaves {
				if len(cutsOf[leaf]) == 0 {
					resorted = false
				}
				for _, cut := range cutsOf[leaf] {
					if instrReaches(cut, ap) && instrReaches(ap, b.in) {
						resorted = false
					}
				}
			}
		}
		if !resorted {
			bad = append(bad, fmt.Sprintf("%s at %s: the slice that becomes a %s has elements appended at %s that are not taken from the sorted slice itself and it is not sorted afterwards",
				b.how, site, namedTypeName(setT), p.Pos(ap.Pos())))
		}
	}
	return bad, und
}

func c07SortedSet(c *Ctx, p *Prog) {
	pk := p.Pkg(c07ParserPkg)
	if pk == nil {
		c.Lost("package %s", c07ParserPkg)
	}
	// ---- the set type(s): named slice types with a binary-searching method
	var setTs []*types.Named
	searchersOf := map[*types.Named][]string{}
	sc := pk.Types.Scope()
	for _, name := range sc.Names() {
		tn, ok := sc.Lookup(name).(*types.TypeName)
		if !ok || tn.IsAlias() {
			continue
		}
		named, ok := tn.Type().(*types.Named)
		if !ok {
			continue
		}
		if _, isSlice := named.Underlying().(*types.Slice); !isSlice {
			continue
		}
		var searchers []string
		for _, m := range p.methodsOf(c07ParserPkg, name) {
			if len(m.Params) == 0 {
				continue
			}
			recv := m.Params[0]
			found := false
			for _, cs := range callsIn(m, false, func(f *types.Func) bool { return c07InFuncSet(f, c07SearchFuncs) }) {
				for _, a := range cs.Common().Args {
					if call, ok := a.(*ssa.Call); ok {
						if b, ok := call.Call.Value.(*ssa.Builtin); ok && b.Name() == "len" && len(call.Call.Args) == 1 {
							a = call.Call.Args[0]
						}
					}
					w := c07WalkSlice(named, a)
					for _, l := range w.leaves {
						if l == ssa.Value(recv) {
							found = true
						}
					}
				}
			}
			if found {
				searchers = append(searchers, m.Name())
			}
		}
		if len(searchers) == 0 {
			continue
		}
		setTs = append(setTs, named)
		sort.Strings(searchers)
		searchersOf[named] = searchers
		for _, m := range p.methodsOf(c07ParserPkg, name) {
			for _, s := range searchers {
				if m.Name() == s {
					c.Ok("C07.sortedset/search/"+name+"."+s, p.Pos(m.Pos()), "%s.%s binary-searches its receiver: every %s must be sorted", name, s, name)
				}
			}
		}
	}
	if len(setTs) == 0 {
		c.Lost("no named slice type of %s has a method that binary-searches its receiver (the sorted value-set representation that LabelInSetNode and the And/Or restriction merges rely on)", c07ParserPkg)
	}
	// ---- births
	for _, setN := range setTs {
		setT := types.Type(setN)
		byFn := map[*ssa.Function][]c07Birth{}
		var order []*ssa.Function
		add := func(fn *ssa.Function, b c07Birth) {
			top := topFn(fn)
			if _, ok := byFn[top]; !ok {
				order = append(order, top)
			}
			byFn[top] = append(byFn[top], b)
		}
		for _, f := range c07FuncsWithBodies(p) {
			for _, blk := range f.Blocks {
				for _, in := range blk.Instrs {
					switch x := in.(type) {
					case *ssa.ChangeType:
						if types.Identical(x.Type(), setT) && !types.Identical(x.X.Type(), setT) {
							add(f, c07Birth{in, x.X, "the conversion to " + setN.Obj().Name()})
						}
					case *ssa.Slice:
						if types.Identical(x.Type(), setT) {
							if _, isSlice := x.X.Type().Underlying().(*types.Slice); !isSlice {
								add(f, c07Birth{in, x, "the " + setN.Obj().Name() + "{..} literal"})
							}
						}
					case *ssa.Call:
						if _, ok := c07IsAppend(x); ok && types.Identical(x.Type(), setT) {
							add(f, c07Birth{in, x, "the append to a " + setN.Obj().Name()})
						}
					}
				}
			}
		}
		sort.Slice(order, func(i, j int) bool { return order[i].Pos() < order[j].Pos() })
		for _, top := range order {
			var bad, und []string
			for _, b := range byFn[top] {
				bb, uu := c07CheckBirth(p, setT, b)
				bad = append(bad, bb...)
				und = append(und, uu...)
			}
			key := "C07.sortedset/create/" + fnName(top)
			site := c07SiteOf(p, byFn[top][0].in)
			switch {
			case len(bad) > 0:
				c.Violate(key, site, "in %s %s. %s.%s is a binary search: on an unsorted slice it misses members, so `in {..}` evaluation and the intersection/union of MustHaveOneOfValues lists drop values the selector accepts and the label-restriction summary excludes endpoints the selector matches",
					fnName(top), strings.Join(bad, "; "), setN.Obj().Name(), strings.Join(searchersOf[setN], "/"))
			case len(und) > 0:
				c.Undecided(key, site, "in %s %s", fnName(top), strings.Join(und, "; "))
			default:
				c.Ok(key, site, "%d creation(s) of a %s from a plain slice in %s: each is nil / at most one element / sorted on every path before the conversion", len(byFn[top]), setN.Obj().Name(), fnName(top))
			}
		}
	}
}
