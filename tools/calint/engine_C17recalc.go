package main

// engine_C17recalc.go — C17.recalc: the claimant index and the desired route.
//
// RouteTable keeps, per route class and CIDR, the set of interfaces that claim
// the CIDR (RouteTable.cidrToIfaces).  The route that is handed to the delta
// tracker as *desired* is the winner among those claimants and is computed in
// exactly one place: the function that writes kernelRoutes.Desired() (today
// recalculateDesiredKernelRoute).  Nothing else ever repairs the desired side (a
// kernel resync only refreshes the dataplane side), so the winner is only as
// fresh as the last recalculation.  Hence the discipline:
//
//   every instruction that changes who claims a CIDR — a store into / delete from
//   the per-class index under a route key, or Add/Discard/Clear/... on a claimant
//   set read from (or stored into) the index under a route key — is followed, on
//   every path to a return, by a recalculation of that same route key.
//
// "Followed by" is decided in the mutating function; if that function is an
// unexported helper whose key is one of its parameters the obligation may be
// discharged by every one of its static callers instead (extract-helper
// refactors).  A recalculation is a call of the recalculating function with the
// key, or of a package function that itself recalculates that parameter on
// every path.

import (
	"fmt"
	"go/constant"
	"go/token"
	"go/types"

	"golang.org/x/tools/go/ssa"
)

type c17ClaimMut struct {
	Fn   *ssa.Function
	In   ssa.Instruction
	Key  ssa.Value
	Kind string
}

type c17RecalcCtx struct {
	funcs  []*ssa.Function
	claim  *types.Var
	recalc *ssa.Function
	kidx   int
	memo   map[string]bool
}

// c17ClaimLookupKey: v is (possibly through phis) a value read from
// claim[class][key]; returns the keys it may have been read under.
func (x *c17RecalcCtx) claimSetKeys(fn *ssa.Function, v ssa.Value) []ssa.Value {
	var keys []ssa.Value
	leaves := map[ssa.Value]bool{}
	for _, o := range origins(v, nil) {
		leaves[o.V] = true
		if lk, ok := o.V.(*ssa.Lookup); ok && x.isInner(fn, lk.X) {
			keys = append(keys, lk.Index)
		}
	}
	// a (fresh) set that this function stores into the index
	allInstrs(fn, false, func(_ *ssa.Function, in ssa.Instruction) {
		mu, ok := in.(*ssa.MapUpdate)
		if !ok || !x.isInner(fn, mu.Map) {
			return
		}
		hit := mu.Value == v
		for _, o := range origins(mu.Value, nil) {
			if leaves[o.V] {
				if _, isConst := o.V.(*ssa.Const); !isConst {
					hit = true
				}
			}
		}
		if hit {
			dup := false
			for _, k := range keys {
				if c16SameVal(k, mu.Key) {
					dup = true
				}
			}
			if !dup {
				keys = append(keys, mu.Key)
			}
		}
	})
	return keys
}

// isInner: v denotes a per-class map of the index (claim[class]), possibly a
// fresh map that fn stores as claim[class].
func (x *c17RecalcCtx) isInner(fn *ssa.Function, v ssa.Value) bool {
	for _, o := range origins(v, nil) {
		if lk, ok := o.V.(*ssa.Lookup); ok && fieldVar(lk.X) == x.claim {
			return true
		}
		if _, ok := o.V.(*ssa.MakeMap); ok {
			stored := false
			allInstrs(fn, false, func(_ *ssa.Function, in ssa.Instruction) {
				if mu, ok := in.(*ssa.MapUpdate); ok && fieldVar(mu.Map) == x.claim && mu.Value == o.V {
					stored = true
				}
			})
			if stored {
				return true
			}
		}
	}
	return false
}

// recalcCalls: the instructions of fn's own body that recalculate key.
func (x *c17RecalcCtx) recalcCalls(fn *ssa.Function, key ssa.Value, depth int) []ssa.Instruction {
	var out []ssa.Instruction
	for _, b := range fn.Blocks {
		for _, in := range b.Instrs {
			ci, ok := in.(ssa.CallInstruction)
			if !ok {
				continue
			}
			if _, isGo := in.(*ssa.Go); isGo {
				continue
			}
			if _, isDefer := in.(*ssa.Defer); isDefer {
				continue
			}
			g := ci.Common().StaticCallee()
			if g == nil {
				continue
			}
			args := ci.Common().Args
			if g == x.recalc {
				if x.kidx < len(args) && c16SameVal(args[x.kidx], key) {
					out = append(out, in)
				}
				continue
			}
			if depth >= 2 || g.Blocks == nil || g.Parent() != nil || !c16InPkg(g, c17RTPkg) {
				continue
			}
			for j, a := range args {
				if j < len(g.Params) && types.Identical(a.Type(), key.Type()) && c16SameVal(a, key) && x.always(g, j, depth+1) {
					out = append(out, in)
					break
				}
			}
		}
	}
	return out
}

// always: g recalculates its j-th parameter on every path from entry to return.
func (x *c17RecalcCtx) always(g *ssa.Function, j, depth int) bool {
	id := fmt.Sprintf("%p/%d", g, j)
	if v, ok := x.memo[id]; ok {
		return v
	}
	x.memo[id] = false
	res := c16OnEveryPath(g, x.recalcCalls(g, g.Params[j], depth))
	x.memo[id] = res
	return res
}

// followed: every path from `from` (in fn) to a return of fn recalculates key,
// or fn is an unexported helper keyed by a parameter and every caller does.
// why describes the first failing place.
func (x *c17RecalcCtx) followed(p *Prog, fn *ssa.Function, from ssa.Instruction, key ssa.Value, depth int, cut EdgePred) (ok bool, why string, und bool) {
	via := x.recalcCalls(fn, key, 0)
	bad := ""
	// the (constant boolean) results fn can hand back after `from` without having recalculated
	status := map[bool]bool{}
	statusKnown := true
	for _, r := range returnsOf(fn) {
		if !c17PathsThrough(from, r, via, cut) {
			bad = "its return at " + p.Pos(r.Pos())
			if !r.Pos().IsValid() {
				bad = "its end"
			}
			k, isK := constant.Value(nil), false
			if len(r.Results) == 1 {
				k, isK = constOf(r.Results[0])
			}
			if isK && k.Kind() == constant.Bool {
				status[constant.BoolVal(k)] = true
			} else {
				statusKnown = false
			}
		}
	}
	if bad == "" {
		return true, "", false
	}
	here := fmt.Sprintf("%s can reach %s without calling %s for that key", fnName(fn), bad, fnName(x.recalc))
	if fn.Parent() != nil {
		return false, here + " (inside a closure: not modelled)", true
	}
	idx := c16ParamIndex(fn, c16Deref(key))
	obj, _ := fn.Object().(*types.Func)
	if idx < 0 || obj == nil || obj.Exported() || depth >= 2 {
		return false, here, false
	}
	callers := c16StaticCallers(x.funcs, fn)
	if len(callers) == 0 {
		return false, here, false
	}
	for _, ci := range callers {
		if idx >= len(ci.Common().Args) {
			return false, here, false
		}
		// the caller may branch on the helper's status result: edges on which the
		// result has a value the helper never returns after the mutation are dead.
		var ccut EdgePred
		if cv, isVal := ci.(ssa.Value); isVal && statusKnown {
			ccut = func(cond ssa.Value, pol bool) bool { return cond == cv && !status[pol] }
		}
		ok, w, u := x.followed(p, ci.Parent(), ci, ci.Common().Args[idx], depth+1, ccut)
		if !ok {
			return false, here + "; neither does its caller: " + w, u
		}
	}
	return true, "", false
}

func c17Recalc(c *Ctx, p *Prog) {
	tracker, _ := p.LookupObj(c17RTPkg, "RouteTable.kernelRoutes").(*types.Var)
	claim, _ := p.LookupObj(c17RTPkg, "RouteTable.cidrToIfaces").(*types.Var)
	if tracker == nil || claim == nil {
		c.Lost("RouteTable.kernelRoutes / RouteTable.cidrToIfaces")
	}
	funcs := c16PkgFuncs(p, c17RTPkg)
	x := &c17RecalcCtx{funcs: funcs, claim: claim, kidx: -1, memo: map[string]bool{}}

	// the recalculating function: the one writer of kernelRoutes.Desired()
	for _, fn := range funcs {
		for _, cs := range callsIn(fn, false, func(f *types.Func) bool {
			return (f.Name() == "Set" || f.Name() == "Delete") && f.Pkg() != nil && f.Pkg().Path() == calicoPrefix+c17DeltaPkg && recvTypeName(f) == "DesiredView"
		}) {
			view, ok := cs.Args()[0].(*ssa.Call)
			if !ok || len(view.Common().Args) == 0 || fieldVar(view.Common().Args[0]) != tracker {
				continue
			}
			if x.recalc != nil && x.recalc != fn {
				c.Lost("kernelRoutes.Desired() is written in more than one function (%s, %s): the winner of a CIDR is no longer computed in one place", fnName(x.recalc), fnName(fn))
			}
			x.recalc = fn
			k := c16ParamIndex(fn, c16Deref(cs.Args()[1]))
			if k < 0 || (x.kidx >= 0 && x.kidx != k) {
				c.Lost("%s: the key written to kernelRoutes.Desired() is not (one) parameter of the function", fnName(fn))
			}
			x.kidx = k
		}
	}
	if x.recalc == nil || x.recalc.Parent() != nil {
		c.Lost("no top-level function writes kernelRoutes.Desired()")
	}
	readsClaim := false
	allInstrs(x.recalc, true, func(_ *ssa.Function, in ssa.Instruction) {
		for _, op := range in.Operands(nil) {
			if *op != nil && fieldVar(*op) == claim {
				readsClaim = true
			}
		}
	})
	if !readsClaim {
		c.Lost("%s does not read RouteTable.cidrToIfaces: the claimant index is no longer what the desired route is computed from", fnName(x.recalc))
	}

	// mutations of the claimant index
	var muts []c17ClaimMut
	var bulk []c17ClaimMut
	for _, fn := range funcs {
		if fn == x.recalc {
			continue
		}
		fn := fn
		allInstrs(fn, false, func(_ *ssa.Function, in ssa.Instruction) {
			switch y := in.(type) {
			case *ssa.MapUpdate:
				if fieldVar(y.Map) == claim {
					bulk = append(bulk, c17ClaimMut{fn, in, y.Key, "class-store"})
				} else if x.isInner(fn, y.Map) {
					muts = append(muts, c17ClaimMut{fn, in, y.Key, "store"})
				}
			case *ssa.Store:
				if fa, ok := y.Addr.(*ssa.FieldAddr); ok && fieldVar(fa) == claim {
					bulk = append(bulk, c17ClaimMut{fn, in, nil, "field-store"})
				}
			case ssa.CallInstruction:
				if cc, ok := isBuiltinCall(in, "delete"); ok && len(cc.Args) == 2 {
					if fieldVar(cc.Args[0]) == claim {
						bulk = append(bulk, c17ClaimMut{fn, in, cc.Args[1], "class-delete"})
					} else if x.isInner(fn, cc.Args[0]) {
						muts = append(muts, c17ClaimMut{fn, in, cc.Args[1], "delete"})
					}
					return
				}
				if cc, ok := isBuiltinCall(in, "clear"); ok && len(cc.Args) == 1 {
					if fieldVar(cc.Args[0]) == claim || x.isInner(fn, cc.Args[0]) {
						bulk = append(bulk, c17ClaimMut{fn, in, nil, "clear"})
					}
					return
				}
				cal := calleeOf(y.Common())
				if !c17IsSetMethod(cal, "Add", "AddAll", "AddSet", "Discard", "Clear") {
					return
				}
				args := CallSite{Instr: y, Callee: cal}.Args()
				if len(args) == 0 {
					return
				}
				for _, k := range x.claimSetKeys(fn, args[0]) {
					muts = append(muts, c17ClaimMut{fn, in, k, "set-" + cal.Name()})
				}
			}
		})
	}
	if len(muts) == 0 {
		c.Lost("no per-CIDR mutation of RouteTable.cidrToIfaces found: the claimant index is no longer recognisable")
	}

	count := map[string]int{}
	for _, m := range muts {
		count[fnName(m.Fn)+"/"+m.Kind]++
	}
	seen := map[string]int{}
	for _, m := range muts {
		base := fnName(m.Fn) + "/" + m.Kind
		key := "C17.recalc/" + base
		if count[base] > 1 {
			seen[base]++
			key += fmt.Sprintf("#%d", seen[base])
		}
		site := p.Pos(m.In.Pos())
		ok, why, und := x.followed(p, m.Fn, m.In, m.Key, 0, nil)
		switch {
		case ok:
			c.Ok(key, site, "the claimants of %s change here (%s) and every path to a return recalculates the desired route of that key", path(m.Key), m.Kind)
		case und:
			c.Undecided(key, site, "claimants of %s change (%s) but %s", path(m.Key), m.Kind, why)
		default:
			c.Violate(key, site, "%s changes who claims route key %s in cidrToIfaces (%s) but %s: the desired kernel route keeps the previous winner (e.g. the interface that just withdrew the CIDR, or not the new higher-priority claimant), Apply succeeds and the kernel holds a route Felix no longer wants while the rightful claimant gets none",
				fnName(m.Fn), path(m.Key), m.Kind, why)
		}
	}

	// whole-class / whole-index writes: only "create the empty per-class map where there is none"
	for _, m := range bulk {
		count[fnName(m.Fn)+"/"+m.Kind]++
	}
	for _, m := range bulk {
		base := fnName(m.Fn) + "/" + m.Kind
		key := "C17.recalc/" + base
		if count[base] > 1 {
			seen[base]++
			key += fmt.Sprintf("#%d", seen[base])
		}
		site := p.Pos(m.In.Pos())
		var val ssa.Value
		switch y := m.In.(type) {
		case *ssa.MapUpdate:
			val = y.Value
		case *ssa.Store:
			val = y.Val
		}
		fresh := val != nil
		if val != nil {
			for _, o := range origins(val, nil) {
				if _, ok := o.V.(*ssa.MakeMap); !ok {
					fresh = false
				}
			}
		}
		if fresh && m.Kind == "class-store" {
			// must not replace an existing class map: reached only where claim[class] is nil / absent
			isCur := func(v ssa.Value) bool {
				lk, ok := v.(*ssa.Lookup)
				return ok && fieldVar(lk.X) == claim && c16SameVal(lk.Index, m.Key)
			}
			guarded := guardedCut(m.In, anyOf(
				eqCond(true, isCur, isNilConst),
				lookupOkCond(false, func(mp ssa.Value) bool { return fieldVar(mp) == claim }),
			))
			if !guarded {
				c.Undecided(key, site, "%s stores a fresh map as cidrToIfaces[%s] on a path where the current entry is not known to be nil: this would drop every claimant of the class without recalculating their routes", fnName(m.Fn), path(m.Key))
				continue
			}
			c.Ok(key, site, "per-class index created empty, only where there was none")
			continue
		}
		if fresh && m.Kind == "field-store" {
			if al, ok := m.In.(*ssa.Store).Addr.(*ssa.FieldAddr).X.(*ssa.Alloc); ok && al.Heap {
				c.Ok(key, site, "claimant index of a new RouteTable initialised empty")
				continue
			}
		}
		c.Undecided(key, site, "%s rewrites the claimant index wholesale (%s); which route keys need recalculating is not modelled", fnName(m.Fn), m.Kind)
	}
}

var _ = token.MUL
