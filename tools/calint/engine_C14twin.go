package main

// C14.twin: IPv4/IPv6 twin consistency of the conntrack value/key accessors.
//
// The liveness verdict is computed through the ValueInterface / KeyInterface
// accessors (Flags, IsForwardDSR, LastSeen, Data().FINsSeen…, ReverseNATKey,
// Timestamp …).  Each accessor exists twice - on the IPv4 array type and on its
// IPv6 twin (Value/ValueV6, Key/KeyV6, cleanupv1.Value/ValueV6 …) - and the two
// must decode the same C member the same way: same flag constants, same
// accessors of the receiver, same helper functions, offsets related by the
// V4->V6 naming relation.
//
// For every pair of same-named methods of a twin type pair, and every pair of
// twin-named package functions, the *reference sets* of the two bodies are
// compared: the set of package-level constants, functions, methods, types,
// variables and struct fields a body mentions (resolved by the type checker),
// with every IPv6 object mapped back to its IPv4 twin where one exists.  The sets
// must be equal.  An IPv6 body that mentions an IPv4 constant although a
// different-valued IPv6 twin of that constant exists (KeySize vs KeyV6Size) is
// reported as well.  Nothing depends on statement order, local names, literals
// or control-flow shape, so either twin can be refactored on its own as long as it
// keeps reading the same things.

import (
	"fmt"
	"go/ast"
	"go/constant"
	"go/token"
	"go/types"
	"sort"
	"strings"

	"golang.org/x/tools/go/packages"
)

type c14TwinDecl struct {
	pk *packages.Package
	fd *ast.FuncDecl
}

// c14RecvName: name of the receiver's named type ("" for plain functions).
func c14RecvName(fd *ast.FuncDecl) string {
	if fd.Recv == nil || len(fd.Recv.List) != 1 {
		return ""
	}
	t := fd.Recv.List[0].Type
	if st, ok := t.(*ast.StarExpr); ok {
		t = st.X
	}
	if id, ok := t.(*ast.Ident); ok {
		return id.Name
	}
	return "?"
}

// c14V4TwinOf: the IPv4 twin of package-level object o (same package scope, same
// kind of object), or nil.
func c14V4TwinOf(o types.Object) types.Object {
	if o == nil || o.Pkg() == nil || o.Parent() != o.Pkg().Scope() {
		return nil
	}
	for _, n := range c01RevTwinNames(o.Name()) {
		if x := o.Pkg().Scope().Lookup(n); x != nil && x != o && fmt.Sprintf("%T", x) == fmt.Sprintf("%T", o) {
			return x
		}
	}
	return nil
}

// c14V6TwinOf: the IPv6 twin of package-level object o, or nil.
func c14V6TwinOf(o types.Object) types.Object {
	if o == nil || o.Pkg() == nil || o.Parent() != o.Pkg().Scope() {
		return nil
	}
	for _, n := range c01TwinNames(o.Name()) {
		if x := o.Pkg().Scope().Lookup(n); x != nil && x != o && fmt.Sprintf("%T", x) == fmt.Sprintf("%T", o) {
			return x
		}
	}
	return nil
}

func c14NamedOf(t types.Type) *types.TypeName {
	if t == nil {
		return nil
	}
	if pt, ok := t.(*types.Pointer); ok {
		t = pt.Elem()
	}
	if n, ok := types.Unalias(t).(*types.Named); ok {
		return n.Obj()
	}
	return nil
}

// c14Refs: transitive reference set of a function.
type c14Refs struct {
	refs    map[string]bool
	unsub   map[string]string        // IPv4 constant -> message (IPv6 side only)
	unsubIn map[string]*ast.FuncDecl // … and the declaration that mentions it
	reached map[*ast.FuncDecl]bool
}

// c14RefSet: reference set of fd's body.  Calls of functions and methods declared
// in the same package (decls) are expanded into their bodies, transitively, so
// that extracting a helper on one side only changes nothing; everything else the
// body mentions in the calico module is a leaf: constants, types, variables,
// struct fields, functions and methods of other packages.  v6side: IPv6 objects are
// mapped back to their IPv4 twins; unsub collects IPv4 constants mentioned
// although a different-valued IPv6 twin exists.
func c14RefSet(pk *packages.Package, decls map[string]*c14TwinDecl, fd *ast.FuncDecl, v6side bool) *c14Refs {
	r := &c14Refs{map[string]bool{}, map[string]string{}, map[string]*ast.FuncDecl{}, map[*ast.FuncDecl]bool{}}
	info := pk.TypesInfo
	qual := func(o types.Object) string {
		if o.Pkg() == nil {
			return o.Name()
		}
		return strings.TrimPrefix(o.Pkg().Path(), calicoPrefix) + "." + o.Name()
	}
	canon := func(o types.Object) types.Object {
		if v6side {
			if o4 := c14V4TwinOf(o); o4 != nil {
				return o4
			}
		}
		return o
	}
	var visit func(fd *ast.FuncDecl)
	visit = func(fd *ast.FuncDecl) {
		if r.reached[fd] {
			return
		}
		r.reached[fd] = true
		ast.Inspect(fd.Body, func(n ast.Node) bool {
			id, ok := n.(*ast.Ident)
			if !ok {
				return true
			}
			o := info.Uses[id]
			if o == nil || o.Pkg() == nil || !strings.HasPrefix(o.Pkg().Path(), calicoPrefix) {
				// definitions, builtins, universe; objects of other modules (logging, net.IP.To4
				// vs To16 …) are not part of the shared decoding discipline
				return true
			}
			switch x := o.(type) {
			case *types.Const:
				if x.Parent() != x.Pkg().Scope() {
					return true
				}
				if v6side {
					if o6, _ := c14V6TwinOf(x).(*types.Const); o6 != nil && !constant.Compare(o6.Val(), token.EQL, x.Val()) {
						r.unsub[qual(x)] = fmt.Sprintf("%s (=%s) is mentioned although its IPv6 twin %s (=%s) exists", x.Name(), x.Val(), o6.Name(), o6.Val())
						r.unsubIn[qual(x)] = fd
					}
				}
				r.refs["const "+qual(canon(x))] = true
			case *types.Func:
				sig, _ := x.Type().(*types.Signature)
				if sig != nil && sig.Recv() != nil {
					rn := "?"
					tn := c14NamedOf(sig.Recv().Type())
					if tn != nil {
						if x.Pkg() == pk.Types {
							if d := decls[tn.Name()+"."+x.Name()]; d != nil {
								visit(d.fd)
								return true
							}
						}
						rn = qual(canon(tn))
					} else if _, isIface := sig.Recv().Type().Underlying().(*types.Interface); isIface {
						rn = "interface"
					}
					r.refs["method "+rn+"."+x.Name()] = true
					return true
				}
				if x.Parent() == x.Pkg().Scope() {
					if x.Pkg() == pk.Types {
						if d := decls[x.Name()]; d != nil {
							visit(d.fd)
							return true
						}
					}
					r.refs["func "+qual(canon(x))] = true
				}
			case *types.TypeName:
				if x.Parent() == x.Pkg().Scope() {
					r.refs["type "+qual(canon(x))] = true
				}
			case *types.Var:
				if x.IsField() {
					r.refs["field "+x.Name()] = true
				} else if x.Parent() == x.Pkg().Scope() {
					r.refs["var "+qual(canon(x))] = true
				}
			}
			return true
		})
	}
	visit(fd)
	return r
}

// c14MentionsTwinType: fd (signature or body) names a package-level type that has an
// IPv6 twin (v6side: that is such a twin).
func c14MentionsTwinType(pk *packages.Package, fd *ast.FuncDecl, v6side bool) bool {
	found := false
	ast.Inspect(fd, func(n ast.Node) bool {
		if id, ok := n.(*ast.Ident); ok {
			if tn, ok := pk.TypesInfo.Uses[id].(*types.TypeName); ok {
				if (!v6side && c14V6TwinOf(tn) != nil) || (v6side && c14V4TwinOf(tn) != nil) {
					found = true
				}
			}
		}
		return !found
	})
	return found
}

// c14Twin compares every IPv4/IPv6 twin method and function pair of pkgs.
func c14Twin(c *Ctx, p *Prog, pkgs []string) {
	nPairs := 0
	for _, pp := range pkgs {
		pk := p.Pkg(pp)
		if pk == nil {
			c.Lost("package %s", pp)
		}
		short := strings.TrimPrefix(pk.PkgPath, calicoPrefix)
		decls := map[string]*c14TwinDecl{} // "Recv.Name" or "Name"
		for _, f := range pk.Syntax {
			if strings.HasSuffix(p.Pos(f.Pos()), "_test.go") {
				continue
			}
			for _, d := range f.Decls {
				fd, ok := d.(*ast.FuncDecl)
				if !ok || fd.Body == nil {
					continue
				}
				k := fd.Name.Name
				if r := c14RecvName(fd); r != "" {
					k = r + "." + k
				}
				decls[k] = &c14TwinDecl{pk, fd}
			}
		}
		// twin type pairs and twin function pairs of the package scope
		sc := pk.Types.Scope()
		type pair struct{ a, b, label string }
		var pairs []pair
		for _, n := range sc.Names() {
			o := sc.Lookup(n)
			o6 := c14V6TwinOf(o)
			if o6 == nil {
				continue
			}
			switch o.(type) {
			case *types.TypeName:
				// methods declared on either twin
				names := map[string]bool{}
				for k := range decls {
					if r, m, ok := strings.Cut(k, "."); ok && (r == o.Name() || r == o6.Name()) {
						names[m] = true
					}
				}
				for _, m := range sortedKeys(names) {
					if m == "String" {
						continue // fmt.Stringer: rendering for logs, not consumed by the scanner
					}
					pairs = append(pairs, pair{o.Name() + "." + m, o6.Name() + "." + m, o.Name() + "." + m})
				}
			case *types.Func:
				// only functions that build or convert values of a twin type (constructors,
				// FromBytes converters …): map plumbing such as Map()/MapV6() is legitimately
				// asymmetric (only the IPv4 map has older versions to upgrade from)
				if da, db := decls[o.Name()], decls[o6.Name()]; da != nil && db != nil && c14MentionsTwinType(pk, da.fd, false) && c14MentionsTwinType(pk, db.fd, true) {
					pairs = append(pairs, pair{o.Name(), o6.Name(), o.Name()})
				}
			}
		}
		sort.Slice(pairs, func(i, j int) bool { return pairs[i].label < pairs[j].label })
		for _, pr := range pairs {
			key := "C14.twin/" + short + "/" + pr.label
			da, db := decls[pr.a], decls[pr.b]
			if da == nil && db == nil {
				continue
			}
			if (da == nil || db == nil) && !token.IsExported(pr.label[strings.LastIndex(pr.label, ".")+1:]) {
				// a private helper extracted on one side only: it is expanded into its callers
				continue
			}
			nPairs++
			if da == nil || db == nil {
				have, miss := pr.a, pr.b
				site := ""
				if da == nil {
					have, miss = pr.b, pr.a
					site = p.Pos(db.fd.Pos())
				} else {
					site = p.Pos(da.fd.Pos())
				}
				c.Violate(key, site, "%s has no twin %s: one address family lacks an operation the other one has", have, miss)
				continue
			}
			A := c14RefSet(pk, decls, da.fd, false)
			B := c14RefSet(pk, decls, db.fd, true)
			ra, rb := A.refs, B.refs
			var bad []string
			for _, k := range sortedKeys(ra) {
				if !rb[k] {
					bad = append(bad, fmt.Sprintf("%s reads %s, %s does not", pr.a, k, pr.b))
				}
			}
			for _, k := range sortedKeys(rb) {
				if !ra[k] {
					bad = append(bad, fmt.Sprintf("%s reads %s, %s does not", pr.b, k, pr.a))
				}
			}
			for _, k := range sortedKeys(B.unsub) {
				if A.reached[B.unsubIn[k]] {
					continue // a helper shared by both address families
				}
				bad = append(bad, pr.b+": "+B.unsub[k])
			}
			c.Check(len(bad) == 0, key, p.Pos(db.fd.Pos()),
				fmt.Sprintf("%s and %s mention the same %d constants/functions/methods/types/fields modulo the IPv4->IPv6 naming relation", pr.a, pr.b, len(ra)),
				"IPv4/IPv6 twins disagree: "+strings.Join(bad, "; ")+" - the two address families decode or judge the same conntrack state differently")
		}
	}
	if nPairs == 0 {
		c.Lost("no IPv4/IPv6 twin method or function pairs found in %v", pkgs)
	}
}
