package main

import (
	"fmt"
	"go/token"
	"go/types"
	"sort"
	"strings"

	"golang.org/x/tools/go/ssa"
)

// ------------------------------------------------------- wrapper roles --
//
// A suppressor wrapper W (a function consulting OverlapSuppressor.Add or
// .Remove for its member argument) stands between the reference counts and
// the raw downstream callbacks OnMemberAdded / OnMemberRemoved.  Whatever its
// shape, it owes three things, each of which is an obligation keyed by the
// ROLE (not by the callee that happens to fulfil it today), so that redirecting
// a call makes the obligation VIOLATED instead of making an instance vanish:
//
//	passthrough  a non-CIDR member goes to the raw callback of W's own
//	             direction, unchanged;
//	primary      W's own (CIDR) member goes to the raw callback of W's own
//	             direction exactly under "the suppressor's primary result is
//	             non-nil";
//	mask /       the suppressor's secondary results (Add: members newly masked
//	reexpose     by the added CIDR; Remove: members re-exposed by the removal of
//	             their covering CIDR) go to the raw callback of the OPPOSITE
//	             direction.  They must bypass the suppressor: it already holds
//	             them (re-adding reports "covered" and emits nothing; re-removing
//	             drops them from its trie and emits nothing).
//
// The raw callbacks may be invoked for nothing else (who-may-call).
//
// The analysis follows W into helpers it calls statically (same package, not
// themselves wrappers) and into its closures, binding parameters / captured
// variables to the caller's values, so extracting e.g. the re-expose loop into a
// helper keeps every role fulfilled.

type c04Frame struct {
	fn     *ssa.Function
	via    ssa.Instruction // call / MakeClosure in parent.fn that enters fn (nil for the wrapper itself)
	parent *c04Frame
}

func (fr *c04Frame) depth() int {
	n := 0
	for f := fr; f.parent != nil; f = f.parent {
		n++
	}
	return n
}

// inRoot: the instruction of the wrapper itself through which `in` (an
// instruction of fr.fn) is reached.
func (fr *c04Frame) inRoot(in ssa.Instruction) ssa.Instruction {
	for f := fr; f.parent != nil; f = f.parent {
		in = f.via
	}
	return in
}

type c04Wrapper struct {
	fn          *ssa.Function
	sc          CallSite // the one suppressor Add/Remove call
	isAdd       bool
	memberParam *ssa.Parameter
	frames      []*c04Frame
}

const (
	c04ClsMember    = "member-param"
	c04ClsAsserted  = "asserted-member"
	c04ClsPrimary   = "primary-result"
	c04ClsSecondary = "secondary-result"
)

// frames enumerates the wrapper, the same-package non-wrapper functions it calls
// statically (two levels) and their closures.
func (m *c04Model) wrapperFrames(w *ssa.Function) []*c04Frame {
	root := &c04Frame{fn: w}
	out := []*c04Frame{root}
	var expand func(fr *c04Frame)
	onStack := func(fr *c04Frame, f *ssa.Function) bool {
		for x := fr; x != nil; x = x.parent {
			if x.fn == f {
				return true
			}
		}
		return false
	}
	expand = func(fr *c04Frame) {
		if fr.depth() >= 3 {
			return
		}
		for _, b := range fr.fn.Blocks {
			for _, in := range b.Instrs {
				var child *ssa.Function
				switch x := in.(type) {
				case *ssa.MakeClosure:
					child, _ = x.Fn.(*ssa.Function)
				case ssa.CallInstruction:
					if sf := calleeFn(x.Common()); sf != nil && sf.Blocks != nil && sf.Pkg == w.Pkg && !m.addW[sf] && !m.remW[sf] {
						child = sf
					}
				}
				if child == nil || child.Blocks == nil || onStack(fr, child) {
					continue
				}
				cf := &c04Frame{fn: child, via: in, parent: fr}
				out = append(out, cf)
				expand(cf)
			}
		}
	}
	expand(root)
	return out
}

// classes: where does member value v (in frame fr) come from?  Returns the set
// of origin classes; anything unrecognised is reported as "other:<what>".
func (w *c04Wrapper) classes(v ssa.Value, fr *c04Frame) map[string]bool {
	out := map[string]bool{}
	type key struct {
		v  ssa.Value
		fr *c04Frame
	}
	seen := map[key]bool{}
	scVal, _ := w.sc.Instr.(ssa.Value)
	var walk func(v ssa.Value, fr *c04Frame)
	stores := func(al *ssa.Alloc, fr *c04Frame) {
		n := 0
		// stores anywhere in the wrapper's frames (the cell may be written by the parent and read by a closure)
		for _, r := range *al.Referrers() {
			if st, ok := r.(*ssa.Store); ok && st.Addr == ssa.Value(al) {
				sfr := fr
				for _, f := range w.frames {
					if f.fn == st.Parent() {
						sfr = f
					}
				}
				walk(st.Val, sfr)
				n++
			}
		}
		if n == 0 {
			out["other:zero-value"] = true
		}
	}
	walk = func(v ssa.Value, fr *c04Frame) {
		if v == nil || seen[key{v, fr}] {
			return
		}
		seen[key{v, fr}] = true
		switch x := v.(type) {
		case *ssa.Parameter:
			if fr.parent == nil {
				if x == w.memberParam {
					out[c04ClsMember] = true
				} else {
					out["other:param "+x.Name()] = true
				}
				return
			}
			ci, ok := fr.via.(ssa.CallInstruction)
			if !ok {
				out["other:closure-param "+x.Name()] = true
				return
			}
			for i, q := range fr.fn.Params {
				if q == x && i < len(ci.Common().Args) {
					walk(ci.Common().Args[i], fr.parent)
					return
				}
			}
			out["other:param "+x.Name()] = true
		case *ssa.FreeVar:
			mc, ok := fr.via.(*ssa.MakeClosure)
			if !ok || fr.parent == nil {
				out["other:freevar "+x.Name()] = true
				return
			}
			for i, q := range fr.fn.FreeVars {
				if q == x && i < len(mc.Bindings) {
					walk(mc.Bindings[i], fr.parent)
					return
				}
			}
			out["other:freevar "+x.Name()] = true
		case *ssa.Alloc:
			stores(x, fr) // a captured cell: its contents
		case *ssa.Extract:
			if scVal != nil && x.Tuple == scVal {
				if x.Index == 1 {
					out[c04ClsSecondary] = true
				} else {
					out[c04ClsPrimary] = true
				}
				return
			}
			if ta, ok := x.Tuple.(*ssa.TypeAssert); ok && ta.CommaOk && x.Index == 0 {
				// the asserted view of whatever is asserted
				sub := w.classes(ta.X, fr)
				for k := range sub {
					if k == c04ClsMember {
						k = c04ClsAsserted
					}
					out[k] = true
				}
				return
			}
			if nx, ok := x.Tuple.(*ssa.Next); ok && x.Index == 2 {
				if rg, ok := nx.Iter.(*ssa.Range); ok {
					walk(rg.X, fr)
					return
				}
			}
			out["other:extract"] = true
		case *ssa.TypeAssert:
			if !x.CommaOk {
				sub := w.classes(x.X, fr)
				for k := range sub {
					if k == c04ClsMember {
						k = c04ClsAsserted
					}
					out[k] = true
				}
				return
			}
			out["other:typeassert"] = true
		case *ssa.UnOp:
			if x.Op != token.MUL {
				out["other:"+x.Op.String()] = true
				return
			}
			walk(x.X, fr)
		case *ssa.IndexAddr:
			walk(x.X, fr)
		case *ssa.Index:
			walk(x.X, fr)
		case *ssa.Slice:
			walk(x.X, fr)
		case *ssa.MakeInterface:
			walk(x.X, fr)
		case *ssa.ChangeInterface:
			walk(x.X, fr)
		case *ssa.ChangeType:
			walk(x.X, fr)
		case *ssa.Phi:
			for _, e := range x.Edges {
				walk(e, fr)
			}
		case *ssa.Call:
			// value constructors of the ipsetmember package with a single argument
			f := calleeOf(x.Common())
			if f != nil && f.Pkg() != nil && strings.HasSuffix(f.Pkg().Path(), "labelindex/ipsetmember") && len(x.Common().Args) == 1 && !x.Common().IsInvoke() {
				walk(x.Common().Args[0], fr)
				return
			}
			if f != nil {
				out["other:result of "+f.Name()] = true
			} else {
				out["other:dynamic call"] = true
			}
		default:
			out[fmt.Sprintf("other:%T", v)] = true
		}
	}
	walk(v, fr)
	return out
}

func c04Only(cls map[string]bool, allowed ...string) bool {
	if len(cls) == 0 {
		return false
	}
	for k := range cls {
		ok := false
		for _, a := range allowed {
			if k == a {
				ok = true
			}
		}
		if !ok {
			return false
		}
	}
	return true
}

func c04ClsString(cls map[string]bool) string {
	return strings.Join(sortedKeys(cls), "|")
}

// rawCallback: in is an invocation of the func-valued field OnMemberAdded / OnMemberRemoved.
func (m *c04Model) rawCallback(in ssa.Instruction) (*types.Var, *ssa.CallCommon) {
	ci, ok := in.(ssa.CallInstruction)
	if !ok {
		return nil, nil
	}
	cc := ci.Common()
	if cc.IsInvoke() || cc.StaticCallee() != nil {
		return nil, nil
	}
	fv := fieldVar(cc.Value)
	if fv != m.cbAdd && fv != m.cbRem {
		return nil, nil
	}
	return fv, cc
}

// c04WrapperRoles reports the role obligations of every suppressor wrapper
// (keys C04.suppressor/{passthrough,primary,mask,reexpose}/<wrapper>) and the
// who-may-call obligation of the raw callbacks (C04.suppressor/raw/<cb>@<fn>,
// reported only when violated).  It declares no rule: the caller does (C04
// under C04.suppressor; C02 arms it under its own id through c.Alias).
func c04WrapperRoles(c *Ctx, m *c04Model) {
	p := m.p
	var ws []*ssa.Function
	for f := range m.addW {
		ws = append(ws, f)
	}
	for f := range m.remW {
		if !m.addW[f] {
			ws = append(ws, f)
		}
	}
	sort.Slice(ws, func(i, j int) bool { return ws[i].Pos() < ws[j].Pos() })
	wrapperDesc := func(f *ssa.Function) string {
		switch {
		case m.addW[f] && m.remW[f]:
			return fnName(f) + " (which consults suppressor.Add and .Remove)"
		case m.addW[f]:
			return fnName(f) + " (the wrapper that consults suppressor.Add)"
		case m.remW[f]:
			return fnName(f) + " (the wrapper that consults suppressor.Remove)"
		}
		return fnName(f)
	}
	attributed := map[ssa.Instruction]bool{}
	for _, wf := range ws {
		site := p.Pos(wf.Pos())
		var scs []CallSite
		for _, cs := range m.supCalls(wf) {
			if n := cs.Callee.Name(); n == "Add" || n == "Remove" {
				scs = append(scs, cs)
			}
		}
		if len(scs) != 1 || len(wf.Params) < 3 {
			c.Undecided("C04.suppressor/primary/"+fnName(wf), site, "%s consults the suppressor %d times (or has no member parameter): its roles cannot be attributed", fnName(wf), len(scs))
			continue
		}
		w := &c04Wrapper{fn: wf, sc: scs[0], isAdd: scs[0].Callee.Name() == "Add", memberParam: wf.Params[len(wf.Params)-1]}
		w.frames = m.wrapperFrames(wf)
		scVal, _ := w.sc.Instr.(ssa.Value)
		ownCb, oppCb := m.cbRem, m.cbAdd
		secRole, secWhat := "reexpose", "members re-exposed by the removal of their covering CIDR"
		if w.isAdd {
			ownCb, oppCb = m.cbAdd, m.cbRem
			secRole, secWhat = "mask", "members newly masked by the added covering CIDR"
		}
		// the type assertion on the member parameter that selects CIDR members
		isTA := func(cond ssa.Value) bool {
			ex, ok := cond.(*ssa.Extract)
			if !ok || ex.Index != 1 {
				return false
			}
			ta, ok := ex.Tuple.(*ssa.TypeAssert)
			return ok && ta.CommaOk && ta.X == ssa.Value(w.memberParam)
		}
		taOK := func(want bool) EdgePred {
			return func(cond ssa.Value, pol bool) bool { return isTA(cond) && pol == want }
		}
		primaryNonNil := eqCond(false,
			func(v ssa.Value) bool {
				ex, ok := v.(*ssa.Extract)
				return ok && ex.Index == 0 && scVal != nil && ex.Tuple == scVal
			}, isNilConst)
		// the suppressor must be consulted exactly for the asserted (CIDR) members
		supGuarded := guardedCut(w.sc.Instr, taOK(true))

		fulfilled := map[string][]string{}
		var seenSites []string // description of everything the wrapper does with member values
		for _, fr := range w.frames {
			for _, b := range fr.fn.Blocks {
				for _, in := range b.Instrs {
					if fv, cc := m.rawCallback(in); fv != nil {
						if len(cc.Args) != 2 {
							seenSites = append(seenSites, fmt.Sprintf("%s with %d arguments at %s", fv.Name(), len(cc.Args), p.Pos(in.Pos())))
							continue
						}
						cls := w.classes(cc.Args[1], fr)
						inW := fr.inRoot(in)
						role := ""
						switch {
						case fv == ownCb && supGuarded && c04Only(cls, c04ClsMember) && guardedCut(inW, taOK(false)):
							role = "passthrough"
						case fv == ownCb && supGuarded && c04Only(cls, c04ClsAsserted, c04ClsPrimary) && guardedCut(inW, primaryNonNil):
							role = "primary"
						case fv == oppCb && supGuarded && c04Only(cls, c04ClsSecondary):
							role = secRole
						}
						if role != "" {
							fulfilled[role] = append(fulfilled[role], p.Pos(in.Pos()))
							attributed[in] = true
						}
						seenSites = append(seenSites, fmt.Sprintf("raw %s(%s) at %s", fv.Name(), c04ClsString(cls), p.Pos(in.Pos())))
						continue
					}
					// member values handed to another wrapper
					if ci, ok := in.(ssa.CallInstruction); ok {
						if sf := calleeFn(ci.Common()); sf != nil && (m.addW[sf] || m.remW[sf]) && len(ci.Common().Args) >= 1 {
							args := ci.Common().Args
							cls := w.classes(args[len(args)-1], fr)
							seenSites = append(seenSites, fmt.Sprintf("%s called with (%s) at %s", wrapperDesc(sf), c04ClsString(cls), p.Pos(in.Pos())))
						}
					}
				}
			}
		}
		sort.Strings(seenSites)
		does := strings.Join(seenSites, "; ")
		dir := "Remove"
		if w.isAdd {
			dir = "Add"
		}
		check := func(role, okText, badText string) {
			key := "C04.suppressor/" + role + "/" + fnName(wf)
			if len(fulfilled[role]) > 0 {
				c.Ok(key, site, "%s (at %s)", okText, strings.Join(fulfilled[role], ", "))
				return
			}
			c.Violate(key, site, "%s. What %s does with member values: %s", badText, fnName(wf), does)
		}
		check("passthrough",
			fmt.Sprintf("non-CIDR member passes to the raw %s callback unchanged", ownCb.Name()),
			fmt.Sprintf("%s (consults suppressor.%s) never hands a non-CIDR member (the failed type assertion on its member parameter) unchanged to the raw %s callback: named-port/domain members are lost or run through CIDR overlap suppression", fnName(wf), dir, ownCb.Name()))
		check("primary",
			fmt.Sprintf("own member emitted through the raw %s callback only when suppressor.%s's primary result is non-nil", ownCb.Name(), dir),
			fmt.Sprintf("%s never invokes the raw %s callback for its own CIDR member under the guard that suppressor.%s's primary result is non-nil (and only for members whose type assertion succeeded): a covered member is emitted, or an uncovered one never is", fnName(wf), ownCb.Name(), dir))
		check(secRole,
			fmt.Sprintf("suppressor.%s's secondary results (%s) go to the raw %s callback", dir, secWhat, oppCb.Name()),
			fmt.Sprintf("%s never announces suppressor.%s's secondary results (%s) through the raw %s callback. They must bypass the suppressor, which already holds them: routed through a wrapper again they are reported as covered (or dropped from the trie) and nothing is emitted, so the dataplane's IP set and the index disagree about the member from then on - a later delta update removes a member the dataplane never got, or adds one it still has",
				fnName(wf), dir, secWhat, oppCb.Name()))
	}
	// who-may-call: every other invocation of a raw callback
	nRaw := 0
	for _, f := range m.funcs {
		allInstrs(f, false, func(fn *ssa.Function, in ssa.Instruction) {
			fv, _ := m.rawCallback(in)
			if fv == nil {
				return
			}
			nRaw++
			if attributed[in] {
				return
			}
			key := fmt.Sprintf("C04.suppressor/raw/%s@%s", fv.Name(), fnName(fn))
			if !m.addW[topFn(fn)] && !m.remW[topFn(fn)] {
				c.Violate(key, p.Pos(in.Pos()), "%s is invoked in %s, which does not consult OverlapSuppressor.Add/Remove (nor is it a helper of a function that does): overlap suppression is bypassed (a member lying inside another is emitted, or a masked member is withdrawn)", fv.Name(), fnName(fn))
				return
			}
			c.Violate(key, p.Pos(in.Pos()), "%s in %s fulfils none of the wrapper's roles: it is neither the pass-through of a non-CIDR member, nor the wrapper's own member guarded by the suppressor's primary result being non-nil, nor an opposite-direction event for the suppressor's secondary results: suppressed/masked members are emitted wrongly",
				fv.Name(), fnName(fn))
		})
	}
	if nRaw == 0 {
		c.Lost("no invocation of the raw OnMemberAdded/OnMemberRemoved callbacks")
	}
}

// --------------------------------------------------- who calls the wrappers --

// c04WrapperCallers: the converse of the refcount edge obligations, anchored on
// the wrapper CALLS rather than on the count writes (so deleting or redirecting
// a count write turns into a violation here instead of an instance vanishing):
// outside the wrappers' own helpers, an add wrapper is called only for a member
// whose count the same function increments, and a remove wrapper only for a
// member whose count the same function decrements and deletes - or for every
// key of a count map (whole-set withdrawal).
func c04WrapperCallers(c *Ctx, m *c04Model) {
	p := m.p
	n := 0
	for _, f := range m.funcs {
		for _, cs := range callsIn(f, false, func(*types.Func) bool { return true }) {
			sf := calleeFn(cs.Common())
			if sf == nil || (!m.addW[sf] && !m.remW[sf]) {
				continue
			}
			n++
			args := cs.Common().Args
			site := p.Pos(cs.Instr.Pos())
			dir := "remove"
			if m.addW[sf] {
				dir = "add"
			}
			key := fmt.Sprintf("C04.refcount/emit-%s/%s", dir, fnName(f))
			if len(args) < 3 {
				c.Undecided(key, site, "call of %s without a member argument", fnName(sf))
				continue
			}
			mem := args[len(args)-1]
			kp := path(mem)
			shown := pathN(mem, 2)
			hasInc, hasDec, hasDel := false, false, false
			allInstrs(f, false, func(_ *ssa.Function, in ssa.Instruction) {
				if mu, ok := in.(*ssa.MapUpdate); ok && fieldVar(mu.Map) == m.refFld && path(mu.Key) == kp {
					if c04Arith(mu.Value, token.ADD, path(mu.Map), kp) != nil {
						hasInc = true
					}
					if c04Arith(mu.Value, token.SUB, path(mu.Map), kp) != nil {
						hasDec = true
					}
				}
				if dc, ok := isBuiltinCall(in, "delete"); ok && fieldVar(dc.Args[0]) == m.refFld && path(dc.Args[1]) == kp {
					hasDel = true
				}
			})
			// key of a range over a count map
			rangedKey := false
			if ex, ok := mem.(*ssa.Extract); ok && ex.Index == 1 {
				if nx, ok := ex.Tuple.(*ssa.Next); ok {
					if rg, ok := nx.Iter.(*ssa.Range); ok && fieldVar(rg.X) == m.refFld {
						rangedKey = true
					}
				}
			}
			switch {
			case m.addW[sf] && m.remW[sf]:
				c.Undecided(key, site, "%s consults both suppressor.Add and .Remove", fnName(sf))
			case m.addW[sf]:
				c.Check(hasInc, key, site,
					"add wrapper called for a member whose count this function increments",
					fmt.Sprintf("%s calls the add wrapper %s for %s but stores no `old+1` into %s[%s]: the member is announced without being counted (members handed over by the overlap suppressor must go to the raw callback, not back through the wrapper; counted members must be stored or the next contributor announces them again and the first decrement withdraws a member that is still selected)", fnName(f), fnName(sf), shown, m.refFld.Name(), shown))
			default:
				c.Check((hasDec && hasDel) || rangedKey, key, site,
					"remove wrapper called for a member whose count this function decrements and deletes, or for every key of a count map",
					fmt.Sprintf("%s calls the remove wrapper %s for %s but does not both store `old-1` into and delete from %s for that member (decrement: %v, delete: %v), nor is the member a key ranged over a count map: the member is withdrawn while it is still counted", fnName(f), fnName(sf), shown, m.refFld.Name(), hasDec, hasDel))
			}
		}
	}
	if n == 0 {
		c.Lost("no call of a suppressor wrapper")
	}
}
