package main

// Value-provenance engine for *model.KVPair values in libcalico-go/lib/ipam
// (used by C19 and C22).  Built on origins() / literalFieldStores().
//
// A pair is "clean" if every leaf of its backward slice is
//   - the result of a backend Client call (Get/List/Create/Update/...),
//   - nil,
//   - a parameter (then the obligation moves to the call sites), or
//   - a literal whose Revision (and UID) field is copied from a clean pair.

import (
	"fmt"
	"go/constant"
	"go/token"
	"go/types"
	"sort"
	"strings"

	"golang.org/x/tools/go/ssa"
)

const (
	c19Pkg      = "libcalico-go/lib/ipam"
	c19APIPkg   = "libcalico-go/lib/backend/api"
	c19ModelPkg = "libcalico-go/lib/backend/model"
	c19ErrPkg   = "libcalico-go/lib/errors"
)

type c19Model struct {
	c     *Ctx
	p     *Prog
	funcs []*ssa.Function // every function (incl. closures) of lib/ipam

	kvPair, kvList                             *types.Named
	revField, uidField, keyField, kvPairsField *types.Var
	callSites                                  map[*ssa.Function][]ssa.CallInstruction
	valueUse                                   map[*ssa.Function]bool // referenced other than as a static callee
	mapVals                                    []ssa.Value            // values stored into any map[..]*KVPair
	fieldStoreVals                             map[*types.Var][]ssa.Value
	provMemo                                   map[ssa.Value][]c19Leaf
	inProgress                                 map[ssa.Value]bool
}

// c19Leaf is one classified leaf of a pair's provenance.
type c19Leaf struct {
	Kind  string // src | nil | param | norev | bad
	V     ssa.Value
	Why   string
	NoUID bool   // reached through a literal that does not copy UID from a clean pair
	Mode  string // for param leaves: "pair" (a *KVPair/list/map parameter) or "rev" (a revision string)
}

func c19Load(c *Ctx) *c19Model {
	p := c.Load(c19Pkg)
	m := &c19Model{c: c, p: p, callSites: map[*ssa.Function][]ssa.CallInstruction{}, valueUse: map[*ssa.Function]bool{},
		fieldStoreVals: map[*types.Var][]ssa.Value{}, provMemo: map[ssa.Value][]c19Leaf{}, inProgress: map[ssa.Value]bool{}}
	named := func(name string) *types.Named {
		o := p.LookupExt(c19ModelPkg, name)
		if o == nil {
			c.Lost("model.%s", name)
		}
		n, _ := o.Type().(*types.Named)
		if n == nil {
			c.Lost("model.%s is not a named type", name)
		}
		return n
	}
	m.kvPair, m.kvList = named("KVPair"), named("KVPairList")
	fld := func(n *types.Named, f string) *types.Var {
		st, _ := n.Underlying().(*types.Struct)
		if st != nil {
			for i := 0; i < st.NumFields(); i++ {
				if st.Field(i).Name() == f {
					return st.Field(i)
				}
			}
		}
		c.Lost("field %s.%s", n.Obj().Name(), f)
		return nil
	}
	m.revField, m.uidField, m.keyField = fld(m.kvPair, "Revision"), fld(m.kvPair, "UID"), fld(m.kvPair, "Key")
	m.kvPairsField = fld(m.kvList, "KVPairs")
	if p.LookupExt(c19APIPkg, "Client") == nil {
		c.Lost("backend/api.Client")
	}
	pk := p.SSAPkg(c19Pkg)
	if pk == nil {
		c.Lost("package %s", c19Pkg)
	}
	for _, f := range p.AllFuncs() {
		m.funcs = append(m.funcs, f)
	}
	for _, f := range m.funcs {
		allInstrs(f, false, func(fn *ssa.Function, in ssa.Instruction) {
			if ci, ok := in.(ssa.CallInstruction); ok {
				if sf := calleeFn(ci.Common()); sf != nil {
					m.callSites[sf] = append(m.callSites[sf], ci)
				}
			}
			// function values used other than in callee position
			for i, op := range in.Operands(nil) {
				if op == nil || *op == nil {
					continue
				}
				var tgt *ssa.Function
				switch x := (*op).(type) {
				case *ssa.Function:
					tgt = x
				case *ssa.MakeClosure:
					_ = x // the MakeClosure instruction itself lists Fn as operand; handled below
				}
				if tgt == nil {
					continue
				}
				if ci, ok := in.(ssa.CallInstruction); ok && i == 0 && ci.Common().Value == tgt {
					continue // callee position
				}
				if mc, ok := in.(*ssa.MakeClosure); ok && mc.Fn == tgt {
					// closure creation: fine if the closure value is only called
					if !c19OnlyCalled(mc) {
						m.valueUse[tgt] = true
					}
					continue
				}
				m.valueUse[tgt] = true
			}
			switch x := in.(type) {
			case *ssa.MapUpdate:
				if mt, ok := x.Map.Type().Underlying().(*types.Map); ok && m.isPairPtr(mt.Elem()) {
					m.mapVals = append(m.mapVals, x.Value)
				}
			case *ssa.Store:
				if fa, ok := x.Addr.(*ssa.FieldAddr); ok {
					if fv := structField(fa.X.Type(), fa.Field); fv != nil {
						m.fieldStoreVals[fv] = append(m.fieldStoreVals[fv], x.Val)
					}
				}
			}
		})
	}
	return m
}

// c19OnlyCalled: every use of the closure value is as the callee of a call/go/defer.
func c19OnlyCalled(mc *ssa.MakeClosure) bool {
	refs := mc.Referrers()
	if refs == nil {
		return false
	}
	for _, r := range *refs {
		if _, ok := r.(*ssa.DebugRef); ok {
			continue
		}
		ci, ok := r.(ssa.CallInstruction)
		if !ok || ci.Common().Value != mc {
			return false
		}
		for _, a := range ci.Common().Args {
			if a == mc {
				return false
			}
		}
	}
	return true
}

func (m *c19Model) isPairPtr(t types.Type) bool {
	pt, ok := types.Unalias(t).(*types.Pointer)
	return ok && types.Identical(types.Unalias(pt.Elem()), m.kvPair)
}

// carrying: the type can hold datastore pairs.
func (m *c19Model) carrying(t types.Type) bool {
	t = types.Unalias(t)
	if m.isPairPtr(t) {
		return true
	}
	switch x := t.Underlying().(type) {
	case *types.Map:
		return m.carrying(x.Elem())
	case *types.Slice:
		return m.carrying(x.Elem())
	case *types.Pointer:
		return types.Identical(types.Unalias(x.Elem()), m.kvList)
	}
	return false
}

// clientCall: cc is an invoke of backend/api.Client.<one of names> ("" = any).
func c19ClientCall(cc *ssa.CallCommon, names ...string) string {
	if !cc.IsInvoke() || cc.Method == nil {
		return ""
	}
	sig, _ := cc.Method.Type().(*types.Signature)
	if sig == nil || sig.Recv() == nil {
		return ""
	}
	if q := qualTypeName(sig.Recv().Type()); q != c19APIPkg+".Client" {
		// method reached through an interface that embeds Client
		if cc.Method.Pkg() == nil || strings.TrimPrefix(cc.Method.Pkg().Path(), calicoPrefix) != c19APIPkg {
			return ""
		}
	}
	if len(names) == 0 {
		return cc.Method.Name()
	}
	for _, n := range names {
		if cc.Method.Name() == n {
			return n
		}
	}
	return ""
}

func (m *c19Model) inPkg(f *ssa.Function) bool {
	if f == nil || f.Blocks == nil {
		return false
	}
	t := topFn(f)
	return t.Pkg != nil && strings.TrimPrefix(t.Pkg.Pkg.Path(), calicoPrefix) == c19Pkg
}

// through extends origins(): containers of pairs, and results of in-package helpers.
func (m *c19Model) through(v ssa.Value) []ssa.Value {
	switch x := v.(type) {
	case *ssa.IndexAddr:
		return []ssa.Value{x.X}
	case *ssa.Index:
		return []ssa.Value{x.X}
	case *ssa.FieldAddr:
		fv := structField(x.X.Type(), x.Field)
		if fv == m.kvPairsField {
			return []ssa.Value{x.X}
		}
		if fv != nil && m.carrying(fv.Type()) {
			if vals := m.fieldStoreVals[fv]; len(vals) > 0 {
				return append([]ssa.Value{}, vals...)
			}
		}
	case *ssa.Lookup:
		if mt, ok := x.X.Type().Underlying().(*types.Map); ok && m.isPairPtr(mt.Elem()) {
			return append(append([]ssa.Value{}, m.mapVals...), x.X)
		}
	case *ssa.MakeMap:
		return []ssa.Value{} // contents are covered by mapVals
	case *ssa.Call:
		if sf := calleeFn(x.Common()); m.inPkg(sf) {
			var out []ssa.Value
			for _, r := range returnsOf(sf) {
				for _, res := range r.Results {
					if m.carrying(res.Type()) {
						out = append(out, res)
					}
				}
			}
			if out != nil {
				return out
			}
		}
	}
	return nil
}

// prov classifies the provenance of a pair-carrying value.
func (m *c19Model) prov(v ssa.Value) []c19Leaf {
	if l, ok := m.provMemo[v]; ok {
		return l
	}
	if m.inProgress[v] {
		return nil // cycle: adds no leaves
	}
	m.inProgress[v] = true
	defer delete(m.inProgress, v)
	var out []c19Leaf
	for _, o := range origins(v, m.through) {
		out = append(out, m.classify(o)...)
	}
	m.provMemo[v] = out
	return out
}

func (m *c19Model) classify(o Origin) []c19Leaf {
	bad := func(format string, a ...any) []c19Leaf {
		return []c19Leaf{{Kind: "bad", V: o.V, Why: fmt.Sprintf(format, a...)}}
	}
	switch o.Kind {
	case "call":
		call := o.V.(*ssa.Call)
		if n := c19ClientCall(call.Common()); n != "" {
			return []c19Leaf{{Kind: "src", V: o.V, Why: "Client." + n}}
		}
		return bad("result of %s, which is not a datastore read/write", funcID(calleeOf(call.Common())))
	case "param":
		return []c19Leaf{{Kind: "param", V: o.V, Mode: "pair"}}
	case "const":
		if isNilConst(o.V) {
			return []c19Leaf{{Kind: "nil", V: o.V}}
		}
		return bad("constant %s", path(o.V))
	case "alloc":
		al := o.V.(*ssa.Alloc)
		et := types.Unalias(al.Type().(*types.Pointer).Elem())
		if types.Identical(et, m.kvPair) {
			return m.literal(al)
		}
		if m.carrying(et) {
			return []c19Leaf{{Kind: "nil", V: o.V, Why: "zero value"}}
		}
		return bad("allocation of %s", et)
	case "freevar":
		return m.freeVar(o.V.(*ssa.FreeVar))
	}
	return bad("%s (%s)", path(o.V), o.Kind)
}

// freeVar resolves a captured variable to the values bound / stored to it.
func (m *c19Model) freeVar(fv *ssa.FreeVar) []c19Leaf {
	fn := fv.Parent()
	idx := -1
	for i, x := range fn.FreeVars {
		if x == fv {
			idx = i
		}
	}
	par := fn.Parent()
	if idx < 0 || par == nil {
		return []c19Leaf{{Kind: "bad", V: fv, Why: "unresolvable free variable " + fv.Name()}}
	}
	var out []c19Leaf
	found := false
	allInstrs(par, false, func(_ *ssa.Function, in ssa.Instruction) {
		mc, ok := in.(*ssa.MakeClosure)
		if !ok || mc.Fn != fn || idx >= len(mc.Bindings) {
			return
		}
		found = true
		b := mc.Bindings[idx]
		if al, ok := b.(*ssa.Alloc); ok && !m.carrying(fv.Type()) {
			// captured by reference: every store to the variable, in the parent
			// and through the free variable in any closure
			for _, st := range c19StoresToCaptured(al) {
				out = append(out, m.prov(st)...)
			}
			return
		}
		out = append(out, m.prov(b)...)
	})
	if !found {
		return []c19Leaf{{Kind: "bad", V: fv, Why: "no binding found for free variable " + fv.Name()}}
	}
	return out
}

func c19StoresToCaptured(al *ssa.Alloc) []ssa.Value {
	var out []ssa.Value
	var visit func(addr ssa.Value)
	visit = func(addr ssa.Value) {
		refs := addr.Referrers()
		if refs == nil {
			return
		}
		for _, r := range *refs {
			switch x := r.(type) {
			case *ssa.Store:
				if x.Addr == addr {
					out = append(out, x.Val)
				}
			case *ssa.MakeClosure:
				for i, b := range x.Bindings {
					if b == addr {
						visit(x.Fn.(*ssa.Function).FreeVars[i])
					}
				}
			}
		}
	}
	visit(al)
	return out
}

// c19FieldStores: values stored into each field of a struct allocation, looking
// through `*new = *complit` copies; copies lists pointers whose pointee was
// copied wholesale into the allocation.
func c19FieldStores(al ssa.Value, depth int) (fields map[string][]ssa.Value, copies []ssa.Value) {
	fields = literalFieldStores(al)
	refs := al.Referrers()
	if refs == nil || depth > 3 {
		return
	}
	for _, r := range *refs {
		st, ok := r.(*ssa.Store)
		if !ok || st.Addr != al {
			continue
		}
		if ld, ok := st.Val.(*ssa.UnOp); ok && ld.Op == token.MUL {
			if src, ok := ld.X.(*ssa.Alloc); ok {
				f2, c2 := c19FieldStores(src, depth+1)
				for k, v := range f2 {
					fields[k] = append(fields[k], v...)
				}
				copies = append(copies, c2...)
				continue
			}
			copies = append(copies, ld.X)
			continue
		}
		copies = append(copies, st.Val)
	}
	return
}

// literal classifies a &model.KVPair{...}: clean iff Revision (and UID) are
// copied from a clean pair.
func (m *c19Model) literal(al *ssa.Alloc) []c19Leaf {
	fields, copies := c19FieldStores(al, 0)
	var out []c19Leaf
	for _, cp := range copies {
		if m.isPairPtr(cp.Type()) {
			out = append(out, m.prov(cp)...) // struct copy of *cp: all fields are cp's
		} else {
			out = append(out, c19Leaf{Kind: "bad", V: al, Why: "pair overwritten with " + path(cp)})
		}
	}
	revs := fields[m.revField.Name()]
	if len(revs) == 0 && len(copies) == 0 {
		return []c19Leaf{{Kind: "norev", V: al, Why: "literal without Revision"}}
	}
	for _, rv := range revs {
		out = append(out, m.fieldDerivation(rv, m.revField)...)
	}
	// UID
	uidOK := len(copies) > 0
	if uids := fields[m.uidField.Name()]; len(uids) > 0 {
		uidOK = true
		for _, uv := range uids {
			for _, l := range m.fieldDerivation(uv, m.uidField) {
				if l.Kind == "bad" || l.Kind == "norev" {
					uidOK = false
				}
			}
		}
	}
	if !uidOK {
		for i := range out {
			out[i].NoUID = true
		}
	}
	return out
}

// fieldDerivation: val must be a load of field `want` of a clean pair (or a
// string parameter when want is Revision).
func (m *c19Model) fieldDerivation(val ssa.Value, want *types.Var) []c19Leaf {
	var out []c19Leaf
	for _, o := range origins(val, nil) {
		switch o.Kind {
		case "other":
			var base ssa.Value
			switch x := o.V.(type) {
			case *ssa.FieldAddr:
				if structField(x.X.Type(), x.Field) == want {
					base = x.X
				}
			case *ssa.Field:
				if structField(x.X.Type(), x.Field) == want {
					base = x.X
				}
			}
			if base != nil && m.isPairPtr(base.Type()) {
				out = append(out, m.prov(base)...)
				continue
			}
			out = append(out, c19Leaf{Kind: "bad", V: o.V, Why: want.Name() + " taken from " + path(o.V)})
		case "param":
			if want == m.revField {
				out = append(out, c19Leaf{Kind: "param", V: o.V, Mode: "rev"})
				continue
			}
			out = append(out, c19Leaf{Kind: "bad", V: o.V, Why: want.Name() + " taken from parameter " + path(o.V)})
		case "const":
			out = append(out, c19Leaf{Kind: "bad", V: o.V, Why: want.Name() + " is the constant " + path(o.V) + " (no compare-and-swap)"})
		default:
			out = append(out, c19Leaf{Kind: "bad", V: o.V, Why: want.Name() + " taken from " + path(o.V)})
		}
	}
	return out
}

// originCalls: the call instructions (in the value's own function) whose
// results the value is built from — "re-reading" means executing one of them again.
func (m *c19Model) originCalls(v ssa.Value) map[ssa.Instruction]bool {
	out := map[ssa.Instruction]bool{}
	thr := func(x ssa.Value) []ssa.Value {
		switch y := x.(type) {
		case *ssa.IndexAddr:
			return []ssa.Value{y.X}
		case *ssa.FieldAddr:
			return []ssa.Value{y.X}
		case *ssa.Field:
			return []ssa.Value{y.X}
		case *ssa.Lookup:
			return []ssa.Value{y.X}
		}
		return nil
	}
	for _, o := range origins(v, thr) {
		if c, ok := o.V.(*ssa.Call); ok {
			out[c] = true
		}
	}
	return out
}

// externallyCallable: exported function or method (callable from other packages,
// possibly through the exported Interface).
func c19Exported(f *ssa.Function) bool {
	if f.Parent() != nil {
		return false
	}
	o, ok := f.Object().(*types.Func)
	return ok && o.Exported()
}

func c19ParamIndex(p *ssa.Parameter) int {
	for i, q := range p.Parent().Params {
		if q == p {
			return i
		}
	}
	return -1
}

// ---------------------------------------------------------------- error edges

// c19ErrValue returns the error result of a call instruction (nil if the call
// has no value, e.g. go/defer, or no error result is ever extracted).
func c19ErrValue(ci ssa.CallInstruction) ssa.Value {
	call, ok := ci.(*ssa.Call)
	if !ok {
		return nil
	}
	sig := call.Common().Signature()
	n := sig.Results().Len()
	if n == 0 || !c19IsError(sig.Results().At(n-1).Type()) {
		return nil
	}
	if n == 1 {
		return call
	}
	for _, r := range *call.Referrers() {
		if ex, ok := r.(*ssa.Extract); ok && ex.Index == n-1 {
			return ex
		}
	}
	return nil
}

func c19IsError(t types.Type) bool {
	return types.Identical(t, types.Universe.Lookup("error").Type())
}

// c19Aliases: values that carry e forward (phi, store to a local/captured variable and its loads).
func c19Aliases(e ssa.Value) map[ssa.Value]bool {
	set := map[ssa.Value]bool{e: true}
	work := []ssa.Value{e}
	for len(work) > 0 {
		v := work[len(work)-1]
		work = work[:len(work)-1]
		refs := v.Referrers()
		if refs == nil {
			continue
		}
		for _, r := range *refs {
			switch x := r.(type) {
			case *ssa.Phi:
				if !set[x] {
					set[x] = true
					work = append(work, x)
				}
			case *ssa.Store:
				if al, ok := x.Addr.(*ssa.Alloc); ok && x.Val == v && al.Referrers() != nil {
					for _, rr := range *al.Referrers() {
						if ld, ok := rr.(*ssa.UnOp); ok && ld.Op == token.MUL && ld.X == al && !set[ld] {
							set[ld] = true
							work = append(work, ld)
						}
					}
				}
			}
		}
	}
	return set
}

type c19Start struct {
	B   *ssa.BasicBlock
	Idx int // first instruction index to consider
}

// c19ErrorEdges finds where control goes when e != nil.  tested=false means e
// is never compared with nil nor returned: the error is dropped, and the
// continuation right after the call is the "error edge".
func c19ErrorEdges(e ssa.Value) (starts []c19Start, tested, returned bool) {
	al := c19Aliases(e)
	fn := e.Parent()
	for _, b := range fn.Blocks {
		if len(b.Instrs) == 0 {
			continue
		}
		switch t := b.Instrs[len(b.Instrs)-1].(type) {
		case *ssa.If:
			c, pol := stripNot(t.Cond, true)
			bo, ok := c.(*ssa.BinOp)
			if !ok || (bo.Op != token.EQL && bo.Op != token.NEQ) {
				continue
			}
			var other ssa.Value
			if al[bo.X] {
				other = bo.Y
			} else if al[bo.Y] {
				other = bo.X
			} else {
				continue
			}
			if !isNilConst(other) {
				continue
			}
			tested = true
			// truth of (e != nil) on Succs[0]
			nonNilOnTrue := (bo.Op == token.NEQ) == pol
			if nonNilOnTrue {
				starts = append(starts, c19Start{b.Succs[0], 0})
			} else {
				starts = append(starts, c19Start{b.Succs[1], 0})
			}
		case *ssa.Return:
			for _, r := range t.Results {
				if al[r] {
					returned = true
				}
			}
		}
	}
	return
}

// c19Accumulated: e is appended to a slice (error collection that is reported later).
func c19Accumulated(e ssa.Value) bool {
	for v := range c19Aliases(e) {
		refs := v.Referrers()
		if refs == nil {
			continue
		}
		for _, r := range *refs {
			st, ok := r.(*ssa.Store)
			if !ok || st.Val != v {
				continue
			}
			ia, ok := st.Addr.(*ssa.IndexAddr)
			if !ok {
				continue
			}
			arr, ok := ia.X.(*ssa.Alloc)
			if !ok || arr.Referrers() == nil {
				continue
			}
			for _, rr := range *arr.Referrers() {
				sl, ok := rr.(*ssa.Slice)
				if !ok || sl.Referrers() == nil {
					continue
				}
				for _, u := range *sl.Referrers() {
					if cc, ok := isBuiltinCall(u, "append"); ok && len(cc.Args) == 2 && cc.Args[1] == sl {
						return true
					}
				}
			}
		}
	}
	return false
}

// c19Forward explores the CFG from the starts.  stop(instr) ends a path at that
// instruction; cut(block, succIdx) removes an If edge.  Returns the Return
// instructions reached and the instructions at which hit(instr) was true.
func c19Forward(starts []c19Start, stop func(ssa.Instruction) bool, cut func(b *ssa.BasicBlock, k int) bool, hit func(ssa.Instruction) bool) (rets []*ssa.Return, hits []ssa.Instruction) {
	seen := map[*ssa.BasicBlock]bool{}
	var work []c19Start
	work = append(work, starts...)
	for len(work) > 0 {
		s := work[len(work)-1]
		work = work[:len(work)-1]
		if s.Idx == 0 {
			if seen[s.B] {
				continue
			}
			seen[s.B] = true
		}
		if isPanicBlock(s.B) {
			continue
		}
		stopped := false
		for i := s.Idx; i < len(s.B.Instrs); i++ {
			in := s.B.Instrs[i]
			if hit != nil && hit(in) {
				hits = append(hits, in)
			}
			if stop != nil && stop(in) {
				stopped = true
				break
			}
			if r, ok := in.(*ssa.Return); ok {
				rets = append(rets, r)
			}
		}
		if stopped {
			continue
		}
		for k, nb := range s.B.Succs {
			if cut != nil && len(s.B.Succs) == 2 && s.B.Succs[0] != s.B.Succs[1] && cut(s.B, k) {
				continue
			}
			work = append(work, c19Start{nb, 0})
		}
	}
	return
}

// c19TypeAssertCut builds a cut function removing the edge on which an alias of
// e is known to be of the named error type (errors.<typeName>).
func c19TypeAssertCut(e ssa.Value, typeName string) func(b *ssa.BasicBlock, k int) bool {
	al := c19Aliases(e)
	return func(b *ssa.BasicBlock, k int) bool {
		ifi, ok := b.Instrs[len(b.Instrs)-1].(*ssa.If)
		if !ok {
			return false
		}
		c, pol := stripNot(ifi.Cond, k == 0)
		if cl, isCall := c.(*ssa.Call); isCall && pol {
			// errors.As(err, &target) with target of the named error type
			if f := calleeOf(cl.Common()); f != nil && f.Pkg() != nil && f.Pkg().Path() == "errors" && f.Name() == "As" && len(cl.Common().Args) == 2 {
				a0 := cl.Common().Args[0]
				if mi, isMI := cl.Common().Args[1].(*ssa.MakeInterface); isMI && al[a0] {
					if pt, isPtr := mi.X.Type().Underlying().(*types.Pointer); isPtr {
						return qualTypeName(pt.Elem()) == c19ErrPkg+"."+typeName
					}
				}
			}
			return false
		}
		ex, ok := c.(*ssa.Extract)
		if !ok || ex.Index != 1 || !pol {
			return false
		}
		ta, ok := ex.Tuple.(*ssa.TypeAssert)
		if !ok || !ta.CommaOk || !al[ta.X] {
			return false
		}
		return qualTypeName(ta.AssertedType) == c19ErrPkg+"."+typeName
	}
}

// c19PureNilCond: v is `X == nil` / `X != nil` where X is a parameter or a field
// chain rooted at a parameter that is never stored to in the function; returns a
// canonical string for correlation ("" if not pure).
func c19PureNilCond(v ssa.Value) (string, bool) {
	bo, ok := v.(*ssa.BinOp)
	if !ok || (bo.Op != token.EQL && bo.Op != token.NEQ) {
		return "", false
	}
	x := bo.X
	if isNilConst(x) {
		x = bo.Y
	} else if !isNilConst(bo.Y) {
		return "", false
	}
	if !c19PureValue(x, 0) {
		return "", false
	}
	return path(x), bo.Op == token.EQL
}

func c19PureValue(v ssa.Value, depth int) bool {
	if depth > 6 {
		return false
	}
	switch x := v.(type) {
	case *ssa.Parameter:
		return true
	case *ssa.UnOp:
		return x.Op == token.MUL && c19PureValue(x.X, depth+1)
	case *ssa.Field:
		return c19PureValue(x.X, depth+1)
	case *ssa.FieldAddr:
		if !c19PureValue(x.X, depth+1) {
			return false
		}
		// no store through this field address anywhere in the function
		ok := true
		allInstrs(x.Parent(), true, func(_ *ssa.Function, in ssa.Instruction) {
			if st, isSt := in.(*ssa.Store); isSt {
				if fa, isFA := st.Addr.(*ssa.FieldAddr); isFA && fa.Field == x.Field && types.Identical(fa.X.Type(), x.X.Type()) && path(fa.X) == path(x.X) {
					ok = false
				}
			}
		})
		return ok
	case *ssa.Alloc:
		// parameter spill: exactly one store, of a Parameter
		refs := x.Referrers()
		if refs == nil {
			return false
		}
		n := 0
		for _, r := range *refs {
			if st, ok := r.(*ssa.Store); ok && st.Addr == x {
				if _, isP := st.Val.(*ssa.Parameter); !isP {
					return false
				}
				n++
			}
		}
		return n == 1
	}
	return false
}

// c19Correlate returns a cut function that only follows If edges consistent
// with the pure nil-conditions known to hold at `at` (its dominating guards).
func c19Correlate(at ssa.Instruction) func(b *ssa.BasicBlock, k int) bool {
	known := map[string]bool{} // canonical "X" -> (X == nil) truth
	for _, g := range guardsOf(at) {
		if s, eq := c19PureNilCond(g.Cond); s != "" {
			known[s] = (g.True == eq) // truth of X == nil
		}
	}
	return func(b *ssa.BasicBlock, k int) bool {
		ifi, ok := b.Instrs[len(b.Instrs)-1].(*ssa.If)
		if !ok {
			return false
		}
		c, pol := stripNot(ifi.Cond, k == 0)
		s, eq := c19PureNilCond(c)
		if s == "" {
			return false
		}
		want, has := known[s]
		if !has {
			return false
		}
		isNilOnEdge := pol == eq
		return isNilOnEdge != want
	}
}

func c19Or(fs ...func(b *ssa.BasicBlock, k int) bool) func(b *ssa.BasicBlock, k int) bool {
	return func(b *ssa.BasicBlock, k int) bool {
		for _, f := range fs {
			if f != nil && f(b, k) {
				return true
			}
		}
		return false
	}
}

// c19SameValue: a and b denote the same value at both program points: the same SSA
// value, equal constants, or the same pure access path (parameter / field /
// dereference chains, len() of such) — paths through calls with side effects,
// unnamed allocations or truncated paths never compare equal.
func c19SameValue(a, b ssa.Value) bool {
	if a == b {
		return true
	}
	ca, oka := constOf(a)
	cb, okb := constOf(b)
	if oka || okb {
		return oka && okb && ca.Kind() == cb.Kind() && constant.Compare(ca, token.EQL, cb)
	}
	if !types.Identical(a.Type(), b.Type()) {
		return false
	}
	return c19PureExpr(a, 0) && c19PureExpr(b, 0) && path(a) == path(b)
}

// c19PureExpr: v is built only from parameters, named locals, field selections,
// dereferences, conversions and len/cap — re-evaluating it yields the same thing
// as long as the named things are not reassigned (which path() cannot see; the
// callers compare values on one straight error path).
func c19PureExpr(v ssa.Value, depth int) bool {
	if depth > 6 {
		return false
	}
	switch x := v.(type) {
	case *ssa.Parameter, *ssa.FreeVar, *ssa.Global:
		return true
	case *ssa.Alloc:
		return x.Comment != "" && x.Comment != "complit" && x.Comment != "new"
	case *ssa.UnOp:
		return x.Op == token.MUL && c19PureExpr(x.X, depth+1)
	case *ssa.FieldAddr:
		return c19PureExpr(x.X, depth+1)
	case *ssa.Field:
		return c19PureExpr(x.X, depth+1)
	case *ssa.Convert:
		return c19PureExpr(x.X, depth+1)
	case *ssa.ChangeType:
		return c19PureExpr(x.X, depth+1)
	case *ssa.Call:
		if b, ok := x.Common().Value.(*ssa.Builtin); ok && (b.Name() == "len" || b.Name() == "cap") && len(x.Common().Args) == 1 {
			return c19PureExpr(x.Common().Args[0], depth+1)
		}
	}
	return false
}

func c19SortedSet(m map[string]bool) string {
	var ks []string
	for k := range m {
		ks = append(ks, k)
	}
	sort.Strings(ks)
	return strings.Join(ks, ",")
}
