package main

import (
	"fmt"
	"go/ast"
	"go/token"
	"go/types"
	"strings"

	"golang.org/x/tools/go/packages"
	"golang.org/x/tools/go/ssa"
)

const c41Rules = "felix/rules"

func init() {
	register(&Property{
		ID:        "C41",
		Title:     "Flow offload never bypasses endpoints that need per-packet processing",
		Technique: "static analysis: sibling field-gate parity between the chain renderer and the exclusion predicate, mutation/dirty pairing, provenance of the IP-set members, builder-chain facts of the offload rule (go/ssa + AST over felix/rules and felix/dataplane/linux)",
		DesignRef: "DESIGN.md §3 C41",
		Explanation: "Decides: (parity) the QoSControls fields whose non-zero value makes felix/rules emit per-packet rules are exactly the fields whose non-zero value makes workloadNeedsForwardHooks return true, DSCP (QosPolicies non-empty) makes it return true, and the workload/host stores into the exclusion maps are guarded by those predicates; " +
			"(dirty) every mutation of the exclusion maps is followed by dirty=true; (members) the members written to the IP set are built from every exclusion map of the manager, each holding the endpoint's addresses of the manager's IP version; " +
			"(rule) FlowOffload() is the action of exactly one rule literal, whose match requires an established/related conntrack state only and excludes source and destination in the set named from IPSetIDNoFlowOffload, the SetID the exclusion manager writes.",
		NotDecided: "The contents of the set after a history; that a removed/changed address leaves the set (follows from replacing the whole set, not checked beyond `members`); the kernel's flowtable semantics; bandwidth QoS (deliberately not excluded); whether the manager is registered when offload is enabled.",
		Assumptions: []string{
			"go/types + go/ssa (x/tools v0.50.0) model of the current source, CGO_ENABLED=0 build",
			"AddOrReplaceIPSet replaces the whole member list",
			"conntrack state names are the nftables/iptables ones (ESTABLISHED, RELATED)",
		},
		Run: runC41,
		Fixtures: []Fixture{
			{Name: "egress connection limit no longer excludes the workload", File: "felix/dataplane/linux/flowtable_mgr.go",
				Old: "qos.IngressMaxConnections != 0 || qos.EgressMaxConnections != 0 ||", New: "qos.IngressMaxConnections != 0 ||", Expect: "C41.parity/QoSControls.EgressMaxConnections"},
			{Name: "renderer gates rules on a field the predicate ignores", File: "felix/rules/endpoints.go",
				Old: "if qosControls.EgressPacketRate != 0 {", New: "if qosControls.EgressPacketRate != 0 || qosControls.EgressPacketBurst != 0 {", Expect: "C41.parity/QoSControls.EgressPacketBurst"},
			{Name: "DSCP workloads are offloaded", File: "felix/dataplane/linux/flowtable_mgr.go",
				Old: "\tif len(wep.QosPolicies) > 0 {\n\t\treturn true\n\t}\n", New: "", Expect: "C41.parity/WorkloadEndpoint.QosPolicies"},
			{Name: "host endpoint stored regardless of DSCP", File: "felix/dataplane/linux/flowtable_mgr.go",
				Old: "\t\tif len(msg.Endpoint.QosPolicies) == 0 {\n\t\t\tm.removeHost(id)\n\t\t\treturn\n\t\t}\n", New: "\t\tif len(msg.Endpoint.QosPolicies) == 0 {\n\t\t\tm.removeHost(id)\n\t\t}\n", Expect: "C41.parity/store/hepIPs"},
			{Name: "workload address change not flushed", File: "felix/dataplane/linux/flowtable_mgr.go",
				Old: "\t\tm.wepIPs[id] = stripSubnetMasks(nets)\n\t\tm.dirty = true\n", New: "\t\tm.wepIPs[id] = stripSubnetMasks(nets)\n", Expect: "C41.dirty/"},
			{Name: "host endpoints left out of the set", File: "felix/dataplane/linux/flowtable_mgr.go",
				Old: "\tfor _, ips := range m.hepIPs {\n\t\tmembers = append(members, ips...)\n\t}\n", New: "", Expect: "C41.members/hepIPs"},
			{Name: "IPv6 manager collects IPv4 addresses", File: "felix/dataplane/linux/flowtable_mgr.go",
				Old: "\t\tnets := msg.Endpoint.Ipv4Nets\n\t\tif m.ipVersion == 6 {\n\t\t\tnets = msg.Endpoint.Ipv6Nets\n\t\t}", New: "\t\tnets := msg.Endpoint.Ipv4Nets\n\t\tif m.ipVersion == 4 {\n\t\t\tnets = msg.Endpoint.Ipv6Nets\n\t\t}", Expect: "C41.members/addrs/wepIPs"},
			{Name: "offload rule ignores destination exclusion", File: "felix/rules/static.go",
				Old: "\t\t\t\t\tNotSourceIPSet(noOffloadSetName).\n\t\t\t\t\tNotDestIPSet(noOffloadSetName),", New: "\t\t\t\t\tNotSourceIPSet(noOffloadSetName),", Expect: "C41.rule/NotDestIPSet"},
			{Name: "offload rule matches new connections", File: "felix/rules/static.go",
				Old: "ConntrackState(\"RELATED,ESTABLISHED\").\n\t\t\t\t\tNotSourceIPSet", New: "ConntrackState(\"NEW,RELATED,ESTABLISHED\").\n\t\t\t\t\tNotSourceIPSet", Expect: "C41.rule/established-only"},
			{Name: "exclusion manager writes a different set", File: "felix/dataplane/linux/flowtable_mgr.go",
				Old: "SetID:   rules.IPSetIDNoFlowOffload,", New: "SetID:   rules.IPSetIDDSCPEndpoints,", Expect: "C41.rule/set-id"},
		},
	})
	dplinuxFixtureFilter(registry["C41"])
}

type c41 struct {
	c   *Ctx
	p   *Prog
	qos *types.Named
	mgr *types.Named
}

func runC41(c *Ctx) {
	p := c.Load(c41Rules, c44Pkg)
	x := &c41{c: c, p: p}
	if tn, ok := p.LookupExt("felix/proto", "QoSControls").(*types.TypeName); ok {
		x.qos, _ = tn.Type().(*types.Named)
	}
	if tn, ok := p.LookupObj(c44Pkg, "flowtableExclusionManager").(*types.TypeName); ok {
		x.mgr, _ = tn.Type().(*types.Named)
	}
	if x.qos == nil || x.mgr == nil {
		c.Lost("proto.QoSControls / flowtableExclusionManager")
	}
	c.Rule("C41.parity", "E-FIELDS/E-GUARD", "QoSControls fields gating per-packet rules in felix/rules == fields making workloadNeedsForwardHooks true; QosPolicies non-empty ⇒ true; stores into the exclusion maps guarded by the predicates", 7)
	c.Rule("C41.dirty", "E-PAIR", "every store into / delete from an exclusion map of flowtableExclusionManager is followed on every path by dirty=true", 4)
	c.Rule("C41.members", "E-FLOW", "AddOrReplaceIPSet members are appended from every exclusion map; each map is filled from the endpoint's v4 address field, or the v6 field exactly under ipVersion==6", 4)
	c.Rule("C41.rule", "E-OWN/E-CONST", "FlowOffload() is the action of one rule literal whose match is ConntrackState(⊆{RELATED,ESTABLISHED}∋ESTABLISHED).NotSourceIPSet(x).NotDestIPSet(x), x = NameForMainIPSet(IPSetIDNoFlowOffload); the exclusion manager's SetID is IPSetIDNoFlowOffload", 5)

	x.parity()
	x.dirty()
	x.members()
	x.rule()
}

// zeroCmpField: v is `X.F != 0` / `X.F == 0` on a field F of struct type named; returns F and
// the polarity of "non-zero" (true if v true means F != 0).
func c41ZeroCmpField(v ssa.Value, named *types.Named) (*types.Var, bool) {
	bo, ok := v.(*ssa.BinOp)
	if !ok || (bo.Op != token.NEQ && bo.Op != token.EQL && bo.Op != token.GTR) {
		return nil, false
	}
	st, _ := named.Underlying().(*types.Struct)
	for i := 0; i < st.NumFields(); i++ {
		f := st.Field(i)
		for _, pr := range [][2]ssa.Value{{bo.X, bo.Y}, {bo.Y, bo.X}} {
			if b := c44FieldLoad(pr[0], f); b != nil && c42IsConstInt(pr[1], 0) {
				if bo.Op == token.GTR && pr[0] != bo.X {
					continue
				}
				return f, bo.Op != token.EQL
			}
		}
	}
	return nil, false
}

// c41LenCmp: v compares len(load of field fld) with 0; returns polarity of "non-empty".
func c41LenCmp(v ssa.Value, fld *types.Var) (ok, nonEmptyWhenTrue bool) {
	bo, isBo := v.(*ssa.BinOp)
	if !isBo {
		return false, false
	}
	isLen := func(a ssa.Value) bool {
		call, ok := a.(*ssa.Call)
		if !ok {
			return false
		}
		b, ok := call.Call.Value.(*ssa.Builtin)
		return ok && b.Name() == "len" && c44FieldLoad(call.Call.Args[0], fld) != nil
	}
	switch {
	case isLen(bo.X) && c42IsConstInt(bo.Y, 0):
		switch bo.Op {
		case token.GTR, token.NEQ:
			return true, true
		case token.EQL, token.LEQ:
			return true, false
		}
	case isLen(bo.Y) && c42IsConstInt(bo.X, 0):
		switch bo.Op {
		case token.LSS, token.NEQ:
			return true, true
		case token.EQL, token.GEQ:
			return true, false
		}
	}
	return false, false
}

// c41ImpliesTrue: in bool function fn, does cond having truth value pol force the
// result true?  Decided by a path walk: from every point where cond's value is
// consumed (an If on it, a phi edge carrying it, a return of it), every path to a
// return yields the constant true or cond itself (with pol=true); Ifs on cond met
// on the way are followed only along the known outcome.  Shape-independent:
// `return a || b`, `if a || b { return true }`, `if !a && !b { return false };
// return true` and switch forms are all accepted.
func c41ImpliesTrue(fn *ssa.Function, cond ssa.Value, pol bool) bool {
	type env map[*ssa.BasicBlock]*ssa.BasicBlock // block -> predecessor taken on this path
	var valTrue func(v ssa.Value, e env, depth int) bool
	valTrue = func(v ssa.Value, e env, depth int) bool {
		if depth > 8 {
			return false
		}
		if v == cond {
			return pol
		}
		if cv, ok := constOf(v); ok {
			return cv.ExactString() == "true"
		}
		if u, ok := v.(*ssa.UnOp); ok && u.Op == token.NOT && u.X == cond {
			return !pol
		}
		if phi, ok := v.(*ssa.Phi); ok {
			from := e[phi.Block()]
			for i, pb := range phi.Block().Preds {
				if pb == from {
					return valTrue(phi.Edges[i], e, depth+1)
				}
			}
		}
		return false
	}
	var walk func(b, from *ssa.BasicBlock, e env, onStack map[*ssa.BasicBlock]bool) bool
	walk = func(b, from *ssa.BasicBlock, e env, onStack map[*ssa.BasicBlock]bool) bool {
		if onStack[b] {
			return false // loop: not decided
		}
		if isPanicBlock(b) {
			return true // no result on this path
		}
		onStack[b] = true
		defer delete(onStack, b)
		old, had := e[b]
		e[b] = from
		defer func() {
			if had {
				e[b] = old
			} else {
				delete(e, b)
			}
		}()
		if len(b.Instrs) == 0 {
			return false
		}
		switch t := b.Instrs[len(b.Instrs)-1].(type) {
		case *ssa.Return:
			return len(t.Results) == 1 && valTrue(t.Results[0], e, 0)
		case *ssa.If:
			cc, cp := stripNot(t.Cond, true)
			if cc == cond {
				// truth of t.Cond is (pol == cp); Succs[0] is the true edge
				if pol == cp {
					return walk(b.Succs[0], b, e, onStack)
				}
				return walk(b.Succs[1], b, e, onStack)
			}
			return walk(b.Succs[0], b, e, onStack) && walk(b.Succs[1], b, e, onStack)
		case *ssa.Jump:
			return walk(b.Succs[0], b, e, onStack)
		}
		return false
	}
	triggers, good := 0, 0
	for _, b := range fn.Blocks {
		if len(b.Instrs) == 0 {
			continue
		}
		for _, in := range b.Instrs {
			if phi, ok := in.(*ssa.Phi); ok {
				for i, ed := range phi.Edges {
					if ed == cond {
						triggers++
						if walk(b, b.Preds[i], env{}, map[*ssa.BasicBlock]bool{}) {
							good++
						}
					}
				}
			}
		}
		switch t := b.Instrs[len(b.Instrs)-1].(type) {
		case *ssa.If:
			if cc, _ := stripNot(t.Cond, true); cc == cond {
				triggers++
				var from *ssa.BasicBlock
				if len(b.Preds) > 0 {
					from = b.Preds[0]
				}
				// phis of b itself are irrelevant to cond's consumers below b unless returned; use walk from b
				if walk(b, from, env{}, map[*ssa.BasicBlock]bool{}) {
					good++
				}
			}
		case *ssa.Return:
			if len(t.Results) == 1 && t.Results[0] == cond {
				triggers++
				if pol {
					good++
				}
			}
		}
	}
	return triggers > 0 && triggers == good
}

func (x *c41) parity() {
	c, p := x.c, x.p
	hooks := p.Func(c44Pkg, "workloadNeedsForwardHooks")
	if hooks == nil {
		c.Lost("workloadNeedsForwardHooks")
	}
	// gating fields in felix/rules
	gate := map[string]ssa.Instruction{}
	for _, f := range p.AllFuncs() {
		if f.Pkg == nil || !strings.HasSuffix(f.Pkg.Pkg.Path(), c41Rules) {
			if tf := topFn(f); tf.Pkg == nil || !strings.HasSuffix(tf.Pkg.Pkg.Path(), c41Rules) {
				continue
			}
		}
		for _, b := range f.Blocks {
			if ifi, ok := b.Instrs[len(b.Instrs)-1].(*ssa.If); ok {
				cond, _ := stripNot(ifi.Cond, true)
				if fld, _ := c41ZeroCmpField(cond, x.qos); fld != nil {
					gate[fld.Name()] = cond.(*ssa.BinOp)
				}
			}
		}
	}
	if len(gate) == 0 {
		c.Lost("felix/rules gates no rule on a QoSControls field")
	}
	// fields making the predicate true
	need := map[string]bool{}
	seenCmp := map[string]bool{}
	allInstrs(hooks, false, func(_ *ssa.Function, in ssa.Instruction) {
		v, ok := in.(ssa.Value)
		if !ok {
			return
		}
		if fld, nz := c41ZeroCmpField(v, x.qos); fld != nil {
			seenCmp[fld.Name()] = true
			if c41ImpliesTrue(hooks, v, nz) {
				need[fld.Name()] = true
			}
		}
	})
	for _, f := range sortedKeys(gate) {
		c.Check(need[f], "C41.parity/QoSControls."+f, p.Pos(gate[f].Pos()),
			"non-zero "+f+" renders per-packet rules and makes workloadNeedsForwardHooks true",
			"felix/rules renders per-packet rules when QoSControls."+f+" != 0, but workloadNeedsForwardHooks does not return true for it: such a workload's established flows are offloaded and bypass the rules")
	}
	for _, f := range sortedKeys(seenCmp) {
		if gate[f] == nil {
			c.Violate("C41.parity/QoSControls."+f, p.Pos(hooks.Pos()), "workloadNeedsForwardHooks tests QoSControls.%s, which gates no per-packet rule in felix/rules: the exclusion set would not be exactly the endpoints needing the hooks", f)
		}
	}
	// DSCP on workloads
	qp, _ := p.LookupExt("felix/proto", "WorkloadEndpoint.QosPolicies").(*types.Var)
	hqp, _ := p.LookupExt("felix/proto", "HostEndpoint.QosPolicies").(*types.Var)
	if qp == nil || hqp == nil {
		c.Lost("proto.{Workload,Host}Endpoint.QosPolicies")
	}
	dscp := false
	allInstrs(hooks, false, func(_ *ssa.Function, in ssa.Instruction) {
		if v, ok := in.(ssa.Value); ok {
			if is, ne := c41LenCmp(v, qp); is && c41ImpliesTrue(hooks, v, ne) {
				dscp = true
			}
		}
	})
	c.Check(dscp, "C41.parity/WorkloadEndpoint.QosPolicies", p.Pos(hooks.Pos()), "a workload with QosPolicies (DSCP) needs the forward hooks",
		"workloadNeedsForwardHooks does not return true for a workload with non-empty QosPolicies: DSCP-marked workloads would be offloaded past the mangle rules")
	// stores guarded by the predicates
	for _, fld := range x.mapFields() {
		n := 0
		for _, f := range withClosures(p.methodsOf(c44Pkg, "flowtableExclusionManager")) {
			allInstrs(f, false, func(_ *ssa.Function, in ssa.Instruction) {
				mu, ok := in.(*ssa.MapUpdate)
				if !ok || fieldVar(mu.Map) != fld {
					return
				}
				n++
				key := "C41.parity/store/" + fld.Name()
				g := guardedCut(mu, func(cond ssa.Value, pol bool) bool {
					if cs, ok := condCall(cond); ok && calleeFn(cs.Common()) == hooks {
						return pol
					}
					if is, ne := c41LenCmp(cond, hqp); is {
						return pol == ne
					}
					return false
				})
				c.Check(g, key, p.Pos(mu.Pos()), "endpoint stored only when it needs per-packet processing",
					"store into "+fld.Name()+" is reachable for an endpoint that needs no per-packet processing (neither workloadNeedsForwardHooks nor non-empty host QosPolicies holds): the set is not exact")
			})
		}
		if n == 0 {
			c.Lost("no store into %s", fld.Name())
		}
	}
}

// mapFields: the map-typed fields of flowtableExclusionManager (the exclusion maps).
func (x *c41) mapFields() []*types.Var {
	st, _ := x.mgr.Underlying().(*types.Struct)
	var out []*types.Var
	for i := 0; i < st.NumFields(); i++ {
		if _, ok := st.Field(i).Type().Underlying().(*types.Map); ok {
			out = append(out, st.Field(i))
		}
	}
	if len(out) == 0 {
		x.c.Lost("flowtableExclusionManager has no map field")
	}
	return out
}

func (x *c41) isMapField(v *types.Var) bool {
	for _, f := range x.mapFields() {
		if f == v {
			return true
		}
	}
	return false
}

func (x *c41) dirty() {
	c, p := x.c, x.p
	dirtyF, _ := p.LookupObj(c44Pkg, "flowtableExclusionManager.dirty").(*types.Var)
	if dirtyF == nil {
		c.Lost("flowtableExclusionManager.dirty")
	}
	for _, f := range withClosures(p.methodsOf(c44Pkg, "flowtableExclusionManager")) {
		pd := postDominators(f)
		var sets []ssa.Instruction
		allInstrs(f, false, func(_ *ssa.Function, in ssa.Instruction) {
			if st, ok := in.(*ssa.Store); ok && fieldVar(st.Addr) == dirtyF {
				if cv, ok := constOf(st.Val); ok && cv.ExactString() == "true" {
					sets = append(sets, in)
				}
			}
		})
		allInstrs(f, false, func(_ *ssa.Function, in ssa.Instruction) {
			var fld *types.Var
			kind := ""
			if mu, ok := in.(*ssa.MapUpdate); ok {
				fld, kind = fieldVar(mu.Map), "store"
			} else if cc, ok := isBuiltinCall(in, "delete"); ok {
				fld, kind = fieldVar(cc.Args[0]), "delete"
			}
			if fld == nil || !x.isMapField(fld) {
				return
			}
			ok := false
			for _, s := range sets {
				if instrPostDominates(pd, s, in) {
					ok = true
				}
			}
			c.Check(ok, fmt.Sprintf("C41.dirty/%s/%s/%s", fnName(f), fld.Name(), kind), p.Pos(in.Pos()), "followed by dirty=true on every path",
				fmt.Sprintf("%s of %s in %s is not followed by dirty=true on every path: the IP set keeps the previous members", kind, fld.Name(), fnName(f)))
		})
	}
}

func (x *c41) members() {
	c, p := x.c, x.p
	cdw := p.Func(c44Pkg, "flowtableExclusionManager.CompleteDeferredWork")
	if cdw == nil {
		c.Lost("flowtableExclusionManager.CompleteDeferredWork")
	}
	calls := callsIn(cdw, false, func(f *types.Func) bool { return f.Name() == "AddOrReplaceIPSet" })
	if len(calls) != 1 {
		c.Lost("CompleteDeferredWork: expected one AddOrReplaceIPSet call, found %d", len(calls))
	}
	args := calls[0].Args()
	members := args[len(args)-1]
	// sources appended into members
	srcFields := map[*types.Var]bool{}
	seen := map[ssa.Value]bool{}
	var walk func(v ssa.Value)
	walk = func(v ssa.Value) {
		if seen[v] {
			return
		}
		seen[v] = true
		switch y := v.(type) {
		case *ssa.Phi:
			for _, e := range y.Edges {
				walk(e)
			}
		case *ssa.Call:
			if b, ok := y.Call.Value.(*ssa.Builtin); ok && b.Name() == "append" {
				walk(y.Call.Args[0])
				for _, o := range origins(y.Call.Args[1], nil) {
					if nx, ok := o.V.(*ssa.Next); ok {
						if rg, ok := nx.Iter.(*ssa.Range); ok {
							if fv := fieldVar(rg.X); fv != nil {
								srcFields[fv] = true
							}
						}
					}
				}
			}
		}
	}
	walk(members)
	for _, fld := range x.mapFields() {
		c.Check(srcFields[fld], "C41.members/"+fld.Name(), p.Pos(calls[0].Instr.Pos()), "values of "+fld.Name()+" are appended to the members written to the IP set",
			"the members passed to AddOrReplaceIPSet are not built from "+fld.Name()+": endpoints recorded there are never excluded from offload")
	}
	// address provenance of each map store
	verF, _ := p.LookupObj(c44Pkg, "flowtableExclusionManager.ipVersion").(*types.Var)
	if verF == nil {
		c.Lost("flowtableExclusionManager.ipVersion")
	}
	for _, fld := range x.mapFields() {
		for _, f := range withClosures(p.methodsOf(c44Pkg, "flowtableExclusionManager")) {
			allInstrs(f, false, func(_ *ssa.Function, in ssa.Instruction) {
				mu, ok := in.(*ssa.MapUpdate)
				if !ok || fieldVar(mu.Map) != fld {
					return
				}
				key := "C41.members/addrs/" + fld.Name()
				site := p.Pos(mu.Pos())
				// value = helper(phi[v4field, v6field]) ; follow one pass-through call
				v := mu.Value
				if call, ok := v.(*ssa.Call); ok && len(call.Call.Args) == 1 {
					v = call.Call.Args[0]
				}
				phi, ok := v.(*ssa.Phi)
				if !ok || len(phi.Edges) != 2 {
					c.Undecided(key, site, "stored addresses %s are not a two-way choice between address fields", path(v))
					return
				}
				bad := ""
				n6 := 0
				for i, e := range phi.Edges {
					fv := fieldVar(e)
					if fv == nil {
						bad = "address source " + path(e) + " is not a field of the endpoint"
						continue
					}
					is6 := strings.Contains(fv.Name(), "v6")
					pred := phi.Block().Preds[i]
					// the edge pred->phi block is taken under ipVersion==6 ?
					under6 := false
					if len(pred.Instrs) > 0 {
						under6 = guardedCut(pred.Instrs[len(pred.Instrs)-1], eqCond(true,
							func(a ssa.Value) bool { return fieldVar(a) == verF },
							func(a ssa.Value) bool { return c42IsConstInt(a, 6) })) && !pred.Dominates(phi.Block())
					}
					if is6 {
						n6++
					}
					if is6 != under6 {
						bad = fmt.Sprintf("address field %s is selected %s ipVersion == 6", fv.Name(), map[bool]string{true: "under", false: "without"}[under6])
					}
				}
				if n6 != 1 && bad == "" {
					bad = "no IPv6 address field among the choices"
				}
				c.Check(bad == "", key, site, "v6 address field selected exactly under ipVersion == 6, v4 field otherwise", bad+": the set would hold addresses of the wrong family and the endpoint's real addresses stay offloadable")
			})
		}
	}
}

// ---------------------------------------------------------------------- rule --

func (x *c41) rule() {
	c, p := x.c, x.p
	pk := p.Pkg(c41Rules)
	if pk == nil {
		c.Lost("package felix/rules")
	}
	setID, _ := p.LookupObj(c41Rules, "IPSetIDNoFlowOffload").(*types.Const)
	if setID == nil {
		c.Lost("rules.IPSetIDNoFlowOffload")
	}
	type lit struct {
		cl  *ast.CompositeLit
		fd  *ast.FuncDecl
		pkg *types.Info
	}
	var lits []lit
	nCalls := 0
	for _, rel := range []string{c41Rules, c44Pkg} {
		info := p.Pkg(rel).TypesInfo
		p.eachFuncDecl(rel, func(_ *packages.Package, fd *ast.FuncDecl) {
			ast.Inspect(fd.Body, func(nd ast.Node) bool {
				if ce, ok := nd.(*ast.CallExpr); ok {
					if f := calleeObjAST(info, ce); f != nil && f.Name() == "FlowOffload" && len(ce.Args) == 0 {
						nCalls++
					}
				}
				cl, ok := nd.(*ast.CompositeLit)
				if !ok {
					return true
				}
				for _, el := range cl.Elts {
					kv, ok := el.(*ast.KeyValueExpr)
					if !ok {
						continue
					}
					if id, ok := kv.Key.(*ast.Ident); ok && id.Name == "Action" {
						if ce, ok := ast.Unparen(kv.Value).(*ast.CallExpr); ok {
							if f := calleeObjAST(info, ce); f != nil && f.Name() == "FlowOffload" {
								lits = append(lits, lit{cl, fd, info})
							}
						}
					}
				}
				return true
			})
		})
	}
	site := "felix/rules"
	if len(lits) > 0 {
		site = p.Pos(lits[0].cl.Pos())
	}
	c.Check(len(lits) == 1 && nCalls == 1, "C41.rule/single-site", site, "FlowOffload() is called once, as the Action of one rule literal",
		fmt.Sprintf("FlowOffload() is called %d time(s) and is the Action of %d rule literal(s); expected exactly one guarded offload rule", nCalls, len(lits)))
	if len(lits) == 0 {
		c.Lost("no rule literal with Action FlowOffload()")
	}
	for _, l := range lits {
		var match ast.Expr
		for _, el := range l.cl.Elts {
			if kv, ok := el.(*ast.KeyValueExpr); ok {
				if id, ok := kv.Key.(*ast.Ident); ok && id.Name == "Match" {
					match = kv.Value
				}
			}
		}
		methods := map[string][]*ast.CallExpr{}
		if match != nil {
			_, calls := methodChain(match)
			for _, ce := range calls {
				if f := calleeObjAST(l.pkg, ce); f != nil {
					methods[f.Name()] = append(methods[f.Name()], ce)
				}
			}
		}
		lsite := p.Pos(l.cl.Pos())
		// established only
		est := ""
		if cs := methods["ConntrackState"]; len(cs) == 1 && len(cs[0].Args) == 1 {
			if cv, ok := constValue(l.pkg, cs[0].Args[0]); ok {
				states := strings.Split(strings.Trim(cv.ExactString(), `"`), ",")
				hasEst := false
				for _, s := range states {
					switch strings.TrimSpace(s) {
					case "ESTABLISHED":
						hasEst = true
					case "RELATED":
					default:
						est = "conntrack state " + s + " is offloaded"
					}
				}
				if !hasEst {
					est = "ESTABLISHED is not among the matched states"
				}
			} else {
				est = "ConntrackState argument is not a constant"
			}
		} else {
			est = "the match has no (single) ConntrackState criterion"
		}
		c.Check(est == "", "C41.rule/established-only", lsite, "offload only for RELATED/ESTABLISHED flows", "the offload rule does not require an established flow: "+est)
		// exclusion by set, same set for src and dst, named from IPSetIDNoFlowOffload
		for _, m := range []string{"NotSourceIPSet", "NotDestIPSet"} {
			why := ""
			cs := methods[m]
			if len(cs) != 1 || len(cs[0].Args) != 1 {
				why = "the match has no " + m + " criterion"
			} else if !x.namedFromSetID(l.pkg, l.fd, cs[0].Args[0], setID) {
				why = m + " does not use the set name derived from NameForMainIPSet(IPSetIDNoFlowOffload)"
			}
			c.Check(why == "", "C41.rule/"+m, lsite, m+"(NameForMainIPSet(IPSetIDNoFlowOffload))", "the offload rule can offload a flow of an excluded endpoint: "+why)
		}
	}
	// exclusion manager's SetID
	ctor := p.Func(c44Pkg, "newFlowtableExclusionManager")
	if ctor == nil {
		c.Lost("newFlowtableExclusionManager")
	}
	var idVals []ssa.Value
	allInstrs(ctor, false, func(_ *ssa.Function, in ssa.Instruction) {
		if st, ok := in.(*ssa.Store); ok {
			if fv := fieldVar(st.Addr); fv != nil && fv.Name() == "SetID" && qualTypeName(st.Addr.(*ssa.FieldAddr).X.Type()) == "felix/ipsets.IPSetMetadata" {
				idVals = append(idVals, st.Val)
			}
		}
	})
	ok := len(idVals) == 1
	if ok {
		cv, isC := constOf(idVals[0])
		ok = isC && cv.ExactString() == setID.Val().ExactString()
	}
	c.Check(ok, "C41.rule/set-id", p.Pos(ctor.Pos()), "exclusion manager writes IP set "+setID.Val().ExactString(),
		"newFlowtableExclusionManager does not set IPSetMetadata.SetID to rules.IPSetIDNoFlowOffload: the offload rule tests a set nobody fills")
}

// namedFromSetID: expr is an identifier whose (single) definition in fd is `….NameForMainIPSet(IPSetIDNoFlowOffload)`,
// or that call itself.
func (x *c41) namedFromSetID(info *types.Info, fd *ast.FuncDecl, e ast.Expr, setID *types.Const) bool {
	isCall := func(e ast.Expr) bool {
		ce, ok := ast.Unparen(e).(*ast.CallExpr)
		if !ok || len(ce.Args) != 1 {
			return false
		}
		f := calleeObjAST(info, ce)
		if f == nil || f.Name() != "NameForMainIPSet" {
			return false
		}
		var id *ast.Ident
		switch y := ast.Unparen(ce.Args[0]).(type) {
		case *ast.Ident:
			id = y
		case *ast.SelectorExpr:
			id = y.Sel
		}
		return id != nil && info.Uses[id] == types.Object(setID)
	}
	if isCall(e) {
		return true
	}
	id, ok := ast.Unparen(e).(*ast.Ident)
	if !ok {
		return false
	}
	obj := info.Uses[id]
	if obj == nil {
		return false
	}
	defs, good := 0, 0
	ast.Inspect(fd.Body, func(nd ast.Node) bool {
		as, ok := nd.(*ast.AssignStmt)
		if !ok {
			return true
		}
		for i, lhs := range as.Lhs {
			li, ok := lhs.(*ast.Ident)
			if !ok || i >= len(as.Rhs) {
				continue
			}
			if info.Defs[li] == obj || info.Uses[li] == obj {
				defs++
				if isCall(as.Rhs[i]) {
					good++
				}
			}
		}
		return true
	})
	return defs >= 1 && defs == good
}
