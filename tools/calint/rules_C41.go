package main

import (
	"fmt"
	"go/ast"
	"go/token"
	"go/types"
	"strings"

	"golang.org/x/tools/go/packages"
	"golang.org/x/tools/go/ssa"
)

const c41Rules = "felix/rules"

func init() {
	register(&Property{
		ID:        "C41",
		Title:     "Flow offload never bypasses endpoints that need per-packet processing",
		Technique: "static analysis: sibling field-gate parity between the chain renderer and the exclusion predicate with an all-paths independence walk of each disjunct, needs-edge/store post-dominance (refresh), mutation/dirty pairing, provenance of the IP-set members, builder-chain facts of the offload rule (go/ssa + AST over felix/rules and felix/dataplane/linux)",
		DesignRef: "DESIGN.md §3 C41",
		Explanation: "Decides: (parity) the QoSControls fields whose non-zero value makes felix/rules emit per-packet rules are exactly the fields whose non-zero value makes workloadNeedsForwardHooks return true, DSCP (QosPolicies non-empty) makes it return true, and the workload/host stores into the exclusion maps are guarded by those predicates; each of those triggers makes the predicate true on every path from its entry whatever the other inputs are (only nil tests of the pointers the trigger itself is read through may return false first), i.e. no feature is consulted only under some value of another; " +
			"(refresh) once an update is found to need exclusion, every path to the return rewrites (or deletes) the endpoint's entry in the exclusion map — the store never depends on the key being absent, so an excluded endpoint's changed/added address reaches the set; " +
			"(dirty) every mutation of the exclusion maps is followed by dirty=true; (members) the members written to the IP set are built from every exclusion map of the manager, each holding the endpoint's addresses of the manager's IP version (the stored value is a two-way choice on ipVersion between the v4/v6 twin fields of the same message — also when the choice is made by a helper that returns one of its parameters: each argument must be the field of the family the helper selects it for); " +
			"(rule) FlowOffload() is the action of exactly one rule literal, whose match requires an established/related conntrack state only and excludes source and destination in the set named from IPSetIDNoFlowOffload, the SetID the exclusion manager writes.",
		NotDecided: "The contents of the set after a history; a skip of the store on a branch computed from the message's own address fields (e.g. `unchanged` comparison) is accepted without checking the comparison; that a removed/changed address leaves the set (follows from replacing the whole set, not checked beyond `members`); the kernel's flowtable semantics; bandwidth QoS (deliberately not excluded); whether the manager is registered when offload is enabled.",
		Assumptions: []string{
			"go/types + go/ssa (x/tools v0.50.0) model of the current source, CGO_ENABLED=0 build",
			"AddOrReplaceIPSet replaces the whole member list",
			"conntrack state names are the nftables/iptables ones (ESTABLISHED, RELATED)",
		},
		Run: runC41,
		Fixtures: []Fixture{
			{Name: "egress connection limit no longer excludes the workload", File: "felix/dataplane/linux/flowtable_mgr.go",
				Old: "qos.IngressMaxConnections != 0 || qos.EgressMaxConnections != 0 ||", New: "qos.IngressMaxConnections != 0 ||", Expect: "C41.parity/QoSControls.EgressMaxConnections"},
			{Name: "renderer gates rules on a field the predicate ignores", File: "felix/rules/endpoints.go",
				Old: "if qosControls.EgressPacketRate != 0 {", New: "if qosControls.EgressPacketRate != 0 || qosControls.EgressPacketBurst != 0 {", Expect: "C41.parity/QoSControls.EgressPacketBurst"},
			{Name: "DSCP workloads are offloaded", File: "felix/dataplane/linux/flowtable_mgr.go",
				Old: "\tif len(wep.QosPolicies) > 0 {\n\t\treturn true\n\t}\n", New: "", Expect: "C41.parity/WorkloadEndpoint.QosPolicies"},
			{Name: "host endpoint stored regardless of DSCP", File: "felix/dataplane/linux/flowtable_mgr.go",
				Old: "\t\tif len(msg.Endpoint.QosPolicies) == 0 {\n\t\t\tm.removeHost(id)\n\t\t\treturn\n\t\t}\n", New: "\t\tif len(msg.Endpoint.QosPolicies) == 0 {\n\t\t\tm.removeHost(id)\n\t\t}\n", Expect: "C41.parity/store/hepIPs"},
			{Name: "DSCP consulted only when QosControls is nil", File: "felix/dataplane/linux/flowtable_mgr.go",
				Old: "\tif len(wep.QosPolicies) > 0 {\n\t\treturn true\n\t}\n\tqos := wep.QosControls\n\tif qos == nil {\n\t\treturn false\n\t}\n", New: "\tqos := wep.QosControls\n\tif qos == nil {\n\t\treturn len(wep.QosPolicies) > 0\n\t}\n", Expect: "C41.parity/independent/WorkloadEndpoint.QosPolicies"},
			{Name: "nil QosControls short-circuits before the DSCP test", File: "felix/dataplane/linux/flowtable_mgr.go",
				Old: "\tif len(wep.QosPolicies) > 0 {\n\t\treturn true\n\t}\n\tqos := wep.QosControls\n\tif qos == nil {\n\t\treturn false\n\t}\n", New: "\tqos := wep.QosControls\n\tif qos == nil {\n\t\treturn false\n\t}\n\tif len(wep.QosPolicies) > 0 {\n\t\treturn true\n\t}\n", Expect: "C41.parity/independent/WorkloadEndpoint.QosPolicies"},
			{Name: "egress packet rate consulted only when an ingress rate is set", File: "felix/dataplane/linux/flowtable_mgr.go",
				Old: "\treturn qos.IngressMaxConnections != 0 || qos.EgressMaxConnections != 0 ||\n\t\tqos.IngressPacketRate != 0 || qos.EgressPacketRate != 0\n", New: "\tif qos.IngressMaxConnections != 0 || qos.EgressMaxConnections != 0 {\n\t\treturn true\n\t}\n\tif qos.IngressPacketRate == 0 {\n\t\treturn false\n\t}\n\treturn qos.IngressPacketRate != 0 || qos.EgressPacketRate != 0\n", Expect: "C41.parity/independent/QoSControls.EgressPacketRate"},
			{Name: "already-excluded workload keeps its first addresses", File: "felix/dataplane/linux/flowtable_mgr.go",
				Old: "\t\tnets := msg.Endpoint.Ipv4Nets\n", New: "\t\tif _, exists := m.wepIPs[id]; exists {\n\t\t\treturn\n\t\t}\n\t\tnets := msg.Endpoint.Ipv4Nets\n", Expect: "C41.refresh/flowtableExclusionManager.OnUpdate/wepIPs"},
			{Name: "host endpoint addresses stored only on first exclusion", File: "felix/dataplane/linux/flowtable_mgr.go",
				Old: "\t\tm.hepIPs[id] = stripSubnetMasks(ips)\n\t\tm.dirty = true\n", New: "\t\tif _, exists := m.hepIPs[id]; !exists {\n\t\t\tm.hepIPs[id] = stripSubnetMasks(ips)\n\t\t\tm.dirty = true\n\t\t}\n", Expect: "C41.refresh/flowtableExclusionManager.OnUpdate/hepIPs"},
			{Name: "workload address change not flushed", File: "felix/dataplane/linux/flowtable_mgr.go",
				Old: "\t\tm.wepIPs[id] = stripSubnetMasks(nets)\n\t\tm.dirty = true\n", New: "\t\tm.wepIPs[id] = stripSubnetMasks(nets)\n", Expect: "C41.dirty/"},
			{Name: "host endpoints left out of the set", File: "felix/dataplane/linux/flowtable_mgr.go",
				Old: "\tfor _, ips := range m.hepIPs {\n\t\tmembers = append(members, ips...)\n\t}\n", New: "", Expect: "C41.members/hepIPs"},
			{Name: "IPv6 manager collects IPv4 addresses", File: "felix/dataplane/linux/flowtable_mgr.go",
				Old: "\t\tnets := msg.Endpoint.Ipv4Nets\n\t\tif m.ipVersion == 6 {\n\t\t\tnets = msg.Endpoint.Ipv6Nets\n\t\t}", New: "\t\tnets := msg.Endpoint.Ipv4Nets\n\t\tif m.ipVersion == 4 {\n\t\t\tnets = msg.Endpoint.Ipv6Nets\n\t\t}", Expect: "C41.members/addrs/wepIPs"},
			{Name: "family selector helper handed the host endpoint's v4 list twice", File: "felix/dataplane/linux/flowtable_mgr.go",
				Old: "\t\tips := msg.Endpoint.ExpectedIpv4Addrs\n\t\tif m.ipVersion == 6 {\n\t\t\tips = msg.Endpoint.ExpectedIpv6Addrs\n\t\t}\n",
				New: "\t\tpick := func(v4, v6 []string) []string {\n\t\t\tif m.ipVersion == 6 {\n\t\t\t\treturn v6\n\t\t\t}\n\t\t\treturn v4\n\t\t}\n\t\tips := pick(msg.Endpoint.ExpectedIpv4Addrs, msg.Endpoint.ExpectedIpv4Addrs)\n", Expect: "C41.members/addrs/hepIPs"},
			{Name: "workload v6 arm re-reads the v4 list", File: "felix/dataplane/linux/flowtable_mgr.go",
				Old: "\t\t\tnets = msg.Endpoint.Ipv6Nets\n", New: "\t\t\tnets = msg.Endpoint.Ipv4Nets\n", Expect: "C41.members/addrs/wepIPs"},
			{Name: "offload rule ignores destination exclusion", File: "felix/rules/static.go",
				Old: "\t\t\t\t\tNotSourceIPSet(noOffloadSetName).\n\t\t\t\t\tNotDestIPSet(noOffloadSetName),", New: "\t\t\t\t\tNotSourceIPSet(noOffloadSetName),", Expect: "C41.rule/NotDestIPSet"},
			{Name: "offload rule matches new connections", File: "felix/rules/static.go",
				Old: "ConntrackState(\"RELATED,ESTABLISHED\").\n\t\t\t\t\tNotSourceIPSet", New: "ConntrackState(\"NEW,RELATED,ESTABLISHED\").\n\t\t\t\t\tNotSourceIPSet", Expect: "C41.rule/established-only"},
			{Name: "exclusion manager writes a different set", File: "felix/dataplane/linux/flowtable_mgr.go",
				Old: "SetID:   rules.IPSetIDNoFlowOffload,", New: "SetID:   rules.IPSetIDDSCPEndpoints,", Expect: "C41.rule/set-id"},
		},
	})
	dplinuxFixtureFilter(registry["C41"])
}

type c41 struct {
	c   *Ctx
	p   *Prog
	qos *types.Named
	mgr *types.Named
}

func runC41(c *Ctx) {
	p := c.Load(c41Rules, c44Pkg)
	x := &c41{c: c, p: p}
	if tn, ok := p.LookupExt("felix/proto", "QoSControls").(*types.TypeName); ok {
		x.qos, _ = tn.Type().(*types.Named)
	}
	if tn, ok := p.LookupObj(c44Pkg, "flowtableExclusionManager").(*types.TypeName); ok {
		x.mgr, _ = tn.Type().(*types.Named)
	}
	if x.qos == nil || x.mgr == nil {
		c.Lost("proto.QoSControls / flowtableExclusionManager")
	}
	c.Rule("C41.parity", "E-FIELDS/E-GUARD", "QoSControls fields gating per-packet rules in felix/rules == fields making workloadNeedsForwardHooks true; QosPolicies non-empty ⇒ true; stores into the exclusion maps guarded by the predicates; each trigger makes the predicate true whatever the other inputs are (independent disjuncts)", 12)
	c.Rule("C41.refresh", "E-PAIR", "from every branch edge that establishes `needs per-packet processing`, every path to a return overwrites (or deletes) the endpoint's entry in the exclusion map: the stored addresses never depend on the key's previous presence", 2)
	c.Rule("C41.dirty", "E-PAIR", "every store into / delete from an exclusion map of flowtableExclusionManager is followed on every path by dirty=true", 4)
	c.Rule("C41.members", "E-FLOW", "AddOrReplaceIPSet members are appended from every exclusion map; each map is filled from a two-way choice (inline, or through an in-package selector helper whose alternatives are mapped back to the call's arguments) between the IPv4/IPv6 twin address fields of one message, the v6 field selected exactly when ipVersion is 6", 4)
	c.Rule("C41.rule", "E-OWN/E-CONST", "FlowOffload() is the action of one rule literal whose match is ConntrackState(⊆{RELATED,ESTABLISHED}∋ESTABLISHED).NotSourceIPSet(x).NotDestIPSet(x), x = NameForMainIPSet(IPSetIDNoFlowOffload); the exclusion manager's SetID is IPSetIDNoFlowOffload", 5)

	x.parity()
	x.refresh()
	x.dirty()
	x.members()
	x.rule()
}

// zeroCmpField: v is `X.F != 0` / `X.F == 0` on a field F of struct type named; returns F and
// the polarity of "non-zero" (true if v true means F != 0).
func c41ZeroCmpField(v ssa.Value, named *types.Named) (*types.Var, bool) {
	bo, ok := v.(*ssa.BinOp)
	if !ok || (bo.Op != token.NEQ && bo.Op != token.EQL && bo.Op != token.GTR) {
		return nil, false
	}
	st, _ := named.Underlying().(*types.Struct)
	for i := 0; i < st.NumFields(); i++ {
		f := st.Field(i)
		for _, pr := range [][2]ssa.Value{{bo.X, bo.Y}, {bo.Y, bo.X}} {
			if b := c44FieldLoad(pr[0], f); b != nil && c42IsConstInt(pr[1], 0) {
				if bo.Op == token.GTR && pr[0] != bo.X {
					continue
				}
				return f, bo.Op != token.EQL
			}
		}
	}
	return nil, false
}

// c41LenCmp: v compares len(load of field fld) with 0; returns polarity of "non-empty".
func c41LenCmp(v ssa.Value, fld *types.Var) (ok, nonEmptyWhenTrue bool) {
	bo, isBo := v.(*ssa.BinOp)
	if !isBo {
		return false, false
	}
	isLen := func(a ssa.Value) bool {
		call, ok := a.(*ssa.Call)
		if !ok {
			return false
		}
		b, ok := call.Call.Value.(*ssa.Builtin)
		return ok && b.Name() == "len" && c44FieldLoad(call.Call.Args[0], fld) != nil
	}
	switch {
	case isLen(bo.X) && c42IsConstInt(bo.Y, 0):
		switch bo.Op {
		case token.GTR, token.NEQ:
			return true, true
		case token.EQL, token.LEQ:
			return true, false
		}
	case isLen(bo.Y) && c42IsConstInt(bo.X, 0):
		switch bo.Op {
		case token.LSS, token.NEQ:
			return true, true
		case token.EQL, token.GEQ:
			return true, false
		}
	}
	return false, false
}

// c41ImpliesTrue: in bool function fn, does cond having truth value pol force the
// result true?  Decided by a path walk: from every point where cond's value is
// consumed (an If on it, a phi edge carrying it, a return of it), every path to a
// return yields the constant true or cond itself (with pol=true); Ifs on cond met
// on the way are followed only along the known outcome.  Shape-independent:
// `return a || b`, `if a || b { return true }`, `if !a && !b { return false };
// return true` and switch forms are all accepted.
func c41ImpliesTrue(fn *ssa.Function, cond ssa.Value, pol bool) bool {
	type env map[*ssa.BasicBlock]*ssa.BasicBlock // block -> predecessor taken on this path
	var valTrue func(v ssa.Value, e env, depth int) bool
	valTrue = func(v ssa.Value, e env, depth int) bool {
		if depth > 8 {
			return false
		}
		if v == cond {
			return pol
		}
		if cv, ok := constOf(v); ok {
			return cv.ExactString() == "true"
		}
		if u, ok := v.(*ssa.UnOp); ok && u.Op == token.NOT && u.X == cond {
			return !pol
		}
		if phi, ok := v.(*ssa.Phi); ok {
			from := e[phi.Block()]
			for i, pb := range phi.Block().Preds {
				if pb == from {
					return valTrue(phi.Edges[i], e, depth+1)
				}
			}
		}
		return false
	}
	var walk func(b, from *ssa.BasicBlock, e env, onStack map[*ssa.BasicBlock]bool) bool
	walk = func(b, from *ssa.BasicBlock, e env, onStack map[*ssa.BasicBlock]bool) bool {
		if onStack[b] {
			return false // loop: not decided
		}
		if isPanicBlock(b) {
			return true // no result on this path
		}
		onStack[b] = true
		defer delete(onStack, b)
		old, had := e[b]
		e[b] = from
		defer func() {
			if had {
				e[b] = old
			} else {
				delete(e, b)
			}
		}()
		if len(b.Instrs) == 0 {
			return false
		}
		switch t := b.Instrs[len(b.Instrs)-1].(type) {
		case *ssa.Return:
			return len(t.Results) == 1 && valTrue(t.Results[0], e, 0)
		case *ssa.If:
			cc, cp := stripNot(t.Cond, true)
			if cc == cond {
				// truth of t.Cond is (pol == cp); Succs[0] is the true edge
				if pol == cp {
					return walk(b.Succs[0], b, e, onStack)
				}
				return walk(b.Succs[1], b, e, onStack)
			}
			// a branch on a bool assembled earlier (`x := a || b; if x || c`): its
			// value on this path may be fixed by the phi edge taken
			if phi, ok := cc.(*ssa.Phi); ok {
				if from, have := e[phi.Block()]; have {
					for i, pb := range phi.Block().Preds {
						if pb != from {
							continue
						}
						ev, evPol := stripNot(phi.Edges[i], cp)
						val, known := false, false
						if ev == cond {
							val, known = pol == evPol, true
						} else if cv, ok := constOf(ev); ok && (cv.ExactString() == "true" || cv.ExactString() == "false") {
							val, known = (cv.ExactString() == "true") == evPol, true
						}
						if known {
							if val {
								return walk(b.Succs[0], b, e, onStack)
							}
							return walk(b.Succs[1], b, e, onStack)
						}
					}
				}
			}
			return walk(b.Succs[0], b, e, onStack) && walk(b.Succs[1], b, e, onStack)
		case *ssa.Jump:
			return walk(b.Succs[0], b, e, onStack)
		}
		return false
	}
	triggers, good := 0, 0
	for _, b := range fn.Blocks {
		if len(b.Instrs) == 0 {
			continue
		}
		for _, in := range b.Instrs {
			if phi, ok := in.(*ssa.Phi); ok {
				for i, ed := range phi.Edges {
					if ed == cond {
						triggers++
						if walk(b, b.Preds[i], env{}, map[*ssa.BasicBlock]bool{}) {
							good++
						}
					}
				}
			}
		}
		switch t := b.Instrs[len(b.Instrs)-1].(type) {
		case *ssa.If:
			if cc, _ := stripNot(t.Cond, true); cc == cond {
				triggers++
				var from *ssa.BasicBlock
				if len(b.Preds) > 0 {
					from = b.Preds[0]
				}
				// phis of b itself are irrelevant to cond's consumers below b unless returned; use walk from b
				if walk(b, from, env{}, map[*ssa.BasicBlock]bool{}) {
					good++
				}
			}
		case *ssa.Return:
			if len(t.Results) == 1 && t.Results[0] == cond {
				triggers++
				if pol {
					good++
				}
			}
		}
	}
	return triggers > 0 && triggers == good
}

func (x *c41) parity() {
	c, p := x.c, x.p
	hooks := p.Func(c44Pkg, "workloadNeedsForwardHooks")
	if hooks == nil {
		c.Lost("workloadNeedsForwardHooks")
	}
	// gating fields in felix/rules
	gate := map[string]ssa.Instruction{}
	for _, f := range p.AllFuncs() {
		if f.Pkg == nil || !strings.HasSuffix(f.Pkg.Pkg.Path(), c41Rules) {
			if tf := topFn(f); tf.Pkg == nil || !strings.HasSuffix(tf.Pkg.Pkg.Path(), c41Rules) {
				continue
			}
		}
		for _, b := range f.Blocks {
			if ifi, ok := b.Instrs[len(b.Instrs)-1].(*ssa.If); ok {
				cond, _ := stripNot(ifi.Cond, true)
				if fld, _ := c41ZeroCmpField(cond, x.qos); fld != nil {
					gate[fld.Name()] = cond.(*ssa.BinOp)
				}
			}
		}
	}
	if len(gate) == 0 {
		c.Lost("felix/rules gates no rule on a QoSControls field")
	}
	// fields making the predicate true
	need := map[string]bool{}
	seenCmp := map[string]bool{}
	indep := map[string]bool{}
	indepWhy := map[string]string{}
	allInstrs(hooks, false, func(_ *ssa.Function, in ssa.Instruction) {
		v, ok := in.(ssa.Value)
		if !ok {
			return
		}
		if fld, nz := c41ZeroCmpField(v, x.qos); fld != nil {
			seenCmp[fld.Name()] = true
			if c41ImpliesTrue(hooks, v, nz) {
				need[fld.Name()] = true
				if ok, why := c41ForcesTrue(hooks, v, nz, func(o ssa.Value) (bool, bool) {
					// another evaluation of the same field's zero test
					f2, nz2 := c41ZeroCmpField(o, x.qos)
					return nz2, f2 == fld
				}); ok {
					indep[fld.Name()] = true
				} else {
					indepWhy[fld.Name()] = why
				}
			}
		}
	})
	for _, f := range sortedKeys(gate) {
		c.Check(need[f], "C41.parity/QoSControls."+f, p.Pos(gate[f].Pos()),
			"non-zero "+f+" renders per-packet rules and makes workloadNeedsForwardHooks true",
			"felix/rules renders per-packet rules when QoSControls."+f+" != 0, but workloadNeedsForwardHooks does not return true for it: such a workload's established flows are offloaded and bypass the rules")
		if need[f] {
			c.Check(indep[f], "C41.parity/independent/QoSControls."+f, p.Pos(hooks.Pos()),
				"non-zero "+f+" makes workloadNeedsForwardHooks true whatever the other inputs are",
				"workloadNeedsForwardHooks consults QoSControls."+f+" only on some paths: "+indepWhy[f]+" — a workload with "+f+" != 0 and that combination of the other features is offloaded past its per-packet rules")
		}
	}
	for _, f := range sortedKeys(seenCmp) {
		if gate[f] == nil {
			c.Violate("C41.parity/QoSControls."+f, p.Pos(hooks.Pos()), "workloadNeedsForwardHooks tests QoSControls.%s, which gates no per-packet rule in felix/rules: the exclusion set would not be exactly the endpoints needing the hooks", f)
		}
	}
	// DSCP on workloads
	qp, _ := p.LookupExt("felix/proto", "WorkloadEndpoint.QosPolicies").(*types.Var)
	hqp, _ := p.LookupExt("felix/proto", "HostEndpoint.QosPolicies").(*types.Var)
	if qp == nil || hqp == nil {
		c.Lost("proto.{Workload,Host}Endpoint.QosPolicies")
	}
	dscp, dscpIndep, dscpWhy := false, false, ""
	allInstrs(hooks, false, func(_ *ssa.Function, in ssa.Instruction) {
		if v, ok := in.(ssa.Value); ok {
			if is, ne := c41LenCmp(v, qp); is && c41ImpliesTrue(hooks, v, ne) {
				dscp = true
				if ok, why := c41ForcesTrue(hooks, v, ne, func(o ssa.Value) (bool, bool) {
					is2, ne2 := c41LenCmp(o, qp)
					return ne2, is2
				}); ok {
					dscpIndep = true
				} else {
					dscpWhy = why
				}
			}
		}
	})
	c.Check(dscp, "C41.parity/WorkloadEndpoint.QosPolicies", p.Pos(hooks.Pos()), "a workload with QosPolicies (DSCP) needs the forward hooks",
		"workloadNeedsForwardHooks does not return true for a workload with non-empty QosPolicies: DSCP-marked workloads would be offloaded past the mangle rules")
	if dscp {
		c.Check(dscpIndep, "C41.parity/independent/WorkloadEndpoint.QosPolicies", p.Pos(hooks.Pos()),
			"non-empty QosPolicies makes workloadNeedsForwardHooks true whatever the other inputs are",
			"workloadNeedsForwardHooks consults QosPolicies only on some paths: "+dscpWhy+" — a DSCP-marked workload with that combination of the other features is offloaded past the mangle rules")
	}
	// stores guarded by the predicates
	needs := x.needsPred()
	for _, fld := range x.mapFields() {
		n := 0
		for _, f := range withClosures(p.methodsOf(c44Pkg, "flowtableExclusionManager")) {
			allInstrs(f, false, func(_ *ssa.Function, in ssa.Instruction) {
				mu, ok := in.(*ssa.MapUpdate)
				if !ok || fieldVar(mu.Map) != fld {
					return
				}
				n++
				key := "C41.parity/store/" + fld.Name()
				g := guardedCut(mu, needs)
				c.Check(g, key, p.Pos(mu.Pos()), "endpoint stored only when it needs per-packet processing",
					"store into "+fld.Name()+" is reachable for an endpoint that needs no per-packet processing (neither workloadNeedsForwardHooks nor non-empty host QosPolicies holds): the set is not exact")
			})
		}
		if n == 0 {
			c.Lost("no store into %s", fld.Name())
		}
	}
}

// needsPred accepts the If edges on which "this endpoint needs per-packet
// processing" is established: workloadNeedsForwardHooks(..) returned true, or the
// host endpoint's QosPolicies is non-empty.
func (x *c41) needsPred() EdgePred {
	hooks := x.p.Func(c44Pkg, "workloadNeedsForwardHooks")
	hqp, _ := x.p.LookupExt("felix/proto", "HostEndpoint.QosPolicies").(*types.Var)
	if hooks == nil || hqp == nil {
		x.c.Lost("workloadNeedsForwardHooks / proto.HostEndpoint.QosPolicies")
	}
	return func(cond ssa.Value, pol bool) bool {
		if cs, ok := condCall(cond); ok && calleeFn(cs.Common()) == hooks {
			return pol
		}
		if is, ne := c41LenCmp(cond, hqp); is {
			return pol == ne
		}
		return false
	}
}

// c41ForcesTrue: in the bool function fn, does `cond has truth value pol` force
// the result true WHATEVER the other inputs are?  Walks every path from the
// entry: branches whose outcome is fixed by cond follow that outcome, nil tests
// of the pointers dereferenced to evaluate cond follow the non-nil edge (cond
// having a value presupposes them), every other branch is followed both ways;
// every return reached must yield true.  A path that returns without ever
// consulting cond (cond tested only under some value of another input) fails.
// same(v) recognises other evaluations of the same test and gives their truth
// value under the assumed fact.
func c41ForcesTrue(fn *ssa.Function, cond ssa.Value, pol bool, same func(ssa.Value) (bool, bool)) (bool, string) {
	// pointers cond's operand is reached through
	baseVals := map[ssa.Value]bool{}
	basePaths := map[string]bool{}
	c44BackSlice(cond, func(v ssa.Value) {
		var b ssa.Value
		switch y := v.(type) {
		case *ssa.FieldAddr:
			b = y.X
		case *ssa.Field:
			b = y.X
		}
		if b != nil {
			if _, ok := b.Type().Underlying().(*types.Pointer); ok {
				baseVals[b] = true
				basePaths[path(b)] = true
			}
		}
	})
	isBase := func(v ssa.Value) bool { return baseVals[v] || basePaths[path(v)] }
	type env map[*ssa.BasicBlock]*ssa.BasicBlock
	var known func(v ssa.Value, e env, d int) (bool, bool)
	known = func(v ssa.Value, e env, d int) (bool, bool) {
		if d > 8 {
			return false, false
		}
		if v == cond {
			return pol, true
		}
		if same != nil {
			if val, ok := same(v); ok {
				return val, true
			}
		}
		if cv, ok := constOf(v); ok {
			switch cv.ExactString() {
			case "true":
				return true, true
			case "false":
				return false, true
			}
			return false, false
		}
		if u, ok := v.(*ssa.UnOp); ok && u.Op == token.NOT {
			val, ok := known(u.X, e, d+1)
			return !val, ok
		}
		if phi, ok := v.(*ssa.Phi); ok {
			from, have := e[phi.Block()]
			if !have {
				return false, false
			}
			for i, pb := range phi.Block().Preds {
				if pb == from {
					return known(phi.Edges[i], e, d+1)
				}
			}
		}
		return false, false
	}
	// nilEdge: on edge k of If t the tested base pointer is nil
	nilEdge := func(t *ssa.If, k int) bool {
		cc, p := stripNot(t.Cond, k == 0)
		bo, ok := cc.(*ssa.BinOp)
		if !ok || (bo.Op != token.EQL && bo.Op != token.NEQ) {
			return false
		}
		var other ssa.Value
		switch {
		case isNilConst(bo.X):
			other = bo.Y
		case isNilConst(bo.Y):
			other = bo.X
		default:
			return false
		}
		if !isBase(other) {
			return false
		}
		return (bo.Op == token.EQL) == p
	}
	why := ""
	steps := 0
	var walk func(b, from *ssa.BasicBlock, e env, onStack map[*ssa.BasicBlock]bool, trail []string) bool
	walk = func(b, from *ssa.BasicBlock, e env, onStack map[*ssa.BasicBlock]bool, trail []string) bool {
		steps++
		if steps > 200000 || onStack[b] {
			why = "the predicate has a loop / too many paths (not decided)"
			return false
		}
		if isPanicBlock(b) {
			return true
		}
		onStack[b] = true
		defer delete(onStack, b)
		old, had := e[b]
		e[b] = from
		defer func() {
			if had {
				e[b] = old
			} else {
				delete(e, b)
			}
		}()
		if len(b.Instrs) == 0 {
			return false
		}
		switch t := b.Instrs[len(b.Instrs)-1].(type) {
		case *ssa.Return:
			if len(t.Results) == 1 {
				if val, ok := known(t.Results[0], e, 0); ok && val {
					return true
				}
			}
			desc := "unconditionally"
			if len(trail) > 0 {
				desc = "when " + strings.Join(trail, " and ")
			}
			res := "<none>"
			if len(t.Results) == 1 {
				res = path(t.Results[0])
			}
			why = fmt.Sprintf("it returns %s %s without the result being forced true", res, desc)
			return false
		case *ssa.If:
			if val, ok := known(t.Cond, e, 0); ok {
				k := 1
				if val {
					k = 0
				}
				return walk(b.Succs[k], b, e, onStack, trail)
			}
			for k := 0; k < 2; k++ {
				if nilEdge(t, k) {
					continue
				}
				cc, p := stripNot(t.Cond, k == 0)
				tr := trail
				if !nilEdge(t, 1-k) {
					tr = append(append([]string{}, trail...), fmt.Sprintf("%s is %v", path(cc), p))
				}
				if !walk(b.Succs[k], b, e, onStack, tr) {
					return false
				}
			}
			return true
		case *ssa.Jump:
			return walk(b.Succs[0], b, e, onStack, trail)
		}
		why = "unexpected control flow (not decided)"
		return false
	}
	if len(fn.Blocks) == 0 {
		return false, "no body"
	}
	ok := walk(fn.Blocks[0], nil, env{}, map[*ssa.BasicBlock]bool{}, nil)
	return ok, why
}

// refresh: once an update has established that the endpoint needs per-packet
// processing, its entry in the exclusion map is rewritten from that update on
// every path — never skipped because the key is already present.  Decided per
// function holding a store into an exclusion map: from every If edge accepted by
// needsPred from which such a store is reachable, every path to a return crosses
// a store into / delete from that map (directly or in a callee), or a branch
// whose condition is computed from the very address fields being stored
// (comparison with the current addresses; not decided further).
func (x *c41) refresh() {
	c, p := x.c, x.p
	needs := x.needsPred()
	for _, fld := range x.mapFields() {
		n := 0
		touches := func(b *ssa.BasicBlock) bool {
			for _, in := range b.Instrs {
				if mu, ok := in.(*ssa.MapUpdate); ok && fieldVar(mu.Map) == fld {
					return true
				}
				if cc, ok := isBuiltinCall(in, "delete"); ok && fieldVar(cc.Args[0]) == fld {
					return true
				}
				if ci, ok := in.(ssa.CallInstruction); ok {
					if sf := calleeFn(ci.Common()); sf != nil && sf.Blocks != nil && c41IsMethodOf(sf, x.mgr) {
						hit := false
						for _, g := range withClosures([]*ssa.Function{sf}) {
							allInstrs(g, false, func(_ *ssa.Function, in2 ssa.Instruction) {
								if mu, ok := in2.(*ssa.MapUpdate); ok && fieldVar(mu.Map) == fld {
									hit = true
								}
								if cc, ok := isBuiltinCall(in2, "delete"); ok && fieldVar(cc.Args[0]) == fld {
									hit = true
								}
							})
						}
						if hit {
							return true
						}
					}
				}
			}
			return false
		}
		for _, f := range withClosures(p.methodsOf(c44Pkg, "flowtableExclusionManager")) {
			var stores []*ssa.MapUpdate
			allInstrs(f, false, func(_ *ssa.Function, in ssa.Instruction) {
				if mu, ok := in.(*ssa.MapUpdate); ok && fieldVar(mu.Map) == fld {
					stores = append(stores, mu)
				}
			})
			if len(stores) == 0 {
				continue
			}
			// message address fields the stored values are built from
			addr := map[*types.Var]bool{}
			for _, mu := range stores {
				c44BackSlice(mu.Value, func(v ssa.Value) {
					if fv := c41ProtoSliceField(v); fv != nil {
						addr[fv] = true
					}
				})
			}
			fromAddrs := func(cond ssa.Value) bool {
				hit := false
				c44BackSlice(cond, func(v ssa.Value) {
					if fv := c41ProtoSliceField(v); fv != nil && addr[fv] {
						hit = true
					}
				})
				return hit
			}
			key := fmt.Sprintf("C41.refresh/%s/%s", fnName(f), fld.Name())
			edges, bad := 0, ""
			for _, b := range f.Blocks {
				ifi, ok := b.Instrs[len(b.Instrs)-1].(*ssa.If)
				if !ok || len(b.Succs) != 2 || b.Succs[0] == b.Succs[1] {
					continue
				}
				for k, s := range b.Succs {
					cnd, pol := stripNot(ifi.Cond, k == 0)
					if !needs(cnd, pol) {
						continue
					}
					reach := blockReach(s)
					hasStore := false
					for _, mu := range stores {
						if mu.Block() == s || reach[mu.Block()] {
							hasStore = true
						}
					}
					if !hasStore {
						continue
					}
					edges++
					// every path from s to a return crosses a touch of fld
					seen := map[*ssa.BasicBlock]bool{}
					st := []*ssa.BasicBlock{s}
					for len(st) > 0 && bad == "" {
						cur := st[len(st)-1]
						st = st[:len(st)-1]
						if seen[cur] {
							continue
						}
						seen[cur] = true
						if touches(cur) || isPanicBlock(cur) {
							continue
						}
						switch t := cur.Instrs[len(cur.Instrs)-1].(type) {
						case *ssa.Return:
							bad = fmt.Sprintf("after `%s` is found %v, the return at %s is reachable without storing into %s", path(cnd), pol, p.Pos(t.Pos()), fld.Name())
						case *ssa.If:
							if fromAddrs(t.Cond) {
								continue
							}
							st = append(st, cur.Succs...)
						default:
							st = append(st, cur.Succs...)
						}
					}
				}
			}
			if edges == 0 {
				c.Undecided(key, p.Pos(f.Pos()), "%s stores into %s but no branch edge establishing the needs-exclusion predicate leads to the store", fnName(f), fld.Name())
				continue
			}
			n++
			c.Check(bad == "", key, p.Pos(stores[0].Pos()),
				"every update of an endpoint that needs exclusion rewrites its entry in "+fld.Name()+" from the message",
				bad+": an update for an endpoint already in "+fld.Name()+" keeps the previously stored addresses, so a changed or added address of an excluded endpoint never reaches the no-flow-offload set")
		}
		if n == 0 {
			c.Lost("no function stores into %s behind the needs-exclusion predicate", fld.Name())
		}
	}
}

func c41IsMethodOf(f *ssa.Function, named *types.Named) bool {
	if f.Signature == nil || f.Signature.Recv() == nil {
		return false
	}
	n, _ := derefType(f.Signature.Recv().Type()).(*types.Named)
	return n != nil && n.Obj() == named.Obj()
}

// c41ProtoSliceField: v is the address of / a load of a slice-typed field of a
// felix/proto message (an address list of the endpoint).
func c41ProtoSliceField(v ssa.Value) *types.Var {
	var fv *types.Var
	switch y := v.(type) {
	case *ssa.FieldAddr:
		fv = structField(y.X.Type(), y.Field)
	case *ssa.Field:
		fv = structField(y.X.Type(), y.Field)
	}
	if fv == nil || fv.Pkg() == nil || !strings.HasSuffix(fv.Pkg().Path(), "felix/proto") {
		return nil
	}
	if _, ok := fv.Type().Underlying().(*types.Slice); !ok {
		return nil
	}
	return fv
}

// mapFields: the map-typed fields of flowtableExclusionManager (the exclusion maps).
func (x *c41) mapFields() []*types.Var {
	st, _ := x.mgr.Underlying().(*types.Struct)
	var out []*types.Var
	for i := 0; i < st.NumFields(); i++ {
		if _, ok := st.Field(i).Type().Underlying().(*types.Map); ok {
			out = append(out, st.Field(i))
		}
	}
	if len(out) == 0 {
		x.c.Lost("flowtableExclusionManager has no map field")
	}
	return out
}

func (x *c41) isMapField(v *types.Var) bool {
	for _, f := range x.mapFields() {
		if f == v {
			return true
		}
	}
	return false
}

func (x *c41) dirty() {
	c, p := x.c, x.p
	dirtyF, _ := p.LookupObj(c44Pkg, "flowtableExclusionManager.dirty").(*types.Var)
	if dirtyF == nil {
		c.Lost("flowtableExclusionManager.dirty")
	}
	for _, f := range withClosures(p.methodsOf(c44Pkg, "flowtableExclusionManager")) {
		pd := postDominators(f)
		var sets []ssa.Instruction
		allInstrs(f, false, func(_ *ssa.Function, in ssa.Instruction) {
			if st, ok := in.(*ssa.Store); ok && fieldVar(st.Addr) == dirtyF {
				if cv, ok := constOf(st.Val); ok && cv.ExactString() == "true" {
					sets = append(sets, in)
				}
			}
		})
		allInstrs(f, false, func(_ *ssa.Function, in ssa.Instruction) {
			var fld *types.Var
			kind := ""
			if mu, ok := in.(*ssa.MapUpdate); ok {
				fld, kind = fieldVar(mu.Map), "store"
			} else if cc, ok := isBuiltinCall(in, "delete"); ok {
				fld, kind = fieldVar(cc.Args[0]), "delete"
			}
			if fld == nil || !x.isMapField(fld) {
				return
			}
			ok := false
			for _, s := range sets {
				if instrPostDominates(pd, s, in) {
					ok = true
				}
			}
			c.Check(ok, fmt.Sprintf("C41.dirty/%s/%s/%s", fnName(f), fld.Name(), kind), p.Pos(in.Pos()), "followed by dirty=true on every path",
				fmt.Sprintf("%s of %s in %s is not followed by dirty=true on every path: the IP set keeps the previous members", kind, fld.Name(), fnName(f)))
		})
	}
}

func (x *c41) members() {
	c, p := x.c, x.p
	cdw := p.Func(c44Pkg, "flowtableExclusionManager.CompleteDeferredWork")
	if cdw == nil {
		c.Lost("flowtableExclusionManager.CompleteDeferredWork")
	}
	calls := callsIn(cdw, false, func(f *types.Func) bool { return f.Name() == "AddOrReplaceIPSet" })
	if len(calls) != 1 {
		c.Lost("CompleteDeferredWork: expected one AddOrReplaceIPSet call, found %d", len(calls))
	}
	args := calls[0].Args()
	members := args[len(args)-1]
	// sources appended into members
	srcFields := map[*types.Var]bool{}
	seen := map[ssa.Value]bool{}
	var walk func(v ssa.Value)
	walk = func(v ssa.Value) {
		if seen[v] {
			return
		}
		seen[v] = true
		switch y := v.(type) {
		case *ssa.Phi:
			for _, e := range y.Edges {
				walk(e)
			}
		case *ssa.Call:
			if b, ok := y.Call.Value.(*ssa.Builtin); ok && b.Name() == "append" {
				walk(y.Call.Args[0])
				for _, o := range origins(y.Call.Args[1], nil) {
					if nx, ok := o.V.(*ssa.Next); ok {
						if rg, ok := nx.Iter.(*ssa.Range); ok {
							if fv := fieldVar(rg.X); fv != nil {
								srcFields[fv] = true
							}
						}
					}
				}
			}
		}
	}
	walk(members)
	for _, fld := range x.mapFields() {
		c.Check(srcFields[fld], "C41.members/"+fld.Name(), p.Pos(calls[0].Instr.Pos()), "values of "+fld.Name()+" are appended to the members written to the IP set",
			"the members passed to AddOrReplaceIPSet are not built from "+fld.Name()+": endpoints recorded there are never excluded from offload")
	}
	// address provenance of each map store
	verF, _ := p.LookupObj(c44Pkg, "flowtableExclusionManager.ipVersion").(*types.Var)
	if verF == nil {
		c.Lost("flowtableExclusionManager.ipVersion")
	}
	for _, fld := range x.mapFields() {
		for _, f := range withClosures(p.methodsOf(c44Pkg, "flowtableExclusionManager")) {
			allInstrs(f, false, func(_ *ssa.Function, in ssa.Instruction) {
				mu, ok := in.(*ssa.MapUpdate)
				if !ok || fieldVar(mu.Map) != fld {
					return
				}
				key := "C41.members/addrs/" + fld.Name()
				site := p.Pos(mu.Pos())
				// the stored value is a two-way choice between two address fields of the
				// message, made on the manager's ipVersion — inline (phi) or through an
				// in-package selector helper returning one of its parameters
				choices, why := x.addrChoices(mu.Value, mu, func(a ssa.Value) bool { return fieldVar(a) == verF }, 0)
				if why != "" || len(choices) != 2 {
					if why == "" {
						why = fmt.Sprintf("%d alternatives", len(choices))
					}
					c.Undecided(key, site, "stored addresses %s are not a two-way choice between address fields (%s)", path(mu.Value), why)
					return
				}
				// an alternative not itself guarded by a version test is the complement of the other
				for i := range choices {
					if choices[i].ver == 0 && choices[1-i].ver != 0 {
						choices[i].ver = 10 - choices[1-i].ver
					}
				}
				bad := ""
				var fvs [2]*types.Var
				for i, ch := range choices {
					fv := fieldVar(c41StripPass(ch.v))
					if fv == nil || c41ProtoSliceFieldVar(fv) == nil {
						c.Undecided(key, site, "address source %s is not an address-list field of the endpoint message", path(ch.v))
						return
					}
					fvs[i] = fv
					fam := c41FieldFamily(fv)
					switch {
					case ch.ver == 0:
						c.Undecided(key, site, "neither alternative of the stored addresses is selected by a test of ipVersion against 4 or 6")
						return
					case fam == 0:
						bad = "address field " + fv.Name() + " names no IP family"
					case fam != ch.ver:
						bad = fmt.Sprintf("address field %s is selected when ipVersion is %d", fv.Name(), ch.ver)
					}
				}
				if bad == "" && choices[0].ver == choices[1].ver {
					bad = fmt.Sprintf("both alternatives are selected when ipVersion is %d", choices[0].ver)
				}
				if bad == "" && !c41Twins(fvs[0], fvs[1]) {
					bad = fmt.Sprintf("address fields %s and %s are not the IPv4/IPv6 twins of one message", fvs[0].Name(), fvs[1].Name())
				}
				c.Check(bad == "", key, site, "v6 address field selected exactly when ipVersion is 6, its v4 twin otherwise", bad+": the set would hold addresses of the wrong family and the endpoint's real addresses stay offloadable")
			})
		}
	}
}

// ---------------------------------------------------------------------- rule --

func (x *c41) rule() {
	c, p := x.c, x.p
	pk := p.Pkg(c41Rules)
	if pk == nil {
		c.Lost("package felix/rules")
	}
	setID, _ := p.LookupObj(c41Rules, "IPSetIDNoFlowOffload").(*types.Const)
	if setID == nil {
		c.Lost("rules.IPSetIDNoFlowOffload")
	}
	type lit struct {
		cl  *ast.CompositeLit
		fd  *ast.FuncDecl
		pkg *types.Info
	}
	var lits []lit
	nCalls := 0
	for _, rel := range []string{c41Rules, c44Pkg} {
		info := p.Pkg(rel).TypesInfo
		p.eachFuncDecl(rel, func(_ *packages.Package, fd *ast.FuncDecl) {
			ast.Inspect(fd.Body, func(nd ast.Node) bool {
				if ce, ok := nd.(*ast.CallExpr); ok {
					if f := calleeObjAST(info, ce); f != nil && f.Name() == "FlowOffload" && len(ce.Args) == 0 {
						nCalls++
					}
				}
				cl, ok := nd.(*ast.CompositeLit)
				if !ok {
					return true
				}
				for _, el := range cl.Elts {
					kv, ok := el.(*ast.KeyValueExpr)
					if !ok {
						continue
					}
					if id, ok := kv.Key.(*ast.Ident); ok && id.Name == "Action" {
						if ce, ok := ast.Unparen(kv.Value).(*ast.CallExpr); ok {
							if f := calleeObjAST(info, ce); f != nil && f.Name() == "FlowOffload" {
								lits = append(lits, lit{cl, fd, info})
							}
						}
					}
				}
				return true
			})
		})
	}
	site := "felix/rules"
	if len(lits) > 0 {
		site = p.Pos(lits[0].cl.Pos())
	}
	c.Check(len(lits) == 1 && nCalls == 1, "C41.rule/single-site", site, "FlowOffload() is called once, as the Action of one rule literal",
		fmt.Sprintf("FlowOffload() is called %d time(s) and is the Action of %d rule literal(s); expected exactly one guarded offload rule", nCalls, len(lits)))
	if len(lits) == 0 {
		c.Lost("no rule literal with Action FlowOffload()")
	}
	for _, l := range lits {
		var match ast.Expr
		for _, el := range l.cl.Elts {
			if kv, ok := el.(*ast.KeyValueExpr); ok {
				if id, ok := kv.Key.(*ast.Ident); ok && id.Name == "Match" {
					match = kv.Value
				}
			}
		}
		methods := map[string][]*ast.CallExpr{}
		if match != nil {
			_, calls := methodChain(match)
			for _, ce := range calls {
				if f := calleeObjAST(l.pkg, ce); f != nil {
					methods[f.Name()] = append(methods[f.Name()], ce)
				}
			}
		}
		lsite := p.Pos(l.cl.Pos())
		// established only
		est := ""
		if cs := methods["ConntrackState"]; len(cs) == 1 && len(cs[0].Args) == 1 {
			if cv, ok := constValue(l.pkg, cs[0].Args[0]); ok {
				states := strings.Split(strings.Trim(cv.ExactString(), `"`), ",")
				hasEst := false
				for _, s := range states {
					switch strings.TrimSpace(s) {
					case "ESTABLISHED":
						hasEst = true
					case "RELATED":
					default:
						est = "conntrack state " + s + " is offloaded"
					}
				}
				if !hasEst {
					est = "ESTABLISHED is not among the matched states"
				}
			} else {
				est = "ConntrackState argument is not a constant"
			}
		} else {
			est = "the match has no (single) ConntrackState criterion"
		}
		c.Check(est == "", "C41.rule/established-only", lsite, "offload only for RELATED/ESTABLISHED flows", "the offload rule does not require an established flow: "+est)
		// exclusion by set, same set for src and dst, named from IPSetIDNoFlowOffload
		for _, m := range []string{"NotSourceIPSet", "NotDestIPSet"} {
			why := ""
			cs := methods[m]
			if len(cs) != 1 || len(cs[0].Args) != 1 {
				why = "the match has no " + m + " criterion"
			} else if !x.namedFromSetID(l.pkg, l.fd, cs[0].Args[0], setID) {
				why = m + " does not use the set name derived from NameForMainIPSet(IPSetIDNoFlowOffload)"
			}
			c.Check(why == "", "C41.rule/"+m, lsite, m+"(NameForMainIPSet(IPSetIDNoFlowOffload))", "the offload rule can offload a flow of an excluded endpoint: "+why)
		}
	}
	// exclusion manager's SetID
	ctor := p.Func(c44Pkg, "newFlowtableExclusionManager")
	if ctor == nil {
		c.Lost("newFlowtableExclusionManager")
	}
	var idVals []ssa.Value
	allInstrs(ctor, false, func(_ *ssa.Function, in ssa.Instruction) {
		if st, ok := in.(*ssa.Store); ok {
			if fv := fieldVar(st.Addr); fv != nil && fv.Name() == "SetID" && qualTypeName(st.Addr.(*ssa.FieldAddr).X.Type()) == "felix/ipsets.IPSetMetadata" {
				idVals = append(idVals, st.Val)
			}
		}
	})
	ok := len(idVals) == 1
	if ok {
		cv, isC := constOf(idVals[0])
		ok = isC && cv.ExactString() == setID.Val().ExactString()
	}
	c.Check(ok, "C41.rule/set-id", p.Pos(ctor.Pos()), "exclusion manager writes IP set "+setID.Val().ExactString(),
		"newFlowtableExclusionManager does not set IPSetMetadata.SetID to rules.IPSetIDNoFlowOffload: the offload rule tests a set nobody fills")
}

// namedFromSetID: expr is an identifier whose (single) definition in fd is `….NameForMainIPSet(IPSetIDNoFlowOffload)`,
// or that call itself.
func (x *c41) namedFromSetID(info *types.Info, fd *ast.FuncDecl, e ast.Expr, setID *types.Const) bool {
	isCall := func(e ast.Expr) bool {
		ce, ok := ast.Unparen(e).(*ast.CallExpr)
		if !ok || len(ce.Args) != 1 {
			return false
		}
		f := calleeObjAST(info, ce)
		if f == nil || f.Name() != "NameForMainIPSet" {
			return false
		}
		var id *ast.Ident
		switch y := ast.Unparen(ce.Args[0]).(type) {
		case *ast.Ident:
			id = y
		case *ast.SelectorExpr:
			id = y.Sel
		}
		return id != nil && info.Uses[id] == types.Object(setID)
	}
	if isCall(e) {
		return true
	}
	id, ok := ast.Unparen(e).(*ast.Ident)
	if !ok {
		return false
	}
	obj := info.Uses[id]
	if obj == nil {
		return false
	}
	defs, good := 0, 0
	ast.Inspect(fd.Body, func(nd ast.Node) bool {
		as, ok := nd.(*ast.AssignStmt)
		if !ok {
			return true
		}
		for i, lhs := range as.Lhs {
			li, ok := lhs.(*ast.Ident)
			if !ok || i >= len(as.Rhs) {
				continue
			}
			if info.Defs[li] == obj || info.Uses[li] == obj {
				defs++
				if isCall(as.Rhs[i]) {
					good++
				}
			}
		}
		return true
	})
	return defs >= 1 && defs == good
}

// ------------------------------------------------- members/addrs: selection --

// c41Choice: one alternative of the stored address list and the ipVersion (4/6,
// 0 = not fixed by a test) under which it is the one selected.
type c41Choice struct {
	v   ssa.Value
	ver int
}

// c41VerOfEdge classifies the truth of `cond == pol` as a fact about the
// manager's IP version: ==6 / !=4 → 6, ==4 / !=6 → 4 (Felix has two families).
func c41VerOfEdge(cond ssa.Value, pol bool, isVer func(ssa.Value) bool) int {
	is := func(n int64) func(ssa.Value) bool {
		return func(a ssa.Value) bool { return c42IsConstInt(a, n) }
	}
	switch {
	case eqCond(true, isVer, is(6))(cond, pol), eqCond(false, isVer, is(4))(cond, pol):
		return 6
	case eqCond(true, isVer, is(4))(cond, pol), eqCond(false, isVer, is(6))(cond, pol):
		return 4
	}
	return 0
}

// c41VerAt: the IP version fixed on every path reaching instruction at.
func c41VerAt(at ssa.Instruction, isVer func(ssa.Value) bool) int {
	for _, ver := range []int{6, 4} {
		ver := ver
		if guardedCut(at, func(cond ssa.Value, pol bool) bool { return c41VerOfEdge(cond, pol, isVer) == ver }) {
			return ver
		}
	}
	return 0
}

// addrChoices resolves the value stored into an exclusion map to its
// alternatives.  Shapes followed (all equivalent spellings of "pick the list of
// my family"): a one-argument pass-through call (stripSubnetMasks), a two-way
// phi whose edges are classified by the branch they come from, and a call of an
// in-package helper with a body whose every return yields one of its
// parameters (or a field read) — the helper's alternatives are mapped back to
// the call's arguments; the version tested inside the helper may be the
// manager's field or a parameter bound to it at the call.
func (x *c41) addrChoices(v ssa.Value, at ssa.Instruction, isVer func(ssa.Value) bool, depth int) ([]c41Choice, string) {
	if depth > 3 {
		return nil, "selection nested too deeply"
	}
	switch y := v.(type) {
	case *ssa.Call:
		if _, isB := y.Call.Value.(*ssa.Builtin); !isB && !y.Call.IsInvoke() && len(y.Call.Args) == 1 {
			return x.addrChoices(y.Call.Args[0], at, isVer, depth+1)
		}
		callee := y.Call.StaticCallee()
		if callee == nil || callee.Blocks == nil {
			return nil, "call of " + path(y) + " has no analysable body"
		}
		args := y.Call.Args
		if len(callee.Params) != len(args) {
			return nil, "call of " + callee.Name() + ": parameter/argument mismatch"
		}
		argOf := func(a ssa.Value) ssa.Value {
			if pa, ok := a.(*ssa.Parameter); ok {
				for i, q := range callee.Params {
					if q == pa {
						return args[i]
					}
				}
			}
			return nil
		}
		innerVer := func(a ssa.Value) bool {
			if b := argOf(a); b != nil {
				return isVer(b)
			}
			return isVer(a)
		}
		var out []c41Choice
		for _, r := range returnsOf(callee) {
			if len(r.Results) != 1 {
				return nil, callee.Name() + " does not return a single value"
			}
			sub, why := x.addrChoices(r.Results[0], r, innerVer, depth+1)
			if why != "" {
				return nil, why
			}
			for _, ch := range sub {
				if b := argOf(ch.v); b != nil {
					ch.v = b
				} else if _, isP := ch.v.(*ssa.Parameter); isP {
					return nil, "unbound parameter in " + callee.Name()
				}
				if ch.ver == 0 {
					ch.ver = c41VerAt(at, isVer)
				}
				out = append(out, ch)
			}
		}
		// the same alternative returned from several places under the same version counts once
		var uniq []c41Choice
		for _, ch := range out {
			dup := false
			for _, u := range uniq {
				if u.v == ch.v && u.ver == ch.ver {
					dup = true
				}
			}
			if !dup {
				uniq = append(uniq, ch)
			}
		}
		return uniq, ""
	case *ssa.Phi:
		if len(y.Edges) != 2 {
			return nil, fmt.Sprintf("%d-way merge", len(y.Edges))
		}
		var out []c41Choice
		for i, e := range y.Edges {
			pred := y.Block().Preds[i]
			ver := 0
			if ifi, ok := pred.Instrs[len(pred.Instrs)-1].(*ssa.If); ok && len(pred.Succs) == 2 && pred.Succs[0] != pred.Succs[1] {
				k := 0
				if pred.Succs[1] == y.Block() {
					k = 1
				}
				cnd, pol := stripNot(ifi.Cond, k == 0)
				ver = c41VerOfEdge(cnd, pol, isVer)
			}
			if ver == 0 {
				ver = c41VerAt(pred.Instrs[len(pred.Instrs)-1], isVer)
			}
			sub, why := x.addrChoices(e, pred.Instrs[len(pred.Instrs)-1], isVer, depth+1)
			if why != "" {
				return nil, why
			}
			if len(sub) != 1 {
				return nil, "nested selection"
			}
			if sub[0].ver == 0 {
				sub[0].ver = ver
			}
			out = append(out, sub[0])
		}
		return out, ""
	}
	return []c41Choice{{v: v, ver: c41VerAt(at, isVer)}}, ""
}

// c41ProtoSliceFieldVar: fv is a slice-typed field of a felix/proto message.
func c41ProtoSliceFieldVar(fv *types.Var) *types.Var {
	if fv == nil || fv.Pkg() == nil || !strings.HasSuffix(fv.Pkg().Path(), "felix/proto") {
		return nil
	}
	if _, ok := fv.Type().Underlying().(*types.Slice); !ok {
		return nil
	}
	return fv
}

// c41FieldFamily: the IP family a proto address field is named for (…v4…/…v6…), 0 if none.
func c41FieldFamily(fv *types.Var) int {
	n := strings.ToLower(fv.Name())
	v4, v6 := strings.Contains(n, "v4"), strings.Contains(n, "v6")
	switch {
	case v4 && !v6:
		return 4
	case v6 && !v4:
		return 6
	}
	return 0
}

// c41Twins: a and b are fields of the same message struct whose names differ
// only in the family marker (Ipv4Nets/Ipv6Nets, ExpectedIpv4Addrs/ExpectedIpv6Addrs).
func c41Twins(a, b *types.Var) bool {
	if a == nil || b == nil || a == b || c41FieldFamily(a)+c41FieldFamily(b) != 10 {
		return false
	}
	norm := func(s string) string {
		s = strings.ToLower(s)
		return strings.ReplaceAll(strings.ReplaceAll(s, "v4", "v?"), "v6", "v?")
	}
	if norm(a.Name()) != norm(b.Name()) {
		return false
	}
	return c41OwnerStruct(a) != nil && c41OwnerStruct(a) == c41OwnerStruct(b)
}

// c41OwnerStruct: the named struct type of fv's package declaring field fv.
func c41OwnerStruct(fv *types.Var) *types.TypeName {
	if fv.Pkg() == nil {
		return nil
	}
	sc := fv.Pkg().Scope()
	for _, n := range sc.Names() {
		tn, ok := sc.Lookup(n).(*types.TypeName)
		if !ok {
			continue
		}
		st, ok := tn.Type().Underlying().(*types.Struct)
		if !ok {
			continue
		}
		for i := 0; i < st.NumFields(); i++ {
			if st.Field(i) == fv {
				return tn
			}
		}
	}
	return nil
}

// c41StripPass strips one-argument pass-through calls (stripSubnetMasks and the like).
func c41StripPass(v ssa.Value) ssa.Value {
	for i := 0; i < 3; i++ {
		y, ok := v.(*ssa.Call)
		if !ok || y.Call.IsInvoke() || len(y.Call.Args) != 1 {
			break
		}
		if _, isB := y.Call.Value.(*ssa.Builtin); isB {
			break
		}
		v = y.Call.Args[0]
	}
	return v
}
