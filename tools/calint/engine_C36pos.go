package main

// C36.position — sibling agreement on the bit POSITION of every child index.
//
// C36.descend decides whose ADDRESS the descent bit is taken from.  This family
// decides the position: the child slots of a node N partition the addresses below
// N by the first bit beyond N's own prefix, so every bit-indexed access of
// N.children — descent (read), re-parenting and new-leaf stores alike — must
// take bit number len(N.prefix)+1 (NthBit counts from 1).  All lookup routines
// and Update have to agree on this, otherwise a prefix inserted by one routine
// is searched for in the other subtree by another.
//
// Structurally, for every NthBit call a child index is made of (found with
// resolveIdx, i.e. also through an index helper):
//
//	position = X.Prefix() + 1        (conversions anywhere, operands in any order)
//
// where X denotes N's prefix: the load of N's prefix field, the value stored
// into that field if N is a node created in this function, or a CommonPrefix of
// such a value with another prefix (Update computes the common prefix first and
// descends / re-parents only where it has N's length; that guard is arithmetic
// and not re-checked here).  A position that is a prefix length plus anything
// but 1, or the prefix length of something other than N, is a violation.

import (
	"fmt"
	"go/constant"
	"go/token"
	"go/types"
	"strings"

	"golang.org/x/tools/go/ssa"
)

const c36PositionText = "every bit-indexed child slot of a node N (descent, re-parenting, new leaf; 7 routines incl. Update) takes the address bit at position len(N.prefix)+1: the NthBit argument is X.Prefix()+1 with X = N's prefix (its field, the value a fresh N is created with, or a CommonPrefix involving it); all routines agree"

// c36PosStripConv removes value conversions.
func c36PosStripConv(v ssa.Value) ssa.Value {
	for {
		switch x := v.(type) {
		case *ssa.Convert:
			v = x.X
		case *ssa.ChangeType:
			v = x.X
		default:
			return v
		}
	}
}

func c36PosIntConst(v ssa.Value) (int64, bool) {
	k, ok := v.(*ssa.Const)
	if !ok || k.Value == nil || k.Value.Kind() != constant.Int {
		return 0, false
	}
	return constant.Int64Val(k.Value)
}

// c36PosSplit decomposes a position value into base + k (k from constant
// additions/subtractions; conversions ignored).  ok=false if the shape is not
// base ± constants.
func c36PosSplit(v ssa.Value, env map[*ssa.Parameter]ssa.Value, depth int) (base ssa.Value, k int64, benv map[*ssa.Parameter]ssa.Value, ok bool) {
	v = c36PosStripConv(v)
	if depth > 6 {
		return v, 0, env, false
	}
	switch x := v.(type) {
	case *ssa.BinOp:
		if x.Op == token.ADD || x.Op == token.SUB {
			if cy, isC := c36PosIntConst(c36PosStripConv(x.Y)); isC {
				b, kk, e, ok := c36PosSplit(x.X, env, depth+1)
				if x.Op == token.SUB {
					cy = -cy
				}
				return b, kk + cy, e, ok
			}
			if cx, isC := c36PosIntConst(c36PosStripConv(x.X)); isC && x.Op == token.ADD {
				b, kk, e, ok := c36PosSplit(x.Y, env, depth+1)
				return b, kk + cx, e, ok
			}
		}
		return v, 0, env, false
	case *ssa.Parameter:
		if a, has := env[x]; has {
			return c36PosSplit(a, nil, depth+1)
		}
	}
	return v, 0, env, true
}

// c36Position reports one obligation per function that indexes child slots by
// an address bit.  only (optional) restricts the functions looked at.
func c36Position(c *Ctx, m *c36Model, only map[*ssa.Function]bool) {
	common := map[*ssa.Function]bool{}
	for _, n := range []string{"CommonPrefix", "V4CommonPrefix", "V6CommonPrefix"} {
		if f := m.p.Func(c36IPPkg, n); f != nil {
			common[f] = true
		}
	}
	if len(common) == 0 {
		c.Lost("ip.CommonPrefix")
	}
	isPrefixCall := func(v ssa.Value) (recv ssa.Value, ok bool) {
		call, isCall := v.(*ssa.Call)
		if !isCall {
			return nil, false
		}
		cc := call.Common()
		f := calleeOf(cc)
		if f == nil || f.Name() != "Prefix" || f.Pkg() == nil || !strings.HasSuffix(f.Pkg().Path(), c36IPPkg) {
			return nil, false
		}
		if sig, _ := f.Type().(*types.Signature); sig == nil || sig.Params().Len() != 0 {
			return nil, false
		}
		if cc.IsInvoke() {
			return cc.Value, true
		}
		if len(cc.Args) == 0 {
			return nil, false
		}
		return cc.Args[0], true
	}
	unwrap := func(v ssa.Value) ssa.Value {
		for {
			switch x := v.(type) {
			case *ssa.ChangeInterface:
				v = x.X
			case *ssa.MakeInterface:
				v = x.X
			case *ssa.TypeAssert:
				v = x.X
			default:
				return v
			}
		}
	}
	same := func(a, b ssa.Value) bool {
		return a != nil && b != nil && (a == b || unwrap(a) == unwrap(b))
	}
	// denotes: does prefix value X (in env terms) denote the prefix of node N?
	// fvs are further values known to be N's prefix (the values a fresh N made in a
	// callee is created with, in the terms of the function X lives in); N may be
	// nil when the node itself cannot be named there.
	var denotes func(X ssa.Value, env map[*ssa.Parameter]ssa.Value, N ssa.Value, fvs []ssa.Value, depth int) (yes bool, what string, known bool)
	denotes = func(X ssa.Value, env map[*ssa.Parameter]ssa.Value, N ssa.Value, fvs []ssa.Value, depth int) (bool, string, bool) {
		if pa, ok := unwrap(X).(*ssa.Parameter); ok {
			if a, has := env[pa]; has {
				X, env = a, nil
			}
		}
		ux := unwrap(X)
		// the value a fresh N was created with: trivially the node's own prefix
		own := fvs
		if N != nil {
			own = append(append([]ssa.Value{}, fvs...), m.freshField(N, m.fCidr)...)
		}
		for _, fv := range own {
			if same(fv, X) {
				return true, "", true
			}
		}
		if call, ok := ux.(*ssa.Call); ok && depth < 2 {
			if sf := call.Common().StaticCallee(); sf != nil && common[sf] {
				var descr []string
				for _, a := range call.Common().Args {
					if yes, _, _ := denotes(a, env, N, fvs, depth+1); yes {
						return true, "", true
					}
					descr = append(descr, pathN(a, 3))
				}
				return false, "the common prefix of " + strings.Join(descr, " and "), true
			}
		}
		known := true
		var what []string
		for _, s := range m.classifyCIDR(X, env, map[ssa.Value]bool{}) {
			switch s.kind {
			case "node":
				if N != nil && c36SameVal(s.node, N) {
					return true, "", true
				}
				what = append(what, "node "+path(s.node)+"'s prefix")
			case "query":
				what = append(what, "the query "+path(s.q))
			default:
				known = false
				what = append(what, pathN(X, 3))
			}
		}
		return false, strings.Join(what, ", "), known
	}
	// eqFact: every path to `at` establishes X.Prefix() == Q.Prefix() for some Q
	// accepted by okQ (then X.Prefix()+1 and Q.Prefix()+1 are the same position).
	eqFact := func(X ssa.Value, at ssa.Instruction, okQ func(ssa.Value) bool) bool {
		return guardedCut(at, func(cond ssa.Value, pol bool) bool {
			bo, ok := cond.(*ssa.BinOp)
			if !ok || !((bo.Op == token.EQL && pol) || (bo.Op == token.NEQ && !pol)) {
				return false
			}
			p, okP := isPrefixCall(c36PosStripConv(bo.X))
			q, okQ2 := isPrefixCall(c36PosStripConv(bo.Y))
			if !okP || !okQ2 {
				return false
			}
			switch {
			case same(p, X):
				return okQ(q)
			case same(q, X):
				return okQ(p)
			}
			return false
		})
	}
	// resolve: denotes, then the dominating equality facts at `at`, then -- X being
	// a parameter of an extracted helper -- the same question at each of the helper's
	// static call sites with parameters mapped to arguments (N if it is a parameter;
	// the values a fresh N is created with otherwise), the caller's equality facts
	// included.  Anything that cannot be mapped is undecided, never a violation.
	var resolve func(X ssa.Value, env map[*ssa.Parameter]ssa.Value, N ssa.Value, fvs []ssa.Value, at ssa.Instruction, depth int, seen map[*ssa.Parameter]bool) (bool, string, bool)
	resolve = func(X ssa.Value, env map[*ssa.Parameter]ssa.Value, N ssa.Value, fvs []ssa.Value, at ssa.Instruction, depth int, seen map[*ssa.Parameter]bool) (bool, string, bool) {
		if pa, ok := unwrap(X).(*ssa.Parameter); ok {
			if a, has := env[pa]; has {
				X, env = a, nil
			}
		}
		yes, what, known := denotes(X, env, N, fvs, 0)
		if yes || at == nil || len(env) != 0 {
			return yes, what, known
		}
		ux := unwrap(X)
		var xfn *ssa.Function
		switch x := ux.(type) {
		case *ssa.Parameter:
			xfn = x.Parent()
		case ssa.Instruction:
			xfn = x.Parent()
		}
		if xfn == nil || xfn != at.Parent() {
			return yes, what, known
		}
		if eqFact(X, at, func(Q ssa.Value) bool {
			y, _, _ := denotes(Q, nil, N, fvs, 0)
			return y
		}) {
			return true, "", true
		}
		pa, isPa := ux.(*ssa.Parameter)
		if !isPa {
			return yes, what, known
		}
		sites := m.callSites(xfn)
		if c36Exported(xfn) || m.usedAsValue(xfn) || len(sites) == 0 {
			return false, what, known // a genuine query of the API
		}
		if depth == 0 {
			return false, what, false
		}
		if seen[pa] {
			return false, what, false
		}
		seen[pa] = true
		defer delete(seen, pa)
		sub := func(v ssa.Value, args []ssa.Value) ssa.Value {
			switch y := v.(type) {
			case *ssa.Parameter:
				for i, q := range xfn.Params {
					if q == y && i < len(args) {
						return args[i]
					}
				}
			case *ssa.Const, *ssa.Global:
				return v
			}
			return nil
		}
		own := fvs
		if N != nil {
			own = append(append([]ssa.Value{}, fvs...), m.freshField(N, m.fCidr)...)
		}
		allYes, visited := true, 0
		var noWhat, undWhat string
		for _, cs := range sites {
			args := cs.Common().Args
			X2 := sub(pa, args)
			if X2 == nil {
				allYes, undWhat = false, what
				continue
			}
			if p2, ok := unwrap(X2).(*ssa.Parameter); ok && seen[p2] {
				continue // recursion: the same value handed down
			}
			var N2 ssa.Value
			if N != nil {
				N2 = sub(N, args)
			}
			var fvs2 []ssa.Value
			for _, fv := range own {
				if fv == nil {
					continue
				}
				if s := sub(fv, args); s != nil {
					fvs2 = append(fvs2, s)
				} else if s := sub(unwrap(fv), args); s != nil {
					fvs2 = append(fvs2, s)
				}
			}
			visited++
			csIn, _ := cs.(ssa.Instruction)
			if N2 == nil && len(fvs2) == 0 {
				allYes, undWhat = false, what+" (the node cannot be named at the call of "+fnName(xfn)+" at "+m.site(csIn)+")"
				continue
			}
			y, w, k := resolve(X2, nil, N2, fvs2, csIn, depth-1, seen)
			switch {
			case y:
			case k:
				allYes = false
				noWhat = w + " (passed as " + pa.Name() + " to " + fnName(xfn) + " at " + m.site(csIn) + ")"
			default:
				allYes = false
				undWhat = w + " (passed as " + pa.Name() + " to " + fnName(xfn) + " at " + m.site(csIn) + ")"
			}
		}
		switch {
		case visited == 0:
			return false, what, known
		case allYes:
			return true, "", true
		case noWhat != "":
			return false, noWhat, true
		}
		return false, undWhat, false
	}

	type acc struct {
		site string
		n    int
		bad  []string
		und  []string
	}
	found := 0
	for _, fn := range m.funcs {
		if only != nil && !only[fn] {
			continue
		}
		var a *acc
		seenBit := map[*ssa.Call]map[ssa.Value]bool{}
		allInstrs(fn, false, func(_ *ssa.Function, in ssa.Instruction) {
			ia, ok := in.(*ssa.IndexAddr)
			if !ok {
				return
			}
			N, idx, ok := m.slotAddr(ia)
			if !ok {
				return
			}
			if _, isC := constOf(idx); isC {
				return
			}
			var bits []c36Bit
			other := false
			m.resolveIdx(idx, false, nil, 2, &bits, &other, map[ssa.Value]bool{})
			for _, b := range bits {
				if seenBit[b.call] == nil {
					seenBit[b.call] = map[ssa.Value]bool{}
				}
				if seenBit[b.call][N] {
					continue // same bit, same node (e.g. children[i] and children[1-i])
				}
				seenBit[b.call][N] = true
				if a == nil {
					a = &acc{site: m.site(ia)}
				}
				a.n++
				at := m.site(b.call)
				args := b.call.Common().Args
				if len(args) == 0 {
					a.und = append(a.und, fmt.Sprintf("NthBit at %s has no position argument", at))
					continue
				}
				base, k, benv, okShape := c36PosSplit(args[len(args)-1], b.env, 0)
				X, isPfx := isPrefixCall(base)
				switch {
				case !okShape || !isPfx:
					a.und = append(a.und, fmt.Sprintf("bit position %s at %s is not a prefix length plus a constant", pathN(args[len(args)-1], 4), at))
					continue
				case k != 1:
					a.bad = append(a.bad, fmt.Sprintf("child of %s selected at %s by bit number %s%+d; every other routine uses prefix length + 1 (bit number len is the last bit of the node's own prefix, equal for everything below it; len+2 skips a level)", path(N), at, pathN(base, 3), k))
					continue
				}
				var gat ssa.Instruction
				if len(b.env) == 0 && b.call.Parent() == fn {
					gat = b.call
				}
				yes, what, known := resolve(X, benv, N, nil, gat, 2, map[*ssa.Parameter]bool{})
				switch {
				case yes:
				case !known:
					a.und = append(a.und, fmt.Sprintf("bit position at %s: cannot tell whose prefix length %s is", at, what))
				default:
					a.bad = append(a.bad, fmt.Sprintf("child of %s selected at %s by the bit just beyond the length of %s, not of %s's own prefix", path(N), at, what, path(N)))
				}
			}
		})
		if a == nil {
			continue
		}
		found++
		key := "C36.position/" + fnName(fn)
		switch {
		case len(a.bad) > 0:
			c.Violate(key, a.site, "%s (the routines of the trie disagree on which bit separates a node's children: what Update files under one child, this routine looks for under the other)", strings.Join(a.bad, "; "))
		case len(a.und) > 0:
			c.Undecided(key, a.site, "%s", strings.Join(a.und, "; "))
		default:
			c.Ok(key, a.site, "%d bit-indexed child selection(s), all at position len(node prefix)+1", a.n)
		}
	}
	if found == 0 {
		c.Lost("no bit-indexed child slot in %s", c36IPPkg)
	}
}

// c36PositionDoc adds the family's fixtures and documentation to the C36
// property (called once from rules_C36.go's init, after register).
func c36PositionDoc(p *Property) {
	if p == nil {
		return
	}
	p.Fixtures = append(p.Fixtures, c36PositionFixtures...)
	p.Explanation += " (position) every bit-indexed child slot of a node N — descent in the 6 lookup/delete routines and in Update, re-parenting and the new leaf in Update — takes the address bit number len(N.prefix)+1: the NthBit argument is X.Prefix()+1 where X is N's prefix field, the prefix a node created on the spot is given, or a CommonPrefix involving it; so all routines agree on which bit separates a node's children."
	p.NotDecided = strings.Replace(p.NotDecided, "the bit *position* (prefix+1) used for a child index, ", "that a CommonPrefix used for a bit position has the length of the node's own prefix at that point (Update's `commonPrefix.Prefix() == thisNode.cidr.Prefix()` guard), ", 1)
	p.Technique = strings.Replace(p.Technique, "role classification of child-slot indices", "role classification of child-slot indices and sibling agreement of their bit position", 1)
}

var c36PositionFixtures = []Fixture{
	{Name: "Intersects descends by the last bit of the node's own prefix (+1 lost)", File: "felix/ip/trie.go",
		Old:    "\tchildIdx := cidr.Addr().NthBit(uint(n.cidr.Prefix() + 1))\n\tchild := n.children[childIdx]\n\treturn child.intersects(cidr)",
		New:    "\tchildIdx := cidr.Addr().NthBit(uint(common.Prefix()))\n\tchild := n.children[childIdx]\n\treturn child.intersects(cidr)",
		Expect: "C36.position/CIDRNode.intersects"},
	{Name: "getNode takes the bit beyond the query's own prefix length", File: "felix/ip/trie.go",
		Old:    "\tchildIdx := cidr.Addr().NthBit(uint(n.cidr.Prefix() + 1))\n\tchild := n.children[childIdx]\n\treturn child.getNode(",
		New:    "\tchildIdx := cidr.Addr().NthBit(uint(cidr.Prefix() + 1))\n\tchild := n.children[childIdx]\n\treturn child.getNode(",
		Expect: "C36.position/CIDRNode.getNode"},
	{Name: "Update files the re-parented node by the bit beyond its own prefix instead of the new parent's", File: "felix/ip/trie.go",
		Old:    "\t\tchildIdx := thisNode.cidr.Addr().NthBit(uint(commonPrefix.Prefix() + 1))\n\t\tnewInternalNode.children[childIdx] = thisNode",
		New:    "\t\tchildIdx := thisNode.cidr.Addr().NthBit(uint(thisNode.cidr.Prefix() + 1))\n\t\tnewInternalNode.children[childIdx] = thisNode",
		Expect: "C36.position/CIDRTrie.Update"},
}
