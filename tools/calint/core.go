package main

import (
	"bufio"
	"encoding/json"
	"fmt"
	"go/token"
	"os"
	"path/filepath"
	"sort"
	"strings"
	"sync"
	"time"
)

// Status of one obligation instance.
type Status int

const (
	OK Status = iota
	Violated
	Undecided // engine could not decide: fails the run (exit 2), never a pass
)

func (s Status) String() string { return [...]string{"ok", "VIOLATED", "undecided"}[s] }

// Obl is one obligation instance, keyed rule+construct (never by line).
type Obl struct {
	Key    string `json:"key"`    // e.g. C02.order/Flush/emit(IPSetUpdate)<emit(ActivePolicyUpdate)
	Site   string `json:"site"`   // file:line (report only)
	Status string `json:"status"` // ok | VIOLATED | undecided | known-finding
	Detail string `json:"detail,omitempty"`
	st     Status
}

// RuleDoc describes one rule family for the evidence.
type RuleDoc struct {
	ID     string `json:"id"`
	Engine string `json:"engine"`
	Text   string `json:"text"`
	Floor  int    `json:"floor"`
	Count  int    `json:"count"`
}

// Fixture is an in-memory source variant on which a rule must flip to violated.
type Fixture struct {
	Name   string // short description of the seeded break
	File   string // repo-relative
	Old    string // exact text to replace (must occur exactly once)
	New    string
	Expect string // substring of the obligation key that must become VIOLATED
}

// Property is one registered property check.
type Property struct {
	ID          string
	Title       string
	Level       string // "other" | "proof"
	Technique   string
	Explanation string   // what is decided / what is not
	NotDecided  string   // ND clauses
	Assumptions []string // trusted base
	Run         func(c *Ctx)
	Fixtures    []Fixture
	DesignRef   string
}

var registry = map[string]*Property{}

func register(p *Property) {
	if p.Level == "" {
		p.Level = "other"
	}
	registry[p.ID] = p
}

// Ctx is the state of one run of one property's rules over one program variant.
type Ctx struct {
	Prop    *Property
	Tier    string
	Repo    string
	Overlay map[string][]byte

	progs   map[string]*Prog
	obls    []*Obl
	rules   map[string]*RuleDoc
	order   []string
	broken  []string // fail-closed problems (anchor lost, load error, panic)
	nLoaded int
	nFuncs  int
	quiet   bool
	alias   [][2]string
}

type anchorLost struct{ msg string }

// Load loads (and caches) root packages of the main module.
func (c *Ctx) Load(rel ...string) *Prog { return c.LoadMod(modMain, rel...) }

func (c *Ctx) LoadMod(mod string, rel ...string) *Prog {
	return c.LoadWith(LoadOpts{Module: mod}, rel...)
}

func (c *Ctx) LoadWith(o LoadOpts, rel ...string) *Prog {
	key := o.Module + "|" + o.GOOS + "|" + o.GOARCH + "|" + strings.Join(rel, ",")
	if p, ok := c.progs[key]; ok {
		return p
	}
	o.Repo = c.Repo
	o.Overlay = c.Overlay
	p, err := Load(o, rel...)
	if err != nil {
		panic(anchorLost{"LOAD-FAILED: " + err.Error()})
	}
	if c.progs == nil {
		c.progs = map[string]*Prog{}
	}
	c.progs[key] = p
	c.nLoaded += len(p.Roots)
	c.nFuncs += p.nFuncs
	return p
}

// Lost aborts the run: an anchor named by a rule cannot be resolved.
func (c *Ctx) Lost(format string, a ...any) {
	panic(anchorLost{"ANCHOR-LOST: " + fmt.Sprintf(format, a...)})
}

// Rule declares a rule family (documentation + floor on instance count).
func (c *Ctx) Rule(id, engine, text string, floor int) {
	id = c.aliased(id)
	if c.rules == nil {
		c.rules = map[string]*RuleDoc{}
	}
	if _, ok := c.rules[id]; !ok {
		c.order = append(c.order, id)
	}
	c.rules[id] = &RuleDoc{ID: id, Engine: engine, Text: text, Floor: floor}
}

// Alias runs f with every obligation key (and rule declaration) that starts with
// `from` rewritten to start with `to`: lets one property arm a rule family that
// another property's file implements (shared disciplines), under its own id.
func (c *Ctx) Alias(from, to string, f func()) {
	c.alias = append(c.alias, [2]string{from, to})
	defer func() { c.alias = c.alias[:len(c.alias)-1] }()
	f()
}

func (c *Ctx) aliased(s string) string {
	for i := len(c.alias) - 1; i >= 0; i-- {
		if strings.HasPrefix(s, c.alias[i][0]) {
			return c.alias[i][1] + strings.TrimPrefix(s, c.alias[i][0])
		}
	}
	return s
}

func (c *Ctx) add(st Status, key, site, detail string) {
	key = c.aliased(key)
	c.obls = append(c.obls, &Obl{Key: key, Site: site, Status: st.String(), Detail: detail, st: st})
}

func (c *Ctx) Ok(key, site, format string, a ...any) {
	c.add(OK, key, site, fmt.Sprintf(format, a...))
}
func (c *Ctx) Violate(key, site, format string, a ...any) {
	c.add(Violated, key, site, fmt.Sprintf(format, a...))
}
func (c *Ctx) Undecided(key, site, format string, a ...any) {
	c.add(Undecided, key, site, fmt.Sprintf(format, a...))
}

// Check records ok/violated depending on cond.
func (c *Ctx) Check(cond bool, key, site, okDetail, badDetail string) {
	if cond {
		c.Ok(key, site, "%s", okDetail)
	} else {
		c.Violate(key, site, "%s", badDetail)
	}
}

// ruleOf returns the rule family id of an obligation key ("C02.order/..." -> "C02.order").
func ruleOf(key string) string {
	if i := strings.Index(key, "/"); i >= 0 {
		return key[:i]
	}
	return key
}

// runRules executes the property's rule function, converting panics to broken.
func (c *Ctx) runRules() {
	defer func() {
		if r := recover(); r != nil {
			if al, ok := r.(anchorLost); ok {
				c.broken = append(c.broken, al.msg)
				return
			}
			c.broken = append(c.broken, fmt.Sprintf("ENGINE-PANIC: %v", r))
			if os.Getenv("CALINT_DEBUG") != "" {
				panic(r)
			}
		}
	}()
	c.Prop.Run(c)
}

// finish de-duplicates keys, applies floors, and returns counts.
func (c *Ctx) finish() {
	seen := map[string]int{}
	for _, o := range c.obls {
		seen[o.Key]++
		if seen[o.Key] > 1 {
			o.Key = fmt.Sprintf("%s#%d", o.Key, seen[o.Key])
		}
	}
	for _, o := range c.obls {
		r := c.rules[ruleOf(o.Key)]
		if r == nil {
			c.broken = append(c.broken, "obligation without declared rule: "+o.Key)
			continue
		}
		r.Count++
	}
	for _, id := range c.order {
		r := c.rules[id]
		if r.Count < r.Floor {
			c.broken = append(c.broken, fmt.Sprintf("FLOOR: rule %s matched %d instances, floor %d (a confirmed instance disappeared; re-confirm the rule table)", id, r.Count, r.Floor))
		}
	}
	for _, o := range c.obls {
		if o.st == Undecided {
			c.broken = append(c.broken, "UNDECIDED: "+o.Key+" at "+o.Site+": "+o.Detail)
		}
	}
}

// ---------------------------------------------------------------- findings --

type knownFinding struct {
	Prop, Key, Text string
}

func loadKnownFindings(path string) ([]knownFinding, error) {
	f, err := os.Open(path)
	if err != nil {
		if os.IsNotExist(err) {
			return nil, nil
		}
		return nil, err
	}
	defer f.Close()
	var out []knownFinding
	sc := bufio.NewScanner(f)
	for sc.Scan() {
		line := strings.TrimSpace(sc.Text())
		if !strings.HasPrefix(line, "finding:") {
			continue // comments and "fixed:" lines suppress nothing
		}
		rest := strings.TrimSpace(strings.TrimPrefix(line, "finding:"))
		var kf knownFinding
		fields := strings.Fields(rest)
		n := 0
		for _, fld := range fields {
			if strings.HasPrefix(fld, "property=") {
				kf.Prop = strings.TrimPrefix(fld, "property=")
				n++
			} else if strings.HasPrefix(fld, "key=") {
				kf.Key = strings.TrimPrefix(fld, "key=")
				n++
			} else {
				break
			}
		}
		kf.Text = strings.Join(fields[n:], " ")
		if kf.Prop != "" && kf.Key != "" {
			out = append(out, kf)
		}
	}
	return out, sc.Err()
}

// ---------------------------------------------------------------- evidence --

type fixtureResult struct {
	Name   string `json:"name"`
	File   string `json:"file"`
	Expect string `json:"expect_key"`
	Result string `json:"result"` // fired | MISSED | STALE-FIXTURE | broken
	Detail string `json:"detail,omitempty"`
}

type evidence struct {
	PropertyID  string         `json:"property_id"`
	Tier        string         `json:"tier"`
	Seed        int            `json:"seed"`
	Level       string         `json:"level"`
	Coverage    map[string]any `json:"coverage"`
	Assumptions []string       `json:"assumptions"`
	WallS       float64        `json:"wall_s"`
	Violations  int            `json:"violations"`
}

func relSite(fset *token.FileSet, pos token.Pos) string {
	ps := fset.Position(pos)
	f := ps.Filename
	if i := strings.Index(f, "/repo/"); i >= 0 {
		f = f[i+6:]
	}
	return fmt.Sprintf("%s:%d", f, ps.Line)
}

// runProperty is the top-level driver for `calint -prop X -tier T`.
func runProperty(p *Property, tier, repo, verif string, seed int) int {
	start := time.Now()
	c := &Ctx{Prop: p, Tier: tier, Repo: repo}
	c.runRules()
	c.finish()

	known, err := loadKnownFindings(filepath.Join(verif, "known_findings.txt"))
	if err != nil {
		c.broken = append(c.broken, "known_findings.txt: "+err.Error())
	}
	var viol, knownHit []*Obl
	for _, o := range c.obls {
		if o.st != Violated {
			continue
		}
		matched := false
		for _, k := range known {
			if k.Prop == p.ID && k.Key == o.Key {
				matched = true
				fmt.Printf("KNOWN-FINDING: property=%s key=%s %s (%s)\n", p.ID, o.Key, k.Text, o.Site)
				o.Status = "known-finding"
				knownHit = append(knownHit, o)
			}
		}
		if !matched {
			viol = append(viol, o)
		}
	}

	var fixtures []fixtureResult
	fixtureBroken := 0
	if tier == "thorough" {
		baseline := map[string]bool{}
		for _, o := range c.obls {
			if o.st == Violated {
				baseline[o.Key] = true
			}
		}
		fixtures = runFixtures(p, repo, baseline)
		for _, fr := range fixtures {
			if fr.Result == "MISSED" || fr.Result == "broken" {
				fixtureBroken++
			}
		}
	}

	// ---- evidence
	nOK := 0
	for _, o := range c.obls {
		if o.st == OK {
			nOK++
		}
	}
	var rules []*RuleDoc
	for _, id := range c.order {
		rules = append(rules, c.rules[id])
	}
	samples := []any{}
	perRule := map[string]int{}
	for _, o := range c.obls {
		r := ruleOf(o.Key)
		if perRule[r] < 3 || o.st != OK {
			perRule[r]++
			samples = append(samples, o)
		}
	}
	cov := map[string]any{
		"explanation":        p.Explanation,
		"not_decided":        p.NotDecided,
		"rule":               "static analysis (go/packages + go/types + go/ssa" + cExtra(p) + ") of /repo's current working tree; one obligation per rule+construct; counts are measured on this run",
		"rules":              rules,
		"obligations":        len(c.obls),
		"discharged":         nOK,
		"known_findings":     len(knownHit),
		"packages_analysed":  c.nLoaded,
		"functions_analysed": c.nFuncs,
		"samples":            samples,
		"all_obligations":    c.obls,
		"checker_cmd":        fmt.Sprintf("/verif/check %s %s", p.ID, tier),
		"trusted_base":       p.Assumptions,
		"exhaustive":         false,
		"broken":             c.broken,
	}
	if tier == "thorough" {
		cov["fixtures"] = fixtures
	}
	ev := evidence{PropertyID: p.ID, Tier: tier, Seed: seed, Level: p.Level, Coverage: cov,
		Assumptions: p.Assumptions, WallS: time.Since(start).Seconds(), Violations: len(viol)}
	if ev.Assumptions == nil {
		ev.Assumptions = []string{}
	}
	evDir := filepath.Join(verif, "evidence")
	os.MkdirAll(evDir, 0o755)
	b, _ := json.MarshalIndent(ev, "", " ")
	if err := os.WriteFile(filepath.Join(evDir, p.ID+".json"), append(b, '\n'), 0o644); err != nil {
		fmt.Fprintf(os.Stderr, "cannot write evidence: %v\n", err)
		return 2
	}

	// ---- report
	fmt.Printf("calint %s tier=%s: %d packages, %d functions, %d obligations, %d discharged, %d known findings, %d violations (%.1fs)\n",
		p.ID, tier, c.nLoaded, c.nFuncs, len(c.obls), nOK, len(knownHit), len(viol), time.Since(start).Seconds())
	for _, r := range rules {
		fmt.Printf("  rule %-22s %-8s instances=%d floor=%d\n", r.ID, r.Engine, r.Count, r.Floor)
	}
	if tier == "thorough" {
		for _, fr := range fixtures {
			fmt.Printf("  fixture %-8s %s [%s] %s\n", fr.Result, fr.Name, fr.Expect, fr.Detail)
		}
	}
	if len(c.broken) > 0 || fixtureBroken > 0 {
		for _, b := range c.broken {
			fmt.Printf("BROKEN-CHECK property=%s %s\n", p.ID, b)
		}
		if fixtureBroken > 0 {
			fmt.Printf("BROKEN-CHECK property=%s %d sensitivity fixture(s) did not fire\n", p.ID, fixtureBroken)
		}
		// fall through: a violation found is still reported (exit 1, with the
		// BROKEN-CHECK lines above it); without one the run exits 2
	}
	if len(viol) > 0 {
		vdir := filepath.Join(evDir, "violations")
		os.MkdirAll(vdir, 0o755)
		vpath := filepath.Join(vdir, p.ID+".json")
		vb, _ := json.MarshalIndent(map[string]any{"property_id": p.ID, "violations": viol,
			"replay": fmt.Sprintf("/verif/check %s %s   (re-analyses /repo; the listed keys must be reported again)", p.ID, tier)}, "", " ")
		os.WriteFile(vpath, append(vb, '\n'), 0o644)
		sort.Slice(viol, func(i, j int) bool { return viol[i].Key < viol[j].Key })
		for _, o := range viol {
			fmt.Printf("  violated %s at %s: %s\n", o.Key, o.Site, o.Detail)
		}
		fmt.Printf("VIOLATION property=%s replay=%s\n", p.ID, vpath)
		return 1
	}
	if len(c.broken) > 0 || fixtureBroken > 0 {
		return 2
	}
	return 0
}

func cExtra(p *Property) string {
	if strings.Contains(p.Technique, "clang") {
		return " + clang 14 record layouts/AST"
	}
	return ""
}

// runFixtures re-runs the rules on in-memory variants (packages.Config.Overlay).
func runFixtures(p *Property, repo string, baseline map[string]bool) []fixtureResult {
	out := make([]fixtureResult, len(p.Fixtures))
	sem := make(chan struct{}, 5) // at most 5 program variants alive at once
	var wg sync.WaitGroup
	for i, fx := range p.Fixtures {
		wg.Add(1)
		go func(i int, fx Fixture) {
			defer wg.Done()
			sem <- struct{}{}
			defer func() { <-sem }()
			out[i] = runFixture(p, repo, fx, baseline)
		}(i, fx)
	}
	wg.Wait()
	return out
}

// A fixture "fires" only through an obligation that holds on the unmodified tree
// (keys already violated there — known findings — do not count).
func runFixture(p *Property, repo string, fx Fixture, baseline map[string]bool) fixtureResult {
	{
		fr := fixtureResult{Name: fx.Name, File: fx.File, Expect: fx.Expect}
		abs := filepath.Join(repo, fx.File)
		src, err := os.ReadFile(abs)
		if err != nil || strings.Count(string(src), fx.Old) != 1 {
			fr.Result = "STALE-FIXTURE"
			fr.Detail = fmt.Sprintf("pattern occurs %d times", strings.Count(string(src), fx.Old))
			return fr
		}
		mut := strings.Replace(string(src), fx.Old, fx.New, 1)
		c := &Ctx{Prop: p, Tier: "quick", Repo: repo, Overlay: map[string][]byte{abs: []byte(mut)}, quiet: true}
		c.runRules()
		c.finish()
		hit := ""
		for _, o := range c.obls {
			if o.st == Violated && !baseline[o.Key] && strings.Contains(o.Key, fx.Expect) {
				hit = o.Key
				break
			}
		}
		switch {
		case hit != "":
			fr.Result = "fired"
			fr.Detail = hit
		case len(c.broken) > 0:
			// a variant that does not type-check or loses an anchor says nothing
			fr.Result = "broken"
			fr.Detail = c.broken[0]
		default:
			fr.Result = "MISSED"
		}
		return fr
	}
}
