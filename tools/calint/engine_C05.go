package main

import (
	"fmt"
	"go/constant"
	"go/token"
	"go/types"
	"sort"
	"strings"

	"golang.org/x/tools/go/ssa"
)

// C05.tieraction: the default action of a tier on its way from the datastore to
// the dataplane.
//
// Every dataplane renders the end-of-tier drop unless the tier's DefaultAction
// equals "Pass" (C09.tiermarks decides that for iptables), so every value other
// than Pass - in particular the empty action of the placeholder that stands for
// a tier that is missing, deleted or failed validation - fails closed.  The
// producers must therefore never manufacture Pass: a value stored into a
// DefaultAction field of the chain
//
//	apiv3.TierSpec -> model.Tier -> calc.TierInfo -> proto.TierInfo
//
// is, on every incoming path, (a) a copy of another DefaultAction of the chain
// (conversions only), (b) a constant other than Pass, or (c) the constant Pass on
// a path that has established `source DefaultAction == Pass`.  The one exception
// is a freshly built tier object that only ever receives untracked / pre-DNAT
// policies (those tiers must always pass on to the normal tiers).

const (
	c05UpdProcPkg = "libcalico-go/lib/backend/syncersv1/updateprocessors"
	c05APIv3      = "github.com/projectcalico/api/pkg/apis/projectcalico/v3"
	c05ModelPkg   = "libcalico-go/lib/backend/model"
	c05FelixProto = "felix/proto"
)

type c05Act struct {
	p      *Prog
	family map[*types.Var]string // field -> display name
	pass   string                // ExactString of the Pass constant
	params map[*ssa.Parameter]bool
	exempt map[*types.Func]bool // policy predicates that mark untracked / pre-DNAT policies
}

func c05StripConv(v ssa.Value) ssa.Value {
	for {
		switch y := v.(type) {
		case *ssa.Convert:
			v = y.X
		case *ssa.ChangeType:
			v = y.X
		default:
			return v
		}
	}
}

// isRead: v is a copy (through conversions, derefs of a pointer-typed field,
// generated getters, single-assignment locals) of a DefaultAction of the chain.
func (x *c05Act) isRead(v ssa.Value) bool { return x.isReadN(v, 0) }

func (x *c05Act) isReadN(v ssa.Value, d int) bool {
	if d > 8 || v == nil {
		return false
	}
	switch y := c05StripConv(v).(type) {
	case *ssa.Field:
		return x.family[structField(y.X.Type(), y.Field)] != ""
	case *ssa.Parameter:
		return x.params[y]
	case *ssa.Phi:
		for _, e := range y.Edges {
			if !x.isReadN(e, d+1) {
				return false
			}
		}
		return len(y.Edges) > 0
	case *ssa.UnOp:
		if y.Op != token.MUL {
			return false
		}
		switch a := y.X.(type) {
		case *ssa.FieldAddr:
			return x.family[structField(a.X.Type(), a.Field)] != ""
		case *ssa.Alloc:
			n := 0
			if refs := a.Referrers(); refs != nil {
				for _, r := range *refs {
					if st, ok := r.(*ssa.Store); ok && st.Addr == ssa.Value(a) {
						if !x.isReadN(st.Val, d+1) {
							return false
						}
						n++
					}
				}
			}
			return n > 0
		default:
			return x.isReadN(y.X, d+1) // *spec.DefaultAction
		}
	case *ssa.Call:
		f := calleeOf(y.Common())
		if f == nil {
			return false
		}
		sig, _ := f.Type().(*types.Signature)
		if sig == nil || sig.Recv() == nil {
			return false
		}
		for fv := range x.family {
			if f.Name() != "Get"+fv.Name() {
				continue
			}
			rt := sig.Recv().Type()
			if pt, ok := rt.Underlying().(*types.Pointer); ok {
				rt = pt.Elem()
			}
			if st, ok := rt.Underlying().(*types.Struct); ok {
				for i := 0; i < st.NumFields(); i++ {
					if st.Field(i) == fv {
						return true
					}
				}
			}
		}
	}
	return false
}

func (x *c05Act) isPass(v ssa.Value) bool {
	k, ok := constOf(v)
	return ok && k.Kind() == constant.String && k.ExactString() == x.pass
}

// eval decides the value v as observed at `at` (for a phi operand: after the
// edge at.Block()->succ).  bad != "": Pass may be manufactured; und != "": cannot
// be decided.
func (x *c05Act) eval(v ssa.Value, at ssa.Instruction, succ *ssa.BasicBlock, seen map[ssa.Value]bool, depth int) (bad, und string) {
	v = c05StripConv(v)
	if x.isRead(v) {
		return "", ""
	}
	passGuard := eqCond(true, x.isRead, x.isPass)
	switch y := v.(type) {
	case *ssa.Const:
		if !x.isPass(y) {
			return "", "" // any other constant fails closed
		}
		if succ != nil {
			if ifi, ok := at.(*ssa.If); ok {
				b := at.Block()
				if len(b.Succs) == 2 && b.Succs[0] != b.Succs[1] {
					for k, s := range b.Succs {
						if s == succ {
							if cnd, pol := stripNot(ifi.Cond, k == 0); passGuard(cnd, pol) {
								return "", ""
							}
						}
					}
				}
			}
		}
		if guardedCut(at, passGuard) {
			return "", ""
		}
		return "the constant " + x.pass + " arrives on a path that has not established that the source tier's DefaultAction == " + x.pass, ""
	case *ssa.Phi:
		if seen[v] {
			return "", ""
		}
		seen[v] = true
		for i, e := range y.Edges {
			pred := y.Block().Preds[i]
			if len(pred.Instrs) == 0 {
				return "", "phi with an empty predecessor block"
			}
			if b, u := x.eval(e, pred.Instrs[len(pred.Instrs)-1], y.Block(), seen, depth); b != "" || u != "" {
				return b, u
			}
		}
		return "", ""
	case *ssa.UnOp:
		if al, ok := y.X.(*ssa.Alloc); ok && y.Op == token.MUL {
			if seen[v] {
				return "", ""
			}
			seen[v] = true
			if refs := al.Referrers(); refs != nil {
				for _, r := range *refs {
					switch st := r.(type) {
					case *ssa.Store:
						if st.Addr != ssa.Value(al) {
							return "", "the address of local " + al.Comment + " escapes"
						}
						if b, u := x.eval(st.Val, st, nil, seen, depth); b != "" || u != "" {
							return b, u
						}
					case *ssa.UnOp, *ssa.DebugRef:
					default:
						return "", "the address of local " + al.Comment + " escapes"
					}
				}
			}
			return "", "" // (zero value = empty action: fails closed)
		}
	case *ssa.Call:
		sf := calleeFn(y.Common())
		if sf != nil && sf.Blocks != nil && depth < 2 && sf.Signature.Results().Len() == 1 {
			args := y.Common().Args
			for i, prm := range sf.Params {
				if i < len(args) && x.isRead(args[i]) {
					x.params[prm] = true
				}
			}
			for _, r := range returnsOf(sf) {
				if len(r.Results) != 1 {
					continue
				}
				if b, u := x.eval(r.Results[0], r, nil, map[ssa.Value]bool{}, depth+1); b != "" || u != "" {
					if b != "" {
						b = "in " + fnName(sf) + ": " + b
					}
					return b, u
				}
			}
			return "", ""
		}
	}
	return "", "value " + path(v) + " is neither a copy of a DefaultAction, a constant, nor a choice between those"
}

// c05WritesList: may fn (transitively, depth-bounded) store into a slice-typed
// field of the object its parameter pi points to?
func c05WritesList(fn *ssa.Function, pi, depth int) bool {
	if fn == nil || fn.Blocks == nil {
		return true
	}
	if pi >= len(fn.Params) {
		return true
	}
	prm := fn.Params[pi]
	found := false
	allInstrs(fn, true, func(_ *ssa.Function, in ssa.Instruction) {
		if found {
			return
		}
		switch y := in.(type) {
		case *ssa.Store:
			if fa, ok := y.Addr.(*ssa.FieldAddr); ok && fa.X == ssa.Value(prm) {
				if _, isSl := structField(fa.X.Type(), fa.Field).Type().Underlying().(*types.Slice); isSl {
					found = true
				}
			}
		case ssa.CallInstruction:
			for i, a := range y.Common().Args {
				if a != ssa.Value(prm) {
					continue
				}
				if depth >= 2 || c05WritesList(calleeFn(y.Common()), i, depth+1) {
					found = true
				}
			}
		}
	})
	return found
}

// staticPass decides a store of the unconditional constant Pass: acceptable only
// into a freshly built local object all of whose policy-list updates are
// confined to untracked / pre-DNAT policies.
func (x *c05Act) staticPass(st *ssa.Store) (bad, und string) {
	fa, _ := st.Addr.(*ssa.FieldAddr)
	if fa == nil {
		return "", "store address is not a field address"
	}
	obj, _ := fa.X.(*ssa.Alloc)
	if obj == nil {
		return "stores the constant " + x.pass + " unconditionally into " + path(fa.X) + ", which is not a freshly built local tier object: the record of a real (or missing) tier must carry the tier's own DefaultAction", ""
	}
	exemptGuard := callCond(true, func(cs CallSite) bool { return cs.Callee != nil && x.exempt[cs.Callee] })
	var names []string
	for f := range x.exempt {
		names = append(names, f.Name()+"()")
	}
	sort.Strings(names)
	need := func(in ssa.Instruction, what string) string {
		if guardedCut(in, exemptGuard) {
			return ""
		}
		return fmt.Sprintf("the tier object %s is given the constant %s but %s at %s is not confined to policies for which %s holds: a normal policy's tier must carry the tier's own DefaultAction",
			obj.Comment, x.pass, what, x.p.Pos(in.Pos()), strings.Join(names, " or "))
	}
	refs := obj.Referrers()
	if refs == nil {
		return "", ""
	}
	for _, r := range *refs {
		switch y := r.(type) {
		case *ssa.FieldAddr:
			_, isList := structField(y.X.Type(), y.Field).Type().Underlying().(*types.Slice)
			if y.Referrers() == nil {
				continue
			}
			for _, rr := range *y.Referrers() {
				switch z := rr.(type) {
				case *ssa.Store:
					if z.Addr == ssa.Value(y) && isList {
						if s := need(z, "the update of its "+structField(y.X.Type(), y.Field).Name()); s != "" {
							return s, ""
						}
					}
				case ssa.CallInstruction:
					if isList {
						if s := need(z, "the call that is handed &"+structField(y.X.Type(), y.Field).Name()); s != "" {
							return s, ""
						}
					}
				}
			}
		case ssa.CallInstruction:
			cc := y.Common()
			for i, a := range cc.Args {
				if a != ssa.Value(obj) {
					continue
				}
				sf := calleeFn(cc)
				may := true
				if sf != nil && sf.Blocks != nil {
					may = c05WritesList(sf, i, 0)
				} else if f := calleeOf(cc); f != nil && i == 0 && strings.HasPrefix(f.Name(), "Get") {
					if sig, ok := f.Type().(*types.Signature); ok && sig.Recv() != nil && namedTypeName(sig.Recv().Type()) == namedTypeName(obj.Type()) {
						may = false // generated getter
					}
				}
				if may {
					if s := need(y, "the call "+c05CallName(cc)+" that may add policies to it"); s != "" {
						return s, ""
					}
				}
			}
		case *ssa.Phi:
			return "", "tier object " + obj.Comment + " with constant " + x.pass + " is merged with other objects (phi)"
		}
	}
	return "", ""
}

func c05CallName(cc *ssa.CallCommon) string {
	if f := calleeOf(cc); f != nil {
		return f.Name()
	}
	return "through a function value"
}

func c05TierAction(c *Ctx, p *Prog) {
	x := &c05Act{p: p, family: map[*types.Var]string{}, params: map[*ssa.Parameter]bool{}, exempt: map[*types.Func]bool{}}
	passC, _ := p.LookupExt(c05APIv3, "Pass").(*types.Const)
	if passC == nil || passC.Val().Kind() != constant.String {
		c.Lost("apiv3.Pass string constant")
	}
	x.pass = passC.Val().ExactString()
	for _, a := range []struct{ pkg, name, disp string }{
		{c05APIv3, "TierSpec.DefaultAction", "apiv3.TierSpec.DefaultAction"},
		{c05ModelPkg, "Tier.DefaultAction", "model.Tier.DefaultAction"},
		{calcPkg, "TierInfo.DefaultAction", "calc.TierInfo.DefaultAction"},
		{c05FelixProto, "TierInfo.DefaultAction", "proto.TierInfo.DefaultAction"},
	} {
		fv, _ := p.LookupObj(a.pkg, a.name).(*types.Var)
		if fv == nil {
			fv, _ = p.LookupExt(a.pkg, a.name).(*types.Var)
		}
		if fv == nil || !fv.IsField() {
			c.Lost("field %s", a.disp)
		}
		x.family[fv] = a.disp
	}
	for _, n := range []string{"policyMetadata.DoNotTrack", "policyMetadata.PreDNAT"} {
		f, _ := p.LookupObj(calcPkg, n).(*types.Func)
		if f == nil {
			c.Lost("method felix/calc.%s", n)
		}
		x.exempt[f] = true
	}

	type group struct {
		fn     *ssa.Function
		fv     *types.Var
		stores []*ssa.Store
	}
	groups := map[string]*group{}
	for _, f := range p.AllFuncs() {
		if f.Synthetic != "" {
			continue
		}
		allInstrs(f, false, func(fn *ssa.Function, in ssa.Instruction) {
			st, ok := in.(*ssa.Store)
			if !ok {
				return
			}
			fa, ok := st.Addr.(*ssa.FieldAddr)
			if !ok {
				return
			}
			fv := structField(fa.X.Type(), fa.Field)
			if x.family[fv] == "" {
				return
			}
			k := fnName(fn) + "/" + x.family[fv]
			g := groups[k]
			if g == nil {
				g = &group{fn: fn, fv: fv}
				groups[k] = g
			}
			g.stores = append(g.stores, st)
		})
	}
	if len(groups) == 0 {
		c.Lost("no store into a DefaultAction field of the tier chain (model.Tier, calc.TierInfo, proto.TierInfo)")
	}
	// every link of the chain must still be produced somewhere
	produced := map[string]bool{}
	keys := make([]string, 0, len(groups))
	for k, g := range groups {
		keys = append(keys, k)
		produced[x.family[g.fv]] = true
	}
	for _, want := range []string{"model.Tier.DefaultAction", "calc.TierInfo.DefaultAction", "proto.TierInfo.DefaultAction"} {
		if !produced[want] {
			c.Lost("no store into %s in the loaded packages", want)
		}
	}
	sort.Strings(keys)
	for _, k := range keys {
		g := groups[k]
		key := "C05.tieraction/" + k
		site := p.Pos(g.stores[0].Pos())
		nStatic := 0
		var bads, unds []string
		for _, st := range g.stores {
			bad, und := x.eval(st.Val, st, nil, map[ssa.Value]bool{}, 0)
			if bad != "" && x.isPass(c05StripConv(st.Val)) {
				// unconditional constant Pass
				bad, und = x.staticPass(st)
				if bad == "" && und == "" {
					nStatic++
				}
			}
			if bad != "" {
				bads = append(bads, p.Pos(st.Pos())+": "+bad)
			}
			if und != "" {
				unds = append(unds, p.Pos(st.Pos())+": "+und)
			}
		}
		switch {
		case len(bads) > 0:
			c.Violate(key, site, "%s sets %s to a value that can be %s although the source tier's default action is not: %s — every dataplane renders the end-of-tier drop unless DefaultAction == %s, so the empty action of a missing / deleted / invalid tier's placeholder must reach the dataplane unchanged (or be mapped to a non-%s value) to fail closed",
				fnName(g.fn), x.family[g.fv], x.pass, strings.Join(bads, "; "), x.pass, x.pass)
		case len(unds) > 0:
			c.Undecided(key, site, "%s", strings.Join(unds, "; "))
		default:
			c.Ok(key, site, "%d store(s): each value is a copy of a DefaultAction of the chain, a non-%s constant, or %s under `source == %s`; %d constant-%s object(s) confined to untracked/pre-DNAT policies",
				len(g.stores), x.pass, x.pass, x.pass, nStatic, x.pass)
		}
	}
}
