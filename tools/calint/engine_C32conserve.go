package main

import (
	"go/token"
	"go/types"
	"strings"

	"golang.org/x/tools/go/ssa"
)

// ---------------------------------------------------------------------------
// C32.conserve: all-or-none bookkeeping of an accepted flow.
//
// BucketRing.AddFlow accepts a flow by (1) filing its counters in a window of
// the per-key DiachronicFlow and (2) calling AggregationBucket.AddFlow, which
// (2a) makes the DiachronicFlow a member of the bucket's Flows set and (2b) adds
// the counters to the bucket's statistics index.  The callees return nothing, so
// a caller cannot learn that a callee declined: once the ring has accepted the
// flow (found a bucket), every one of these stores has to happen on every
// normally-returning path, or queries driven by one index (key-sorted List,
// emission: DiachronicFlow windows) disagree with queries driven by the other
// (time-sorted List, NumFlows, Statistics: bucket membership / statistics), and
// a DiachronicFlow that is in no bucket is never trimmed by Rollover.
//
// Decided as a path property ("must-do"): no path from the entry of the function
// to a Return avoids the effect, where a static call of a package function that
// itself must-do the effect counts as the effect (extract-helper robust), blocks
// calling log.Fatal*/Panic* do not return, and (for the ring-level function)
// edges established by the rejection test `bucket == nil` are cut.
// ---------------------------------------------------------------------------

// c32Escape: a Return reachable from fn's entry on a path that executes no
// instruction accepted by hit and crosses no If edge accepted by cut.
func c32Escape(fn *ssa.Function, hit func(ssa.Instruction) bool, cut EdgePred) *ssa.Return {
	if fn == nil || len(fn.Blocks) == 0 {
		return nil
	}
	seen := map[*ssa.BasicBlock]bool{}
	st := []*ssa.BasicBlock{fn.Blocks[0]}
	for len(st) > 0 {
		b := st[len(st)-1]
		st = st[:len(st)-1]
		if seen[b] {
			continue
		}
		seen[b] = true
		if isPanicBlock(b) || len(b.Instrs) == 0 {
			continue
		}
		stopped := false
		for _, in := range b.Instrs {
			if hit(in) {
				stopped = true
				break
			}
			if r, ok := in.(*ssa.Return); ok {
				return r
			}
		}
		if stopped {
			continue
		}
		if ifi, ok := b.Instrs[len(b.Instrs)-1].(*ssa.If); ok && len(b.Succs) == 2 && cut != nil && b.Succs[0] != b.Succs[1] {
			for k, s := range b.Succs {
				c, pol := stripNot(ifi.Cond, k == 0)
				if cut(c, pol) {
					continue
				}
				st = append(st, s)
			}
			continue
		}
		st = append(st, b.Succs...)
	}
	return nil
}

// c32Must decides "fn performs the effect on every normally-returning path",
// looking through static calls (and defers) of functions of the same package.
type c32Must struct {
	eff  func(ssa.Instruction) bool
	memo map[*ssa.Function]int // 1 = in progress, 2 = yes, 3 = no
}

func newC32Must(eff func(ssa.Instruction) bool) *c32Must {
	return &c32Must{eff: eff, memo: map[*ssa.Function]int{}}
}

func (m *c32Must) hit(in ssa.Instruction) bool {
	if m.eff(in) {
		return true
	}
	switch in.(type) {
	case *ssa.Call, *ssa.Defer:
	default:
		return false
	}
	g := calleeFn(in.(ssa.CallInstruction).Common())
	if g == nil || g.Blocks == nil || g.Pkg == nil || in.Parent() == nil || g.Pkg != topFn(in.Parent()).Pkg {
		return false
	}
	return m.does(g)
}

func (m *c32Must) does(fn *ssa.Function) bool {
	switch m.memo[fn] {
	case 1, 3:
		return false
	case 2:
		return true
	}
	m.memo[fn] = 1
	ok := len(returnsOf(fn)) > 0 && c32Escape(fn, m.hit, nil) == nil
	if ok {
		m.memo[fn] = 2
	} else {
		m.memo[fn] = 3
	}
	return ok
}

// escape: a Return of fn reached without the effect (nil if there is none).
func (m *c32Must) escape(fn *ssa.Function, cut EdgePred) *ssa.Return {
	return c32Escape(fn, m.hit, cut)
}

// c32AddrVia: the address chain of addr (field / element selections, loads of
// slice or pointer fields) passes through field fv.
func c32AddrVia(addr ssa.Value, fv *types.Var) bool {
	for i := 0; i < 12 && addr != nil; i++ {
		switch x := addr.(type) {
		case *ssa.FieldAddr:
			if structField(x.X.Type(), x.Field) == fv {
				return true
			}
			addr = x.X
		case *ssa.IndexAddr:
			addr = x.X
		case *ssa.UnOp:
			if x.Op != token.MUL {
				return false
			}
			addr = x.X
		default:
			return false
		}
	}
	return false
}

// c32Conserve reports the C32.conserve obligations.  bucket is the value
// BucketRing.AddFlow got from findBucket (nil if that could not be resolved).
func c32Conserve(c *Ctx, p *Prog, bucket ssa.Value) {
	ringAdd := c23Func(c, p, c32Pkg, "BucketRing.AddFlow")
	bucketAdd := c23Func(c, p, c32Pkg, "AggregationBucket.AddFlow")
	diaAdd := c23Func(c, p, c32Pkg, "DiachronicFlow.AddFlow")
	idxAdd := c23Func(c, p, c32Pkg, "statisticsIndex.AddFlow")
	statAdd := c23Func(c, p, c32Pkg, "statistics.add")
	fFlows := c23FieldObj(c, p, c32Pkg, "AggregationBucket.Flows")
	fStats := c23FieldObj(c, p, c32Pkg, "AggregationBucket.stats")
	fWindows := c23FieldObj(c, p, c32Pkg, "DiachronicFlow.Windows")
	fTotal := c23FieldObj(c, p, c32Pkg, "statisticsIndex.statistics")

	callOf := func(in ssa.Instruction, f *ssa.Function) *ssa.CallCommon {
		switch in.(type) {
		case *ssa.Call, *ssa.Defer:
			cc := in.(ssa.CallInstruction).Common()
			if calleeFn(cc) == f {
				return cc
			}
		}
		return nil
	}
	// effects
	setInsert := func(in ssa.Instruction) bool { // b.Flows.Add…(…)
		ci, ok := in.(*ssa.Call)
		if !ok || !ci.Call.IsInvoke() || ci.Call.Method == nil {
			return false
		}
		return strings.HasPrefix(ci.Call.Method.Name(), "Add") && fieldVar(ci.Call.Value) == fFlows
	}
	statsAdd := func(in ssa.Instruction) bool { // b.stats.AddFlow(flow)
		cc := callOf(in, idxAdd)
		return cc != nil && len(cc.Args) > 0 && fieldVar(cc.Args[0]) == fStats
	}
	totalAdd := func(in ssa.Instruction) bool { // s.statistics.add(flow, …)
		cc := callOf(in, statAdd)
		return cc != nil && len(cc.Args) > 0 && fieldVar(cc.Args[0]) == fTotal
	}
	windowWrite := func(in ssa.Instruction) bool { // d.Windows = … / d.Windows[i].X = …
		st, ok := in.(*ssa.Store)
		return ok && c32AddrVia(st.Addr, fWindows)
	}
	windowFile := func(in ssa.Instruction) bool { return callOf(in, diaAdd) != nil }

	// the callees cannot report a rejection to the ring
	for _, f := range []*ssa.Function{bucketAdd, diaAdd, idxAdd, statAdd} {
		if f.Signature.Results().Len() != 0 {
			c.Undecided("C32.conserve/"+fnName(f), p.Pos(f.Pos()), "%s now returns a value: a declined flow may be reported to the caller; the all-or-none obligation has to be re-stated over that result", fnName(f))
			return
		}
	}

	type ob struct {
		fn   *ssa.Function
		what string
		eff  func(ssa.Instruction) bool
		ok   string
		bad  string
	}
	for _, o := range []ob{
		{bucketAdd, "Flows", setInsert,
			"every normally-returning path makes the flow's DiachronicFlow a member of the bucket's Flows set",
			"returns without inserting into AggregationBucket.Flows although BucketRing.AddFlow has already accepted the flow (its counters are in the DiachronicFlow window and the key indices): the flow is in no bucket - NumFlows and the time-sorted List miss it, the key-sorted List and emission report it, and Rollover never trims a DiachronicFlow that no bucket references; reject in BucketRing.AddFlow before any index is touched instead"},
		{bucketAdd, "stats", statsAdd,
			"every normally-returning path adds the flow to the bucket's statistics index",
			"returns without adding the flow to AggregationBucket.stats although BucketRing.AddFlow has already accepted the flow: Statistics() no longer equals the sum of the accepted flows that List reports for the window"},
		{idxAdd, "total", totalAdd,
			"every normally-returning path adds the flow to the index-wide statistics",
			"returns without adding the flow to the embedded statistics of the statisticsIndex: the bucket total misses an accepted flow"},
		{diaAdd, "Windows", windowWrite,
			"every path stores the flow's counters into a window of the DiachronicFlow",
			"returns without writing DiachronicFlow.Windows: the counters of an accepted flow are in no window (List/emission miss what Statistics counted)"},
	} {
		m := newC32Must(o.eff)
		r := m.escape(o.fn, nil)
		key := "C32.conserve/" + fnName(o.fn) + "/" + o.what
		if len(returnsOf(o.fn)) == 0 {
			c.Undecided(key, p.Pos(o.fn.Pos()), "%s has no return", fnName(o.fn))
			continue
		}
		site := p.Pos(o.fn.Pos())
		bad := ""
		if r != nil {
			site = p.Pos(c32ReturnPos(r))
			bad = fnName(o.fn) + " has a path that " + o.bad
		}
		c.Check(r == nil, key, site, o.ok, bad)
	}

	// ring level: every accepted path files the flow in its DiachronicFlow window
	if bucket != nil {
		isBucket := func(v ssa.Value) bool { return v == bucket }
		m := newC32Must(windowFile)
		r := m.escape(ringAdd, c23NilCond(true, isBucket))
		site, bad := p.Pos(ringAdd.Pos()), ""
		if r != nil {
			site = p.Pos(c32ReturnPos(r))
			bad = "BucketRing.AddFlow has a path on which a bucket was found (the flow is accepted and goes into the bucket's Flows/statistics) but DiachronicFlow.AddFlow is not called: Statistics counts a flow that List and emission do not have"
		}
		c.Check(r == nil, "C32.conserve/BucketRing.AddFlow/window", site, "every accepting path files the flow's counters in its DiachronicFlow", bad)
	}
}

// c32ReturnPos: a position for a Return (implicit returns have none: fall back
// to the last positioned instruction of the block or its predecessors).
func c32ReturnPos(r *ssa.Return) token.Pos {
	if r.Pos().IsValid() {
		return r.Pos()
	}
	seen := map[*ssa.BasicBlock]bool{}
	var find func(b *ssa.BasicBlock, depth int) token.Pos
	find = func(b *ssa.BasicBlock, depth int) token.Pos {
		if seen[b] || depth > 4 {
			return token.NoPos
		}
		seen[b] = true
		for i := len(b.Instrs) - 1; i >= 0; i-- {
			if b.Instrs[i].Pos().IsValid() {
				return b.Instrs[i].Pos()
			}
		}
		for _, pr := range b.Preds {
			if ps := find(pr, depth+1); ps.IsValid() {
				return ps
			}
		}
		return token.NoPos
	}
	if ps := find(r.Block(), 0); ps.IsValid() {
		return ps
	}
	return r.Parent().Pos()
}
