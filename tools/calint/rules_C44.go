package main

import (
	"fmt"
	"go/token"
	"go/types"
	"sort"
	"strings"

	"golang.org/x/tools/go/ssa"
)

func init() {
	register(&Property{
		ID:        "C44",
		Title:     "Each workload interface carries exactly the state of its preferred endpoint",
		Technique: "static analysis: record/table pairing of diff-programmed chains (structurally derived gates, post-dominance), sibling cross-check of per-interface clean-up operations (Engler-style), checked/used-key agreement, lexicographic-comparator shape, cut-set guards (go/ssa over felix/dataplane/linux)",
		DesignRef: "DESIGN.md §3 C44",
		Explanation: "Decides structural clauses of the property on endpointManager: (total) wlIdsAscending is a lexicographic strict order over every field of WorkloadEndpointID; " +
			"(prefer) every decision between two endpoints claiming one interface name (who is shadowed, which shadowed endpoint is promoted) is taken by wlIdsAscending with the ascending-first id winning, a promoted endpoint leaves the shadow map and a displaced active endpoint is passed to the removal function; " +
			"(cleanup) the per-interface-name clean-up operations of the function that deletes an active workload and of the interface-rename block of resolveWorkloadEndpoints are the same set, and every one in the rename block is keyed by the OLD endpoint's name; " +
			"(haskey) wherever a map field of endpointManager is tested for a key and then deleted from / stored to under that test, the tested key and the used key are the same; " +
			"(index) every store into activeWlEndpoints is paired with the store of the reverse index activeWlIfaceNameToID[workload.Name]=id; " +
			"(adminup) routes are programmed (SetRoutes with non-nil targets) only under State==\"active\" of the same workload whose name keys the call, and the same flag is what the chain renderer receives; " +
			"(shadow) a copy of an endpoint that the manager remembered (value of activeWlEndpoints/shadowedWlEndpoints) is re-queued into pendingWlEpUpdates[k] only where k — or every candidate chosen for k — has no pending entry in the same loop iteration (the datastore's pending update/remove is newer), and activeWlEndpoints / shadowedWlEndpoints stay disjoint: a store into one is paired on every path with the removal from the other or a test that the key is not there.",
		NotDecided: "Contents of the maps after a given history (e.g. that chains removed really are the old endpoint's); the guards under which the sibling clean-up operations run (bpfEnabled) are not compared; operations taking the whole workload object (callbacks, QoS) are compared only if they carry a name-keyed operation missing on the other side; route contents; for chainrecord: that the record maps start out equal to the table (empty/empty), that the key under which a fresh record map entry is removed from the old record matches (generation-swap shape), and record maps that are not used as a diff gate (activeWlIDToChains).",
		Assumptions: []string{
			"go/types + go/ssa (x/tools v0.50.0) model of the current source, CGO_ENABLED=0 build",
			"Go map semantics; logrus/fmt calls have no dataplane effect",
			"proto.WorkloadEndpoint.State == \"active\" is the administrative-up contract of the felix proto API",
		},
		Run: runC44,
		Fixtures: []Fixture{
			{Name: "F4 re-introduced: rename block deletes the RPF-skip entry of the NEW name", File: "felix/dataplane/linux/endpoint_mgr.go",
				Old:    "\t\t\t\t\t\t\tlogCxt.Debugf(\"Removing RPF configuration for workload %s\", oldWorkload.Name)\n\t\t\t\t\t\t\tdelete(m.sourceSpoofingConfig, oldWorkload.Name)",
				New:    "\t\t\t\t\t\t\tlogCxt.Debugf(\"Removing RPF configuration for workload %s\", workload.Name)\n\t\t\t\t\t\t\tdelete(m.sourceSpoofingConfig, workload.Name)",
				Expect: "C44.cleanup/oldname/delete(sourceSpoofingConfig)"},
			{Name: "F4 re-introduced: checked key differs from deleted key", File: "felix/dataplane/linux/endpoint_mgr.go",
				Old:    "\t\t\t\t\t\t\tlogCxt.Debugf(\"Removing RPF configuration for workload %s\", oldWorkload.Name)\n\t\t\t\t\t\t\tdelete(m.sourceSpoofingConfig, oldWorkload.Name)",
				New:    "\t\t\t\t\t\t\tlogCxt.Debugf(\"Removing RPF configuration for workload %s\", workload.Name)\n\t\t\t\t\t\t\tdelete(m.sourceSpoofingConfig, workload.Name)",
				Expect: "C44.haskey/endpointManager.resolveWorkloadEndpoints/sourceSpoofingConfig/delete/active-name"},
			{Name: "F5 re-introduced: rename block does not release the old name's policy groups", File: "felix/dataplane/linux/endpoint_mgr.go",
				Old:    "\t\t\t\t\t\tm.updatePolicyGroups(oldWorkload.Name, nil)\n\t\t\t\t\t}\n\t\t\t\t\tm.routeTable.SetRoutes(oldWorkload.Name, nil)",
				New:    "\t\t\t\t\t}\n\t\t\t\t\tm.routeTable.SetRoutes(oldWorkload.Name, nil)",
				Expect: "C44.cleanup/agree/updatePolicyGroups"},
			{Name: "comparator ignores EndpointId", File: "felix/dataplane/linux/endpoint_mgr.go",
				Old: "\t\t\treturn id1.EndpointId < id2.EndpointId", New: "\t\t\treturn false", Expect: "C44.total/wlIdsAscending/EndpointId"},
			{Name: "comparator compares WorkloadId without OrchestratorId being equal", File: "felix/dataplane/linux/endpoint_mgr.go",
				Old: "\tif id1.OrchestratorId == id2.OrchestratorId {\n\t\t// Need to compare WorkloadId.", New: "\tif id1.OrchestratorId <= id2.OrchestratorId {\n\t\t// Need to compare WorkloadId.", Expect: "C44.total/wlIdsAscending"},
			{Name: "promotion picks the largest shadowed id", File: "felix/dataplane/linux/endpoint_mgr.go",
				Old: "wlIdsAscending(&sId, &bestShadowedId)", New: "wlIdsAscending(&bestShadowedId, &sId)", Expect: "C44.prefer/promote"},
			{Name: "shadow decision inverted", File: "felix/dataplane/linux/endpoint_mgr.go",
				Old: "if wlIdsAscending(&existingId, &id) {", New: "if wlIdsAscending(&id, &existingId) {", Expect: "C44.prefer/shadow"},
			{Name: "displaced endpoint keeps its active state", File: "felix/dataplane/linux/endpoint_mgr.go",
				Old: "\t\t\t\t\tm.shadowedWlEndpoints[existingId] = m.activeWlEndpoints[existingId]\n\t\t\t\t\tremoveActiveWorkload(logCxt, m.activeWlEndpoints[existingId], existingId)\n", New: "\t\t\t\t\tm.shadowedWlEndpoints[existingId] = m.activeWlEndpoints[existingId]\n", Expect: "C44.prefer/displace-removes"},
			{Name: "reverse index not maintained", File: "felix/dataplane/linux/endpoint_mgr.go",
				Old: "\t\t\t\tm.activeWlEndpoints[id] = workload\n\t\t\t\tm.activeWlIfaceNameToID[workload.Name] = id\n", New: "\t\t\t\tm.activeWlEndpoints[id] = workload\n", Expect: "C44.index/"},
			{Name: "routes programmed for an endpoint that is not up", File: "felix/dataplane/linux/endpoint_mgr.go",
				Old: "\t\t\t\tif adminUp {\n\t\t\t\t\tm.routeTable.SetRoutes(workload.Name, m.calculateRoutes(logCxt, id, workload))\n\t\t\t\t} else {", New: "\t\t\t\tif adminUp || len(workload.Ipv4Nets) > 0 {\n\t\t\t\t\tm.routeTable.SetRoutes(workload.Name, m.calculateRoutes(logCxt, id, workload))\n\t\t\t\t} else {", Expect: "C44.adminup/SetRoutes"},
			{Name: "removed dispatch chain stays in the record of programmed chains", File: "felix/dataplane/linux/endpoint_mgr.go",
				Old: "\t\t\ttable.RemoveChainByName(name)\n\t\t\tdelete(activeChains, name)\n", New: "\t\t\ttable.RemoveChainByName(name)\n",
				Expect: "C44.chainrecord/remove/endpointManager.updateDispatchChains/activeChains"},
			{Name: "updated dispatch chain not recorded (never removed when it disappears)", File: "felix/dataplane/linux/endpoint_mgr.go",
				Old: "\t\t\ttable.UpdateChain(newChain)\n\t\t\tactiveChains[newChain.Name] = newChain\n", New: "\t\t\ttable.UpdateChain(newChain)\n",
				Expect: "C44.chainrecord/store/endpointManager.updateDispatchChains/activeChains"},
			{Name: "host interface filter chains not carried into the next record", File: "felix/dataplane/linux/endpoint_mgr.go",
				Old: "\t\t\tnewHostIfaceFiltChains[ifaceName] = filtChains\n", New: "",
				Expect: "C44.chainrecord/store/endpointManager.updateHostEndpoints/activeHostIfaceToFiltChains"},
			{Name: "removed untracked host chains stay in the record (record never replaced)", File: "felix/dataplane/linux/endpoint_mgr.go",
				Old: "\tm.activeHostIfaceToRawChains = newHostIfaceRawChains\n", New: "",
				Expect: "C44.chainrecord/remove/endpointManager.updateHostEndpoints/activeHostIfaceToRawChains"},
			{Name: "F22A re-introduced: promotion scan re-queues a shadowed endpoint over its own pending entry", File: "felix/dataplane/linux/endpoint_mgr.go",
				Old:    "\t\t\t\t\t\tif _, pending := m.pendingWlEpUpdates[sId]; pending {\n\t\t\t\t\t\t\t// This batch also updates or removes the shadowed endpoint.\n\t\t\t\t\t\t\t// That pending entry supersedes our shadow copy and will be\n\t\t\t\t\t\t\t// resolved in its own right (re-shadowing the endpoint if\n\t\t\t\t\t\t\t// need be); promoting the shadow copy would overwrite it,\n\t\t\t\t\t\t\t// resurrecting a removed endpoint or reverting an update.\n\t\t\t\t\t\t\tdelete(m.shadowedWlEndpoints, sId)\n\t\t\t\t\t\t\tcontinue\n\t\t\t\t\t\t}\n",
				New:    "",
				Expect: "C44.shadow/pending/endpointManager.resolveWorkloadEndpoints/shadowed"},
			{Name: "F22B re-introduced: an endpoint that becomes active through its own update keeps its shadow copy", File: "felix/dataplane/linux/endpoint_mgr.go",
				Old:    "\t\t\t\tdelete(m.shadowedWlEndpoints, id)\n\n\t\t\t\tif m.isQoSBandwidthSupported() {",
				New:    "\n\t\t\t\tif m.isQoSBandwidthSupported() {",
				Expect: "C44.shadow/exclusive/active/endpointManager.resolveWorkloadEndpoints"},
			{Name: "F24 re-introduced: an active endpoint renamed onto an interface owned by a preferred endpoint is shadowed but stays active on its old interface", File: "felix/dataplane/linux/endpoint_mgr.go",
				Old:    "\t\t\t\t\t\tif oldWorkload != nil {\n\t\t\t\t\t\t\t// This endpoint was active (on another interface) until\n\t\t\t\t\t\t\t// now; it must not stay active there while it is shadowed.\n\t\t\t\t\t\t\tremoveActiveWorkload(logCxt, oldWorkload, id)\n\t\t\t\t\t\t}\n\t\t\t\t\t\tm.shadowedWlEndpoints[id] = workload\n",
				New:    "\t\t\t\t\t\tm.shadowedWlEndpoints[id] = workload\n",
				Expect: "C44.shadow/exclusive/shadowed/endpointManager.resolveWorkloadEndpoints/pending-id"},
			{Name: "dirty-policy re-queue of the active copy overwrites a pending update/remove of the same endpoint", File: "felix/dataplane/linux/endpoint_mgr.go",
				Old:    "\t\tif _, ok := m.pendingWlEpUpdates[wepID]; ok {\n\t\t\tcontinue // Already have an update, skip the scan.\n\t\t}\n",
				New:    "",
				Expect: "C44.shadow/pending/endpointManager.markEPsWithDirtyPolicies/active"},
			{Name: "live-migration re-queue of the active copy tests another map for the pending entry", File: "felix/dataplane/linux/endpoint_mgr.go",
				Old:    "\tif _, alreadyPending := m.pendingWlEpUpdates[id]; !alreadyPending {\n\t\tif ep := m.activeWlEndpoints[id]; ep != nil {",
				New:    "\tif _, alreadyPending := m.shadowedWlEndpoints[id]; !alreadyPending {\n\t\tif ep := m.activeWlEndpoints[id]; ep != nil {",
				Expect: "C44.shadow/pending/endpointManager.OnLiveMigrationStateUpdate/active"},
		},
	})
	dplinuxFixtureFilter(registry["C44"])
}

type c44 struct {
	c         *Ctx
	p         *Prog
	nameField *types.Var // proto.WorkloadEndpoint.Name
	stateFld  *types.Var // proto.WorkloadEndpoint.State
	mgr       *types.Named
	fActive   *types.Var // endpointManager.activeWlEndpoints
	fPending  *types.Var
	fShadowed *types.Var
	fIfaceIdx *types.Var
	resolve   *ssa.Function
	cmp       *ssa.Function
	hasWrap   map[*ssa.Function]*types.Var // has-wrapper -> map field tested
	inlining  map[*ssa.Function]bool       // anonymous helpers being expanded by opsIn (recursion guard)
}

func runC44(c *Ctx) {
	p := c.Load(c44Pkg)
	x := &c44{c: c, p: p}
	fv := func(name string) *types.Var {
		v, _ := p.LookupObj(c44Pkg, "endpointManager."+name).(*types.Var)
		if v == nil {
			c.Lost("endpointManager.%s", name)
		}
		return v
	}
	x.fActive, x.fPending, x.fShadowed, x.fIfaceIdx = fv("activeWlEndpoints"), fv("pendingWlEpUpdates"), fv("shadowedWlEndpoints"), fv("activeWlIfaceNameToID")
	if tn, ok := p.LookupObj(c44Pkg, "endpointManager").(*types.TypeName); ok {
		x.mgr, _ = tn.Type().(*types.Named)
	}
	if x.mgr == nil {
		c.Lost("type endpointManager")
	}
	x.nameField, _ = p.LookupExt("felix/proto", "WorkloadEndpoint.Name").(*types.Var)
	x.stateFld, _ = p.LookupExt("felix/proto", "WorkloadEndpoint.State").(*types.Var)
	if x.nameField == nil || x.stateFld == nil {
		c.Lost("proto.WorkloadEndpoint.Name/State")
	}
	x.resolve = p.Func(c44Pkg, "endpointManager.resolveWorkloadEndpoints")
	x.cmp = p.Func(c44Pkg, "wlIdsAscending")
	if x.resolve == nil || x.cmp == nil {
		c.Lost("resolveWorkloadEndpoints / wlIdsAscending")
	}
	x.findHasWrappers()

	c.Rule("C44.total", "E-FIELDS/E-GUARD", "wlIdsAscending returns only `id1.F < id2.F`; the returns form a lexicographic chain (the comparison of the i-th field is guarded by equality of exactly the i-1 earlier fields) covering every field of WorkloadEndpointID", 4)
	c.Rule("C44.prefer", "E-GUARD", "every store into shadowedWlEndpoints and every choice of the shadowed endpoint to promote is decided by wlIdsAscending, the ascending-first id being the one kept/promoted; promoted endpoints leave the shadow map, displaced ones are removed", 6)
	c.Rule("C44.cleanup", "E-SIBLING", "name-keyed clean-up operations of the active-workload removal function and of the interface-rename block agree (agree/…) and those in the rename block are keyed by the old name (oldname/…)", 14)
	c.Rule("C44.haskey", "E-GUARD", "a delete from / store to a map field of endpointManager that is control-dependent on a presence test of the same map uses the tested key", 8)
	c.Rule("C44.index", "E-PAIR", "every store activeWlEndpoints[id]=w is paired on every path with activeWlIfaceNameToID[w.Name]=id", 1)
	c.Rule("C44.adminup", "E-GUARD/E-FLOW", "routeTable.SetRoutes with non-nil targets only under State==\"active\" of the workload whose Name keys the call; the adminUp argument of the chain update is that same test", 5)

	c.Rule("C44.chainrecord", "E-PAIR", "diff-programmed chains (UpdateChain(s) gated on a comparison with record[k]): the programmed chains become record[k] (in place, or via the map that replaces the record field), and every RemoveChains/RemoveChainByName in such a function is paired with the delete of that record entry or the wholesale replacement of the record", 10)

	x.total()
	x.prefer()
	x.cleanup()
	x.haskey()
	x.index()
	x.adminup()
	x.chainrecord()

	c.Rule("C44.shadow", "E-GUARD/E-PAIR", "(pending) a copy of an endpoint the manager remembered (activeWlEndpoints / shadowedWlEndpoints value) is stored into pendingWlEpUpdates[k] only where, in the same loop iteration, k — or every candidate chosen for k — was found to have no pending entry; (exclusive) every store into activeWlEndpoints[id] is paired on every path with delete(shadowedWlEndpoints, id), every store into shadowedWlEndpoints[k] with k leaving the active set or a test that k is not active", 6)
	x.shadow()
}

// ------------------------------------------------------------------ helpers --

// c44MgrField: v is (a load of) field f of the endpointManager; returns f.
func (x *c44) mgrField(v ssa.Value) *types.Var {
	f := fieldVar(v)
	if f == nil {
		return nil
	}
	st, _ := x.mgr.Underlying().(*types.Struct)
	for i := 0; i < st.NumFields(); i++ {
		if st.Field(i) == f {
			return f
		}
	}
	return nil
}

// mgrFuncs: all methods of endpointManager with their closures.
func (x *c44) mgrFuncs() []*ssa.Function {
	ms := x.p.methodsOf(c44Pkg, "endpointManager")
	if len(ms) == 0 {
		x.c.Lost("methods of endpointManager")
	}
	return withClosures(ms)
}

// findHasWrappers: functions `func (m *T) has(k K) bool { _, ok := m.F[k]; return ok }`.
func (x *c44) findHasWrappers() {
	x.hasWrap = map[*ssa.Function]*types.Var{}
	for _, f := range x.p.methodsOf(c44Pkg, "endpointManager") {
		if len(f.Params) != 2 {
			continue
		}
		rets := returnsOf(f)
		if len(rets) == 0 {
			continue
		}
		var fld *types.Var
		ok := true
		for _, r := range rets {
			if len(r.Results) != 1 {
				ok = false
				break
			}
			ex, isEx := r.Results[0].(*ssa.Extract)
			if !isEx || ex.Index != 1 {
				ok = false
				break
			}
			lk, isLk := ex.Tuple.(*ssa.Lookup)
			if !isLk || !lk.CommaOk || lk.Index != ssa.Value(f.Params[1]) {
				ok = false
				break
			}
			mf := x.mgrField(lk.X)
			if mf == nil || (fld != nil && fld != mf) {
				ok = false
				break
			}
			fld = mf
		}
		if ok && fld != nil {
			x.hasWrap[f] = fld
		}
	}
}

// hasTest: cond is a presence test of a map field of endpointManager; returns
// the field and the tested key.
func (x *c44) hasTest(cond ssa.Value) (*types.Var, ssa.Value) {
	if ex, ok := cond.(*ssa.Extract); ok && ex.Index == 1 {
		if lk, ok := ex.Tuple.(*ssa.Lookup); ok && lk.CommaOk {
			if f := x.mgrField(lk.X); f != nil {
				return f, lk.Index
			}
		}
		return nil, nil
	}
	if call, ok := cond.(*ssa.Call); ok {
		if sf := calleeFn(call.Common()); sf != nil {
			if f := x.hasWrap[sf]; f != nil && len(call.Common().Args) == 2 {
				return f, call.Common().Args[1]
			}
		}
	}
	return nil, nil
}

// wlRole names where a workload value comes from: "active" (lookup in
// activeWlEndpoints), "pending" (ranged pendingWlEpUpdates), "shadowed", "param".
func (x *c44) wlRole(v ssa.Value) string {
	kinds := map[string]bool{}
	for _, o := range origins(v, nil) {
		k := "other"
		switch y := o.V.(type) {
		case *ssa.Lookup:
			switch x.mgrField(y.X) {
			case x.fActive:
				k = "active"
			case x.fShadowed:
				k = "shadowed"
			case x.fIfaceIdx:
				k = "indexed"
			}
		case *ssa.Next:
			if rg, ok := y.Iter.(*ssa.Range); ok {
				switch x.mgrField(rg.X) {
				case x.fPending:
					k = "pending"
				case x.fShadowed:
					k = "shadowed"
				case x.fActive:
					k = "active"
				}
			}
		case *ssa.Parameter:
			k = "param"
		}
		kinds[k] = true
	}
	if len(kinds) == 1 {
		for k := range kinds {
			return k
		}
	}
	return "other"
}

// idRole names where an endpoint id comes from (see wlRole).
func (x *c44) idRole(v ssa.Value) string { return x.wlRole(c44Strip(v)) + "-id" }

// -------------------------------------------------------------------- total --

func (x *c44) total() {
	c, p, fn := x.c, x.p, x.cmp
	if len(fn.Params) != 2 {
		c.Lost("wlIdsAscending: expected 2 parameters")
	}
	idT := fn.Params[0].Type()
	fields := structFieldNames(idT, false)
	if len(fields) == 0 {
		c.Lost("wlIdsAscending: parameter type has no fields")
	}
	st, _ := derefType(idT).Underlying().(*types.Struct)
	fieldOfParam := func(v ssa.Value, param *ssa.Parameter) *types.Var {
		for i := 0; i < st.NumFields(); i++ {
			if b := c44FieldLoad(v, st.Field(i)); b != nil && c44Strip(b) == ssa.Value(param) {
				return st.Field(i)
			}
		}
		return nil
	}
	type retInfo struct {
		r   *ssa.Return
		f   *types.Var
		eqs map[string]bool
	}
	var infos []retInfo
	shapeOK := true
	site := p.Pos(fn.Pos())
	for _, r := range returnsOf(fn) {
		if len(r.Results) != 1 {
			c.Lost("wlIdsAscending: result arity")
		}
		bo, ok := r.Results[0].(*ssa.BinOp)
		var f *types.Var
		if ok && (bo.Op == token.LSS || bo.Op == token.GTR) {
			a, b := bo.X, bo.Y
			if bo.Op == token.GTR {
				a, b = b, a
			}
			fa, fb := fieldOfParam(a, fn.Params[0]), fieldOfParam(b, fn.Params[1])
			if fa != nil && fa == fb {
				f = fa
			}
		}
		if f == nil {
			shapeOK = false
			if _, isConst := r.Results[0].(*ssa.Const); isConst || ok {
				c.Violate("C44.total/wlIdsAscending/shape", p.Pos(r.Pos()), "wlIdsAscending returns %s, which is not `id1.F < id2.F` for one field F: the order is not total/antisymmetric on that path", path(r.Results[0]))
			} else {
				c.Undecided("C44.total/wlIdsAscending/shape", p.Pos(r.Pos()), "return value %s is not a direct field comparison; comparator shape not recognised", path(r.Results[0]))
			}
			continue
		}
		eqs := map[string]bool{}
		for i := 0; i < st.NumFields(); i++ {
			g := st.Field(i)
			if guardedCut(r, eqCond(true,
				func(v ssa.Value) bool { return fieldOfParam(v, fn.Params[0]) == g },
				func(v ssa.Value) bool { return fieldOfParam(v, fn.Params[1]) == g })) {
				eqs[g.Name()] = true
			}
		}
		infos = append(infos, retInfo{r, f, eqs})
	}
	if shapeOK {
		c.Ok("C44.total/wlIdsAscending/shape", site, "all %d returns are `id1.F < id2.F`", len(infos))
	}
	sort.SliceStable(infos, func(i, j int) bool { return len(infos[i].eqs) < len(infos[j].eqs) })
	level := map[string]int{}
	prefix := map[string]bool{}
	chainOK := true
	chainWhy := ""
	for i, ri := range infos {
		if len(ri.eqs) != i || ri.eqs[ri.f.Name()] {
			chainOK, chainWhy = false, fmt.Sprintf("comparison of %s is reached under equality of %v (expected exactly the %d field(s) compared before it)", ri.f.Name(), sortedKeys(ri.eqs), i)
			break
		}
		for k := range prefix {
			if !ri.eqs[k] {
				chainOK, chainWhy = false, fmt.Sprintf("comparison of %s is not guarded by equality of %s", ri.f.Name(), k)
			}
		}
		if _, dup := level[ri.f.Name()]; dup {
			chainOK, chainWhy = false, "field "+ri.f.Name()+" decided at two levels"
		}
		if !chainOK {
			break
		}
		level[ri.f.Name()] = i
		prefix[ri.f.Name()] = true
	}
	for _, f := range fields {
		key := "C44.total/wlIdsAscending/" + f
		lv, has := level[f]
		switch {
		case !chainOK:
			c.Violate(key, site, "wlIdsAscending is not a lexicographic order: %s", chainWhy)
		case !has:
			c.Violate(key, site, "field %s of WorkloadEndpointID is never compared by wlIdsAscending: two endpoints differing only in %s are unordered, so the preferred endpoint depends on update order", f, f)
		default:
			c.Ok(key, site, "compared at level %d under equality of the %d earlier field(s)", lv, lv)
		}
	}
}

// ------------------------------------------------------------------- prefer --

// cmpEdge builds an EdgePred accepting the edge on which wlIdsAscending(a,b)
// has the given outcome with ident(a)==first, ident(b)==second.
func (x *c44) cmpEdge(outcome bool, first, second ssa.Value) EdgePred {
	return callCond(outcome, func(cs CallSite) bool {
		if calleeFn(cs.Common()) != x.cmp {
			return false
		}
		a := cs.Common().Args
		return len(a) == 2 && c44Ident(a[0]) == first && c44Ident(a[1]) == second
	})
}

func (x *c44) prefer() {
	c, p := x.c, x.p
	nCmp := 0
	for _, f := range x.p.AllFuncs() {
		nCmp += len(callsIn(f, false, func(fn *types.Func) bool { return x.cmp.Object() == fn }))
	}
	// (a) shadow decisions: MapUpdate into shadowedWlEndpoints with key K must be
	// cut by {wlIdsAscending(X,K)==true} ∪ {wlIdsAscending(K,X)==false}: K loses.
	nShadow := 0
	for _, f := range x.mgrFuncs() {
		allInstrs(f, false, func(_ *ssa.Function, in ssa.Instruction) {
			mu, ok := in.(*ssa.MapUpdate)
			if !ok || x.mgrField(mu.Map) != x.fShadowed {
				return
			}
			nShadow++
			k := c44Ident(mu.Key)
			loses := func(cond ssa.Value, pol bool) bool {
				cs, ok := condCall(cond)
				if !ok || calleeFn(cs.Common()) != x.cmp || len(cs.Common().Args) != 2 {
					return false
				}
				a, b := c44Ident(cs.Common().Args[0]), c44Ident(cs.Common().Args[1])
				return (pol && b == k && a != k) || (!pol && a == k && b != k)
			}
			key := fmt.Sprintf("C44.prefer/shadow/%s/%s", fnName(f), x.idRole(mu.Key))
			c.Check(guardedCut(mu, loses), key, p.Pos(mu.Pos()),
				"endpoint "+path(mu.Key)+" is shadowed only where wlIdsAscending ranks it after its rival",
				"store shadowedWlEndpoints["+path(mu.Key)+"] is not decided by wlIdsAscending ranking "+path(mu.Key)+" after its rival: which endpoint owns the interface would depend on update order")
		})
	}
	if nShadow == 0 {
		c.Lost("no store into shadowedWlEndpoints")
	}
	// (b) promotion: pendingWlEpUpdates[B] = shadowedWlEndpoints[B'] — every
	// non-initial store into B is cut by {wlIdsAscending(new,B)==true} ∪ {B unset}.
	nProm := 0
	for _, f := range x.mgrFuncs() {
		allInstrs(f, false, func(_ *ssa.Function, in ssa.Instruction) {
			mu, ok := in.(*ssa.MapUpdate)
			if !ok || x.mgrField(mu.Map) != x.fPending {
				return
			}
			lk, ok := mu.Value.(*ssa.Lookup)
			if !ok || x.mgrField(lk.X) != x.fShadowed {
				return
			}
			nProm++
			key := "C44.prefer/promote/" + fnName(f)
			site := p.Pos(mu.Pos())
			best, ok := c44Ident(mu.Key).(*ssa.Alloc)
			if !ok || c44Ident(lk.Index) != ssa.Value(best) {
				c.Undecided(key, site, "promoted key %s is not a local variable also used to index shadowedWlEndpoints", path(mu.Key))
				return
			}
			nStores := 0
			bad := ""
			for _, r := range *best.Referrers() {
				st, ok := r.(*ssa.Store)
				if !ok || st.Addr != ssa.Value(best) {
					continue
				}
				if _, isConst := st.Val.(*ssa.Const); isConst {
					continue // zero value initialisation
				}
				nStores++
				cand := c44Ident(st.Val)
				unset := eqCond(true,
					func(v ssa.Value) bool {
						u, ok := v.(*ssa.UnOp)
						if !ok || u.Op != token.MUL {
							return false
						}
						fa, ok := u.X.(*ssa.FieldAddr)
						return ok && fa.X == ssa.Value(best)
					},
					func(v ssa.Value) bool {
						cv, ok := constOf(v)
						return ok && cv.ExactString() == `""`
					})
				if !guardedCut(st, anyOf(unset, x.cmpEdge(true, cand, best))) {
					bad = fmt.Sprintf("candidate %s replaces the best shadowed id at %s without wlIdsAscending(candidate, best) being true", path(st.Val), p.Pos(st.Pos()))
				}
			}
			if nStores == 0 {
				c.Undecided(key, site, "no candidate store into %s found", best.Comment)
				return
			}
			c.Check(bad == "", key, site, fmt.Sprintf("the promoted shadowed endpoint is the wlIdsAscending-minimum of the candidates (%d candidate store(s))", nStores), bad+": the promoted endpoint is not the preferred one")
		})
	}
	if nProm == 0 {
		c.Lost("no promotion of a shadowed endpoint into pendingWlEpUpdates")
	}
	// (c) bookkeeping of the two moves between active and shadowed:
	//   promotion  pending[B]=shadowed[B]   ⇒ delete(shadowed, B) on every path
	//   displacement shadowed[K]=active[K]  ⇒ the active-workload removal function is called with K
	var removal *ssa.Function
	for _, f := range x.mgrFuncs() {
		allInstrs(f, false, func(_ *ssa.Function, in ssa.Instruction) {
			if cc, ok := isBuiltinCall(in, "delete"); ok && x.mgrField(cc.Args[0]) == x.fActive {
				removal = f
			}
		})
	}
	for _, f := range x.mgrFuncs() {
		pd := postDominators(f)
		allInstrs(f, false, func(_ *ssa.Function, in ssa.Instruction) {
			mu, ok := in.(*ssa.MapUpdate)
			if !ok {
				return
			}
			lk, isLk := mu.Value.(*ssa.Lookup)
			if !isLk {
				return
			}
			switch {
			case x.mgrField(mu.Map) == x.fPending && x.mgrField(lk.X) == x.fShadowed:
				done := false
				allInstrs(f, false, func(_ *ssa.Function, in2 ssa.Instruction) {
					if cc, ok := isBuiltinCall(in2, "delete"); ok && x.mgrField(cc.Args[0]) == x.fShadowed &&
						c44Ident(cc.Args[1]) == c44Ident(mu.Key) && instrPostDominates(pd, in2, mu) {
						done = true
					}
				})
				c.Check(done, "C44.prefer/promote-unshadow/"+fnName(f), p.Pos(mu.Pos()), "a promoted endpoint leaves shadowedWlEndpoints",
					"the promoted endpoint "+path(mu.Key)+" is not deleted from shadowedWlEndpoints on every path: it could be promoted again later although it is already active")
			case x.mgrField(mu.Map) == x.fShadowed && x.mgrField(lk.X) == x.fActive:
				done := false
				allInstrs(f, false, func(_ *ssa.Function, in2 ssa.Instruction) {
					ci, ok := in2.(ssa.CallInstruction)
					if !ok || removal == nil || calleeFn(ci.Common()) != removal || !instrPostDominates(pd, in2, mu) {
						return
					}
					for _, a := range ci.Common().Args {
						if c44Ident(a) == c44Ident(mu.Key) {
							done = true
						}
					}
				})
				c.Check(done, "C44.prefer/displace-removes/"+fnName(f), p.Pos(mu.Pos()), "a displaced active endpoint is removed from the dataplane state",
					"the active endpoint "+path(mu.Key)+" is moved to shadowedWlEndpoints without its active state being removed: two endpoints would own the interface")
			}
		})
	}
	c.Check(nCmp >= 2, "C44.prefer/comparator-uses", p.Pos(x.cmp.Pos()), fmt.Sprintf("wlIdsAscending has %d call sites", nCmp), fmt.Sprintf("wlIdsAscending has only %d call site(s); both the shadow decision and the promotion must use it", nCmp))
}

// ------------------------------------------------------------------ cleanup --

// c44Who identifies "the interface name" in a function: either the string value
// itself (a parameter) or the Name field of a workload pointer value.
type c44Who struct {
	val    ssa.Value
	isName bool
}

func (x *c44) isNameOf(v ssa.Value, w c44Who) bool {
	v = c44Strip(v)
	if w.isName {
		return v == w.val
	}
	b := c44FieldLoad(v, x.nameField)
	return b != nil && b == w.val
}

type c44Op struct {
	id      string
	in      ssa.Instruction
	carrier *ssa.Function // package-local callee with body (may be expanded)
	sub     c44Who        // who inside carrier
}

func c44IsLogPkg(f *types.Func) bool {
	if f == nil || f.Pkg() == nil {
		return false
	}
	pp := f.Pkg().Path()
	return pp == "github.com/sirupsen/logrus" || pp == "fmt" || strings.HasSuffix(pp, "/logutils")
}

// opsIn collects the name-keyed operations among instrs for identity w, and the
// carriers (package-local calls receiving the name or the workload itself).
func (x *c44) opsIn(instrs []ssa.Instruction, w c44Who) []c44Op {
	var out []c44Op
	for _, in := range instrs {
		switch y := in.(type) {
		case *ssa.MapUpdate:
			if x.isNameOf(y.Key, w) {
				if f := fieldVar(y.Map); f != nil {
					out = append(out, c44Op{id: "store(" + f.Name() + ")", in: in})
				}
			}
		case ssa.CallInstruction:
			cc := y.Common()
			if b, ok := cc.Value.(*ssa.Builtin); ok {
				if b.Name() == "delete" && len(cc.Args) == 2 && x.isNameOf(cc.Args[1], w) {
					if f := fieldVar(cc.Args[0]); f != nil {
						out = append(out, c44Op{id: "delete(" + f.Name() + ")", in: in})
					} else {
						out = append(out, c44Op{id: "delete(" + path(cc.Args[0]) + ")", in: in})
					}
				}
				continue
			}
			callee := calleeOf(cc)
			if callee == nil {
				// a local anonymous helper (`forget := func(name string){…}; forget(old.Name)`)
				// has no name to compare: its operations are taken as if written inline.
				if af := calleeFn(cc); af != nil && af.Blocks != nil && af.Parent() != nil && !x.inlining[af] {
					for i, a := range cc.Args {
						if i >= len(af.Params) {
							break
						}
						var sub *c44Who
						switch {
						case x.isNameOf(a, w):
							sub = &c44Who{val: af.Params[i], isName: true}
						case !w.isName && c44Strip(a) == w.val:
							sub = &c44Who{val: af.Params[i]}
						}
						if sub != nil {
							if x.inlining == nil {
								x.inlining = map[*ssa.Function]bool{}
							}
							x.inlining[af] = true
							out = append(out, x.opsIn(c44Instrs(af, nil), *sub)...)
							delete(x.inlining, af)
						}
					}
				}
				continue
			}
			if c44IsLogPkg(callee) {
				continue
			}
			sf := calleeFn(cc)
			if sf != nil && x.hasWrap[sf] != nil {
				continue // pure presence test
			}
			args := CallSite{Instr: y, Callee: callee}.Args()
			isMethod := callee.Type().(*types.Signature).Recv() != nil
			namePos, basePos := -1, -1
			sig := []string{}
			for i, a := range args {
				if isMethod && i == 0 {
					continue
				}
				switch {
				case x.isNameOf(a, w):
					namePos = i
					sig = append(sig, "name")
				case !w.isName && c44Strip(a) == w.val:
					basePos = i
					sig = append(sig, "workload")
				case isNilConst(c44Strip(a)):
					sig = append(sig, "nil")
				default:
					sig = append(sig, "_")
				}
			}
			if namePos < 0 && basePos < 0 {
				continue
			}
			recv := ""
			if isMethod {
				if f := fieldVar(args[0]); f != nil {
					recv = f.Name() + "."
				}
			}
			op := c44Op{id: recv + callee.Name() + "(" + strings.Join(sig, ",") + ")", in: in}
			if sf != nil && sf.Blocks != nil {
				op.carrier = sf
				idx := namePos
				if idx < 0 {
					idx = basePos
				}
				if idx < len(sf.Params) {
					op.sub = c44Who{val: sf.Params[idx], isName: namePos >= 0}
				} else {
					op.carrier = nil
				}
			}
			if namePos < 0 {
				// whole-workload call: only a carrier, not itself a name-keyed op
				if op.carrier == nil {
					continue
				}
				op.id = ""
			}
			out = append(out, op)
		}
	}
	return out
}

func c44Instrs(f *ssa.Function, keep func(ssa.Instruction) bool) []ssa.Instruction {
	var out []ssa.Instruction
	for _, b := range f.Blocks {
		for _, in := range b.Instrs {
			if keep == nil || keep(in) {
				out = append(out, in)
			}
		}
	}
	return out
}

// hasOp: id occurs among ops directly or inside a carrier (depth-limited).
func (x *c44) hasOp(ops []c44Op, id string, depth int) bool {
	for _, o := range ops {
		if o.id == id {
			return true
		}
	}
	if depth == 0 {
		return false
	}
	for _, o := range ops {
		if o.carrier != nil && x.hasOp(x.opsIn(c44Instrs(o.carrier, nil), o.sub), id, depth-1) {
			return true
		}
	}
	return false
}

func (x *c44) cleanup() {
	c, p := x.c, x.p
	// R: the function (closure or method) that deletes from activeWlEndpoints.
	var rfn *ssa.Function
	for _, f := range x.mgrFuncs() {
		allInstrs(f, false, func(_ *ssa.Function, in ssa.Instruction) {
			if cc, ok := isBuiltinCall(in, "delete"); ok && x.mgrField(cc.Args[0]) == x.fActive {
				if rfn != nil && rfn != f {
					c.Lost("more than one function deletes from activeWlEndpoints (%s, %s): re-confirm the sibling table", fnName(rfn), fnName(f))
				}
				rfn = f
			}
		})
	}
	if rfn == nil {
		c.Lost("no function deletes from activeWlEndpoints")
	}
	var rWho *c44Who
	for _, prm := range rfn.Params {
		if qualTypeName(prm.Type()) == "felix/proto.WorkloadEndpoint" {
			if rWho != nil {
				c.Lost("%s has two workload parameters", fnName(rfn))
			}
			rWho = &c44Who{val: prm}
		}
	}
	if rWho == nil {
		c.Lost("%s has no *proto.WorkloadEndpoint parameter", fnName(rfn))
	}
	rOps := x.opsIn(c44Instrs(rfn, nil), *rWho)

	// N: the rename block: region of resolveWorkloadEndpoints cut by the edge on
	// which active[id].Name != pending.Name.
	var renameIf *ssa.If
	var oldW, newW ssa.Value
	classify := x.wlRole
	for _, f := range withClosures([]*ssa.Function{x.resolve}) {
		for _, b := range f.Blocks {
			ifi, ok := b.Instrs[len(b.Instrs)-1].(*ssa.If)
			if !ok {
				continue
			}
			cond, _ := stripNot(ifi.Cond, true)
			bo, ok := cond.(*ssa.BinOp)
			if !ok || (bo.Op != token.EQL && bo.Op != token.NEQ) {
				continue
			}
			bx, by := c44FieldLoad(bo.X, x.nameField), c44FieldLoad(bo.Y, x.nameField)
			if bx == nil || by == nil {
				continue
			}
			kx, ky := classify(bx), classify(by)
			if kx == "pending" && ky == "active" {
				bx, by, kx, ky = by, bx, ky, kx
			}
			if kx == "active" && ky == "pending" {
				if renameIf != nil {
					c.Lost("two interface-rename tests in resolveWorkloadEndpoints")
				}
				renameIf, oldW, newW = ifi, bx, by
			}
		}
	}
	if renameIf == nil {
		c.Lost("interface-rename test (activeWlEndpoints[id].Name != pending.Name) not found in resolveWorkloadEndpoints")
	}
	differs := eqCond(false,
		func(v ssa.Value) bool { return c44FieldLoad(v, x.nameField) == oldW },
		func(v ssa.Value) bool { return c44FieldLoad(v, x.nameField) == newW })
	nfn := renameIf.Parent()
	inRegion := map[*ssa.BasicBlock]bool{}
	for _, b := range nfn.Blocks {
		if len(b.Instrs) > 0 && b != renameIf.Block() && guardedCut(b.Instrs[0], differs) {
			inRegion[b] = true
		}
	}
	region := c44Instrs(nfn, func(in ssa.Instruction) bool { return inRegion[in.Block()] })
	if len(region) == 0 {
		c.Lost("interface-rename block is empty")
	}
	oldOps := x.opsIn(region, c44Who{val: oldW})
	newOps := x.opsIn(region, c44Who{val: newW})
	site := p.Pos(renameIf.Pos())

	// oldname: nothing in the rename block may be keyed by the new name.
	for _, o := range oldOps {
		if o.id != "" {
			c.Ok("C44.cleanup/oldname/"+o.id, p.Pos(o.in.Pos()), "keyed by the old endpoint's interface name")
		}
	}
	for _, o := range newOps {
		id := o.id
		if id == "" {
			continue // whole-workload calls with the new workload are not name-keyed clean-up
		}
		c.Violate("C44.cleanup/oldname/"+id, p.Pos(o.in.Pos()), "in the interface-rename block of %s, %s is keyed by the NEW interface name (%s.Name); clean-up of a renamed endpoint must be keyed by the old name, otherwise the old interface keeps its state", fnName(nfn), id, path(newW))
	}
	// agree: both directions.
	seen := map[string]bool{}
	cmpSide := func(from []c44Op, fromName string, to []c44Op, toName string) {
		for _, o := range from {
			if o.id == "" || seen[o.id] {
				continue
			}
			seen[o.id] = true
			key := "C44.cleanup/agree/" + o.id
			if x.hasOp(to, o.id, 2) {
				c.Ok(key, p.Pos(o.in.Pos()), "performed by both %s and %s", fromName, toName)
				continue
			}
			if o.carrier != nil {
				// a helper used on one side only: all of its name-keyed ops must be on the other side
				sub := x.opsIn(c44Instrs(o.carrier, nil), o.sub)
				missing := []string{}
				n := 0
				for _, s := range sub {
					if s.id == "" {
						continue
					}
					n++
					if !x.hasOp(to, s.id, 2) {
						missing = append(missing, s.id)
					}
				}
				if n > 0 && len(missing) == 0 {
					c.Ok(key, p.Pos(o.in.Pos()), "helper used by %s; its %d name-keyed operation(s) are all performed by %s", fromName, n, toName)
					continue
				}
			}
			c.Violate(key, p.Pos(o.in.Pos()), "%s performs %s for the interface name of the endpoint it cleans up, but %s does not: state of that kind leaks (or is wrongly kept) for the old interface name", fromName, o.id, toName)
		}
	}
	rName, nName := fnName(rfn), "the interface-rename block of "+fnName(nfn)
	cmpSide(rOps, rName, oldOps, nName)
	cmpSide(oldOps, nName, rOps, rName)
	if len(seen) == 0 {
		c.Lost("no name-keyed clean-up operation found in %s", rName)
	}
	_ = site
}

// ------------------------------------------------------------------- haskey --

func (x *c44) haskey() {
	c, p := x.c, x.p
	for _, f := range x.mgrFuncs() {
		allInstrs(f, false, func(_ *ssa.Function, in ssa.Instruction) {
			var mf *types.Var
			var used ssa.Value
			kind := ""
			if mu, ok := in.(*ssa.MapUpdate); ok {
				mf, used, kind = x.mgrField(mu.Map), mu.Key, "store"
			} else if cc, ok := isBuiltinCall(in, "delete"); ok && len(cc.Args) == 2 {
				mf, used, kind = x.mgrField(cc.Args[0]), cc.Args[1], "delete"
			}
			if mf == nil {
				return
			}
			for _, g := range guardsOf(in) {
				tf, tested := x.hasTest(g.Cond)
				if tf != mf {
					continue
				}
				key := fmt.Sprintf("C44.haskey/%s/%s/%s", fnName(topFn(f)), mf.Name(), kind)
				if b := c44FieldLoad(tested, x.nameField); b != nil {
					// several tests of one map in one function: name the endpoint whose interface name is tested
					key += "/" + x.wlRole(b) + "-name"
				}
				same := path(c44Strip(tested)) == path(c44Strip(used))
				c.Check(same, key, p.Pos(in.Pos()),
					fmt.Sprintf("%s of %s[%s] under a presence test of the same key", kind, mf.Name(), path(used)),
					fmt.Sprintf("%s of %s[%s] is conditional on a presence test of %s[%s]: the tested key is not the key used", kind, mf.Name(), path(used), mf.Name(), path(tested)))
			}
		})
	}
}

// -------------------------------------------------------------------- index --

func (x *c44) index() {
	c, p := x.c, x.p
	n := 0
	for _, f := range x.mgrFuncs() {
		pd := postDominators(f)
		allInstrs(f, false, func(_ *ssa.Function, in ssa.Instruction) {
			mu, ok := in.(*ssa.MapUpdate)
			if !ok || x.mgrField(mu.Map) != x.fActive {
				return
			}
			n++
			id, w := c44Ident(mu.Key), c44Strip(mu.Value)
			paired := false
			allInstrs(f, false, func(_ *ssa.Function, in2 ssa.Instruction) {
				m2, ok := in2.(*ssa.MapUpdate)
				if !ok || x.mgrField(m2.Map) != x.fIfaceIdx {
					return
				}
				if c44FieldLoad(m2.Key, x.nameField) == w && c44Ident(m2.Value) == id &&
					(instrDominates(m2, mu) || instrPostDominates(pd, m2, mu)) {
					paired = true
				}
			})
			c.Check(paired, "C44.index/"+fnName(f), p.Pos(mu.Pos()),
				"activeWlEndpoints[id]=w is paired with activeWlIfaceNameToID[w.Name]=id on every path",
				"activeWlEndpoints["+path(mu.Key)+"] is stored without activeWlIfaceNameToID["+path(mu.Value)+".Name] = "+path(mu.Key)+" on every path: a second endpoint with the same interface name would not be detected")
		})
	}
	if n == 0 {
		c.Lost("no store into activeWlEndpoints")
	}
}

// ------------------------------------------------------------------ adminup --

func (x *c44) isActiveTest(v ssa.Value, w ssa.Value) bool {
	bo, ok := v.(*ssa.BinOp)
	if !ok || bo.Op != token.EQL {
		return false
	}
	for _, pr := range [][2]ssa.Value{{bo.X, bo.Y}, {bo.Y, bo.X}} {
		if c44FieldLoad(pr[0], x.stateFld) == w {
			if cv, ok := constOf(pr[1]); ok && cv.ExactString() == `"active"` {
				return true
			}
		}
	}
	return false
}

func (x *c44) adminup() {
	c, p := x.c, x.p
	rt, _ := p.LookupObj(c44Pkg, "endpointManager.routeTable").(*types.Var)
	if rt == nil {
		c.Lost("endpointManager.routeTable")
	}
	n := 0
	for _, f := range x.mgrFuncs() {
		for _, cs := range callsIn(f, false, func(fn *types.Func) bool { return fn.Name() == "SetRoutes" }) {
			args := cs.Args()
			if len(args) != 3 || x.mgrField(args[0]) != rt {
				continue
			}
			n++
			role, tg := "other", "targets"
			if b := c44FieldLoad(args[1], x.nameField); b != nil {
				role = x.wlRole(b)
			}
			if isNilConst(args[2]) {
				tg = "nil"
			}
			key := fmt.Sprintf("C44.adminup/SetRoutes/%s/%s-%s", fnName(f), role, tg)
			site := p.Pos(cs.Instr.Pos())
			if isNilConst(args[2]) {
				c.Ok(key, site, "removes routes (nil targets)")
				continue
			}
			w := c44FieldLoad(args[1], x.nameField)
			if w == nil {
				c.Undecided(key, site, "interface name %s of a SetRoutes call with targets is not the Name of a workload endpoint", path(args[1]))
				continue
			}
			g := guardedCut(cs.Instr, func(cond ssa.Value, pol bool) bool { return pol && x.isActiveTest(cond, w) })
			c.Check(g, key, site, "routes programmed only under "+path(w)+".State == \"active\"",
				"SetRoutes("+path(args[1])+", <targets>) is reachable without "+path(w)+".State == \"active\": routes would exist for an endpoint that is administratively down")
		}
	}
	if n == 0 {
		c.Lost("no routeTable.SetRoutes call in endpointManager")
	}
	// the chain update receives the same test
	upd := p.Func(c44Pkg, "endpointManager.updateWorkloadEndpointChains")
	if upd == nil {
		c.Lost("endpointManager.updateWorkloadEndpointChains")
	}
	nc := 0
	for _, f := range x.mgrFuncs() {
		allInstrs(f, false, func(_ *ssa.Function, in ssa.Instruction) {
			ci, ok := in.(ssa.CallInstruction)
			if !ok || calleeFn(ci.Common()) != upd {
				return
			}
			nc++
			a := ci.Common().Args
			var wl, flag ssa.Value
			for _, v := range a[1:] {
				if qualTypeName(v.Type()) == "felix/proto.WorkloadEndpoint" {
					wl = c44Strip(v)
				}
				if b, ok := v.Type().Underlying().(*types.Basic); ok && b.Kind() == types.Bool {
					flag = v
				}
			}
			key := "C44.adminup/chains/" + fnName(f)
			if wl == nil || flag == nil {
				c.Lost("updateWorkloadEndpointChains call: workload/adminUp arguments")
			}
			c.Check(x.isActiveTest(flag, wl), key, p.Pos(in.Pos()), "adminUp argument is "+path(wl)+".State == \"active\"",
				"adminUp argument of updateWorkloadEndpointChains is "+path(flag)+", not "+path(wl)+".State == \"active\"")
		})
	}
	if nc == 0 {
		c.Lost("no call of updateWorkloadEndpointChains")
	}
}
