package main

// Helpers for the C11 compare-width families: a small abstract interpretation
// of the *emitted* BPF program at the level of one builder function.
//
//   - the semantics of each asm.Block method is decoded from the opcode
//     constant its body hands to Block.add / Block.addWithOffsetFixup (class,
//     operation, operand source, memory size) - not from the method's name;
//   - the value held by a register at an emission is the join over the
//     emissions that may have defined it (reaching definitions over the Go CFG of
//     the builder function), abstracted to "number of low bits that may be
//     non-zero" (BPF loads and 32-bit ALU ops zero-extend);
//   - the domain of an immediate is an interval computed from the Go SSA value
//     passed as the imm32 argument (constants, unsigned Go types, shifts / ors /
//     ands / adds of those, value-preserving and reinterpreting conversions).

import (
	"fmt"
	"go/constant"
	"go/token"
	"go/types"
	"math/bits"
	"strings"

	"golang.org/x/tools/go/ssa"
)

// c11AsmOp is the decoded meaning of one asm.Block emitter method.
type c11AsmOp struct {
	opcode   int64
	class    string // "load" | "alu32" | "alu64" | "jmp32" | "jmp64" | "ldimm" | "other"
	op       string // alu: mov|and|or|xor|add|shl|shr|other ; jmp: eq|ne|gt|ge|lt|le|set|sgt|sge|slt|sle|ja|call|exit
	srcIsReg bool
	size     int // load: bits
	// index into CallSite.Args() (receiver = 0) of the operands; -1 = none / not a parameter
	dstArg, srcArg, immArg int
}

func (o *c11AsmOp) isImmCompare() bool {
	if o == nil || (o.class != "jmp32" && o.class != "jmp64") || o.srcIsReg {
		return false
	}
	switch o.op {
	case "ja", "call", "exit", "":
		return false
	}
	return o.dstArg >= 0 && o.immArg >= 0
}

func (o *c11AsmOp) cmpBits() int {
	if o.class == "jmp32" {
		return 32
	}
	return 64
}

func (o *c11AsmOp) signedCmp() bool { return strings.HasPrefix(o.op, "s") && o.op != "set" }

type c11AsmConsts struct {
	classMask, srcReg int64
	class             map[int64]string
	aluOp, jmpOp      map[int64]string
	memSize           map[int64]int
	memSizeMask       int64
	opMask            int64
}

func c11LoadAsmConsts(c *Ctx, p *Prog) *c11AsmConsts {
	get := func(n string) int64 {
		v, ok := constantInt(c11PkgConst(c, p, c11AsmPkg, n))
		if !ok {
			c.Lost("asm.%s is not an integer constant", n)
		}
		return v
	}
	k := &c11AsmConsts{class: map[int64]string{}, aluOp: map[int64]string{}, jmpOp: map[int64]string{}, memSize: map[int64]int{}}
	k.classMask = get("OpClassMask")
	k.srcReg = get("ALUSrcReg")
	k.opMask = 0xf0
	for n, s := range map[string]string{"OpClassLoadReg": "load", "OpClassALU32": "alu32", "OpClassALU64": "alu64", "OpClassJump32": "jmp32", "OpClassJump64": "jmp64", "OpClassLoadImm": "ldimm"} {
		k.class[get(n)] = s
	}
	for n, s := range map[string]string{"ALUOpMov": "mov", "ALUOpAnd": "and", "ALUOpOr": "or", "ALUOpXOR": "xor", "ALUOpAdd": "add", "ALUOpShiftL": "shl", "ALUOpShiftR": "shr"} {
		k.aluOp[get(n)] = s
	}
	for n, s := range map[string]string{"JumpOpA": "ja", "JumpOpEq": "eq", "JumpOpNE": "ne", "JumpOpGT": "gt", "JumpOpGE": "ge", "JumpOpLT": "lt", "JumpOpLE": "le", "JumpOpSet": "set",
		"JumpOpSGT": "sgt", "JumpOpSGE": "sge", "JumpOpSLT": "slt", "JumpOpSLE": "sle", "JumpOpCall": "call", "JumpOpExit": "exit"} {
		k.jmpOp[get(n)] = s
	}
	for n, s := range map[string]int{"MemOpSize8": 8, "MemOpSize16": 16, "MemOpSize32": 32, "MemOpSize64": 64} {
		k.memSize[get(n)] = s
		k.memSizeMask |= get(n)
	}
	if len(k.class) != 6 || len(k.memSize) != 4 {
		c.Lost("asm opcode class / memory size constants are not distinct")
	}
	return k
}

// c11DecodeAsm decodes every emitter method of asm.Block whose body passes a
// constant opcode to Block.add / Block.addWithOffsetFixup.
func (m *c11Model) c11DecodeAsm() map[*types.Func]*c11AsmOp {
	c, p := m.c, m.p
	k := c11LoadAsmConsts(c, p)
	sinks := map[*ssa.Function]bool{}
	for _, n := range []string{"Block.add", "Block.addWithOffsetFixup"} {
		f := p.Func(c11AsmPkg, n)
		if f == nil {
			c.Lost("asm.%s", n)
		}
		// (recv, opcode, dst, src, offset|label, imm, …)
		sig := f.Signature
		if sig.Params().Len() < 5 || namedTypeName(sig.Params().At(0).Type()) != "OpCode" ||
			!types.Identical(types.Unalias(sig.Params().At(1).Type()), m.regT) || !types.Identical(types.Unalias(sig.Params().At(2).Type()), m.regT) ||
			sig.Params().At(4).Name() != "imm" {
			c.Lost("asm.%s no longer has the shape (opcode OpCode, dst, src Reg, _, imm int32, …)", n)
		}
		sinks[f] = true
	}
	out := map[*types.Func]*c11AsmOp{}
	for _, f := range m.p.methodsOf(c11AsmPkg, "Block") {
		if f == nil || f.Blocks == nil || sinks[f] {
			continue
		}
		obj, _ := f.Object().(*types.Func)
		if obj == nil {
			continue
		}
		var first *ssa.Call
		allInstrs(f, false, func(_ *ssa.Function, in ssa.Instruction) {
			call, ok := in.(*ssa.Call)
			if !ok || !sinks[calleeFn(call.Common())] {
				return
			}
			if first == nil || (call.Block() == first.Block() && instrIndex(call) < instrIndex(first)) || (call.Block() != first.Block() && call.Block().Index < first.Block().Index) {
				first = call
			}
		})
		if first == nil {
			continue
		}
		args := CallSite{first, calleeOf(first.Common()), f}.Args()
		opc, ok := c11ConstInt(args[1])
		if !ok {
			continue // e.g. Block.Load(size): width chosen by the caller - not decoded
		}
		prm := func(v ssa.Value) int {
			for {
				switch x := v.(type) {
				case *ssa.Convert:
					v = x.X
					continue
				case *ssa.ChangeType:
					v = x.X
					continue
				}
				break
			}
			for i, q := range f.Params {
				if ssa.Value(q) == v {
					return i
				}
			}
			return -1
		}
		o := &c11AsmOp{opcode: opc, class: k.class[opc&k.classMask], dstArg: prm(args[2]), srcArg: prm(args[3]), immArg: prm(args[5])}
		if o.class == "" {
			o.class = "other"
		}
		switch o.class {
		case "load":
			o.size = k.memSize[opc&k.memSizeMask]
		case "alu32", "alu64":
			o.srcIsReg = opc&k.srcReg != 0
			o.op = k.aluOp[opc&k.opMask]
			if o.op == "" {
				o.op = "other"
			}
		case "jmp32", "jmp64":
			o.srcIsReg = opc&k.srcReg != 0
			o.op = k.jmpOp[opc&k.opMask]
		}
		out[obj] = o
	}
	n := 0
	for _, o := range out {
		if o.isImmCompare() {
			n++
		}
	}
	if n < 4 {
		c.Lost("only %d immediate-compare emitters decoded from asm.Block (opcode constants no longer reach Block.add?)", n)
	}
	return out
}

// ------------------------------------------------------------ imm domains --

// c11Dom: what is known about an integer SSA value.
//
//	ok        the value is known to lie in [0, hi] (neg=false), or is known to be
//	          possibly negative (neg=true: a negative constant, or the int32
//	          reinterpretation of an unsigned quantity that does not fit 31 bits)
//	declared  >0: the value ranges over a domain of exactly that many bits declared
//	          by unsigned Go types (uintN leaves, shifted / or-ed together); 0: the
//	          bound comes from constants, masks or arithmetic
//	reinterp  the value went through a signed conversion that does not preserve
//	          the (unsigned) value: bit 31 of the imm32 carries magnitude
type c11Dom struct {
	ok       bool
	neg      bool
	hi       uint64
	declared int
	reinterp bool
	isConst  bool
}

func c11BasicInt(t types.Type) (bitsz int, unsigned, ok bool) {
	b, isB := t.Underlying().(*types.Basic)
	if !isB || b.Info()&types.IsInteger == 0 {
		return 0, false, false
	}
	switch b.Kind() {
	case types.Int8:
		return 8, false, true
	case types.Int16:
		return 16, false, true
	case types.Int32:
		return 32, false, true
	case types.Int64, types.Int:
		return 64, false, true
	case types.Uint8:
		return 8, true, true
	case types.Uint16:
		return 16, true, true
	case types.Uint32:
		return 32, true, true
	case types.Uint64, types.Uint, types.Uintptr:
		return 64, true, true
	case types.UntypedInt:
		return 64, false, true
	}
	return 0, false, false
}

func c11MaxU(bitsz int) uint64 {
	if bitsz >= 64 {
		return ^uint64(0)
	}
	return uint64(1)<<uint(bitsz) - 1
}

func c11TypeBound(t types.Type) c11Dom {
	b, uns, ok := c11BasicInt(t)
	if !ok || !uns {
		return c11Dom{}
	}
	return c11Dom{ok: true, hi: c11MaxU(b), declared: b}
}

// c11DomCtx carries what the domain evaluation knows about package-level
// variables: a variable of the analysed package that is only ever assigned
// (never has its address taken) is the join of the values assigned to it.
type c11DomCtx struct {
	globals map[*ssa.Global][]ssa.Value // nil entry: escapes / unknown
}

func c11NewDomCtx(fns []*ssa.Function) *c11DomCtx {
	x := &c11DomCtx{globals: map[*ssa.Global][]ssa.Value{}}
	escaped := map[*ssa.Global]bool{}
	for _, f := range fns {
		for _, b := range f.Blocks {
			for _, in := range b.Instrs {
				for _, op := range in.Operands(nil) {
					g, ok := (*op).(*ssa.Global)
					if !ok {
						continue
					}
					switch y := in.(type) {
					case *ssa.Store:
						if y.Addr == ssa.Value(g) && y.Val != ssa.Value(g) {
							x.globals[g] = append(x.globals[g], y.Val)
							continue
						}
					case *ssa.UnOp:
						if y.Op == token.MUL {
							continue
						}
					case *ssa.DebugRef:
						continue
					}
					escaped[g] = true
				}
			}
		}
	}
	for g := range escaped {
		delete(x.globals, g)
	}
	return x
}

func (dc *c11DomCtx) of(v ssa.Value) c11Dom {
	return dc.domain(v, map[ssa.Value]bool{}, 0)
}

func c11JoinDoms(ds []c11Dom) (c11Dom, bool) {
	if len(ds) == 0 {
		return c11Dom{}, false
	}
	out := ds[0]
	if !out.ok {
		return c11Dom{}, false
	}
	if len(ds) > 1 {
		out.isConst = false
	}
	for _, d := range ds[1:] {
		if !d.ok {
			return c11Dom{}, false
		}
		out.neg = out.neg || d.neg
		out.reinterp = out.reinterp || d.reinterp
		if d.hi > out.hi {
			out.hi = d.hi
		}
		if d.declared != out.declared {
			out.declared = 0
		}
	}
	return out, true
}

func (dc *c11DomCtx) domain(v ssa.Value, visiting map[ssa.Value]bool, depth int) c11Dom {
	if v == nil || depth > 24 || visiting[v] {
		if v != nil {
			return c11TypeBound(v.Type())
		}
		return c11Dom{}
	}
	visiting[v] = true
	defer delete(visiting, v)
	switch x := v.(type) {
	case *ssa.Const:
		if x.Value == nil || x.Value.Kind() != constant.Int {
			return c11Dom{}
		}
		if constant.Sign(x.Value) < 0 {
			return c11Dom{ok: true, neg: true, isConst: true}
		}
		u, exact := constant.Uint64Val(x.Value)
		if !exact {
			return c11Dom{}
		}
		return c11Dom{ok: true, hi: u, isConst: true}
	case *ssa.ChangeType:
		return dc.domain(x.X, visiting, depth+1)
	case *ssa.Convert:
		tb, tu, tok := c11BasicInt(x.Type())
		if !tok {
			return c11Dom{}
		}
		if _, _, sok := c11BasicInt(x.X.Type()); !sok {
			return c11TypeBound(x.Type()) // from a non-integer
		}
		d := dc.domain(x.X, visiting, depth+1)
		switch {
		case !d.ok || d.neg:
			if tu {
				return c11TypeBound(x.Type())
			}
			return d
		case tu:
			if d.hi <= c11MaxU(tb) {
				return d
			}
			return c11TypeBound(x.Type())
		default:
			if d.hi <= c11MaxU(tb-1) {
				return d
			}
			if bits.Len64(d.hi) > tb {
				// truncating as well as sign-changing: the surviving low bits are opaque
				return c11Dom{}
			}
			return c11Dom{ok: true, neg: true, reinterp: true, hi: d.hi, declared: d.declared}
		}
	case *ssa.BinOp:
		rb, ru, rok := c11BasicInt(x.Type())
		if !rok {
			return c11Dom{}
		}
		fallback := c11TypeBound(x.Type())
		limit := c11MaxU(rb)
		if !ru {
			limit = c11MaxU(rb - 1)
		}
		a := dc.domain(x.X, visiting, depth+1)
		b := dc.domain(x.Y, visiting, depth+1)
		if !a.ok || a.neg || !b.ok || b.neg {
			return fallback
		}
		fit := func(hi uint64, declared int) c11Dom {
			if hi > limit {
				return fallback
			}
			return c11Dom{ok: true, hi: hi, declared: declared}
		}
		switch x.Op {
		case token.SHL:
			if !b.isConst || b.hi >= 64 || bits.Len64(a.hi)+int(b.hi) > 64 {
				return fallback
			}
			decl := 0
			if a.declared > 0 {
				decl = a.declared + int(b.hi)
			}
			return fit(a.hi<<b.hi, decl)
		case token.SHR:
			if !b.isConst || b.hi >= 64 {
				return fallback
			}
			return fit(a.hi>>b.hi, 0)
		case token.OR, token.XOR:
			n := bits.Len64(a.hi)
			if l := bits.Len64(b.hi); l > n {
				n = l
			}
			decl := 0
			if a.declared > 0 && b.declared > 0 {
				decl = a.declared
				if b.declared > decl {
					decl = b.declared
				}
			}
			return fit(c11MaxU(n), decl)
		case token.AND:
			hi := a.hi
			if b.hi < hi {
				hi = b.hi
			}
			return fit(hi, 0)
		case token.ADD:
			if a.hi+b.hi < a.hi {
				return fallback
			}
			return fit(a.hi+b.hi, 0)
		}
		return fallback
	case *ssa.Phi:
		var ds []c11Dom
		for _, e := range x.Edges {
			if e == ssa.Value(x) {
				continue
			}
			ds = append(ds, dc.domain(e, visiting, depth+1))
		}
		if out, ok := c11JoinDoms(ds); ok {
			out.isConst = false
			return out
		}
		return c11TypeBound(x.Type())
	case *ssa.UnOp:
		if x.Op == token.MUL {
			var vals []ssa.Value
			switch a := x.X.(type) {
			case *ssa.Alloc:
				// local variable: join of the values stored into it
				okAll := true
				for _, r := range *a.Referrers() {
					switch st := r.(type) {
					case *ssa.Store:
						if st.Addr == ssa.Value(a) && st.Val != ssa.Value(a) {
							vals = append(vals, st.Val)
						} else {
							okAll = false
						}
					case *ssa.UnOp, *ssa.DebugRef:
					default:
						okAll = false // address escapes
					}
				}
				if !okAll {
					vals = nil
				}
			case *ssa.Global:
				vals = dc.globals[a]
			}
			var ds []c11Dom
			for _, sv := range vals {
				ds = append(ds, dc.domain(sv, visiting, depth+1))
			}
			if out, ok := c11JoinDoms(ds); ok {
				out.isConst = false
				return out
			}
		}
		return c11TypeBound(x.Type())
	}
	return c11TypeBound(v.Type())
}

func (d c11Dom) String() string {
	switch {
	case !d.ok:
		return "opaque signed value"
	case d.reinterp:
		return fmt.Sprintf("int32 reinterpretation of an unsigned value in [0, %#x]", d.hi)
	case d.neg:
		return "negative constant"
	case d.declared > 0:
		return fmt.Sprintf("%d-bit unsigned domain [0, %#x]", d.declared, d.hi)
	case d.isConst:
		return fmt.Sprintf("constant %d", d.hi)
	}
	return fmt.Sprintf("[0, %#x]", d.hi)
}

// --------------------------------------------------- register value widths --

// c11Width: number of low bits of a register that may be non-zero.
type c11Width struct {
	known    bool
	bits     int
	fromLoad bool   // derived from a memory load (possibly masked / moved)
	tight    bool   // every one of the `bits` low bits carries data (a load, a helper result, a copy of one): not merely an upper bound
	why      string // how it was derived (for messages)
}

func c11JoinWidth(ws []c11Width) c11Width {
	if len(ws) == 0 {
		return c11Width{}
	}
	out := ws[0]
	for _, w := range ws[1:] {
		if !w.known {
			out.known = false
		}
		out.tight = out.tight && w.tight && w.bits == out.bits
		if w.bits > out.bits {
			out.bits = w.bits
		}
		out.fromLoad = out.fromLoad && w.fromLoad
		if w.why != out.why {
			out.why += " | " + w.why
		}
	}
	return out
}

// c11RegState evaluates register values over the emissions of one builder function.
type c11RegState struct {
	m     *c11Model
	ops   map[*types.Func]*c11AsmOp
	split *ssa.Function // maybeSplitProgram: live registers across it are decided by C11.split/caller
	ems   []c11Emission
	dom   *c11DomCtx
	busy  map[string]bool
}

func (s *c11RegState) opOf(e c11Emission) *c11AsmOp {
	if !e.block {
		return nil
	}
	return s.ops[e.cs.Callee]
}

// defines: does emission e (re)define register r?  exact: e is a decoded
// asm.Block emission whose destination register is the constant r (or the
// helper call, which defines R0 and clobbers R1-R5).
func (s *c11RegState) defines(e c11Emission, r int64) (writes, exact bool) {
	if !e.block {
		if calleeFn(e.cs.Common()) == s.split {
			return false, false
		}
		return true, false
	}
	o := s.opOf(e)
	if o == nil {
		// not decoded: fall back on the API shape used by the other C11 rules
		w, _ := s.m.writesReg(e, r)
		return w, false
	}
	switch o.class {
	case "jmp32", "jmp64":
		if o.op == "call" {
			return r <= 5, r <= 5
		}
		return false, false
	case "load", "alu32", "alu64", "ldimm":
		if o.dstArg < 0 {
			return true, false
		}
		d, ok := s.m.regOf(e.cs.Args()[o.dstArg])
		if !ok {
			return true, false
		}
		return d == r, d == r
	}
	// stores and anything else with a first Reg parameter named dst that is not decoded as a writer
	return false, false
}

// reaching: the emissions that may have defined r when `at` executes.
func (s *c11RegState) reaching(at c11Emission, r int64) []c11Emission {
	kills := map[ssa.Instruction]bool{}
	for _, w := range s.ems {
		if wr, exact := s.defines(w, r); wr && exact {
			kills[w.cs.Instr] = true
		}
	}
	var out []c11Emission
	for _, w := range s.ems {
		wr, _ := s.defines(w, r)
		if !wr {
			continue
		}
		if c11PathAvoiding(w.cs.Instr, at.cs.Instr, func(in ssa.Instruction) bool { return kills[in] && in != at.cs.Instr }) {
			out = append(out, w)
		}
	}
	return out
}

// widthAt: join of the widths of r over its reaching definitions at `at`.
func (s *c11RegState) widthAt(at c11Emission, r int64) c11Width {
	key := fmt.Sprintf("%p/%d", at.cs.Instr, r)
	if s.busy[key] {
		return c11Width{known: true, bits: 64, why: "loop-carried value"}
	}
	s.busy[key] = true
	defer delete(s.busy, key)
	defs := s.reaching(at, r)
	if len(defs) == 0 {
		return c11Width{why: fmt.Sprintf("no emission of this function defines R%d before it", r)}
	}
	var ws []c11Width
	for _, d := range defs {
		ws = append(ws, s.widthOfDef(d, r))
	}
	return c11JoinWidth(ws)
}

func c11Cap(w c11Width, class string) c11Width {
	if class == "alu32" && w.bits > 32 {
		w.bits = 32
		w.tight = false
	}
	if w.bits > 64 {
		w.bits = 64
		w.tight = false
	}
	return w
}

func (s *c11RegState) widthOfDef(d c11Emission, r int64) c11Width {
	if _, exact := s.defines(d, r); !exact {
		return c11Width{why: "R" + fmt.Sprint(r) + " may be written by " + d.name + " (not a decoded asm.Block emission)"}
	}
	o := s.opOf(d)
	if o == nil || o.op == "call" {
		if r == 0 {
			return c11Width{known: true, bits: 64, tight: true, why: "helper return value"}
		}
		return c11Width{why: fmt.Sprintf("R%d is clobbered by a helper call", r)}
	}
	args := d.cs.Args()
	full := 64
	if o.class == "alu32" {
		full = 32
	}
	immW := func() (c11Width, c11Dom) {
		if o.immArg < 0 {
			return c11Width{known: true, bits: full, why: "immediate"}, c11Dom{}
		}
		dm := s.dom.of(args[o.immArg])
		if dm.ok && !dm.neg {
			return c11Width{known: true, bits: bits.Len64(dm.hi), why: "immediate " + dm.String()}, dm
		}
		return c11Width{known: true, bits: full, why: "immediate"}, dm
	}
	srcW := func() c11Width {
		if o.srcArg < 0 {
			return c11Width{known: true, bits: full, why: "unknown source"}
		}
		sr, ok := s.m.regOf(args[o.srcArg])
		if !ok {
			return c11Width{why: "source register is not a constant"}
		}
		return s.widthAt(d, sr)
	}
	operand := func() c11Width {
		if o.srcIsReg {
			return srcW()
		}
		w, _ := immW()
		return w
	}
	switch o.class {
	case "load":
		if o.size == 0 {
			return c11Width{why: "load of unknown size"}
		}
		return c11Width{known: true, bits: o.size, fromLoad: true, tight: true, why: fmt.Sprintf("%s (%d-bit zero-extending load)", d.name, o.size)}
	case "ldimm":
		return c11Width{known: true, bits: 64, why: d.name}
	case "alu32", "alu64":
		switch o.op {
		case "mov":
			w := operand()
			w.why = d.name + " of " + w.why
			w.tight = w.tight && o.srcIsReg
			return c11Cap(w, o.class)
		case "and":
			a, b := s.widthAt(d, r), operand()
			if !a.known || !b.known {
				// an unknown operand can only clear bits of the known one
				k := a
				if !a.known {
					k = b
				}
				if k.known {
					k.why = d.name + " with " + k.why
					k.tight = false
					return c11Cap(k, o.class)
				}
				return c11Width{why: a.why}
			}
			w := a
			if b.bits < w.bits {
				w.bits = b.bits
			}
			w.fromLoad = a.fromLoad || b.fromLoad
			w.tight = false
			w.why = d.name + "(" + a.why + ", " + b.why + ")"
			return c11Cap(w, o.class)
		case "or", "xor", "add", "shl", "shr":
			a, b := s.widthAt(d, r), operand()
			if !a.known || !b.known {
				return c11Width{why: a.why + b.why}
			}
			w := c11Width{known: true, fromLoad: false, why: d.name}
			switch o.op {
			case "or", "xor":
				w.bits = a.bits
				if b.bits > w.bits {
					w.bits = b.bits
				}
				w.fromLoad = a.fromLoad && (b.fromLoad || !o.srcIsReg)
			case "add":
				w.bits = a.bits
				if b.bits > w.bits {
					w.bits = b.bits
				}
				w.bits++
			case "shl", "shr":
				k := int64(-1)
				if !o.srcIsReg && o.immArg >= 0 {
					if v, ok := c11ConstInt(args[o.immArg]); ok {
						k = v
					}
				}
				switch {
				case k < 0 || k > 63:
					w.bits = full
				case o.op == "shl":
					w.bits = a.bits + int(k)
				default:
					w.bits = a.bits - int(k)
					if w.bits < 0 {
						w.bits = 0
					}
				}
			}
			return c11Cap(w, o.class)
		}
		return c11Width{known: true, bits: 64, why: d.name + " (operation not modelled)"}
	}
	return c11Width{why: d.name + " is not a decoded register definition"}
}
