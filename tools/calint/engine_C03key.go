package main

import (
	"fmt"
	"go/token"
	"go/types"
	"sort"
	"strings"

	"golang.org/x/tools/go/ssa"
)

// C03.treekey — items handed to the sorted btrees of PolicySorter.
//
// Both trees are ordered by a comparator that reads *mutable data* of the item
// (PolKVLess: the policy's Order; TierLess: the tier's Order and Valid), and
// btree.Delete finds an item by descending with that comparator.  So:
//
//   - Delete must be handed the item as it was inserted: for a tier's policy tree
//     a PolKV whose Value is (a copy of) what that tier's Policies map holds for
//     the same key; for the tier tree a tierInfoKey whose fields are read from the
//     TierInfo before any of them is reassigned.  An item rebuilt from the
//     incoming update misses the stored entry whenever the update changes the sort
//     key, and the stale entry stays in the tree (the policy is then listed in two
//     tiers / the tier twice).
//   - ReplaceOrInsert must be handed what is stored from then on: PolKV{k, v} is
//     accompanied on every path by Policies[k] = *v of the same tier (that is what
//     the next Delete will be rebuilt from); a tierInfoKey's fields are read from
//     the TierInfo after the last reassignment on the path.

type c03KeySrc struct {
	V   ssa.Value
	Via ssa.CallInstruction // non-nil: V lives in the callee of this call (key-building helper)
}

// c03ItemFields resolves the struct value `item` (argument of a tree call at
// instruction `at`) to the values stored into each of its fields on paths
// reaching `at`.  ok=false if the item is not built from a local struct
// variable / composite literal / felix/calc helper returning one.
func c03ItemFields(item ssa.Value, at ssa.Instruction, via ssa.CallInstruction, depth int) (map[string][]c03KeySrc, bool) {
	out := map[string][]c03KeySrc{}
	merge := func(m map[string][]c03KeySrc) {
		for k, v := range m {
			out[k] = append(out[k], v...)
		}
	}
	reaches := func(st ssa.Instruction) bool {
		return st.Parent() == at.Parent() && instrReaches(st, at)
	}
	switch x := item.(type) {
	case *ssa.Phi:
		for _, e := range x.Edges {
			m, ok := c03ItemFields(e, at, via, depth)
			if !ok {
				return nil, false
			}
			merge(m)
		}
		return out, true
	case *ssa.UnOp:
		al, isAlloc := x.X.(*ssa.Alloc)
		if x.Op != token.MUL || !isAlloc || al.Referrers() == nil {
			return nil, false
		}
		n := 0
		for _, r := range *al.Referrers() {
			switch y := r.(type) {
			case *ssa.Store:
				if y.Addr == ssa.Value(al) && reaches(y) {
					m, ok := c03ItemFields(y.Val, y, via, depth)
					if !ok {
						return nil, false
					}
					merge(m)
					n++
				}
			case *ssa.FieldAddr:
				if y.X != ssa.Value(al) || y.Referrers() == nil {
					continue
				}
				for _, rr := range *y.Referrers() {
					if st, ok := rr.(*ssa.Store); ok && st.Addr == ssa.Value(y) && reaches(st) {
						name := fieldName(y.X.Type(), y.Field)
						out[name] = append(out[name], c03KeySrc{st.Val, via})
						n++
					}
				}
			}
		}
		return out, n > 0
	case *ssa.Call:
		g := calleeFn(x.Common())
		if g == nil || g.Blocks == nil || !c03InCalc(g) || depth >= 1 || via != nil {
			return nil, false
		}
		n := 0
		for _, r := range returnsOf(g) {
			if len(r.Results) != 1 {
				return nil, false
			}
			m, ok := c03ItemFields(r.Results[0], r, x, depth+1)
			if !ok {
				return nil, false
			}
			merge(m)
			n++
		}
		return out, n > 0
	}
	return nil, false
}

// c03LeafSet: identity of an object reference: the leaves of its backward slice.
func c03LeafSet(v ssa.Value) map[ssa.Value]bool {
	out := map[ssa.Value]bool{}
	for _, o := range origins(v, nil) {
		out[o.V] = true
	}
	return out
}

func c03Subset(a, b map[ssa.Value]bool) bool {
	if len(a) == 0 {
		return false
	}
	for k := range a {
		if !b[k] {
			return false
		}
	}
	return true
}

// c03FieldBase: v is a load of field fv of some object; returns the object.
func c03FieldBase(v ssa.Value) (*types.Var, ssa.Value, *ssa.UnOp) {
	u, ok := v.(*ssa.UnOp)
	if !ok || u.Op != token.MUL {
		if f, ok := v.(*ssa.Field); ok {
			return structField(f.X.Type(), f.Field), f.X, nil
		}
		return nil, nil, nil
	}
	fa, ok := u.X.(*ssa.FieldAddr)
	if !ok {
		return nil, nil, nil
	}
	return structField(fa.X.Type(), fa.Field), fa.X, u
}

func c03TreeKey(c *Ctx, p *Prog) {
	polsF, _ := p.LookupObj(calcPkg, "TierInfo.Policies").(*types.Var)
	sortedF, _ := p.LookupObj(calcPkg, "TierInfo.SortedPolicies").(*types.Var)
	keyTN, _ := p.LookupObj(calcPkg, "tierInfoKey").(*types.TypeName)
	tiTN, _ := p.LookupObj(calcPkg, "TierInfo").(*types.TypeName)
	kvTN, _ := p.LookupObj(calcPkg, "PolKV").(*types.TypeName)
	if polsF == nil || sortedF == nil || keyTN == nil || tiTN == nil || kvTN == nil {
		c.Lost("calc.TierInfo.Policies / TierInfo.SortedPolicies / tierInfoKey / TierInfo / PolKV")
	}
	tiST, _ := tiTN.Type().Underlying().(*types.Struct)
	if tiST == nil {
		c.Lost("calc.TierInfo is not a struct")
	}
	tierField := func(name string) *types.Var {
		for i := 0; i < tiST.NumFields(); i++ {
			if tiST.Field(i).Name() == name {
				return tiST.Field(i)
			}
		}
		return nil
	}
	keyFields := structFieldNames(keyTN.Type(), false)
	for _, n := range keyFields {
		if tierField(n) == nil {
			c.Lost("tierInfoKey.%s has no TierInfo field of the same name", n)
		}
	}
	pds := map[*ssa.Function]map[*ssa.BasicBlock]map[*ssa.BasicBlock]bool{}
	pd := func(f *ssa.Function) map[*ssa.BasicBlock]map[*ssa.BasicBlock]bool {
		if pds[f] == nil {
			pds[f] = postDominators(f)
		}
		return pds[f]
	}
	// stores to a field of an existing TierInfo, per function
	tierStores := func(fn *ssa.Function, fv *types.Var) []*ssa.Store {
		var out []*ssa.Store
		allInstrs(fn, false, func(_ *ssa.Function, in ssa.Instruction) {
			st, ok := in.(*ssa.Store)
			if !ok {
				return
			}
			fa, ok := st.Addr.(*ssa.FieldAddr)
			if !ok || structField(fa.X.Type(), fa.Field) != fv {
				return
			}
			if _, fresh := fa.X.(*ssa.Alloc); fresh {
				return
			}
			out = append(out, st)
		})
		return out
	}
	// stores to any key field of an existing TierInfo in fn
	tierStoresAny := func(fn *ssa.Function) []*ssa.Store {
		var out []*ssa.Store
		for _, name := range keyFields {
			out = append(out, tierStores(fn, tierField(name))...)
		}
		return out
	}
	callers := map[*ssa.Function][]ssa.CallInstruction{}
	fns := c01SortedFuncs(p)
	for _, f := range fns {
		if !c03InCalc(f) {
			continue
		}
		allInstrs(f, false, func(_ *ssa.Function, in ssa.Instruction) {
			if ci, ok := in.(ssa.CallInstruction); ok {
				if g := calleeFn(ci.Common()); g != nil {
					callers[g] = append(callers[g], ci)
				}
			}
		})
	}

	// stored(v): the leaves of the PolKV.Value operand v.  A pointer to a local
	// copy stands for what was stored into the copy.
	type lookupLeaf struct {
		Base, Key ssa.Value
	}
	var valueLeaves func(fn *ssa.Function, v ssa.Value, depth int) (stored []lookupLeaf, foreign []string)
	valueLeaves = func(fn *ssa.Function, v ssa.Value, depth int) (stored []lookupLeaf, foreign []string) {
		via := map[*ssa.Function]*ssa.Call{}
		translate := func(ci *ssa.Call, v ssa.Value) ssa.Value {
			g := calleeFn(ci.Common())
			if os := origins(v, nil); len(os) == 1 && g != nil {
				for i, q := range g.Params {
					if os[0].V == ssa.Value(q) && i < len(ci.Common().Args) {
						return ci.Common().Args[i]
					}
				}
			}
			return v
		}
		through := func(x ssa.Value) []ssa.Value {
			// the result of a felix/calc helper (e.g. one that returns a copy of the stored value)
			if call, ok := x.(*ssa.Call); ok {
				g := calleeFn(call.Common())
				if g == nil || g.Blocks == nil || !c03InCalc(g) || g.Signature.Results().Len() != 1 || depth >= 1 {
					return nil
				}
				via[g] = call
				var vals []ssa.Value
				for _, r := range returnsOf(g) {
					vals = append(vals, r.Results[0])
				}
				return vals
			}
			al, ok := x.(*ssa.Alloc)
			if !ok || al.Referrers() == nil {
				return nil
			}
			var vals []ssa.Value
			for _, r := range *al.Referrers() {
				if st, ok := r.(*ssa.Store); ok && st.Addr == ssa.Value(al) {
					vals = append(vals, st.Val)
				}
			}
			return vals
		}
		for _, o := range origins(v, through) {
			switch x := o.V.(type) {
			case *ssa.Const:
				if x.Value == nil {
					continue // a nil Value locates nothing; not an item rebuilt from the update
				}
				foreign = append(foreign, "the constant "+path(x))
			case *ssa.Lookup:
				if fv, base, _ := c03FieldBase(x.X); fv == polsF {
					key := x.Index
					if ci := via[x.Parent()]; ci != nil && x.Parent() != fn {
						base, key = translate(ci, base), translate(ci, key)
					}
					stored = append(stored, lookupLeaf{base, key})
					continue
				}
				foreign = append(foreign, path(x))
			case *ssa.Parameter:
				// a helper that is handed the old value: every caller must pass a stored one
				sites := callers[x.Parent()]
				idx := -1
				for i, q := range x.Parent().Params {
					if q == x {
						idx = i
					}
				}
				if depth >= 1 || len(sites) == 0 || idx < 0 {
					foreign = append(foreign, "the parameter "+x.Name())
					continue
				}
				var passed []string
				incoming := false
				for _, ci := range sites {
					if idx >= len(ci.Common().Args) {
						incoming = true
						continue
					}
					a := ci.Common().Args[idx]
					if isNilConst(a) {
						continue
					}
					s, f := valueLeaves(ci.Parent(), a, depth+1)
					if len(f) > 0 || len(s) == 0 {
						incoming = true
						passed = append(passed, fmt.Sprintf("%s in %s", path(a), fnName(ci.Parent())))
					}
					// the caller's lookups are not compared with the callee's tree/key
				}
				if incoming {
					sort.Strings(passed)
					foreign = append(foreign, fmt.Sprintf("the parameter %s (the incoming value: callers pass %s)", x.Name(), strings.Join(c03Uniq(passed), ", ")))
				} else {
					stored = append(stored, lookupLeaf{}) // stored values handed in by every caller
				}
			default:
				foreign = append(foreign, path(o.V))
			}
		}
		return
	}

	// paramIndexOf: v is (a copy of) exactly one parameter of fn; its index, else -1.
	paramIndexOf := func(fn *ssa.Function, v ssa.Value) int {
		os := origins(v, nil)
		if len(os) != 1 {
			return -1
		}
		for i, q := range fn.Params {
			if os[0].V == ssa.Value(q) {
				return i
			}
		}
		return -1
	}
	// liftParam: every field of the item is read (in fn itself) from the object that
	// is one and the same parameter of the named function fn, which has callers in
	// felix/calc: the index of that parameter, else -1.
	liftParam := func(fn *ssa.Function, flds map[string][]c03KeySrc) int {
		if fn.Parent() != nil || len(callers[fn]) == 0 {
			return -1
		}
		idx := -1
		for _, srcs := range flds {
			for _, s := range srcs {
				_, base, _ := c03FieldBase(s.V)
				if s.Via != nil || base == nil {
					return -1
				}
				i := paramIndexOf(fn, base)
				if i < 0 || (idx >= 0 && i != idx) {
					return -1
				}
				idx = i
			}
		}
		return idx
	}
	// liftSites: the call sites at which the object handed to parameter idx of fn is
	// chosen (through at most two more helpers that merely pass their own parameter on).
	var liftSites func(fn *ssa.Function, idx, depth int) []ssa.CallInstruction
	liftSites = func(fn *ssa.Function, idx, depth int) []ssa.CallInstruction {
		var out []ssa.CallInstruction
		for _, ci := range callers[fn] {
			if idx >= len(ci.Common().Args) {
				continue
			}
			g := ci.Parent()
			if j := paramIndexOf(g, ci.Common().Args[idx]); j >= 0 && depth < 2 && g.Parent() == nil && len(callers[g]) > 0 && len(tierStoresAny(g)) == 0 {
				out = append(out, liftSites(g, j, depth+1)...)
				continue
			}
			out = append(out, ci)
		}
		return out
	}

	n := 0
	for _, fn := range fns {
		if !c03InCalc(fn) || fn.Blocks == nil {
			continue
		}
		for _, cs := range callsIn(fn, false, func(f *types.Func) bool {
			return f.Pkg() != nil && f.Pkg().Path() == c03BtreePkg && (f.Name() == "Delete" || f.Name() == "ReplaceOrInsert")
		}) {
			args := cs.Common().Args
			if len(args) != 2 {
				continue
			}
			isDelete := cs.Callee.Name() == "Delete"
			op := map[bool]string{true: "delete", false: "insert"}[isDelete]
			item := args[1]
			site := p.Pos(cs.Instr.Pos())
			switch {
			case types.Identical(types.Unalias(item.Type()), kvTN.Type()):
				n++
				key := "C03.treekey/" + op + "/PolKV@" + fnName(fn)
				fv, treeBase, _ := c03FieldBase(args[0])
				if fv != sortedF {
					c.Undecided(key, site, "%s: the policy tree operated on is not read from a TierInfo.SortedPolicies field (%s)", fnName(fn), path(args[0]))
					continue
				}
				flds, ok := c03ItemFields(item, cs.Instr, nil, 0)
				if !ok || len(flds["Key"]) == 0 || len(flds["Value"]) == 0 {
					c.Undecided(key, site, "%s: the PolKV handed to %s is not a local composite literal with Key and Value set", fnName(fn), cs.Callee.Name())
					continue
				}
				keyRoots := map[string]bool{}
				for _, k := range flds["Key"] {
					keyRoots[c01Root(k.V)] = true
				}
				tb := c03LeafSet(treeBase)
				if isDelete {
					var bad []string
					nStored := 0
					for _, s := range flds["Value"] {
						stored, foreign := valueLeaves(fn, s.V, 0)
						for _, f := range foreign {
							bad = append(bad, "its Value derives from "+f+", not from the value stored in the tier's Policies map")
						}
						for _, l := range stored {
							nStored++
							if l.Base == nil {
								continue
							}
							if !c03Subset(c03LeafSet(l.Base), tb) {
								bad = append(bad, fmt.Sprintf("its Value is read from %s.Policies but the tree is %s.SortedPolicies (another tier)", path(l.Base), path(treeBase)))
							}
							if !keyRoots[c01Root(l.Key)] {
								bad = append(bad, fmt.Sprintf("its Value is read from Policies[%s] but its Key is %s", path(l.Key), path(flds["Key"][0].V)))
							}
						}
					}
					if nStored == 0 && len(bad) == 0 {
						bad = append(bad, "its Value is never read from the tier's Policies map")
					}
					c.Check(len(bad) == 0, key, site,
						"the PolKV deleted from SortedPolicies carries (a copy of) the tier's own Policies[key]",
						fmt.Sprintf("%s deletes a PolKV from %s.SortedPolicies but %s: btree.Delete locates the entry with PolKVLess, i.e. by the policy's order, so when the update changed the order the stored entry is not found and the policy stays listed in this tier", fnName(fn), path(treeBase), strings.Join(c03Uniq(bad), "; ")))
					continue
				}
				// insert: accompanied by Policies[k] = *v on the same tier
				good := false
				allInstrs(fn, false, func(_ *ssa.Function, in ssa.Instruction) {
					mu, ok := in.(*ssa.MapUpdate)
					if !ok {
						return
					}
					mfv, mbase, _ := c03FieldBase(mu.Map)
					if mfv != polsF || !keyRoots[c01Root(mu.Key)] {
						return
					}
					mb := c03LeafSet(mbase)
					if !c03Subset(mb, tb) && !c03Subset(tb, mb) {
						return
					}
					ld, ok := mu.Value.(*ssa.UnOp)
					if !ok || ld.Op != token.MUL {
						return
					}
					same := false
					for _, s := range flds["Value"] {
						if s.V == ld.X || c01Root(s.V) == c01Root(ld.X) {
							same = true
						}
					}
					if same && (instrDominates(in, cs.Instr) || instrPostDominates(pd(fn), in, cs.Instr)) {
						good = true
					}
				})
				c.Check(good, key, site,
					"the PolKV inserted into SortedPolicies is recorded in the same tier's Policies map under the same key on every path",
					fmt.Sprintf("%s inserts PolKV{%s, %s} into %s.SortedPolicies without %s.Policies[same key] = *(same value) on every path: the next update rebuilds the item to delete from the Policies map, misses this entry, and the policy is listed twice", fnName(fn), path(flds["Key"][0].V), path(flds["Value"][0].V), path(treeBase), path(treeBase)))

			case types.Identical(types.Unalias(item.Type()), keyTN.Type()):
				n++
				key := "C03.treekey/" + op + "/tierInfoKey@" + fnName(fn)
				flds, ok := c03ItemFields(item, cs.Instr, nil, 0)
				if !ok {
					c.Undecided(key, site, "%s: the tierInfoKey handed to %s is not built from a local struct / literal / felix/calc helper", fnName(fn), cs.Callee.Name())
					continue
				}
				var bad []string
				var bases []map[ssa.Value]bool
				for _, name := range keyFields {
					want := tierField(name)
					if len(flds[name]) == 0 {
						bad = append(bad, "tierInfoKey."+name+" is never set")
						continue
					}
					bs := map[ssa.Value]bool{}
					for _, s := range flds[name] {
						fv, base, ld := c03FieldBase(s.V)
						if fv != want {
							bad = append(bad, fmt.Sprintf("tierInfoKey.%s is taken from %s, not from the stored TierInfo.%s", name, path(s.V), name))
							continue
						}
						var when ssa.Instruction = ld
						if s.Via != nil {
							// built in a helper: the object is the helper's argument, read when it is called
							g := calleeFn(s.Via.Common())
							var act ssa.Value
							if os := origins(base, nil); len(os) == 1 && g != nil {
								for i, q := range g.Params {
									if os[0].V == ssa.Value(q) && i < len(s.Via.Common().Args) {
										act = s.Via.Common().Args[i]
									}
								}
							}
							if act == nil {
								bad = append(bad, fmt.Sprintf("tierInfoKey.%s is read in %s from %s, which is not one of its parameters", name, fnName(g), path(base)))
								continue
							}
							base, when = act, s.Via
						}
						if when == nil {
							continue
						}
						for k := range c03LeafSet(base) {
							bs[k] = true
						}
						for _, st := range tierStores(fn, want) {
							if isDelete && instrReaches(st, when) {
								bad = append(bad, fmt.Sprintf("tierInfoKey.%s is read after TierInfo.%s was reassigned at %s (the tree still holds the old value)", name, name, p.Pos(st.Pos())))
							}
							if !isDelete && instrReaches(when, st) && instrReaches(st, cs.Instr) {
								bad = append(bad, fmt.Sprintf("tierInfoKey.%s is read before TierInfo.%s is reassigned at %s (the tree gets the old value)", name, name, p.Pos(st.Pos())))
							}
						}
					}
					if len(bs) > 0 {
						bases = append(bases, bs)
					}
				}
				for i := 1; i < len(bases); i++ {
					if !c03Subset(bases[i], bases[0]) || !c03Subset(bases[0], bases[i]) {
						bad = append(bad, "its fields are read from different TierInfo objects")
						break
					}
				}
				what := map[bool]string{true: "before any of them is reassigned", false: "after their last reassignment"}[isDelete]
				// The tree operation sits in a helper that is handed the TierInfo: "before any
				// field is reassigned" / "after the last reassignment" is then a property of
				// each call site (one instance per site, judged in the caller).
				if idx := liftParam(fn, flds); idx >= 0 && len(bad) == 0 {
					for _, ls := range liftSites(fn, idx, 0) {
						n++
						g := ls.Parent()
						lkey := "C03.treekey/" + op + "/tierInfoKey@" + fnName(g)
						var lbad []string
						for _, name := range keyFields {
							for _, st := range tierStores(g, tierField(name)) {
								if isDelete && instrReaches(st, ls) {
									lbad = append(lbad, fmt.Sprintf("%s rebuilds tierInfoKey.%s from the TierInfo after TierInfo.%s was reassigned at %s (the tree still holds the old value)", fnName(fn), name, name, p.Pos(st.Pos())))
								}
							}
						}
						c.Check(len(lbad) == 0, lkey, p.Pos(ls.Pos()),
							fmt.Sprintf("the TierInfo is handed to %s (which builds the tierInfoKey from it and calls %s) %s", fnName(fn), cs.Callee.Name(), what),
							fmt.Sprintf("%s hands btree %s (in %s) a tierInfoKey that does not mirror the TierInfo as the tree knows it: %s — TierLess orders by Valid/Order/Name, so the entry is looked up at the wrong position and a stale duplicate of the tier stays in the sorted tree", fnName(g), cs.Callee.Name(), fnName(fn), strings.Join(c03Uniq(lbad), "; ")))
					}
				}
				c.Check(len(bad) == 0, key, site,
					"every field of the tierInfoKey is read from the same-named field of one TierInfo, "+what,
					fmt.Sprintf("%s hands btree %s a tierInfoKey that does not mirror the TierInfo as the tree knows it: %s — TierLess orders by Valid/Order/Name, so the entry is looked up (or filed) at the wrong position and a stale duplicate of the tier stays in the sorted tree", fnName(fn), cs.Callee.Name(), strings.Join(c03Uniq(bad), "; ")))
			}
		}
	}
	if n == 0 {
		c.Lost("no Delete/ReplaceOrInsert on a btree of PolKV / tierInfoKey in felix/calc")
	}
}

func c03Uniq(ss []string) []string {
	seen := map[string]bool{}
	var out []string
	for _, s := range ss {
		if !seen[s] {
			seen[s] = true
			out = append(out, s)
		}
	}
	sort.Strings(out)
	return out
}
