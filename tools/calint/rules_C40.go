package main

import (
	"fmt"
	"go/constant"
	"go/token"
	"go/types"
	"sort"
	"strings"

	"golang.org/x/tools/go/ssa"
)

func init() {
	register(&Property{
		ID:        "C40",
		Title:     "Host protection and workload isolation hold on every packet path",
		Technique: "static analysis: builder-chain facts of generictables.Rule literals, rule order inside append chains, constant argument tuples across sibling call sites, end-rules data flow into every dispatch Chain literal (go/ssa over felix/rules)",
		DesignRef: "DESIGN.md §3 C40",
		Explanation: "Decides structural clauses on the static and per-endpoint chain renderers. (tuples) at every call of endpointIptablesChain the policy prefix, profile prefix, NFLOG group, RuleDir and " +
			"policy type all have the direction implied by the endpoint-chain prefix, and host-endpoint (non-forward) chains of every type get the failsafe chain of their direction. (failsafefirst) inside " +
			"endpointIptablesChain the failsafe jump is unconditional, exists whenever a failsafe chain is given, and no policy/profile jump or deny rule is placed before it. (failsafe) failsafeInChain/" +
			"failsafeOutChain only emit Allow rules whose protocol/port come from the configured inbound/outbound list appropriate for the chain and port side, and both chains are rendered for the filter, " +
			"mangle and raw tables. (tunnel) in filterInputChain each allow-from-host-IP-set rule for IPIP/VXLAN is immediately followed by a deny whose match is the allow's match without the source set, " +
			"and nothing but tunnel rules is placed before them. (tunnelindep) whether a tunnel filter pair is rendered depends only on its own enable flag and the IP version: the CFG of filterInputChain is " +
			"evaluated under every assignment of the bool config fields gating a tunnel filter × every IP version compared, and a flag that is necessary for another tunnel's filter must be a don't-care for this one " +
			"(independent ifs merged into a switch/else-if chain, '&& !otherTunnel' conjuncts and early exits under another tunnel's flag are reported). (unknown) INPUT sends InInterface(workload prefix+wildcard) to the workload-to-host chain before any host-endpoint accept, FORWARD " +
			"jumps to the from-workload dispatch chain for the same match. (wl2host) the workload-to-host chain jumps unconditionally to the from-workload dispatch chain before applying the configured " +
			"endpoint-to-host action. " +
			"(unknowndrop, endrules — shared with C10) the dispatch chains those rules lead to drop what they do not know: every dispatch build for a workload prefix is given exactly one unconditional deny as end rules, " +
			"the dispatcher hands its end-rules parameter to both the prefix-tree and the nftables verdict-map builder, and every Chain literal either builder constructs stores Rules = append(…, endRules...) " +
			"(a chain built from the slice before the append loses the drop and unmatched packets RETURN to INPUT/FORWARD).",
		NotDecided: "Whole-path verdicts over all tables; the per-interface contents of the dispatch chains (C10: leaf rules, prefix tree, verdict-map members); that the kernel hooks are wired to these chains; conntrack rules and QoS rules that precede the failsafe jump by design; " +
			"BPF-mode chains.",
		Assumptions: []string{
			"go/types + go/ssa (x/tools v0.50.0) model of the current source, CGO_ENABLED=0 build",
			"direction table of exported constants in rules_C40.go (endpoint-chain prefix → ingress/egress, failsafe chain)",
			"ActionFactory.Allow/Drop/Jump/GoTo/Return render the verdict their name says",
		},
		Run: runC40,
		Fixtures: []Fixture{
			{Name: "host egress chain evaluates inbound policy chains", File: "felix/rules/endpoints.go",
				Old: "\t\t\tifaceName,\n\t\t\tPolicyOutboundPfx,\n\t\t\tProfileOutboundPfx,\n\t\t\tHostToEndpointPfx,\n\t\t\tChainFailsafeOut,\n\t\t\tchainTypeNormal,\n\t\t\ttrue, // Host endpoints are always admin up.\n\t\t\tNFLOGOutboundGroup,\n\t\t\tRuleDirEgress,\n\t\t\tegressPolicy,\n\t\t\tr.filterAllowAction,",
				New: "\t\t\tifaceName,\n\t\t\tPolicyInboundPfx,\n\t\t\tProfileOutboundPfx,\n\t\t\tHostToEndpointPfx,\n\t\t\tChainFailsafeOut,\n\t\t\tchainTypeNormal,\n\t\t\ttrue, // Host endpoints are always admin up.\n\t\t\tNFLOGOutboundGroup,\n\t\t\tRuleDirEgress,\n\t\t\tegressPolicy,\n\t\t\tr.filterAllowAction,", Expect: "C40.tuples/DefaultRuleRenderer.HostEndpointToFilterChains"},
			{Name: "pre-DNAT host chain without failsafes", File: "felix/rules/endpoints.go",
				Old: "\t\t\tHostFromEndpointPfx,\n\t\t\tChainFailsafeIn,\n\t\t\tchainTypePreDNAT,", New: "\t\t\tHostFromEndpointPfx,\n\t\t\t\"\",\n\t\t\tchainTypePreDNAT,", Expect: "C40.tuples/DefaultRuleRenderer.HostEndpointToMangleIngressChains"},
			{Name: "untracked egress chain uses the inbound failsafes", File: "felix/rules/endpoints.go",
				Old: "\t\tHostToEndpointPfx,\n\t\tChainFailsafeOut,\n\t\tchainTypeUntracked,", New: "\t\tHostToEndpointPfx,\n\t\tChainFailsafeIn,\n\t\tchainTypeUntracked,", Expect: "C40.tuples/DefaultRuleRenderer.HostEndpointToRawEgressChain"},
			{Name: "workload ingress chain reads the egress policy groups", File: "felix/rules/endpoints.go",
				Old: "\t\t\tRuleDirIngress,\n\t\t\tingressPolicy,\n\t\t\tr.filterAllowAction, // Workload endpoint chains are only used in the filter table\n\t\t\talwaysAllowVXLANEncap,", New: "\t\t\tRuleDirIngress,\n\t\t\tegressPolicy,\n\t\t\tr.filterAllowAction, // Workload endpoint chains are only used in the filter table\n\t\t\talwaysAllowVXLANEncap,", Expect: "C40.tuples/DefaultRuleRenderer.WorkloadEndpointToIptablesChains"},
			{Name: "failsafe jump removed from endpoint chains", File: "felix/rules/endpoints.go",
				Old: "\t// First set up failsafes.\n\tif failsafeChain != \"\" {\n\t\trules = append(rules, generictables.Rule{\n\t\t\tMatch:  r.NewMatch(),\n\t\t\tAction: r.Jump(failsafeChain),\n\t\t})\n\t}\n", New: "",
				Expect: "C40.failsafefirst/exists"},
			{Name: "TCP denied ahead of the failsafe jump", File: "felix/rules/endpoints.go",
				Old: "\t// First set up failsafes.\n\tif failsafeChain != \"\" {\n", New: "\trules = append(rules, generictables.Rule{Match: r.NewMatch().ProtocolNum(ProtoTCP), Action: r.IptablesFilterDenyAction()})\n\tif failsafeChain != \"\" {\n",
				Expect: "C40.failsafefirst/order"},
			{Name: "failsafe jump only for new connections", File: "felix/rules/endpoints.go",
				Old: "\t\t\tMatch:  r.NewMatch(),\n\t\t\tAction: r.Jump(failsafeChain),", New: "\t\t\tMatch:  r.NewMatch().ConntrackState(\"NEW\"),\n\t\t\tAction: r.Jump(failsafeChain),", Expect: "C40.failsafefirst/unconditional"},
			{Name: "outbound failsafe chain built from the inbound port list", File: "felix/rules/static.go",
				Old: "func (r *DefaultRuleRenderer) failsafeOutChain(table string, ipVersion uint8) *generictables.Chain {\n\trules := []generictables.Rule{}\n\n\tfor _, protoPort := range r.FailsafeOutboundHostPorts {",
				New: "func (r *DefaultRuleRenderer) failsafeOutChain(table string, ipVersion uint8) *generictables.Chain {\n\trules := []generictables.Rule{}\n\n\tfor _, protoPort := range r.FailsafeInboundHostPorts {", Expect: "C40.failsafe/DefaultRuleRenderer.failsafeOutChain"},
			{Name: "inbound failsafe matches the source port", File: "felix/rules/static.go",
				Old: "\tfor _, protoPort := range r.FailsafeInboundHostPorts {\n\t\trule := generictables.Rule{\n\t\t\tMatch: r.NewMatch().\n\t\t\t\tProtocol(protoPort.Protocol).\n\t\t\t\tDestPorts(protoPort.Port),\n\t\t\tAction: r.Allow(),\n\t\t}\n\n\t\tif protoPort.Net != \"\" {\n\t\t\tip, _, err := cnet.ParseCIDROrIP(protoPort.Net)\n\t\t\tif err != nil {\n\t\t\t\tlog.WithError(err).Error(\"Failed to parse CIDR in inbound",
				New: "\tfor _, protoPort := range r.FailsafeInboundHostPorts {\n\t\trule := generictables.Rule{\n\t\t\tMatch: r.NewMatch().\n\t\t\t\tProtocol(protoPort.Protocol).\n\t\t\t\tSourcePorts(protoPort.Port),\n\t\t\tAction: r.Allow(),\n\t\t}\n\n\t\tif protoPort.Net != \"\" {\n\t\t\tip, _, err := cnet.ParseCIDROrIP(protoPort.Net)\n\t\t\tif err != nil {\n\t\t\t\tlog.WithError(err).Error(\"Failed to parse CIDR in inbound", Expect: "C40.failsafe/DefaultRuleRenderer.failsafeInChain"},
			{Name: "mangle table rendered without the inbound failsafe chain", File: "felix/rules/static.go",
				Old: "\t\tr.failsafeInChain(\"mangle\", ipVersion),\n", New: "", Expect: "C40.failsafe/tables/failsafeInChain"},
			{Name: "IPIP from non-Calico hosts no longer denied", File: "felix/rules/static.go",
				Old: "\t\t\tgenerictables.Rule{\n\t\t\t\tMatch:   r.NewMatch().ProtocolNum(ProtoIPIP),\n\t\t\t\tAction:  r.IptablesFilterDenyAction(),\n\t\t\t\tComment: []string{fmt.Sprintf(\"%s IPIP packets from non-Calico hosts\", r.IptablesFilterDenyAction())},\n\t\t\t},\n", New: "", Expect: "C40.tunnel/"},
			{Name: "IPv6 VXLAN drop narrowed to a different port", File: "felix/rules/static.go",
				Old: "\t\t\t\t\tDestPorts(uint16(r.Config.VXLANPort)).\n\t\t\t\t\tDestAddrType(generictables.AddrTypeLocal),\n\t\t\t\tAction:  r.IptablesFilterDenyAction(),", New: "\t\t\t\t\tDestPorts(uint16(r.Config.WireguardListeningPortV6)).\n\t\t\t\t\tDestAddrType(generictables.AddrTypeLocal),\n\t\t\t\tAction:  r.IptablesFilterDenyAction(),", Expect: "C40.tunnel/"},
			{Name: "already-accepted packets bypass the tunnel filters", File: "felix/rules/static.go",
				Old: "func (r *DefaultRuleRenderer) filterInputChain(ipVersion uint8) *generictables.Chain {\n\tvar inputRules []generictables.Rule\n", New: "func (r *DefaultRuleRenderer) filterInputChain(ipVersion uint8) *generictables.Chain {\n\tvar inputRules []generictables.Rule\n\tinputRules = append(inputRules, r.acceptAlreadyAccepted()...)\n", Expect: "C40.tunnel/first"},
			{Name: "IPv4 VXLAN filter chained as else-if of the IPIP filter", File: "felix/rules/static.go",
				Old: "\t}\n\n\tif ipVersion == 4 && r.VXLANEnabled {\n\t\t// IPv4 VXLAN is enabled, filter incoming", New: "\t} else if ipVersion == 4 && r.VXLANEnabled {\n\t\t// IPv4 VXLAN is enabled, filter incoming", Expect: "C40.tunnelindep/DefaultRuleRenderer.filterInputChain"},
			{Name: "IPv6 VXLAN filter skipped when IPv4 VXLAN is on", File: "felix/rules/static.go",
				Old: "\tif ipVersion == 6 && r.VXLANEnabledV6 {\n\t\t// IPv6 VXLAN is enabled, filter incoming", New: "\tif ipVersion == 6 && r.VXLANEnabledV6 && !r.VXLANEnabled {\n\t\t// IPv6 VXLAN is enabled, filter incoming", Expect: "C40.tunnelindep/DefaultRuleRenderer.filterInputChain"},
			{Name: "IPIP filter only rendered for IPIP-only clusters", File: "felix/rules/static.go",
				Old: "\tif ipVersion == 4 && r.IPIPEnabled {\n\t\t// IPIP is enabled, filter incoming", New: "\tif ipVersion == 4 && r.IPIPEnabled && !r.VXLANEnabled {\n\t\t// IPIP is enabled, filter incoming", Expect: "C40.tunnelindep/DefaultRuleRenderer.filterInputChain"},
			{Name: "INPUT accepts raw-accepted packets before workload dispatch", File: "felix/rules/static.go",
				Old: "\t// Apply our policy to packets coming from workload endpoints.\n\tfor _, prefix := range r.WorkloadIfacePrefixes {\n\t\tlog.WithField(\"ifacePrefix\", prefix).Debug(\"Adding workload match rules\")\n\t\tifaceMatch := prefix + r.wildcard\n\t\tinputRules = append(inputRules, generictables.Rule{\n\t\t\tMatch:  r.NewMatch().InInterface(ifaceMatch),\n\t\t\tAction: r.GoTo(ChainWorkloadToHost),\n\t\t})\n\t}\n\n\t// Now we only have ingress host endpoint processing to do.  The ingress host endpoint may\n\t// have already accepted this packet in the raw or mangle table.  In that case, accept the\n\t// packet immediately here too.\n\tinputRules = append(inputRules, r.acceptAlreadyAccepted()...)\n",
				New: "\tinputRules = append(inputRules, r.acceptAlreadyAccepted()...)\n\tfor _, prefix := range r.WorkloadIfacePrefixes {\n\t\tifaceMatch := prefix + r.wildcard\n\t\tinputRules = append(inputRules, generictables.Rule{\n\t\t\tMatch:  r.NewMatch().InInterface(ifaceMatch),\n\t\t\tAction: r.GoTo(ChainWorkloadToHost),\n\t\t})\n\t}\n", Expect: "C40.unknown/input"},
			{Name: "FORWARD from-workload jump only for tcp", File: "felix/rules/static.go",
				Old: "\t\t\t\tMatch:  r.NewMatch().InInterface(ifaceMatch),\n\t\t\t\tAction: r.Jump(ChainFromWorkloadDispatch),", New: "\t\t\t\tMatch:  r.NewMatch().InInterface(ifaceMatch).Protocol(\"tcp\"),\n\t\t\t\tAction: r.Jump(ChainFromWorkloadDispatch),", Expect: "C40.unknown/forward"},
			{Name: "nftables root dispatch chain built from the rule slice before the end rules are appended (seeded C40-4 shape)", File: "felix/rules/dispatch.go",
				Old: "\tlog.Debug(\"Adding end rules at end of root chain\")\n\trootRules = append(rootRules, endRules...)\n\n\trootChain := &generictables.Chain{\n\t\tName:  chainName,\n\t\tRules: rootRules,\n\t}\n\treturn nil, rootChain, rootRules",
				New: "\trootChain := &generictables.Chain{\n\t\tName:  chainName,\n\t\tRules: rootRules,\n\t}\n\trootRules = append(rootRules, endRules...)\n\treturn nil, rootChain, rootRules", Expect: "C40.endrules/DefaultRuleRenderer.buildSingleDispatchChainsVMAP/root"},
			{Name: "iptables child dispatch chains lose the unknown-interface drop", File: "felix/rules/dispatch.go",
				Old: "\t\t\tchildEndpointRules = append(childEndpointRules, endRules...)\n", New: "", Expect: "C40.endrules/DefaultRuleRenderer.buildSingleDispatchChainTree/child"},
			{Name: "dispatcher drops the end rules on the verdict-map path", File: "felix/rules/dispatch.go",
				Old: "\t\t\tchainName,\n\t\t\tendpointPfx,\n\t\t\tendRules,\n\t\t)", New: "\t\t\tchainName,\n\t\t\tendpointPfx,\n\t\t\tnil,\n\t\t)", Expect: "C40.endrules/DefaultRuleRenderer.buildSingleDispatchChains/pass-vmap"},
			{Name: "unknown workload interface RETURNs to INPUT/FORWARD instead of being dropped", File: "felix/rules/dispatch.go",
				Old: "\tendRules := []generictables.Rule{\n\t\t{\n\t\t\tMatch:   r.NewMatch(),\n\t\t\tAction:  r.IptablesFilterDenyAction(),\n\t\t\tComment: []string{\"Unknown interface\"},\n\t\t},\n\t}\n\treturn r.interfaceNameDispatchChains(",
				New: "\tendRules := []generictables.Rule{\n\t\t{\n\t\t\tMatch:   r.NewMatch(),\n\t\t\tAction:  r.Return(),\n\t\t\tComment: []string{\"Unknown interface\"},\n\t\t},\n\t}\n\treturn r.interfaceNameDispatchChains(", Expect: "C40.unknowndrop/DefaultRuleRenderer.WorkloadDispatchChains"},
			{Name: "to-workload dispatch chain gets no unknown-interface drop", File: "felix/rules/dispatch.go",
				Old: "\t\tChainToWorkloadDispatch,\n\t\tendRules,\n\t\tendRules,\n\t)", New: "\t\tChainToWorkloadDispatch,\n\t\tendRules,\n\t\tnil,\n\t)", Expect: "C40.unknowndrop/DefaultRuleRenderer.WorkloadDispatchChains/WorkloadToEndpointPfx"},
			{Name: "endpoint-to-host action applied before workload egress policy", File: "felix/rules/static.go",
				Old: "\t// Now send traffic to the policy chains to apply the egress policy.\n\trules = append(rules, generictables.Rule{\n\t\tAction: r.Jump(ChainFromWorkloadDispatch),\n\t})\n\n\t// If the dispatch chain accepts the packet, it returns to us here.  Apply the configured\n\t// action.  Note: we may have done work above to allow the packet and then end up dropping\n\t// it here.  We can't optimize that away because there may be other rules (such as log\n\t// rules in the policy).\n\tfor _, action := range r.inputAcceptActions {\n\t\trules = append(rules, generictables.Rule{\n\t\t\tAction:  action,\n\t\t\tComment: []string{\"Configured DefaultEndpointToHostAction\"},\n\t\t})\n\t}\n",
				New: "\tfor _, action := range r.inputAcceptActions {\n\t\trules = append(rules, generictables.Rule{\n\t\t\tAction:  action,\n\t\t\tComment: []string{\"Configured DefaultEndpointToHostAction\"},\n\t\t})\n\t}\n\trules = append(rules, generictables.Rule{\n\t\tAction: r.Jump(ChainFromWorkloadDispatch),\n\t})\n", Expect: "C40.wl2host/order"},
			{Name: "workload-to-host chain skips the dispatch chain", File: "felix/rules/static.go",
				Old: "\t// Now send traffic to the policy chains to apply the egress policy.\n\trules = append(rules, generictables.Rule{\n\t\tAction: r.Jump(ChainFromWorkloadDispatch),\n\t})\n", New: "", Expect: "C40.wl2host/jump"},
		},
	})
}

type c40Dir struct {
	Ingress  bool
	Failsafe string // exported constant that must be passed as failsafe chain ("" = not required)
}

// endpoint-chain prefix constant → policy direction seen from the endpoint, and
// the failsafe chain required for host endpoints.
var c40DirTable = map[string]c40Dir{
	"WorkloadToEndpointPfx":      {true, ""},
	"WorkloadFromEndpointPfx":    {false, ""},
	"HostToEndpointPfx":          {false, "ChainFailsafeOut"},
	"HostFromEndpointPfx":        {true, "ChainFailsafeIn"},
	"HostToEndpointForwardPfx":   {false, ""},
	"HostFromEndpointForwardPfx": {true, ""},
}

type c40Model struct {
	c     *Ctx
	p     *Prog
	funcs []*ssa.Function
	lits  map[*ssa.Function][]*c10Lit
	deny  *types.Func
	// tunnel allow-from-host-set literals of filterInputChain, found by checkTunnel
	tunnelAllows []*c10Lit
}

func (m *c40Model) litsOf(fn *ssa.Function) []*c10Lit {
	if l, ok := m.lits[fn]; ok {
		return l
	}
	l := c10RuleLits(fn)
	m.lits[fn] = l
	return l
}

func (m *c40Model) fn(name string) *ssa.Function {
	return c10MustFunc(m.c, m.p, c10RulesPkg, "DefaultRuleRenderer."+name)
}

func (m *c40Model) isDeny(a c10Action) bool {
	return a.Kind == "method" && a.Call != nil && calleeOf(a.Call.Common()) == m.deny
}

func runC40(c *Ctx) {
	p := c.Load(c10RulesPkg)
	m := &c40Model{c: c, p: p, lits: map[*ssa.Function][]*c10Lit{}}
	for _, f := range p.AllFuncs() {
		if f.Pkg != nil && f.Pkg.Pkg.Path() == calicoPrefix+c10RulesPkg && f.Parent() == nil {
			m.funcs = append(m.funcs, f)
		}
	}
	d, _ := p.LookupObj(c10RulesPkg, "DefaultRuleRenderer.IptablesFilterDenyAction").(*types.Func)
	if d == nil {
		c.Lost("DefaultRuleRenderer.IptablesFilterDenyAction")
	}
	m.deny = d

	c.Rule("C40.tuples", "E-CONST", "every endpointIptablesChain call: policy/profile prefix, NFLOG group, RuleDir, policy type have the direction of the endpoint prefix; host (non-forward) prefixes get the failsafe chain of their direction", 10)
	c.Rule("C40.failsafefirst", "E-ORDER", "in endpointIptablesChain the failsafe jump exists under failsafeChain != \"\", is unconditional, and no policy/profile jump or deny rule is placed before it", 3)
	c.Rule("C40.failsafe", "E-CONST", "failsafeIn/OutChain rule literals: Action Allow; Protocol/port taken from the inbound/outbound failsafe list that fits chain and port side; source-port variants only under table==raw; both chains rendered for filter, mangle, raw", 10)
	c.Rule("C40.tunnel", "E-CONST/E-ORDER", "filterInputChain: each allow-from-host-set tunnel rule is immediately followed by a deny with the same match minus the source set; only tunnel rules precede them", 4)
	c.Rule("C40.tunnelindep", "E-GUARD", "filterInputChain: whether a tunnel filter pair (IPIP, IPv4 VXLAN, IPv6 VXLAN) is rendered depends only on its own enable flag and the IP version: for every IP version and every assignment of the tunnel enable flags, flipping a flag that enables ANOTHER tunnel's filter never changes whether this one is rendered", 3)
	c.Rule("C40.unknown", "E-CONST/E-ORDER", "INPUT: InInterface(workload prefix+wildcard) → GoTo(workload-to-host chain) before any host-endpoint accept; FORWARD: same match → Jump(from-workload dispatch)", 2)
	c.Rule("C40.endrules", "E-FLOW", "the dispatch chains the INPUT/FORWARD workload rules send packets to really end in the caller's end rules (the unknown-interface drop): every generictables.Chain literal built by buildSingleDispatchChainTree/VMAP stores Rules = append(…, endRules-parameter...), and the dispatcher hands its own end-rules parameter to both builders (shared with C10: c10Model.deriveRoles/checkEndRules)", 5)
	c.Rule("C40.unknowndrop", "E-CONST", "every dispatch build for a workload endpoint prefix (from-workload, to-workload, special-allow) is given end rules that are exactly one unconditional IptablesFilterDenyAction rule (shared with C10: c10Model.unknownDrop)", 3)
	c.Rule("C40.wl2host", "E-ORDER", "workload-to-host chain: unconditional Jump(from-workload dispatch) placed before the configured endpoint-to-host action rules", 2)

	m.checkFailsafeFirst() // before checkTuples: that one loses its failsafe-role anchor when the jump is gone
	m.checkTuples()
	m.checkFailsafeChains()
	m.checkTunnel()
	m.checkTunnelIndep()
	m.checkUnknown()
	m.checkWl2Host()
	m.checkDispatchDrop()
}

// ------------------------------------------------------------------ tuples --

func c40ConstObj(c *Ctx, p *Prog, name string) *types.Const {
	k, ok := p.LookupObj(c10RulesPkg, name).(*types.Const)
	if !ok {
		c.Lost("constant felix/rules.%s", name)
	}
	return k
}

func c40SameConst(v ssa.Value, k *types.Const) bool {
	cv, ok := constOf(v)
	if !ok {
		return false
	}
	// constant.Compare silently compares x with itself when the kinds differ
	if cv.Kind() != k.Val().Kind() {
		return false
	}
	return constant.Compare(cv, token.EQL, k.Val())
}

func (m *c40Model) checkTuples() {
	c, p := m.c, m.p
	fn := m.fn("endpointIptablesChain")
	epcn, _ := p.LookupObj(c10RulesPkg, "EndpointChainName").(*types.Func)
	if epcn == nil {
		c.Lost("EndpointChainName")
	}
	// roles
	byType := func(tn string) int {
		ps := c10ParamsOfType(fn, func(t types.Type) bool { return qualTypeName(t) == c10RulesPkg+"."+tn })
		if len(ps) != 1 {
			c.Lost("%s: exactly one parameter of type %s (found %d)", fnName(fn), tn, len(ps))
		}
		return c10ParamIndex(fn, ps[0])
	}
	role := map[string]int{
		"policyPrefix":  byType("PolicyChainNamePrefix"),
		"profilePrefix": byType("ProfileChainNamePrefix"),
		"dir":           byType("RuleDir"),
	}
	u16 := c10ParamsOfType(fn, func(t types.Type) bool { b, ok := t.(*types.Basic); return ok && b.Kind() == types.Uint16 })
	if len(u16) != 1 {
		c.Lost("%s: exactly one uint16 parameter (NFLOG group)", fnName(fn))
	}
	role["nflogGroup"] = c10ParamIndex(fn, u16[0])
	role["endpointPrefix"], role["failsafe"], role["policyType"] = -1, -1, -1
	ingressK := c40ConstObj(c, p, "ingressPolicy")
	allInstrs(fn, false, func(_ *ssa.Function, in ssa.Instruction) {
		switch x := in.(type) {
		case *ssa.Call:
			if calleeOf(x.Common()) == epcn {
				role["endpointPrefix"] = c10ParamIndex(fn, x.Common().Args[0])
			}
		case *ssa.BinOp:
			if x.Op == token.EQL || x.Op == token.NEQ {
				for _, pr := range [][2]ssa.Value{{x.X, x.Y}, {x.Y, x.X}} {
					if i := c10ParamIndex(fn, pr[0]); i >= 0 && c40SameConst(pr[1], ingressK) {
						role["policyType"] = i
					}
				}
			}
		}
	})
	for _, l := range m.litsOf(fn) {
		if a, ok := l.Action(); ok && a.Kind == "factory" && a.Name == "Jump" {
			if i := c10ParamIndex(fn, a.Args[0]); i >= 0 {
				role["failsafe"] = i
			}
		}
	}
	for r, i := range role {
		if i < 0 {
			c.Lost("%s: parameter playing role %s", fnName(fn), r)
		}
	}

	want := map[bool]map[string]string{
		true:  {"policyPrefix": "PolicyInboundPfx", "profilePrefix": "ProfileInboundPfx", "nflogGroup": "NFLOGInboundGroup", "dir": "RuleDirIngress", "policyType": "ingressPolicy"},
		false: {"policyPrefix": "PolicyOutboundPfx", "profilePrefix": "ProfileOutboundPfx", "nflogGroup": "NFLOGOutboundGroup", "dir": "RuleDirEgress", "policyType": "egressPolicy"},
	}
	pfxByVal := map[string]string{}
	for name := range c40DirTable {
		pfxByVal[c10ConstStr(c, p, c10RulesPkg, name)] = name
	}
	calls := c10StaticCallers(m.funcs, fn)
	if len(calls) == 0 {
		c.Lost("no call of %s", fnName(fn))
	}
	for _, cs := range calls {
		args := cs.Common().Args
		site := p.Pos(cs.Instr.Pos())
		pv, ok := c10StrConst(args[role["endpointPrefix"]])
		pfxName, known := pfxByVal[pv]
		if !ok || !known {
			c.Undecided("C40.tuples/"+fnName(cs.Fn)+"/unresolved", site, "endpoint prefix %s is not one of the constants of the direction table", path(args[role["endpointPrefix"]]))
			continue
		}
		row := c40DirTable[pfxName]
		key := fmt.Sprintf("C40.tuples/%s/%s", fnName(cs.Fn), pfxName)
		var bad []string
		rs := sortedKeys(want[row.Ingress])
		for _, r := range rs {
			k := c40ConstObj(c, p, want[row.Ingress][r])
			if !c40SameConst(args[role[r]], k) {
				bad = append(bad, fmt.Sprintf("%s is %s, expected %s", r, path(args[role[r]]), k.Name()))
			}
		}
		fs, fsConst := c10StrConst(args[role["failsafe"]])
		if row.Failsafe != "" {
			if !fsConst || fs != c10ConstStr(c, p, c10RulesPkg, row.Failsafe) {
				bad = append(bad, fmt.Sprintf("failsafe chain is %s, expected %s: host traffic on the failsafe ports can be blocked by this chain's policy", path(args[role["failsafe"]]), row.Failsafe))
			}
		} else if !fsConst {
			bad = append(bad, "failsafe chain is not a constant")
		}
		dirS := map[bool]string{true: "ingress", false: "egress"}[row.Ingress]
		c.Check(len(bad) == 0, key, site, fmt.Sprintf("%s chain: all direction-bearing arguments are %s; failsafe %q", pfxName, dirS, fs),
			fmt.Sprintf("%s is an %s chain but %s", pfxName, dirS, strings.Join(bad, "; ")))
	}
}

// ----------------------------------------------------------- failsafefirst --

func (m *c40Model) checkFailsafeFirst() {
	c, p := m.c, m.p
	fn := m.fn("endpointIptablesChain")
	lits := m.litsOf(fn)
	var fsLits, jumps, denies []*c10Lit
	for _, l := range lits {
		a, ok := l.Action()
		if !ok {
			c.Undecided("C40.failsafefirst/shape", p.Pos(l.Pos()), "rule literal with several Action stores")
			continue
		}
		switch {
		case a.Kind == "factory" && a.Name == "Jump" && c10ParamIndex(fn, a.Args[0]) >= 0:
			fsLits = append(fsLits, l)
		case a.Kind == "factory" && a.Name == "Jump":
			jumps = append(jumps, l)
		case m.isDeny(a):
			denies = append(denies, l)
		}
	}
	if len(fsLits) != 1 {
		c.Violate("C40.failsafefirst/exists/"+fnName(fn), p.Pos(fn.Pos()), "%d rule literals jump to the failsafe-chain parameter, expected exactly 1: host endpoint chains no longer consult the failsafe ports", len(fsLits))
		return
	}
	fs := fsLits[0]
	a, _ := fs.Action()
	par := a.Args[0]
	site := p.Pos(fs.Pos())
	// exists on every path where failsafeChain != "": the append is guarded by at most that test
	app := c10AppendsOf(fs)
	okExists := len(app) == 1
	if okExists {
		// every If that dominates-and-controls the append must be the != "" test
		for _, g := range guardsOf(app[0]) {
			bo, isBo := g.Cond.(*ssa.BinOp)
			isTest := isBo && (bo.Op == token.EQL || bo.Op == token.NEQ) && ((bo.X == par && c40IsEmptyStr(bo.Y)) || (bo.Y == par && c40IsEmptyStr(bo.X)))
			if !isTest && !c40IsAdminUpGuard(fn, g) {
				okExists = false
			}
		}
	}
	c.Check(okExists, "C40.failsafefirst/exists/"+fnName(fn), site, "failsafe jump appended whenever failsafeChain != \"\" (and the endpoint is admin-up)",
		"the failsafe jump is appended only under an additional condition: some host endpoint chains are rendered without failsafes")
	mt, okM := fs.Match()
	c.Check(okM && mt.Unconditional(), "C40.failsafefirst/unconditional/"+fnName(fn), site, "failsafe jump has an empty match",
		fmt.Sprintf("failsafe jump is conditional (%v): failsafe-port traffic outside the condition falls through to policy", mt.Names()))
	var bad []string
	n := 0
	for _, o := range append(append([]*c10Lit{}, jumps...), denies...) {
		n++
		if before, dec := c10Before(o, fs); dec && before {
			oa, _ := o.Action()
			bad = append(bad, fmt.Sprintf("%s rule at %s is placed before the failsafe jump", oa.String(), p.Pos(o.Pos())))
		} else if before2, dec2 := c10Before(fs, o); !(dec2 && before2) && c10SameSlice(fs, o) {
			oa, _ := o.Action()
			bad = append(bad, fmt.Sprintf("order of %s rule at %s relative to the failsafe jump is not fixed", oa.String(), p.Pos(o.Pos())))
		}
	}
	if n < 5 {
		c.Lost("%s: expected ≥5 policy/profile jump and deny literals, found %d", fnName(fn), n)
	}
	c.Check(len(bad) == 0, "C40.failsafefirst/order/"+fnName(fn), site, fmt.Sprintf("none of %d policy/profile jumps and deny rules precedes the failsafe jump", n), strings.Join(bad, "; "))
}

func c40IsEmptyStr(v ssa.Value) bool { s, ok := c10StrConst(v); return ok && s == "" }

// c40IsAdminUpGuard: guard on a bool parameter (adminUp) — the admin-down early return.
func c40IsAdminUpGuard(fn *ssa.Function, g Guard) bool {
	i := c10ParamIndex(fn, g.Cond)
	if i < 0 {
		return false
	}
	b, ok := fn.Params[i].Type().Underlying().(*types.Basic)
	return ok && b.Kind() == types.Bool
}

// c10SameSlice: the two literals' appends are connected by the prefix chain in
// either direction (they end up in the same slice).
func c10SameSlice(a, b *c10Lit) bool {
	for _, x := range c10AppendsOf(a) {
		for _, y := range c10AppendsOf(b) {
			if c10PrefixFlows(x, y) || c10PrefixFlows(y, x) {
				return true
			}
		}
	}
	return false
}

// ---------------------------------------------------------------- failsafe --

func (m *c40Model) checkFailsafeChains() {
	c, p := m.c, m.p
	inF := p.LookupObj(c10RulesPkg, "Config.FailsafeInboundHostPorts")
	outF := p.LookupObj(c10RulesPkg, "Config.FailsafeOutboundHostPorts")
	if inF == nil || outF == nil {
		c.Lost("Config.FailsafeInboundHostPorts / FailsafeOutboundHostPorts")
	}
	// (function, port-side method) -> config list, net method
	type spec struct {
		list    types.Object
		net     string
		rawOnly bool
	}
	table := map[string]map[string]spec{
		"failsafeInChain": {
			"DestPorts":   {inF, "SourceNet", false}, // requests to the host's failsafe ports
			"SourcePorts": {outF, "SourceNet", true}, // responses to the host's outbound failsafe connections (raw only)
		},
		"failsafeOutChain": {
			"DestPorts":   {outF, "DestNet", false},
			"SourcePorts": {inF, "DestNet", true},
		},
	}
	for _, fname := range []string{"failsafeInChain", "failsafeOutChain"} {
		fn := m.fn(fname)
		tableParam := c10ParamsOfType(fn, func(t types.Type) bool { b, ok := t.(*types.Basic); return ok && b.Kind() == types.String })
		if len(tableParam) != 1 {
			c.Lost("%s: one string parameter (table)", fnName(fn))
		}
		n := 0
		for _, l := range m.litsOf(fn) {
			if len(l.Fields["Match"]) == 0 && len(l.Fields["Action"]) == 0 {
				continue
			}
			n++
			site := p.Pos(l.Pos())
			a, okA := l.Action()
			var bad []string
			if !okA || a.Kind != "factory" || a.Name != "Allow" {
				bad = append(bad, "action is "+a.String()+", expected Allow()")
			}
			side := ""
			for _, mv := range l.Fields["Match"] {
				mt := c10DecodeMatch(mv)
				if !mt.BaseNew {
					bad = append(bad, "match does not start from NewMatch()")
					continue
				}
				var portCall, protoCall *c10MatchCall
				for i := range mt.Calls {
					mc := &mt.Calls[i]
					switch mc.Name {
					case "DestPorts", "SourcePorts":
						portCall = mc
					case "Protocol":
						protoCall = mc
					case "SourceNet", "DestNet":
					default:
						bad = append(bad, "unexpected criterion "+mc.Name)
					}
				}
				if portCall == nil || protoCall == nil {
					bad = append(bad, fmt.Sprintf("match %v lacks Protocol+port", mt.Names()))
					continue
				}
				if side != "" && side != portCall.Name {
					bad = append(bad, "the rule's alternative matches use different port sides")
				}
				side = portCall.Name
				sp := table[fname][side]
				// element provenance: x.Port / x.Protocol with x = element of r.<list>
				portElem, f1 := c40ElemField(c40VarargElem(portCall.Args[0]))
				protoElem, f2 := c40ElemField(protoCall.Args[0])
				if f1 != "Port" || f2 != "Protocol" || portElem == nil || protoElem == nil || path(portElem) != path(protoElem) {
					bad = append(bad, fmt.Sprintf("protocol/port are %s / %s, not the Protocol and Port of one list element", path(protoCall.Args[0]), path(portCall.Args[0])))
					continue
				}
				src := c10IndexedSlice(c40LocalCopyOf(portElem))
				if src == nil || fieldVar(src) != sp.list {
					bad = append(bad, fmt.Sprintf("%s rule in %s iterates %s, expected r.%s", side, fname, path(portElem), sp.list.Name()))
				}
				for _, mc := range mt.Calls {
					if (mc.Name == "SourceNet" || mc.Name == "DestNet") && mc.Name != sp.net {
						bad = append(bad, fmt.Sprintf("restricts by %s, expected %s", mc.Name, sp.net))
					}
				}
				if sp.rawOnly {
					g := guardedCut(portCall.Call, eqCond(true, func(x ssa.Value) bool { return x == tableParam[0] }, func(x ssa.Value) bool { s, ok := c10StrConst(x); return ok && s == "raw" }))
					if !g {
						bad = append(bad, "source-port (response) rule is not confined to table == \"raw\"")
					}
				}
			}
			c.Check(len(bad) == 0, fmt.Sprintf("C40.failsafe/%s/%s", fnName(fn), side), site,
				fmt.Sprintf("Allow for Protocol+%s of each element of the expected failsafe list", side), strings.Join(bad, "; "))
		}
		if n < 2 {
			c.Lost("%s: expected 2 rule literals, found %d", fnName(fn), n)
		}
		// rendered for every table
		tables := map[string]bool{}
		for _, cs := range c10StaticCallers(m.funcs, fn) {
			if s, ok := c10StrConst(cs.Common().Args[c10ParamIndex(fn, tableParam[0])]); ok {
				tables[s] = true
			} else {
				c.Undecided("C40.failsafe/tables/"+fname, p.Pos(cs.Instr.Pos()), "table argument is not a constant")
			}
		}
		for _, t := range []string{"filter", "mangle", "raw"} {
			c.Check(tables[t], fmt.Sprintf("C40.failsafe/tables/%s/%s", fname, t), p.Pos(fn.Pos()), fname+" rendered for table "+t,
				fname+" is never rendered for table "+t+": endpoint chains there jump to a failsafe chain that does not exist or is stale")
		}
	}
}

// c40VarargElem: DestPorts(ports ...uint16) receives a slice of a 1-element
// varargs array; return the element stored at [0] (or v itself).
func c40VarargElem(v ssa.Value) ssa.Value {
	sl, ok := v.(*ssa.Slice)
	if !ok {
		return v
	}
	al, ok := sl.X.(*ssa.Alloc)
	if !ok || al.Referrers() == nil {
		return v
	}
	var elems []ssa.Value
	for _, r := range *al.Referrers() {
		if ia, ok := r.(*ssa.IndexAddr); ok && ia.Referrers() != nil {
			for _, rr := range *ia.Referrers() {
				if st, ok := rr.(*ssa.Store); ok && st.Addr == ia {
					elems = append(elems, st.Val)
				}
			}
		}
	}
	if len(elems) == 1 {
		return elems[0]
	}
	return v
}

// c40LocalCopyOf: if v is the address of a local variable that is assigned
// exactly once (a range variable), the value assigned; otherwise v.
func c40LocalCopyOf(v ssa.Value) ssa.Value {
	al, ok := v.(*ssa.Alloc)
	if !ok || al.Referrers() == nil {
		return v
	}
	var vals []ssa.Value
	for _, r := range *al.Referrers() {
		if st, ok := r.(*ssa.Store); ok && st.Addr == al {
			vals = append(vals, st.Val)
		}
	}
	if len(vals) == 1 {
		return vals[0]
	}
	return v
}

// c40ElemField: v = (*elemAddr).F or elem.F → (elem value or address, F).
func c40ElemField(v ssa.Value) (ssa.Value, string) {
	switch x := v.(type) {
	case *ssa.Field:
		return x.X, fieldName(x.X.Type(), x.Field)
	case *ssa.UnOp:
		if x.Op == token.MUL {
			if fa, ok := x.X.(*ssa.FieldAddr); ok {
				return fa.X, fieldName(fa.X.Type(), fa.Field)
			}
		}
	}
	return nil, ""
}

// ------------------------------------------------------------------ tunnel --

func (m *c40Model) checkTunnel() {
	c, p := m.c, m.p
	fn := m.fn("filterInputChain")
	lits := m.litsOf(fn)
	allowF := p.LookupObj(c10RulesPkg, "DefaultRuleRenderer.filterAllowAction")
	if allowF == nil {
		c.Lost("DefaultRuleRenderer.filterAllowAction")
	}
	tunnel := map[*c10Lit]bool{}
	n := 0
	for _, l := range lits {
		a, okA := l.Action()
		mt, okM := l.Match()
		if !okA || !okM || mt.Has("SourceIPSet") == nil || mt.Has("ProtocolNum") == nil {
			continue
		}
		if !(a.Kind == "field" && fieldVar(a.V) == allowF) && !(a.Kind == "factory" && a.Name == "Allow") {
			continue
		}
		n++
		tunnel[l] = true
		m.tunnelAllows = append(m.tunnelAllows, l)
		set := path(mt.Has("SourceIPSet").Args[0])
		proto := path(mt.Has("ProtocolNum").Args[0])
		key := fmt.Sprintf("C40.tunnel/%s/%s", fnName(fn), c40TunnelName(mt))
		site := p.Pos(l.Pos())
		// the literal immediately after it in the same backing array
		var next *c10Lit
		for _, o := range lits {
			for _, pa := range l.Places {
				for _, pb := range o.Places {
					if pa.Arr == pb.Arr && pb.Idx == pa.Idx+1 {
						next = o
					}
				}
			}
		}
		if next == nil {
			// the pair may be appended by two separate append calls in the same block: the
			// successor is then the literal placed after l with no other literal in between
			for _, o := range lits {
				if o == l {
					continue
				}
				if b, dec := c10Before(l, o); !dec || !b {
					continue
				}
				ao, al := c10AppendsOf(o), c10AppendsOf(l)
				if len(ao) != 1 || len(al) != 1 || ao[0].Block() != al[0].Block() {
					continue
				}
				between := false
				for _, x := range lits {
					if x == l || x == o {
						continue
					}
					b1, d1 := c10Before(l, x)
					b2, d2 := c10Before(x, o)
					if d1 && b1 && d2 && b2 {
						between = true
					}
				}
				if !between {
					next = o
				}
			}
		}
		if next == nil {
			c.Violate(key, site, "allow rule for protocol %s from set %s is not immediately followed by a deny rule: tunnelled packets from other sources fall through to host endpoint policy", proto, set)
			continue
		}
		tunnel[next] = true
		na, _ := next.Action()
		nm, _ := next.Match()
		var bad []string
		if !m.isDeny(na) && !(na.Kind == "factory" && na.Name == "Drop") {
			bad = append(bad, "the following rule's action is "+na.String()+", expected a deny")
		}
		if nm.Has("ProtocolNum") == nil {
			bad = append(bad, "the deny does not match the tunnel protocol")
		}
		for _, dc := range nm.Calls {
			ac := mt.Has(dc.Name)
			if ac == nil || dc.Name == "SourceIPSet" || !c40SameArgs(ac.Args, dc.Args) {
				bad = append(bad, fmt.Sprintf("the deny's criterion %s(%s) is not one of the allow's criteria: packets the allow does not cover can slip past the deny", dc.Name, c40Paths(dc.Args)))
			}
		}
		c.Check(len(bad) == 0, key, site, fmt.Sprintf("allow from %s followed by deny on %v", set, nm.Names()), strings.Join(bad, "; "))
	}
	if n == 0 {
		c.Lost("%s: no allow-from-host-set tunnel rule", fnName(fn))
	}
	// nothing but tunnel rules in front of tunnel rules
	var firstBad []string
	appendsOfTunnel := map[*ssa.Call]bool{}
	for l := range tunnel {
		for _, a := range c10AppendsOf(l) {
			appendsOfTunnel[a] = true
		}
	}
	allInstrs(fn, false, func(_ *ssa.Function, in ssa.Instruction) {
		call, ok := in.(*ssa.Call)
		if !ok || len(c10AppendArgs(call)) != 2 || !c10IsRuleSlice(call.Type()) || appendsOfTunnel[call] {
			return
		}
		for t := range appendsOfTunnel {
			if c10PrefixFlows(call, t) {
				firstBad = append(firstBad, fmt.Sprintf("rules appended at %s come before the tunnel rules at %s", p.Pos(call.Pos()), p.Pos(t.Pos())))
			}
		}
	})
	sort.Strings(firstBad)
	c.Check(len(firstBad) == 0, "C40.tunnel/first/"+fnName(fn), p.Pos(fn.Pos()), "only tunnel allow/deny pairs precede tunnel rules in the INPUT chain", strings.Join(firstBad, "; "))
}

// ------------------------------------------------------------ tunnel indep --

// c40Env is one configuration under which the CFG of a renderer is evaluated:
// truth values of bool config fields and the value of one integer parameter
// (the IP version).
type c40Env struct {
	flags map[*types.Var]bool
	param *ssa.Parameter
	pval  constant.Value
}

// c40FlagOf: v is a load of a bool struct field (r.IPIPEnabled, r.Config.X …).
func c40FlagOf(v ssa.Value) *types.Var {
	if b, ok := v.Type().Underlying().(*types.Basic); !ok || b.Kind() != types.Bool {
		return nil
	}
	switch v.(type) {
	case *ssa.UnOp, *ssa.Field:
		return fieldVar(v)
	}
	return nil
}

// c40ParamCmp: bo compares a parameter (through conversions) with a constant.
func c40ParamCmp(bo *ssa.BinOp) (*ssa.Parameter, constant.Value) {
	strip := func(v ssa.Value) ssa.Value {
		for {
			switch x := v.(type) {
			case *ssa.Convert:
				v = x.X
			case *ssa.ChangeType:
				v = x.X
			default:
				return v
			}
		}
	}
	for _, xy := range [2][2]ssa.Value{{bo.X, bo.Y}, {bo.Y, bo.X}} {
		if pa, ok := strip(xy[0]).(*ssa.Parameter); ok {
			if k, ok := constOf(xy[1]); ok {
				return pa, k
			}
		}
	}
	return nil, nil
}

// c40EvalCond: truth value of a branch condition under env; known=false for
// anything that is not a config flag, a parameter/constant comparison or a constant.
func c40EvalCond(cond ssa.Value, env *c40Env) (val, known bool) {
	c, pol := stripNot(cond, true)
	if k, ok := c.(*ssa.Const); ok && k.Value != nil && k.Value.Kind() == constant.Bool {
		return constant.BoolVal(k.Value) == pol, true
	}
	if fv := c40FlagOf(c); fv != nil {
		if v, ok := env.flags[fv]; ok {
			return v == pol, true
		}
		return false, false
	}
	if bo, ok := c.(*ssa.BinOp); ok && (bo.Op == token.EQL || bo.Op == token.NEQ) {
		if pa, k := c40ParamCmp(bo); pa != nil && pa == env.param && env.pval != nil {
			eq := constant.Compare(k, token.EQL, env.pval)
			if bo.Op == token.NEQ {
				eq = !eq
			}
			return eq == pol, true
		}
	}
	return false, false
}

// c40Reach: blocks reachable from the entry under env.  Branches whose condition
// cannot be evaluated are taken both ways (may=true) or not at all (may=false).
func c40Reach(fn *ssa.Function, env *c40Env, may bool) map[*ssa.BasicBlock]bool {
	seen := map[*ssa.BasicBlock]bool{}
	st := []*ssa.BasicBlock{fn.Blocks[0]}
	for len(st) > 0 {
		b := st[len(st)-1]
		st = st[:len(st)-1]
		if seen[b] {
			continue
		}
		seen[b] = true
		if ifi, ok := b.Instrs[len(b.Instrs)-1].(*ssa.If); ok && len(b.Succs) == 2 {
			v, known := c40EvalCond(ifi.Cond, env)
			switch {
			case known && v:
				st = append(st, b.Succs[0])
			case known:
				st = append(st, b.Succs[1])
			case may:
				st = append(st, b.Succs...)
			}
			continue
		}
		st = append(st, b.Succs...)
	}
	return seen
}

// checkTunnelIndep: "tunnelled packets from non-cluster sources are dropped" must
// hold for every combination of encapsulation settings, so the presence of one
// tunnel's allow/deny pair may depend on its own enable flag and on the IP
// version only.  The CFG of filterInputChain is evaluated under every assignment
// of the bool config fields that gate any tunnel filter × every IP version the
// function distinguishes; a flag that is necessary for ANOTHER tunnel's filter
// must be a don't-care for this one.  (Catches: independent ifs merged into a
// switch / else-if chain, "&& !otherTunnel" conjuncts, early returns under
// another tunnel's flag.)
func (m *c40Model) checkTunnelIndep() {
	c, p := m.c, m.p
	fn := m.fn("filterInputChain")
	if len(m.tunnelAllows) == 0 {
		c.Lost("%s: no tunnel allow literal recorded by C40.tunnel", fnName(fn))
	}
	type tun struct {
		lit    *c10Lit
		name   string
		blocks []*ssa.BasicBlock
	}
	var tuns []*tun
	anc := map[*ssa.BasicBlock]bool{} // blocks from which some tunnel block is reachable
	for _, l := range m.tunnelAllows {
		mt, _ := l.Match()
		t := &tun{lit: l, name: c40TunnelName(mt)}
		for _, a := range c10AppendsOf(l) {
			t.blocks = append(t.blocks, a.Block())
		}
		if len(t.blocks) == 0 {
			if in, ok := l.Base.(ssa.Instruction); ok && in.Block() != nil {
				t.blocks = append(t.blocks, in.Block())
			}
		}
		if len(t.blocks) == 0 {
			c.Lost("%s: cannot place tunnel literal %s in the CFG", fnName(fn), t.name)
		}
		tuns = append(tuns, t)
	}
	for _, b := range fn.Blocks {
		r := blockReach(b)
		for _, t := range tuns {
			for _, tb := range t.blocks {
				if r[tb] {
					anc[b] = true
				}
			}
		}
	}
	// the flags and the parameter values that can influence a tunnel block
	var flags []*types.Var
	haveFlag := map[*types.Var]bool{}
	var param *ssa.Parameter
	var pvals []constant.Value
	multiParam := false
	for _, b := range fn.Blocks {
		if !anc[b] {
			continue
		}
		ifi, ok := b.Instrs[len(b.Instrs)-1].(*ssa.If)
		if !ok {
			continue
		}
		cnd, _ := stripNot(ifi.Cond, true)
		if fv := c40FlagOf(cnd); fv != nil && !haveFlag[fv] {
			haveFlag[fv] = true
			flags = append(flags, fv)
		}
		if bo, ok := cnd.(*ssa.BinOp); ok && (bo.Op == token.EQL || bo.Op == token.NEQ) {
			if pa, k := c40ParamCmp(bo); pa != nil {
				if param != nil && param != pa {
					multiParam = true
				}
				param = pa
				dup := false
				for _, o := range pvals {
					if constant.Compare(o, token.EQL, k) {
						dup = true
					}
				}
				if !dup {
					pvals = append(pvals, k)
				}
			}
		}
	}
	sort.Slice(flags, func(i, j int) bool { return flags[i].Name() < flags[j].Name() })
	site := p.Pos(fn.Pos())
	if multiParam || len(flags) > 10 || len(flags) == 0 {
		for _, t := range tuns {
			c.Undecided(fmt.Sprintf("C40.tunnelindep/%s/%s", fnName(fn), t.name), site,
				"cannot enumerate the configurations gating the tunnel filters (%d bool config flags, several parameters compared: %v)", len(flags), multiParam)
		}
		return
	}
	if len(pvals) == 0 {
		pvals = []constant.Value{nil}
	}
	nA := 1 << len(flags)
	envOf := func(pv constant.Value, mask int) *c40Env {
		e := &c40Env{flags: map[*types.Var]bool{}, param: param, pval: pv}
		for i, f := range flags {
			e.flags[f] = mask&(1<<i) != 0
		}
		return e
	}
	hits := func(r map[*ssa.BasicBlock]bool, t *tun) bool {
		for _, b := range t.blocks {
			if r[b] {
				return true
			}
		}
		return false
	}
	// reach[t][pv][mask]
	reach := make([][][]bool, len(tuns))
	undecided := make([]bool, len(tuns))
	for ti := range tuns {
		reach[ti] = make([][]bool, len(pvals))
		for vi := range pvals {
			reach[ti][vi] = make([]bool, nA)
		}
	}
	for vi, pv := range pvals {
		for mask := 0; mask < nA; mask++ {
			e := envOf(pv, mask)
			may, must := c40Reach(fn, e, true), c40Reach(fn, e, false)
			for ti, t := range tuns {
				reach[ti][vi][mask] = hits(may, t)
				if hits(may, t) != hits(must, t) {
					undecided[ti] = true
				}
			}
		}
	}
	// own[t] = flags that are true in every configuration rendering t (for some IP version rendering it at all)
	own := make([]map[int]bool, len(tuns))
	ever := make([]bool, len(tuns))
	for ti := range tuns {
		own[ti] = map[int]bool{}
		for vi := range pvals {
			any := false
			nec := map[int]bool{}
			for i := range flags {
				nec[i] = true
			}
			for mask := 0; mask < nA; mask++ {
				if !reach[ti][vi][mask] {
					continue
				}
				any = true
				for i := range flags {
					if mask&(1<<i) == 0 {
						delete(nec, i)
					}
				}
			}
			if any {
				ever[ti] = true
				for i := range nec {
					own[ti][i] = true
				}
			}
		}
	}
	pvStr := func(pv constant.Value) string {
		if pv == nil || param == nil {
			return ""
		}
		return fmt.Sprintf("%s=%s, ", param.Name(), pv.ExactString())
	}
	for ti, t := range tuns {
		key := fmt.Sprintf("C40.tunnelindep/%s/%s", fnName(fn), t.name)
		tsite := p.Pos(t.lit.Pos())
		switch {
		case !ever[ti]:
			c.Violate(key, tsite, "the tunnel filter pair is unreachable under every assignment of %v: tunnelled packets of this kind are never filtered", c40FlagNames(flags, nil))
			continue
		case undecided[ti]:
			c.Undecided(key, tsite, "the tunnel filter is control-dependent on a condition that is not a bool config field or a parameter comparison")
			continue
		case len(own[ti]) == 0:
			c.Undecided(key, tsite, "no enable flag found for this tunnel filter (flags considered: %v)", c40FlagNames(flags, nil))
			continue
		}
		var bad []string
		for oi, o := range tuns {
			if oi == ti {
				continue
			}
			for fi := range own[oi] {
				if own[ti][fi] {
					continue
				}
				bit := 1 << fi
			scan:
				for vi, pv := range pvals {
					for mask := 0; mask < nA; mask++ {
						if mask&bit != 0 || reach[ti][vi][mask] == reach[ti][vi][mask|bit] {
							continue
						}
						on, off := mask|bit, mask
						if reach[ti][vi][on] {
							on, off = off, on
						}
						// `on` is the configuration in which the filter is missing
						bad = append(bad, fmt.Sprintf("with %s%s the pair is rendered, but with %s=%v (the flag enabling the %s filter) and everything else unchanged it is not",
							pvStr(pv), c40FlagNames(flags, &off), flags[fi].Name(), on&bit != 0, o.name))
						break scan
					}
				}
			}
		}
		sort.Strings(bad)
		var ownNames []string
		for fi := range own[ti] {
			ownNames = append(ownNames, flags[fi].Name())
		}
		sort.Strings(ownNames)
		c.Check(len(bad) == 0, key, tsite,
			fmt.Sprintf("rendered iff %v (and the IP version) — independent of the other tunnels' flags over %d configurations", ownNames, nA*len(pvals)),
			"tunnel filter depends on another tunnel's enable flag, so tunnelled packets from non-cluster sources are not dropped in that configuration: "+strings.Join(bad, "; "))
	}
}

// c40FlagNames renders a flag assignment ("A=true B=false"); mask nil = names only.
func c40FlagNames(flags []*types.Var, mask *int) string {
	var out []string
	for i, f := range flags {
		if mask == nil {
			out = append(out, f.Name())
		} else {
			out = append(out, fmt.Sprintf("%s=%v", f.Name(), *mask&(1<<i) != 0))
		}
	}
	return strings.Join(out, " ")
}

func c40TunnelName(mt c10Match) string {
	s := "proto" + path(mt.Has("ProtocolNum").Args[0])
	if call, ok := mt.Has("SourceIPSet").Args[0].(*ssa.Call); ok {
		args := call.Common().Args
		if len(args) > 0 {
			if id, ok := c10StrConst(args[len(args)-1]); ok {
				s += "/" + id
			}
			if fv := fieldVar(args[0]); fv != nil {
				s += "/" + fv.Name()
			}
		}
	}
	return s
}

func c40SameArgs(a, b []ssa.Value) bool {
	if len(a) != len(b) {
		return false
	}
	for i := range a {
		if c40ArgPath(a[i]) != c40ArgPath(b[i]) {
			return false
		}
	}
	return true
}

func c40ArgPath(v ssa.Value) string { return path(c40VarargElem(v)) }

func c40Paths(vs []ssa.Value) string {
	var out []string
	for _, v := range vs {
		out = append(out, c40ArgPath(v))
	}
	return strings.Join(out, ",")
}

// ----------------------------------------------------------------- unknown --

// c40WorkloadIfaceMatch: match is exactly <method>(r.WorkloadIfacePrefixes[i] + r.wildcard).
func (m *c40Model) workloadIfaceMatch(mt c10Match, method string) string {
	wl := m.p.LookupObj(c10RulesPkg, "Config.WorkloadIfacePrefixes")
	if wl == nil {
		m.c.Lost("Config.WorkloadIfacePrefixes")
	}
	if !mt.BaseNew || len(mt.Calls) != 1 || mt.Calls[0].Name != method {
		return fmt.Sprintf("match is %v, expected exactly %s(workload prefix + wildcard)", mt.Names(), method)
	}
	bo, ok := mt.Calls[0].Args[0].(*ssa.BinOp)
	if !ok || bo.Op != token.ADD || fieldVar(bo.Y) == nil || fieldVar(bo.Y).Name() != "wildcard" {
		return "interface match " + path(mt.Calls[0].Args[0]) + " is not <prefix> + r.wildcard"
	}
	if src := c10IndexedSlice(bo.X); src == nil || fieldVar(src) != wl {
		return "interface prefix " + path(bo.X) + " does not range over r.WorkloadIfacePrefixes"
	}
	return ""
}

func (m *c40Model) actionTargets(l *c10Lit, kind string, constName string) bool {
	a, ok := l.Action()
	if !ok || a.Kind != "factory" || a.Name != kind || len(a.Args) != 1 {
		return false
	}
	s, isC := c10StrConst(a.Args[0])
	return isC && s == c10ConstStr(m.c, m.p, c10RulesPkg, constName)
}

func (m *c40Model) checkUnknown() {
	c, p := m.c, m.p
	allowF := p.LookupObj(c10RulesPkg, "DefaultRuleRenderer.filterAllowAction")
	// INPUT
	fn := m.fn("filterInputChain")
	lits := m.litsOf(fn)
	var wl []*c10Lit
	for _, l := range lits {
		if m.actionTargets(l, "GoTo", "ChainWorkloadToHost") {
			wl = append(wl, l)
		}
	}
	key := "C40.unknown/input/" + fnName(fn)
	if len(wl) != 1 {
		c.Violate(key, p.Pos(fn.Pos()), "%d rules GoTo the workload-to-host chain, expected 1: packets from workload interfaces reach host-endpoint processing", len(wl))
	} else {
		l := wl[0]
		mt, _ := l.Match()
		msg := m.workloadIfaceMatch(mt, "InInterface")
		// before: acceptAlreadyAccepted() append, HEP dispatch jump, any allow on MarkAccept
		if msg == "" {
			app := c10AppendsOf(l)
			for _, o := range lits {
				oa, _ := o.Action()
				om, _ := o.Match()
				hepJump := m.actionTargets(o, "Jump", "ChainDispatchFromHostEndpoint")
				accept := oa.Kind == "field" && fieldVar(oa.V) == allowF && om.Has("MarkSingleBitSet") != nil
				if !hepJump && !accept {
					continue
				}
				if before, dec := c10Before(l, o); !dec || !before {
					msg = fmt.Sprintf("the %s rule at %s is not placed after the workload GoTo", oa.String(), p.Pos(o.Pos()))
				}
			}
			// opaque rule slices whose callee emits an accept-on-mark rule
			allInstrs(fn, false, func(_ *ssa.Function, in ssa.Instruction) {
				call, ok := in.(*ssa.Call)
				if !ok || len(c10AppendArgs(call)) != 2 {
					return
				}
				src, isCall := c10AppendArgs(call)[1].(*ssa.Call)
				if !isCall {
					return
				}
				sf := calleeFn(src.Common())
				if sf == nil || !m.emitsMarkAccept(sf, allowF) {
					return
				}
				for _, a := range app {
					if !c10PrefixFlows(a, call) {
						msg = fmt.Sprintf("%s (accepts packets with the accept mark) is appended at %s, not after the workload GoTo: a workload packet accepted by raw/mangle host policy skips the workload's policy", fnName(sf), p.Pos(call.Pos()))
					}
				}
			})
		}
		c.Check2(key, p.Pos(l.Pos()), msg)
	}
	// FORWARD
	ff := m.fn("StaticFilterForwardChains")
	var fw []*c10Lit
	for _, l := range m.litsOf(ff) {
		if m.actionTargets(l, "Jump", "ChainFromWorkloadDispatch") {
			fw = append(fw, l)
		}
	}
	key = "C40.unknown/forward/" + fnName(ff)
	if len(fw) != 1 {
		c.Violate(key, p.Pos(ff.Pos()), "%d rules Jump to the from-workload dispatch chain, expected 1", len(fw))
		return
	}
	mt, _ := fw[0].Match()
	c.Check2(key, p.Pos(fw[0].Pos()), m.workloadIfaceMatch(mt, "InInterface"))
}

// emitsMarkAccept: fn builds a rule {MarkSingleBitSet(...) → filterAllowAction}.
func (m *c40Model) emitsMarkAccept(fn *ssa.Function, allowF types.Object) bool {
	for _, l := range m.litsOf(fn) {
		a, _ := l.Action()
		mt, _ := l.Match()
		if a.Kind == "field" && fieldVar(a.V) == allowF && mt.Has("MarkSingleBitSet") != nil {
			return true
		}
	}
	return false
}

// ----------------------------------------------------------------- wl2host --

func (m *c40Model) checkWl2Host() {
	c, p := m.c, m.p
	fn := m.fn("filterWorkloadToHostChain")
	acts := p.LookupObj(c10RulesPkg, "DefaultRuleRenderer.inputAcceptActions")
	if acts == nil {
		c.Lost("DefaultRuleRenderer.inputAcceptActions")
	}
	lits := m.litsOf(fn)
	var jump, final []*c10Lit
	for _, l := range lits {
		if m.actionTargets(l, "Jump", "ChainFromWorkloadDispatch") {
			jump = append(jump, l)
		}
		for _, av := range l.Fields["Action"] {
			if src := c10IndexedSlice(av); src != nil && fieldVar(src) == acts {
				final = append(final, l)
			}
		}
	}
	if len(final) == 0 {
		c.Lost("%s: rule whose action ranges over r.inputAcceptActions", fnName(fn))
	}
	keyJ := "C40.wl2host/jump/" + fnName(fn)
	if len(jump) != 1 {
		c.Violate(keyJ, p.Pos(fn.Pos()), "%d rules jump to the from-workload dispatch chain, expected 1: workload-to-host traffic is not subject to the workload's egress policy", len(jump))
		return
	}
	j := jump[0]
	mt, _ := j.Match()
	okJ := mt.Unconditional()
	if okJ {
		for _, a := range c10AppendsOf(j) {
			if len(guardsOf(a)) > 0 {
				okJ = false
			}
		}
	}
	c.Check(okJ, keyJ, p.Pos(j.Pos()), "unconditional jump to the from-workload dispatch chain on every path", "the jump to the from-workload dispatch chain is conditional")
	msg := ""
	for _, f := range final {
		if before, dec := c10Before(j, f); !dec || !before {
			msg = "the configured endpoint-to-host action rule at " + p.Pos(f.Pos()) + " is not placed after the dispatch jump: the action is applied before the workload's egress policy"
		}
	}
	c.Check2("C40.wl2host/order/"+fnName(fn), p.Pos(j.Pos()), msg)
}

// ------------------------------------------------------------ dispatch drop --

// checkDispatchDrop arms, under C40's id, the two clauses of C10 that make
// "traffic on a workload interface Felix does not know is dropped" true once
// C40.unknown has sent the packet to the dispatch chain: the dispatch builds for
// workload prefixes are given a single unconditional deny as end rules
// (unknowndrop), and every chain the tree / verdict-map builders construct
// really carries those end rules (endrules) — a chain literal built from the
// rule slice before the end rules are appended lets unmatched packets fall off
// the chain and RETURN to INPUT/FORWARD.
func (m *c40Model) checkDispatchDrop() {
	c, p := m.c, m.p
	m10 := &c10Model{c: c, p: p, funcs: m.funcs, lits: m.lits}
	m10.tree = c10MustFunc(c, p, c10RulesPkg, "DefaultRuleRenderer.buildSingleDispatchChainTree")
	m10.vmap = c10MustFunc(c, p, c10RulesPkg, "DefaultRuleRenderer.buildSingleDispatchChainsVMAP")
	m10.disp = c10MustFunc(c, p, c10RulesPkg, "DefaultRuleRenderer.buildSingleDispatchChains")
	m10.pfxByValue = map[string]string{}
	for name := range c10DirTable {
		m10.pfxByValue[c10ConstStr(c, p, c10RulesPkg, name)] = name
	}
	c.Alias("C10.endrules", "C40.endrules", func() {
		m10.deriveRoles()
		m10.checkEndRules()
	})
	builds := m10.builds()
	if len(builds) == 0 {
		c.Lost("no call of %s", fnName(m10.disp))
	}
	for _, b := range builds {
		site := p.Pos(b.site.Instr.Pos())
		if len(b.chain) > 0 {
			site = p.Pos(b.chain[len(b.chain)-1].Instr.Pos())
		}
		pfxVal, ok := c10StrConst(b.vals["pfx"])
		if !ok {
			c.Undecided("C40.unknowndrop/"+fnName(b.outer())+"/unresolved", site, "endpoint prefix of a dispatch build does not resolve to a constant (%s)", path(b.vals["pfx"]))
			continue
		}
		pfxName, known := m10.pfxByValue[pfxVal]
		if pfxVal == "" || !known || c10DirTable[pfxName].Class != "workload" {
			continue // dead build / host and mark prefixes: C10
		}
		c.Check2(fmt.Sprintf("C40.unknowndrop/%s/%s", fnName(b.outer()), pfxName), site, m10.unknownDrop(b.vals["endRules"], b.owner["endRules"], m.deny))
	}
}
