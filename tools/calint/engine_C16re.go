package main

// C16.ownpattern — which kernel objects belong to Felix is decided by regular
// expressions assembled at run time from configured prefixes:
// "^(" + strings.Join(prefixes, "|") + ")".  In regexp syntax `|` binds loosest,
// so an alternation spliced into surrounding text only stays a unit if it is
// directly enclosed: the token before it must be the start of the pattern, a
// group opener or another `|`, and the token after it the end of the pattern,
// the group's `)` or another `|`.  Otherwise the text before applies to the
// first alternative only and the text after to the last one only (an anchor
// `^` in front of a bare join leaves every other prefix unanchored: Felix
// claims, lists and destroys foreign IP sets / chains).
//
// Decided by symbolic evaluation of the string handed to regexp.Compile* /
// regexp.Match*: constants, `+`, fmt.Sprintf with a constant format,
// strings.Join with a constant separator (a hole), anything else (an opaque
// hole assumed to be a self-contained, balanced piece of regexp).

import (
	"go/token"
	"go/types"
	"strings"

	"golang.org/x/tools/go/ssa"
)

var c16PatternPkgs = []string{"felix/ipsets", "felix/iptables", "felix/nftables", "felix/rules", "felix/dataplane/linux"}

const (
	c16ReConst  = iota // literal regexp text
	c16ReJoin          // strings.Join(xs, Text)
	c16ReOpaque        // unknown text
)

type c16RePiece struct {
	Kind int
	Text string
	V    ssa.Value
}

func c16IsPkgFunc(f *types.Func, pkg string, names ...string) bool {
	if f == nil || f.Pkg() == nil || f.Pkg().Path() != pkg || recvTypeName(f) != "" {
		return false
	}
	for _, n := range names {
		if f.Name() == n {
			return true
		}
	}
	return false
}

// c16StrPieces evaluates a string-typed SSA value to a concatenation of pieces.
func c16StrPieces(v ssa.Value, depth int) []c16RePiece {
	opaque := []c16RePiece{{Kind: c16ReOpaque, V: v}}
	if depth > 12 {
		return opaque
	}
	if s, ok := c16ConstString(v); ok {
		if s == "" {
			return nil
		}
		return []c16RePiece{{Kind: c16ReConst, Text: s, V: v}}
	}
	switch x := v.(type) {
	case *ssa.BinOp:
		if x.Op == token.ADD {
			return append(c16StrPieces(x.X, depth+1), c16StrPieces(x.Y, depth+1)...)
		}
	case *ssa.ChangeType:
		return c16StrPieces(x.X, depth+1)
	case *ssa.MakeInterface:
		if b, ok := x.X.Type().Underlying().(*types.Basic); ok && b.Info()&types.IsString != 0 {
			return c16StrPieces(x.X, depth+1)
		}
	case *ssa.UnOp:
		if x.Op == token.MUL {
			if al, ok := c17Cell(x.X).(*ssa.Alloc); ok {
				if sts := c17StoresToCell(al); len(sts) == 1 {
					return c16StrPieces(sts[0].Val, depth+1)
				}
			}
		}
	case *ssa.Call:
		f := calleeOf(x.Common())
		args := x.Common().Args
		switch {
		case c16IsPkgFunc(f, "strings", "Join") && len(args) == 2:
			if sep, ok := c16ConstString(args[1]); ok {
				return []c16RePiece{{Kind: c16ReJoin, Text: sep, V: v}}
			}
		case c16IsPkgFunc(f, "fmt", "Sprintf") && len(args) == 2:
			format, okf := c16ConstString(args[0])
			elems, oke := c16VariadicElems(args[1])
			if !okf || !oke {
				return opaque
			}
			var out []c16RePiece
			lit := func(s string) {
				if s != "" {
					out = append(out, c16RePiece{Kind: c16ReConst, Text: s, V: v})
				}
			}
			next := 0
			var buf strings.Builder
			for i := 0; i < len(format); i++ {
				ch := format[i]
				if ch != '%' {
					buf.WriteByte(ch)
					continue
				}
				if i+1 < len(format) && format[i+1] == '%' {
					buf.WriteByte('%')
					i++
					continue
				}
				j := i + 1
				for j < len(format) && strings.IndexByte("+-# 0123456789.", format[j]) >= 0 {
					j++
				}
				if j >= len(format) || next >= len(elems) {
					return opaque
				}
				lit(buf.String())
				buf.Reset()
				verb, plain := format[j], j == i+1
				if (verb == 's' || verb == 'v') && plain {
					out = append(out, c16StrPieces(elems[next], depth+1)...)
				} else {
					out = append(out, c16RePiece{Kind: c16ReOpaque, V: elems[next]})
				}
				next++
				i = j
			}
			lit(buf.String())
			if next != len(elems) {
				return opaque
			}
			return out
		}
	}
	return opaque
}

// regexp tokens
const (
	c16TokAtom   = 'c' // literal, class, escape, anchor, quantifier ...
	c16TokAlt    = '|'
	c16TokOpen   = '('
	c16TokClose  = ')'
	c16TokJoin   = 'H' // alternation hole
	c16TokOpaque = 'O'
)

type c16ReTok struct {
	Kind    byte
	Piece   int
	InClass bool // hole met inside a character class / after a dangling escape
}

// c16ReScanner tokenises constant regexp text; its state survives across the
// constant pieces of one pattern.
type c16ReScanner struct {
	esc, inClass bool
	classStart   bool
	toks         []c16ReTok
}

func (s *c16ReScanner) text(t string, piece int) {
	emit := func(k byte) { s.toks = append(s.toks, c16ReTok{Kind: k, Piece: piece}) }
	for i := 0; i < len(t); i++ {
		ch := t[i]
		switch {
		case s.esc:
			s.esc = false
			if !s.inClass {
				emit(c16TokAtom)
			}
		case ch == '\\':
			s.esc = true
			s.classStart = false
		case s.inClass:
			if ch == ']' && !s.classStart {
				s.inClass = false
				emit(c16TokAtom)
			} else if ch == '^' && s.classStart && i > 0 && t[i-1] == '[' {
				// negation marker: the next char may still be a literal ']'
			} else {
				s.classStart = false
			}
		case ch == '[':
			s.inClass, s.classStart = true, true
		case ch == '(':
			// group prefix: (?: (?flags: (?P<name> (?<name>   |   (?flags) sets flags only
			if i+1 < len(t) && t[i+1] == '?' {
				j := i + 2
				for j < len(t) && t[j] != ':' && t[j] != '>' && t[j] != ')' {
					j++
				}
				if j < len(t) && t[j] == ')' {
					i = j // flags only: no group, no content
					continue
				}
				if j < len(t) {
					i = j
				} else {
					i = len(t) - 1
				}
			}
			emit(c16TokOpen)
		case ch == ')':
			emit(c16TokClose)
		case ch == '|':
			emit(c16TokAlt)
		default:
			emit(c16TokAtom)
		}
	}
}

func (s *c16ReScanner) hole(kind byte, piece int) {
	s.toks = append(s.toks, c16ReTok{Kind: kind, Piece: piece, InClass: s.inClass || s.esc})
	s.esc = false
}

// c16SepIsAlternation classifies a Join separator: (true,true) = a plain
// top-level alternation, (false,true) = no alternation at all, (_,false) = a
// separator with its own grouping that the rule does not model.
func c16SepIsAlternation(sep string) (alt, modelled bool) {
	var s c16ReScanner
	s.text(sep, 0)
	if s.esc || s.inClass {
		return false, false
	}
	for _, t := range s.toks {
		switch t.Kind {
		case c16TokAlt:
			alt = true
		case c16TokOpen, c16TokClose:
			return false, false
		}
	}
	return alt, true
}

type c16ReVerdict struct {
	Holes     int
	Bad       []string // violations
	Undecided []string
}

func c16RenderPieces(ps []c16RePiece) string {
	var b strings.Builder
	for i, p := range ps {
		if i > 0 {
			b.WriteString(" + ")
		}
		switch p.Kind {
		case c16ReConst:
			b.WriteString("`" + p.Text + "`")
		case c16ReJoin:
			b.WriteString("Join(…, `" + p.Text + "`)")
		default:
			b.WriteString("<" + path(p.V) + ">")
		}
	}
	return b.String()
}

// c16CheckPattern applies the enclosure discipline to one symbolic pattern.
func c16CheckPattern(ps []c16RePiece) c16ReVerdict {
	var v c16ReVerdict
	var s c16ReScanner
	for i, p := range ps {
		switch p.Kind {
		case c16ReConst:
			s.text(p.Text, i)
		case c16ReJoin:
			alt, modelled := c16SepIsAlternation(p.Text)
			switch {
			case !modelled:
				v.Holes++
				v.Undecided = append(v.Undecided, "strings.Join separator `"+p.Text+"` carries its own grouping")
				s.hole(c16TokOpaque, i)
			case alt:
				v.Holes++
				s.hole(c16TokJoin, i)
			default:
				s.hole(c16TokOpaque, i)
			}
		default:
			s.hole(c16TokOpaque, i)
		}
	}
	for i, t := range s.toks {
		if t.Kind != c16TokJoin {
			continue
		}
		if t.InClass {
			v.Undecided = append(v.Undecided, "the joined alternation is spliced into a character class or after a dangling escape")
			continue
		}
		var prev, next byte = '^', '$' // start / end of pattern
		if i > 0 {
			prev = s.toks[i-1].Kind
		}
		if i+1 < len(s.toks) {
			next = s.toks[i+1].Kind
		}
		switch prev {
		case '^', c16TokOpen, c16TokAlt:
		case c16TokOpaque, c16TokJoin:
			v.Undecided = append(v.Undecided, "the joined alternation directly follows text the rule cannot evaluate")
		default:
			v.Bad = append(v.Bad, "the text before the joined alternation is not a group opener or `|`, so it applies to the first alternative only")
		}
		switch next {
		case '$', c16TokClose, c16TokAlt:
		case c16TokOpaque, c16TokJoin:
			v.Undecided = append(v.Undecided, "the joined alternation is directly followed by text the rule cannot evaluate")
		default:
			v.Bad = append(v.Bad, "the text after the joined alternation is not the group's `)` or `|`, so it applies to the last alternative only")
		}
	}
	return v
}

// patterns with a joined alternation confirmed by reading, per package
// (ipsets: NewIPVersionConfig; iptables: NewTable x2; dataplane/linux: endpoint,
// host-IP and proxy-neigh managers, BPF endpoint manager, NewIntDataplaneDriver).
var c16PatternFloor = map[string]int{"felix/ipsets": 1, "felix/iptables": 2, "felix/nftables": 0, "felix/rules": 0, "felix/dataplane/linux": 5}

func c16OwnPattern(c *Ctx, pkgs []string) {
	floor := 0
	for _, pk := range pkgs {
		floor += c16PatternFloor[pk] // sensitivity fixtures re-analyse only the package they mutate
	}
	c.Rule("C16.ownpattern", "E-FLOW", "every regexp source handed to regexp.Compile*/Match* in felix/{ipsets,iptables,nftables,rules,dataplane/linux} that splices strings.Join(xs, \"|\") into other text has the join directly enclosed: preceded by pattern start, a group opener or `|`, followed by pattern end, the group's `)` or `|`", floor)
	type loaded struct {
		p   *Prog
		pkg string
	}
	var ls []loaded
	var rest []string
	for _, pk := range pkgs {
		switch pk {
		case c16IPSetsPkg, c16DPPkg:
			ls = append(ls, loaded{c.Load(pk), pk}) // same root sets as the other families: cached
		default:
			rest = append(rest, pk)
		}
	}
	if len(rest) > 0 {
		p := c.Load(rest...)
		for _, pk := range rest {
			ls = append(ls, loaded{p, pk})
		}
	}
	nSites := 0
	for _, l := range ls {
		p := l.p
		short := l.pkg[strings.LastIndex(l.pkg, "/")+1:]
		for _, fn := range c16PkgFuncs(p, l.pkg) {
			for _, b := range fn.Blocks {
				for _, in := range b.Instrs {
					ci, ok := in.(ssa.CallInstruction)
					if !ok {
						continue
					}
					f := calleeOf(ci.Common())
					if !c16IsPkgFunc(f, "regexp", "MustCompile", "Compile", "MustCompilePOSIX", "CompilePOSIX", "MatchString", "Match", "MatchReader") || len(ci.Common().Args) == 0 {
						continue
					}
					nSites++
					ps := c16StrPieces(ci.Common().Args[0], 0)
					v := c16CheckPattern(ps)
					if v.Holes == 0 {
						continue
					}
					key := "C16.ownpattern/" + short + "." + fnName(topFn(fn))
					site := p.Pos(in.Pos())
					switch {
					case len(v.Bad) > 0:
						c.Violate(key, site, "regexp.%s(%s) in %s: %s; in regexp syntax `|` binds loosest, so a prefix list must be enclosed as ( … ) / (?: … ) — as built, names that merely contain (not start with) one of the other prefixes match and foreign kernel objects are claimed as Felix's", f.Name(), c16RenderPieces(ps), fnName(fn), strings.Join(v.Bad, "; "))
					case len(v.Undecided) > 0:
						c.Undecided(key, site, "regexp.%s(%s) in %s: %s", f.Name(), c16RenderPieces(ps), fnName(fn), strings.Join(v.Undecided, "; "))
					default:
						c.Ok(key, site, "regexp.%s(%s): the joined alternation is directly enclosed", f.Name(), c16RenderPieces(ps))
					}
				}
			}
		}
	}
	if nSites == 0 {
		c.Lost("no regexp.Compile*/Match* call in %v", pkgs)
	}
}
