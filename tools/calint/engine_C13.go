package main

// Value derivation for asm.FieldOffset values in felix/bpf/polprog.
//
// Every FieldOffset handed to an asm Load*/Store* is evaluated, by backward
// derivation over SSA, to a set of (named state offset constant, additive byte
// interval) pairs.  The derivation understands
//   - loads of the package-level offset variables (the named constants),
//   - results of package functions (joined over their returns) and parameters of
//     unexported package functions (joined over all static call sites),
//   - address-taken locals (`off := f(); off.Offset += e`): reaching definitions
//     of the local's Offset part, each definition evaluated in turn,
//   - integer arithmetic over constants, len() of make()d slices and loop
//     induction variables (`for i := range s`, `for i := 0; i < n; i++`) refined
//     by the dominating loop guard,
//   - loop-carried accumulation (`off.Offset += s` whose read may observe its own
//     earlier write): solved with the trip bound of the carrying loop.
// Anything else evaluates to "unknown" (the obligation is then undecided, never
// silently passed).

import (
	"fmt"
	"go/constant"
	"go/token"
	"go/types"
	"sort"
	"strings"

	"golang.org/x/tools/go/ssa"
)

const c13Inf = int64(1) << 40

type c13Ival struct{ lo, hi int64 }

func (a c13Ival) finite() bool { return a.lo > -c13Inf && a.hi < c13Inf }
func c13clamp(x int64) int64 {
	if x > c13Inf {
		return c13Inf
	}
	if x < -c13Inf {
		return -c13Inf
	}
	return x
}
func (a c13Ival) add(b c13Ival) c13Ival {
	r := c13Ival{c13clamp(a.lo + b.lo), c13clamp(a.hi + b.hi)}
	if a.lo <= -c13Inf || b.lo <= -c13Inf {
		r.lo = -c13Inf
	}
	if a.hi >= c13Inf || b.hi >= c13Inf {
		r.hi = c13Inf
	}
	return r
}
func (a c13Ival) neg() c13Ival { return c13Ival{-a.hi, -a.lo} }
func (a c13Ival) hull(b c13Ival) c13Ival {
	return c13Ival{min(a.lo, b.lo), max(a.hi, b.hi)}
}
func (a c13Ival) mul(b c13Ival) c13Ival {
	if !a.finite() || !b.finite() {
		if (a == c13Ival{}) || (b == c13Ival{}) {
			return c13Ival{}
		}
		return c13Ival{-c13Inf, c13Inf}
	}
	ps := []int64{a.lo * b.lo, a.lo * b.hi, a.hi * b.lo, a.hi * b.hi}
	r := c13Ival{ps[0], ps[0]}
	for _, x := range ps[1:] {
		r = r.hull(c13Ival{x, x})
	}
	return c13Ival{c13clamp(r.lo), c13clamp(r.hi)}
}
func (a c13Ival) String() string {
	f := func(x int64) string {
		if x >= c13Inf {
			return "+inf"
		}
		if x <= -c13Inf {
			return "-inf"
		}
		return fmt.Sprint(x)
	}
	if a.lo == a.hi {
		return f(a.lo)
	}
	return "[" + f(a.lo) + "," + f(a.hi) + "]"
}

// c13Val: abstract value of an int16 offset (or of a FieldOffset, standing for
// its Offset part).  m maps a base to the interval added to it; the base ""
// stands for a plain number.  top: nothing is known (why says what stopped the
// derivation).  note: remarks for the diagnosis (loop-carried accumulation).
type c13Val struct {
	top  bool
	why  string
	m    map[string]c13Ival
	note string
}

func c13Top(format string, a ...any) c13Val { return c13Val{top: true, why: fmt.Sprintf(format, a...)} }
func c13Num(lo, hi int64) c13Val            { return c13Val{m: map[string]c13Ival{"": {lo, hi}}} }
func c13Bottom() c13Val                     { return c13Val{m: map[string]c13Ival{}} }

func (v c13Val) isNum() (c13Ival, bool) {
	if v.top || len(v.m) != 1 {
		return c13Ival{}, false
	}
	iv, ok := v.m[""]
	return iv, ok
}

func c13note(a, b string) string {
	if a == "" || a == b {
		return b
	}
	if b == "" {
		return a
	}
	return a + "; " + b
}

func (v c13Val) join(w c13Val) c13Val {
	if v.top {
		return v
	}
	if w.top {
		return w
	}
	r := c13Val{m: map[string]c13Ival{}, note: c13note(v.note, w.note)}
	for k, iv := range v.m {
		r.m[k] = iv
	}
	for k, iv := range w.m {
		if o, ok := r.m[k]; ok {
			r.m[k] = o.hull(iv)
		} else {
			r.m[k] = iv
		}
	}
	return r
}

// plus: v + w where at most one side carries named bases.
func (v c13Val) plus(w c13Val) c13Val {
	if v.top {
		return v
	}
	if w.top {
		return w
	}
	if len(v.m) == 0 || len(w.m) == 0 {
		return c13Bottom()
	}
	n, ok := w.isNum()
	if !ok {
		if n2, ok2 := v.isNum(); ok2 {
			v, w, n = w, v, n2
		} else {
			return c13Top("sum of two offsets that both derive from named state offsets")
		}
	}
	r := c13Val{m: map[string]c13Ival{}, note: c13note(v.note, w.note)}
	for k, iv := range v.m {
		r.m[k] = iv.add(n)
	}
	return r
}

func (v c13Val) bases() []string {
	var out []string
	for k := range v.m {
		if k != "" {
			out = append(out, k)
		}
	}
	sort.Strings(out)
	return out
}

// ------------------------------------------------------------ the analysis --

type c13Flow struct {
	p       *Prog
	pkg     *ssa.Package
	foType  types.Type      // asm.FieldOffset
	state   map[string]bool // names of the package-level state offset variables
	funcs   []*ssa.Function // all functions of the package (incl. closures)
	callers map[*ssa.Function][]ssa.CallInstruction
	opaque  map[*ssa.Function]string // functions whose callers cannot be enumerated -> reason
	invoked map[string]bool          // method names called through an interface in the package

	memo    map[c13Key]c13Val
	onstack map[any]bool
	cells   map[*ssa.Alloc]*c13Cell
	fnRet   map[*ssa.Function]c13Val
	paramV  map[*ssa.Parameter]c13Val
}

type c13Key struct {
	v  ssa.Value
	at *ssa.BasicBlock
}

func newC13Flow(p *Prog, pkgPath string, foType types.Type, state map[string]bool) *c13Flow {
	f := &c13Flow{p: p, pkg: p.SSAPkg(pkgPath), foType: foType, state: state,
		callers: map[*ssa.Function][]ssa.CallInstruction{}, opaque: map[*ssa.Function]string{}, invoked: map[string]bool{},
		memo: map[c13Key]c13Val{}, onstack: map[any]bool{}, cells: map[*ssa.Alloc]*c13Cell{},
		fnRet: map[*ssa.Function]c13Val{}, paramV: map[*ssa.Parameter]c13Val{}}
	if f.pkg == nil {
		return nil
	}
	for _, fn := range p.AllFuncs() {
		if topFn(fn).Pkg == f.pkg {
			f.funcs = append(f.funcs, fn)
		}
	}
	sort.Slice(f.funcs, func(i, j int) bool { return f.funcs[i].Pos() < f.funcs[j].Pos() })
	for _, fn := range f.funcs {
		for _, b := range fn.Blocks {
			for _, in := range b.Instrs {
				var calleeVal ssa.Value
				if ci, ok := in.(ssa.CallInstruction); ok {
					cc := ci.Common()
					if cc.IsInvoke() {
						f.invoked[cc.Method.Name()] = true
					} else {
						calleeVal = cc.Value
						if sf := cc.StaticCallee(); sf != nil {
							f.callers[sf] = append(f.callers[sf], ci)
						}
					}
				}
				for _, op := range in.Operands(nil) {
					if op == nil || *op == nil {
						continue
					}
					if g, ok := (*op).(*ssa.Function); ok {
						if _, isCall := in.(ssa.CallInstruction); isCall && *op == calleeVal {
							// callee position (a function that is also passed as its own argument is
							// caught below because it appears twice)
							n := 0
							for _, o2 := range in.Operands(nil) {
								if o2 != nil && *o2 == ssa.Value(g) {
									n++
								}
							}
							if n == 1 {
								continue
							}
						}
						f.opaque[g] = "is used as a function value at " + p.Pos(in.Pos())
					}
				}
			}
		}
	}
	return f
}

func (f *c13Flow) isFO(t types.Type) bool { return types.Identical(t, f.foType) }

// stateGlobal: v is a package-level FieldOffset variable; named reports whether
// it is one of the named state offsets.
func (f *c13Flow) foGlobal(v ssa.Value) (g *ssa.Global, named bool) {
	g, ok := v.(*ssa.Global)
	if !ok || !f.isFO(derefType(g.Type())) {
		return nil, false
	}
	return g, g.Pkg == f.pkg && f.state[g.Name()]
}

// eval evaluates an integer or FieldOffset SSA value; at is the block of the
// instruction consuming it (dominating loop guards refine induction variables).
func (f *c13Flow) eval(v ssa.Value, at *ssa.BasicBlock) c13Val {
	k := c13Key{v, at}
	if r, ok := f.memo[k]; ok {
		return r
	}
	if f.onstack[k] {
		return c13Top("cyclic derivation through %s", v.Name())
	}
	f.onstack[k] = true
	r := f.eval1(v, at)
	delete(f.onstack, k)
	f.memo[k] = r
	return r
}

func c13constInt(v ssa.Value) (int64, bool) {
	c, ok := v.(*ssa.Const)
	if !ok || c.Value == nil || c.Value.Kind() != constant.Int {
		return 0, false
	}
	return constant.Int64Val(c.Value)
}

func (f *c13Flow) eval1(v ssa.Value, at *ssa.BasicBlock) c13Val {
	switch x := v.(type) {
	case *ssa.Const:
		if x.Value == nil { // zero value of an aggregate: FieldOffset{}
			return c13Num(0, 0)
		}
		if n, ok := c13constInt(x); ok {
			return c13Num(n, n)
		}
		return c13Top("non-integer constant")
	case *ssa.Convert:
		return f.eval(x.X, x.Block())
	case *ssa.ChangeType:
		return f.eval(x.X, x.Block())
	case *ssa.Field:
		if f.isFO(x.X.Type()) && x.Field == 0 {
			return f.eval(x.X, x.Block())
		}
		return c13Top("field %s of a non-FieldOffset value", lastField(x))
	case *ssa.UnOp:
		switch x.Op {
		case token.SUB:
			a := f.eval(x.X, x.Block())
			if n, ok := a.isNum(); ok {
				return c13Num(n.neg().lo, n.neg().hi)
			}
			if a.top {
				return a
			}
			return c13Top("negated named offset")
		case token.MUL:
			return f.evalLoad(x)
		}
		return c13Top("unary %s", x.Op)
	case *ssa.BinOp:
		if r, ok := f.evalInductionNext(x, at); ok {
			return r
		}
		a, b := f.eval(x.X, x.Block()), f.eval(x.Y, x.Block())
		switch x.Op {
		case token.ADD:
			return a.plus(b)
		case token.SUB:
			if n, ok := b.isNum(); ok {
				return a.plus(c13Num(n.neg().lo, n.neg().hi))
			}
			if b.top {
				return b
			}
			return c13Top("subtraction of a named offset")
		case token.MUL, token.SHL:
			if a.top {
				return a
			}
			if b.top {
				return b
			}
			na, oka := a.isNum()
			nb, okb := b.isNum()
			if !oka || !okb {
				return c13Top("named offset scaled by %s", x.Op)
			}
			if x.Op == token.SHL {
				if nb.lo != nb.hi || nb.lo < 0 || nb.lo > 30 {
					return c13Top("shift by a non-constant")
				}
				nb = c13Ival{1 << nb.lo, 1 << nb.lo}
			}
			r := na.mul(nb)
			return c13Num(r.lo, r.hi)
		}
		return c13Top("operator %s", x.Op)
	case *ssa.Phi:
		return f.evalPhi(x, at)
	case *ssa.Parameter:
		return f.evalParam(x)
	case *ssa.Call:
		cc := x.Common()
		if b, ok := cc.Value.(*ssa.Builtin); ok && b.Name() == "len" && len(cc.Args) == 1 {
			return f.evalLen(cc.Args[0], x.Block())
		}
		if sf := cc.StaticCallee(); sf != nil && sf.Blocks != nil && topFn(sf).Pkg == f.pkg && sf.Signature.Results().Len() == 1 {
			return f.evalReturn(sf)
		}
		return c13Top("result of %s", c13calleeName(cc))
	case *ssa.Global:
		return c13Top("address of %s", x.Name())
	}
	return c13Top("%T %s", v, v.Name())
}

func c13calleeName(cc *ssa.CallCommon) string {
	if fn := calleeOf(cc); fn != nil {
		return funcID(fn)
	}
	return "a call of a function value"
}

func (f *c13Flow) evalReturn(fn *ssa.Function) c13Val {
	if r, ok := f.fnRet[fn]; ok {
		return r
	}
	if f.onstack[fn] {
		return c13Top("recursive function %s", fnName(fn))
	}
	f.onstack[fn] = true
	r := c13Bottom()
	for _, ret := range returnsOf(fn) {
		r = r.join(f.eval(ret.Results[0], ret.Block()))
	}
	delete(f.onstack, fn)
	f.fnRet[fn] = r
	return r
}

func (f *c13Flow) evalParam(pa *ssa.Parameter) c13Val {
	if r, ok := f.paramV[pa]; ok {
		return r
	}
	fn := pa.Parent()
	idx := -1
	for i, q := range fn.Params {
		if q == pa {
			idx = i
		}
	}
	var r c13Val
	switch {
	case idx < 0:
		r = c13Top("parameter %s not found", pa.Name())
	case fn.Parent() != nil:
		r = c13Top("parameter %s of a function literal", pa.Name())
	case token.IsExported(fn.Name()):
		r = c13Top("parameter %s of exported %s: callers outside the package are unknown", pa.Name(), fnName(fn))
	case f.opaque[fn] != "":
		r = c13Top("parameter %s of %s, which %s", pa.Name(), fnName(fn), f.opaque[fn])
	case fn.Signature.Recv() != nil && f.invoked[fn.Name()]:
		r = c13Top("parameter %s of %s, which may be called through an interface", pa.Name(), fnName(fn))
	case len(f.callers[fn]) == 0:
		r = c13Bottom() // never called: the parameter has no value
	case f.onstack[pa]:
		return c13Top("recursive flow into parameter %s", pa.Name())
	default:
		f.onstack[pa] = true
		r = c13Bottom()
		for _, ci := range f.callers[fn] {
			args := ci.Common().Args
			if idx >= len(args) {
				r = c13Top("call of %s with fewer arguments than parameters", fnName(fn))
				break
			}
			r = r.join(f.eval(args[idx], ci.Block()))
		}
		delete(f.onstack, pa)
	}
	f.paramV[pa] = r
	return r
}

func (f *c13Flow) evalLen(v ssa.Value, at *ssa.BasicBlock) c13Val {
	switch x := v.(type) {
	case *ssa.MakeSlice:
		return f.eval(x.Len, x.Block())
	case *ssa.Slice:
		if x.Low == nil && x.High == nil {
			if pt, ok := x.X.Type().Underlying().(*types.Pointer); ok {
				if at, ok := pt.Elem().Underlying().(*types.Array); ok {
					return c13Num(at.Len(), at.Len())
				}
			}
			return f.evalLen(x.X, x.Block())
		}
	case *ssa.Phi:
		k := c13Key{v, nil}
		if f.onstack[k] {
			return c13Top("length of a loop-carried slice")
		}
		f.onstack[k] = true
		r := c13Bottom()
		for _, e := range x.Edges {
			r = r.join(f.evalLen(e, at))
		}
		delete(f.onstack, k)
		return r
	case *ssa.Const:
		if x.Value != nil && x.Value.Kind() == constant.String {
			n := int64(len(constant.StringVal(x.Value)))
			return c13Num(n, n)
		}
	}
	if at, ok := v.Type().Underlying().(*types.Array); ok {
		return c13Num(at.Len(), at.Len())
	}
	return c13Top("length of %s", v.Name())
}

// ------------------------------------------------ induction variables --

// c13Ind describes v as a value of a counting loop: phi = [init, next, next…],
// next = phi + step (step > 0).  isNext: v is next rather than phi.
type c13Ind struct {
	phi    *ssa.Phi
	next   *ssa.BinOp
	init   ssa.Value
	initAt *ssa.BasicBlock
	step   int64
}

func c13induction(phi *ssa.Phi) *c13Ind {
	ind := &c13Ind{phi: phi}
	for i, e := range phi.Edges {
		if bo, ok := e.(*ssa.BinOp); ok && bo.Op == token.ADD && bo.X == ssa.Value(phi) {
			if s, ok := c13constInt(bo.Y); ok && s > 0 && (ind.next == nil || ind.next == bo) {
				ind.next, ind.step = bo, s
				continue
			}
		}
		if ind.init != nil {
			return nil
		}
		ind.init, ind.initAt = e, phi.Block().Preds[i]
	}
	if ind.next == nil || ind.init == nil {
		return nil
	}
	return ind
}

// upper bound of the induction value x (phi or next of ind) established by the
// loop guards that dominate block at.
func (f *c13Flow) indUpper(ind *c13Ind, x ssa.Value, at *ssa.BasicBlock) int64 {
	hi := c13Inf
	if at == nil {
		return hi
	}
	for _, g := range guardsOfBlock(at) {
		for _, X := range []ssa.Value{ind.phi, ind.next} {
			lim := f.indUpperFrom(X, g)
			if lim >= c13Inf {
				continue
			}
			if X == ssa.Value(ind.next) && x == ssa.Value(ind.phi) {
				lim -= ind.step
			} else if X == ssa.Value(ind.phi) && x == ssa.Value(ind.next) {
				lim += ind.step
			}
			hi = min(hi, lim)
		}
	}
	return hi
}

func (f *c13Flow) evalPhi(phi *ssa.Phi, at *ssa.BasicBlock) c13Val {
	if ind := c13induction(phi); ind != nil {
		iv := f.eval(ind.init, ind.initAt)
		n, ok := iv.isNum()
		if !ok {
			if iv.top {
				return iv
			}
			return c13Top("loop counter starting at a named offset")
		}
		return c13Num(n.lo, max(n.hi, f.indUpper(ind, phi, at)))
	}
	r := c13Bottom()
	for i, e := range phi.Edges {
		r = r.join(f.eval(e, phi.Block().Preds[i]))
	}
	return r
}

// evalNext: next = phi + step of a counting loop, refined at the use site.
func (f *c13Flow) evalInductionNext(bo *ssa.BinOp, at *ssa.BasicBlock) (c13Val, bool) {
	phi, ok := bo.X.(*ssa.Phi)
	if !ok || bo.Op != token.ADD {
		return c13Val{}, false
	}
	ind := c13induction(phi)
	if ind == nil || ind.next != bo {
		return c13Val{}, false
	}
	iv := f.eval(ind.init, ind.initAt)
	n, ok := iv.isNum()
	if !ok {
		return c13Val{}, false
	}
	return c13Num(n.lo+ind.step, max(n.hi+ind.step, f.indUpper(ind, bo, at))), true
}

// ----------------------------------------------------- address-taken cells --

type c13Def struct {
	in    ssa.Instruction // *ssa.Alloc, whole *ssa.Store, or *ssa.Store to the Offset part
	whole bool
	alloc bool
}

type c13Cell struct {
	a       *ssa.Alloc
	escape  string // non-empty: the address is used in a way the analysis does not model
	defs    []*c13Def
	defAt   map[ssa.Instruction]*c13Def
	in      map[*ssa.BasicBlock]map[*c13Def]bool // reaching definitions on block entry
	cutIn   map[*ssa.BasicBlock]map[*ssa.BasicBlock]map[*c13Def]bool
	acc     map[*c13Def]*c13Acc
	fieldSt []string // constant strings stored to the Field part
}

// c13Acc: a solved loop-carried accumulator  cell.Offset = cell.Offset + s.
type c13Acc struct {
	top    *c13Val // non-nil: could not be solved
	v0     c13Val  // value before the first accumulation (all other reaching definitions)
	s      c13Ival
	n      int64 // trip bound of the carrying loop
	header *ssa.BasicBlock
	guard  Guard
	read   *ssa.UnOp
	done   bool
}

func (f *c13Flow) cell(a *ssa.Alloc) *c13Cell {
	if c, ok := f.cells[a]; ok {
		return c
	}
	c := &c13Cell{a: a, defAt: map[ssa.Instruction]*c13Def{}, cutIn: map[*ssa.BasicBlock]map[*ssa.BasicBlock]map[*c13Def]bool{}, acc: map[*c13Def]*c13Acc{}}
	f.cells[a] = c
	add := func(d *c13Def) { c.defs = append(c.defs, d); c.defAt[d.in] = d }
	add(&c13Def{in: a, alloc: true})
	for _, r := range *a.Referrers() {
		switch u := r.(type) {
		case *ssa.DebugRef:
		case *ssa.Store:
			if u.Addr == ssa.Value(a) && u.Val != ssa.Value(a) {
				add(&c13Def{in: u, whole: true})
			} else {
				c.escape = "its address is stored at " + f.p.Pos(u.Pos())
			}
		case *ssa.UnOp:
			if u.Op != token.MUL {
				c.escape = "unexpected use " + u.String()
			}
		case *ssa.FieldAddr:
			for _, r2 := range *u.Referrers() {
				switch u2 := r2.(type) {
				case *ssa.DebugRef:
				case *ssa.Store:
					if u2.Addr != ssa.Value(u) {
						c.escape = "the address of a field is stored at " + f.p.Pos(u2.Pos())
					} else if u.Field == 0 {
						add(&c13Def{in: u2})
					} else if k, ok := u2.Val.(*ssa.Const); ok && k.Value != nil && k.Value.Kind() == constant.String {
						c.fieldSt = append(c.fieldSt, constant.StringVal(k.Value))
					}
				case *ssa.UnOp:
					if u2.Op != token.MUL {
						c.escape = "unexpected use " + u2.String()
					}
				default:
					c.escape = fmt.Sprintf("the address of a field is used by %T at %s", r2, f.p.Pos(r2.Pos()))
				}
			}
		default:
			c.escape = fmt.Sprintf("its address is used by %T at %s", r, f.p.Pos(r.Pos()))
		}
	}
	c.in = c.reach(nil)
	return c
}

// reach computes reaching definitions of the cell's Offset part on block entry.
// Every definition overwrites the Offset, so each kills all others.  Edges into
// cut (if non-nil) from blocks it dominates (its back edges) are ignored.
func (c *c13Cell) reach(cut *ssa.BasicBlock) map[*ssa.BasicBlock]map[*c13Def]bool {
	fn := c.a.Parent()
	in := map[*ssa.BasicBlock]map[*c13Def]bool{}
	out := map[*ssa.BasicBlock]map[*c13Def]bool{}
	last := map[*ssa.BasicBlock]*c13Def{}
	for _, b := range fn.Blocks {
		in[b], out[b] = map[*c13Def]bool{}, map[*c13Def]bool{}
		for _, i := range b.Instrs {
			if d := c.defAt[i]; d != nil {
				last[b] = d
			}
		}
	}
	for changed := true; changed; {
		changed = false
		for _, b := range fn.Blocks {
			for _, p := range b.Preds {
				if cut != nil && b == cut && cut.Dominates(p) {
					continue
				}
				for d := range out[p] {
					if !in[b][d] {
						in[b][d] = true
						changed = true
					}
				}
			}
			if l := last[b]; l != nil {
				if !out[b][l] {
					out[b] = map[*c13Def]bool{l: true}
					changed = true
				}
			} else {
				for d := range in[b] {
					if !out[b][d] {
						out[b][d] = true
						changed = true
					}
				}
			}
		}
	}
	return in
}

// defsAt: the definitions reaching instruction at (a load of the cell).
func (c *c13Cell) defsAt(in map[*ssa.BasicBlock]map[*c13Def]bool, at ssa.Instruction) []*c13Def {
	b := at.Block()
	var lastDef *c13Def
	for _, i := range b.Instrs {
		if i == at {
			break
		}
		if d := c.defAt[i]; d != nil {
			lastDef = d
		}
	}
	if lastDef != nil {
		return []*c13Def{lastDef}
	}
	var out []*c13Def
	for _, d := range c.defs { // deterministic order
		if in[b][d] {
			out = append(out, d)
		}
	}
	return out
}

func (c *c13Cell) cutReach(h *ssa.BasicBlock) map[*ssa.BasicBlock]map[*c13Def]bool {
	if r, ok := c.cutIn[h]; ok {
		return r
	}
	r := c.reach(h)
	c.cutIn[h] = r
	return r
}

// evalLoad: *addr where addr is a FieldOffset global, the Offset part of one, an
// address-taken local FieldOffset, or its Offset part.
func (f *c13Flow) evalLoad(ld *ssa.UnOp) c13Val {
	addr := ld.X
	if fa, ok := addr.(*ssa.FieldAddr); ok {
		if fa.Field != 0 || !f.isFO(derefType(fa.X.Type())) {
			return c13Top("load of field %s", lastField(fa))
		}
		addr = fa.X
	} else if !f.isFO(ld.Type()) {
		return c13Top("load through %s", addr.Name())
	}
	if g, named := f.foGlobal(addr); g != nil {
		if named {
			return c13Val{m: map[string]c13Ival{g.Name(): {0, 0}}}
		}
		return c13Num(-c13Inf, c13Inf) // FieldOffset of some other structure (skb->…): a number this rule does not bound
	}
	a, ok := addr.(*ssa.Alloc)
	if !ok {
		return c13Top("load through %s (%T)", addr.Name(), addr)
	}
	c := f.cell(a)
	if c.escape != "" {
		return c13Top("local %s: %s", a.Comment, c.escape)
	}
	r := c13Bottom()
	for _, d := range c.defsAt(c.in, ld) {
		r = r.join(f.evalDef(c, d, ld))
	}
	return r
}

// c13accForm: st.Val == conv*(load(cell.Offset) + s) -> (the load, s).
func (c *c13Cell) accForm(st *ssa.Store) (*ssa.UnOp, ssa.Value) {
	v := st.Val
	for {
		if cv, ok := v.(*ssa.Convert); ok {
			v = cv.X
			continue
		}
		break
	}
	bo, ok := v.(*ssa.BinOp)
	if !ok || bo.Op != token.ADD {
		return nil, nil
	}
	isRead := func(x ssa.Value) *ssa.UnOp {
		for {
			if cv, ok := x.(*ssa.Convert); ok {
				x = cv.X
				continue
			}
			break
		}
		ld, ok := x.(*ssa.UnOp)
		if !ok || ld.Op != token.MUL {
			return nil
		}
		fa, ok := ld.X.(*ssa.FieldAddr)
		if !ok || fa.Field != 0 || fa.X != ssa.Value(c.a) {
			return nil
		}
		return ld
	}
	if ld := isRead(bo.X); ld != nil {
		return ld, bo.Y
	}
	if ld := isRead(bo.Y); ld != nil {
		return ld, bo.X
	}
	return nil, nil
}

// evalDef: the value a definition gives to the Offset part, as observed by the
// load use.
func (f *c13Flow) evalDef(c *c13Cell, d *c13Def, use *ssa.UnOp) c13Val {
	if d.alloc {
		return c13Num(0, 0)
	}
	st := d.in.(*ssa.Store)
	if d.whole {
		return f.eval(st.Val, st.Block())
	}
	// a store to the Offset part: loop-carried accumulator?
	if rd, _ := c.accForm(st); rd != nil {
		self := false
		for _, x := range c.defsAt(c.in, rd) {
			if x == d {
				self = true
			}
		}
		if self {
			acc := f.solveAcc(c, d)
			if acc.top != nil {
				return *acc.top
			}
			return acc.valueAt(c, d, use)
		}
	}
	if f.onstack[d] {
		return c13Top("the offset stored at %s depends on a value it stored in an earlier loop iteration, and not in the form x.Offset += step", f.p.Pos(st.Pos()))
	}
	f.onstack[d] = true
	r := f.eval(st.Val, st.Block())
	delete(f.onstack, d)
	return r
}

// innermost loop header whose natural loop contains b (nil if none).
func c13innerLoop(b *ssa.BasicBlock) (*ssa.BasicBlock, map[*ssa.BasicBlock]bool) {
	for h := b; h != nil; h = h.Idom() {
		var srcs []*ssa.BasicBlock
		for _, p := range h.Preds {
			if h.Dominates(p) {
				srcs = append(srcs, p)
			}
		}
		if len(srcs) == 0 {
			continue
		}
		loop := map[*ssa.BasicBlock]bool{h: true}
		st := srcs
		for len(st) > 0 {
			x := st[len(st)-1]
			st = st[:len(st)-1]
			if loop[x] {
				continue
			}
			loop[x] = true
			st = append(st, x.Preds...)
		}
		if loop[b] {
			return h, loop
		}
	}
	return nil, nil
}

func (f *c13Flow) solveAcc(c *c13Cell, d *c13Def) *c13Acc {
	if a, ok := c.acc[d]; ok && a.done {
		return a
	}
	st := d.in.(*ssa.Store)
	acc := c.acc[d]
	if acc == nil {
		acc = &c13Acc{}
		c.acc[d] = acc
	}
	fail := func(format string, a ...any) *c13Acc {
		t := c13Top("loop-carried accumulation into %s at %s: %s", c.a.Comment, f.p.Pos(st.Pos()), fmt.Sprintf(format, a...))
		acc.top = &t
		return acc
	}
	if f.onstack[d] {
		return fail("its increment or initial value depends on the accumulated value itself")
	}
	f.onstack[d] = true
	defer func() { delete(f.onstack, d); acc.done = true }()

	rd, sv := c.accForm(st)
	acc.read = rd
	if rd.Block() != st.Block() {
		return fail("read and write are in different blocks")
	}
	h, loop := c13innerLoop(st.Block())
	if h == nil {
		return fail("no enclosing loop found")
	}
	acc.header = h
	// the carried value must travel along h's back edges only
	for _, x := range c.defsAt(c.cutReach(h), rd) {
		if x == d {
			return fail("the write reaches its own read within one iteration of the innermost loop")
		}
	}
	for _, p := range h.Preds {
		if !h.Dominates(p) {
			last := p.Instrs[len(p.Instrs)-1]
			for _, x := range c.defsAt(c.in, last) {
				if x == d {
					return fail("the accumulated value leaves the loop and re-enters it (an outer loop carries it as well)")
				}
			}
			// the terminator itself is never a definition, so defsAt(last) == OUT[p]
		}
	}
	// initial value: every other definition reaching the read
	v0 := c13Bottom()
	for _, x := range c.defsAt(c.in, rd) {
		if x == d {
			continue
		}
		v0 = v0.join(f.evalDef(c, x, rd))
	}
	if v0.top {
		return fail("initial value unknown: %s", v0.why)
	}
	s := f.eval(sv, st.Block())
	if s.top {
		return fail("increment unknown: %s", s.why)
	}
	sn, ok := s.isNum()
	if !ok {
		return fail("increment is not a plain number")
	}
	acc.v0, acc.s = v0, sn
	// trip bound: a guard on a counter of h that dominates the write
	acc.n = c13Inf
	for _, g := range guardsOfBlock(st.Block()) {
		if !loop[g.If.Block()] {
			continue
		}
		if ih, _ := c13innerLoop(g.If.Block()); ih != h {
			continue
		}
		for _, in := range h.Instrs {
			phi, ok := in.(*ssa.Phi)
			if !ok {
				break
			}
			ind := c13induction(phi)
			if ind == nil {
				continue
			}
			iv := f.eval(ind.init, ind.initAt)
			n0, ok := iv.isNum()
			if !ok || n0.lo <= -c13Inf {
				continue
			}
			// number of distinct values the tested counter can take while the guard holds
			for _, x := range []ssa.Value{ind.phi, ind.next} {
				first := n0.lo
				if x == ssa.Value(ind.next) {
					first += ind.step
				}
				hi := f.indUpperFrom(x, g)
				if hi >= c13Inf {
					continue
				}
				n := int64(0)
				if hi >= first {
					n = (hi-first)/ind.step + 1
				}
				if n < acc.n {
					acc.n, acc.guard = n, g
				}
			}
		}
	}
	return acc
}

// indUpperFrom: upper bound that the single guard g places on induction value x.
func (f *c13Flow) indUpperFrom(x ssa.Value, g Guard) int64 {
	bo, ok := g.Cond.(*ssa.BinOp)
	if !ok || (bo.X != x && bo.Y != x) {
		return c13Inf
	}
	// normalise to  x op B  holding at the guarded point
	op, B := bo.Op, bo.Y
	if bo.Y == x {
		B = bo.X
		switch op {
		case token.LSS:
			op = token.GTR
		case token.LEQ:
			op = token.GEQ
		case token.GTR:
			op = token.LSS
		case token.GEQ:
			op = token.LEQ
		}
	}
	if !g.True {
		switch op {
		case token.LSS:
			op = token.GEQ
		case token.LEQ:
			op = token.GTR
		case token.GTR:
			op = token.LEQ
		case token.GEQ:
			op = token.LSS
		case token.EQL:
			op = token.NEQ
		case token.NEQ:
			op = token.EQL
		}
	}
	n, ok := f.eval(B, g.If.Block()).isNum()
	if !ok || n.hi >= c13Inf {
		return c13Inf
	}
	switch op {
	case token.LSS:
		return n.hi - 1
	case token.LEQ, token.EQL:
		return n.hi
	}
	return c13Inf
}

// times: hull of k*s for k in [klo,khi].
func c13times(s c13Ival, klo, khi int64) c13Ival {
	if khi >= c13Inf {
		r := c13Ival{0, 0}
		if s.lo < 0 {
			r.lo = -c13Inf
		} else {
			r.lo = klo * s.lo
		}
		if s.hi > 0 {
			r.hi = c13Inf
		} else {
			r.hi = klo * s.hi
		}
		return r
	}
	return c13Ival{klo, khi}.mul(s)
}

// valueAt: the values of accumulator definition d that load use can observe.
func (a *c13Acc) valueAt(c *c13Cell, d *c13Def, use *ssa.UnOp) c13Val {
	if a.n <= 0 {
		return c13Bottom() // the write can never execute
	}
	// In the k-th guarded iteration (k = 0..n-1) the read sees v0 + j*s, j <= k, and
	// the write stores v0 + (j+1)*s.
	kmax := a.n // number of accumulations the observed value may contain (at least 1)
	if use != nil && use != a.read {
		// a load that only sees the write across a back edge and is itself under the
		// loop guard runs in a later guarded iteration: at most n-1 accumulations.
		intra := false
		for _, x := range c.defsAt(c.cutReach(a.header), use) {
			if x == d {
				intra = true
			}
		}
		guarded := false
		for _, g := range guardsOfBlock(use.Block()) {
			if g.If == a.guard.If && g.True == a.guard.True {
				guarded = true
			}
		}
		if !intra && guarded {
			kmax = a.n - 1
		}
	} else if use == a.read {
		kmax = a.n - 1
	}
	if kmax < 1 {
		return c13Bottom()
	}
	r := a.v0.plus(c13Val{m: map[string]c13Ival{"": c13times(a.s, 1, kmax)}})
	nn := fmt.Sprint(a.n)
	if a.n >= c13Inf {
		nn = "an unbounded number of"
	}
	r.note = c13note(r.note, fmt.Sprintf("local %s accumulates %s per iteration over up to %s iterations of its loop (the offset is not re-derived from the named constant in each iteration)", c.a.Comment, a.s, nn))
	return r
}

// ------------------------------------------------------------------- sinks --

type c13Sink struct {
	call   ssa.CallInstruction
	fn     *ssa.Function
	method string
	width  int // bytes; 0 = not derivable from the callee's name
	val    c13Val
	inline string // constant Field string of an inline literal argument naming state->…
}

// sinks: every call in the package of a felix/bpf/asm function with a FieldOffset
// parameter, with the evaluated argument.
func (f *c13Flow) sinks(asmPkg string, widthOf func(name string) int) []c13Sink {
	var out []c13Sink
	for _, fn := range f.funcs {
		for _, b := range fn.Blocks {
			for _, in := range b.Instrs {
				ci, ok := in.(ssa.CallInstruction)
				if !ok {
					continue
				}
				callee := calleeOf(ci.Common())
				if callee == nil || callee.Pkg() == nil || !strings.HasSuffix(callee.Pkg().Path(), asmPkg) {
					continue
				}
				args := ci.Common().Args
				if ci.Common().IsInvoke() {
					args = append([]ssa.Value{ci.Common().Value}, args...)
				}
				for _, a := range args {
					if !f.isFO(a.Type()) {
						continue
					}
					s := c13Sink{call: ci, fn: fn, method: callee.Name(), width: widthOf(callee.Name()), val: f.eval(a, b)}
					if ld, ok := a.(*ssa.UnOp); ok && ld.Op == token.MUL {
						if al, ok := ld.X.(*ssa.Alloc); ok {
							for _, fs := range f.cell(al).fieldSt {
								if strings.HasPrefix(fs, "state->") {
									s.inline = fs
								}
							}
						}
					}
					out = append(out, s)
				}
			}
		}
	}
	return out
}

// mutations: uses of the named state offset variables other than reading them
// (outside the package initialiser) - the derivation assumes they are constants.
func (f *c13Flow) mutations() []string {
	var out []string
	readOnly := func(v ssa.Value) bool {
		refs := v.Referrers()
		if refs == nil {
			return true
		}
		for _, r := range *refs {
			switch u := r.(type) {
			case *ssa.DebugRef:
			case *ssa.UnOp:
				if u.Op != token.MUL {
					return false
				}
			default:
				return false
			}
		}
		return true
	}
	for _, fn := range f.funcs {
		if fn.Name() == "init" && fn.Parent() == nil && fn.Synthetic != "" {
			continue
		}
		for _, b := range fn.Blocks {
			for _, in := range b.Instrs {
				for _, op := range in.Operands(nil) {
					if op == nil || *op == nil {
						continue
					}
					g, named := f.foGlobal(*op)
					if g == nil || !named {
						continue
					}
					ok := false
					switch u := in.(type) {
					case *ssa.UnOp:
						ok = u.Op == token.MUL
					case *ssa.FieldAddr:
						ok = readOnly(u)
					case *ssa.DebugRef:
						ok = true
					}
					if !ok {
						out = append(out, fmt.Sprintf("%s is written or has its address taken in %s (%s)", g.Name(), fnName(fn), f.p.Pos(in.Pos())))
					}
				}
			}
		}
	}
	return out
}
