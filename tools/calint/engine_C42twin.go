package main

import (
	"fmt"
	"go/types"
	"sort"
	"strings"

	"golang.org/x/tools/go/ssa"
)

// C42.twin — the IPv4 and IPv6 arms of a constructor wire the same plumbing.
//
// The Syncer is one implementation for both address families; everything that
// depends on the family is injected once, in the arms of an `ipFamily == 4 / 6`
// branch: the typed wrappers of the frontend/backend/maglev maps (key and value
// decoders used when the maps are read back from the kernel at start-up) and
// the key/value constructors.  The stale-entry removal of C42 ("once a sync
// completes ... stale frontends and backends removed") works on what those
// decoders return, so the two arms must be equal modulo the IPv4->IPv6 relation
// of the nat types.
//
// Decided without looking at function names: for every struct field that is
// assigned in both arms, the function values that flow into the assigned value
// (directly, or as arguments of the constructor calls that build it) are listed
// in operand order; at each position the set of concrete nat types the IPv6
// function produces (result type; for interface results the dynamic types its
// body returns, through same-package calls) must be the IPv6 twin types of what
// the IPv4 function produces (FrontendKey -> FrontendKeyV6 ...; a type without a
// twin, or whose twin is an alias of it, maps to itself), and the IPv4 arm must
// not produce IPv6 twin types.

// c42FuncRefs: function values flowing into v, in operand order.
func c42FuncRefs(v ssa.Value) []*ssa.Function {
	var out []*ssa.Function
	seen := map[ssa.Value]bool{}
	var walk func(v ssa.Value, d int)
	walk = func(v ssa.Value, d int) {
		if v == nil || seen[v] || d > 12 {
			return
		}
		seen[v] = true
		switch x := v.(type) {
		case *ssa.Function:
			out = append(out, x)
		case *ssa.MakeClosure:
			if f, ok := x.Fn.(*ssa.Function); ok {
				out = append(out, f)
			}
		case *ssa.ChangeType:
			walk(x.X, d+1)
		case *ssa.MakeInterface:
			walk(x.X, d+1)
		case *ssa.ChangeInterface:
			walk(x.X, d+1)
		case *ssa.Extract:
			walk(x.Tuple, d+1)
		case *ssa.Phi:
			for _, e := range x.Edges {
				walk(e, d+1)
			}
		case *ssa.Call:
			cc := x.Common()
			if cc.IsInvoke() {
				return
			}
			if _, isFn := cc.Value.(*ssa.Function); !isFn {
				if _, isBuiltin := cc.Value.(*ssa.Builtin); !isBuiltin {
					walk(cc.Value, d+1)
				}
			}
			for _, a := range cc.Args {
				walk(a, d+1)
			}
		}
	}
	walk(v, 0)
	return out
}

func c42TypeObj(t types.Type) *types.TypeName {
	if pt, ok := types.Unalias(t).(*types.Pointer); ok {
		t = pt.Elem()
	}
	if n, ok := types.Unalias(t).(*types.Named); ok {
		return n.Obj()
	}
	return nil
}

// c42Produces: the concrete types a function value yields as its first result.
// ok == false if a body needed to decide is not available.
func c42Produces(f *ssa.Function, seen map[*ssa.Function]bool) (out []types.Type, ok bool) {
	res := f.Signature.Results()
	if res.Len() == 0 {
		return nil, true
	}
	rt := res.At(0).Type()
	if _, isIface := rt.Underlying().(*types.Interface); !isIface {
		return []types.Type{types.Unalias(rt)}, true
	}
	if f.Blocks == nil || seen[f] {
		return nil, false
	}
	seen[f] = true
	ok = true
	vseen := map[ssa.Value]bool{}
	var walk func(v ssa.Value)
	walk = func(v ssa.Value) {
		if v == nil || vseen[v] {
			return
		}
		vseen[v] = true
		switch x := v.(type) {
		case *ssa.MakeInterface:
			out = append(out, types.Unalias(x.X.Type()))
		case *ssa.ChangeInterface:
			walk(x.X)
		case *ssa.Phi:
			for _, e := range x.Edges {
				walk(e)
			}
		case *ssa.Extract:
			walk(x.Tuple)
		case *ssa.Call:
			g := calleeFn(x.Common())
			if g == nil {
				ok = false
				return
			}
			ts, k := c42Produces(g, seen)
			if !k {
				ok = false
			}
			out = append(out, ts...)
		case *ssa.Const:
			// nil interface
		default:
			ok = false
		}
	}
	for _, r := range returnsOf(f) {
		if r.Block() == f.Recover || len(r.Results) == 0 {
			continue
		}
		walk(r.Results[0])
	}
	return out, ok
}

// c42V6Of: the IPv6 twin of a type (itself if it has none / the twin is an alias).
func c42V6Of(t types.Type) types.Type {
	if tn := c42TypeObj(t); tn != nil {
		if o6, ok := c14V6TwinOf(tn).(*types.TypeName); ok {
			t6 := types.Unalias(o6.Type())
			if _, isPtr := types.Unalias(t).(*types.Pointer); isPtr {
				return types.NewPointer(t6)
			}
			return t6
		}
	}
	return t
}

// c42IsV6Twin: t is the IPv6 twin of a different type.
func c42IsV6Twin(t types.Type) bool {
	if tn := c42TypeObj(t); tn != nil {
		if o4, ok := c14V4TwinOf(tn).(*types.TypeName); ok {
			return !types.Identical(types.Unalias(o4.Type()), types.Unalias(tn.Type()))
		}
	}
	return false
}

func c42TypeSet(ts []types.Type, f func(types.Type) types.Type) string {
	m := map[string]bool{}
	for _, t := range ts {
		if f != nil {
			t = f(t)
		}
		m[types.TypeString(t, func(p *types.Package) string { return p.Name() })] = true
	}
	return strings.Join(sortedKeys(m), "|")
}

// c42Arm: the address family (4/6) under whose `x == 4` / `x == 6` test the
// instruction executes; 0 if neither.
func c42Arm(in ssa.Instruction) int {
	arm := 0
	for _, n := range []int64{4, 6} {
		n := n
		isN := func(v ssa.Value) bool {
			c, ok := constOf(v)
			return ok && c.String() == fmt.Sprint(n)
		}
		notConst := func(v ssa.Value) bool {
			_, ok := v.(*ssa.Const)
			if ok {
				return false
			}
			b, isBasic := v.Type().Underlying().(*types.Basic)
			return isBasic && b.Info()&types.IsInteger != 0
		}
		if guardedCut(in, eqCond(true, notConst, isN)) {
			if arm != 0 {
				return 0
			}
			arm = int(n)
		}
	}
	return arm
}

func c42Twin(x *c42) {
	c, p := x.c, x.p
	type slot struct {
		fn    *ssa.Function
		field *types.Var
	}
	arms := map[slot]map[int][]*ssa.Store{}
	var order []slot
	for _, f := range x.funcs {
		if f.Blocks == nil {
			continue
		}
		allInstrs(f, false, func(_ *ssa.Function, in ssa.Instruction) {
			st, ok := in.(*ssa.Store)
			if !ok {
				return
			}
			fa, ok := st.Addr.(*ssa.FieldAddr)
			if !ok {
				return
			}
			fv := fieldVar(fa)
			if fv == nil || len(c42FuncRefs(st.Val)) == 0 {
				return
			}
			a := c42Arm(st)
			if a == 0 {
				return
			}
			k := slot{f, fv}
			if arms[k] == nil {
				arms[k] = map[int][]*ssa.Store{}
				order = append(order, k)
			}
			arms[k][a] = append(arms[k][a], st)
		})
	}
	sort.SliceStable(order, func(i, j int) bool { return order[i].field.Pos() < order[j].field.Pos() })
	nPos := 0
	for _, k := range order {
		a4, a6 := arms[k][4], arms[k][6]
		base := "C42.twin/" + fnName(k.fn) + "/" + k.field.Name()
		if len(a4) == 0 || len(a6) == 0 {
			continue // wired for one family only: nothing to pair
		}
		if len(a4) != 1 || len(a6) != 1 {
			c.Undecided(base, p.Pos(a4[0].Pos()), "%s assigns %s more than once inside one address-family arm (%d/%d): cannot pair the arms", fnName(k.fn), k.field.Name(), len(a4), len(a6))
			continue
		}
		r4, r6 := c42FuncRefs(a4[0].Val), c42FuncRefs(a6[0].Val)
		if len(r4) != len(r6) {
			c.Violate(base, p.Pos(a6[0].Pos()), "%s builds %s from %d function value(s) in the IPv4 arm but %d in the IPv6 arm: the arms are not twins", fnName(k.fn), k.field.Name(), len(r4), len(r6))
			continue
		}
		for i := range r4 {
			nPos++
			key := base + "/" + fnName(r4[i])
			t4, ok4 := c42Produces(r4[i], map[*ssa.Function]bool{})
			t6, ok6 := c42Produces(r6[i], map[*ssa.Function]bool{})
			if !ok4 || !ok6 || len(t4) == 0 || len(t6) == 0 {
				c.Undecided(key, p.Pos(a6[0].Pos()), "cannot determine the concrete types produced by %s / %s (body not loaded or result not built from conversions to an interface)", fnName(r4[i]), fnName(r6[i]))
				continue
			}
			bad := ""
			for _, t := range t4 {
				if c42IsV6Twin(t) {
					bad = fmt.Sprintf("the IPv4 arm uses %s, which produces the IPv6 type %s", fnName(r4[i]), c42TypeSet([]types.Type{t}, nil))
				}
			}
			want, got := c42TypeSet(t4, c42V6Of), c42TypeSet(t6, nil)
			if bad == "" && want != got {
				bad = fmt.Sprintf("the IPv6 arm uses %s, which produces %s, where the IPv4 arm uses %s producing %s: the IPv6 twin must produce %s", fnName(r6[i]), got, fnName(r4[i]), c42TypeSet(t4, nil), want)
			}
			site := p.Pos(a6[0].Pos())
			c.Check(bad == "", key, site,
				fmt.Sprintf("%s.%s #%d: %s -> %s and %s -> %s are IPv4/IPv6 twins", fnName(k.fn), k.field.Name(), i, fnName(r4[i]), c42TypeSet(t4, nil), fnName(r6[i]), got),
				fmt.Sprintf("%s, field %s, function #%d: %s - entries of the other layout are mis-decoded when the maps are read back (start-up resync), so stale frontends/backends are never matched and never removed", fnName(k.fn), k.field.Name(), i, bad))
		}
	}
	if nPos == 0 {
		c.Lost("no struct field in %s is assigned family-specific function values under both an `== 4` and an `== 6` test", c42Pkg)
	}
}
