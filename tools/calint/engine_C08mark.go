package main

// engine_C08mark.go — C08.markops: the renderers of the mark-word actions
// (felix/iptables and felix/nftables Action types with uint32 operands: SetMark,
// ClearMark, SetMaskedMark, SetConnMark, Save/RestoreConnMark, LimitPacketRate)
// use each operand on every rendering path, in its own role.
//
// An action value is a pure description {Mark, Mask, …}; ToFragment turns it
// into the text the kernel executes.  A rendering path that does not mention an
// operand can only be right if the operand's value is known on that path (the
// path is guarded by `operand == constant`, e.g. "Mask == 0 means full mask").
// Otherwise the rendered rule touches other bits than the action says — the
// scratch / verdict bits of C08's "marks unchanged on non-match" clause.

import (
	"fmt"
	"go/token"
	"go/types"
	"sort"
	"strings"

	"golang.org/x/tools/go/ssa"
)

// c08RecvDeps computes which fields of the receiver recv (a struct value or
// pointer parameter) value v may derive from.  whole = v may derive from the
// receiver as a whole (passed on to a callee).  No call is descended into: a
// call's result derives from all its arguments.
func c08RecvDeps(v ssa.Value, recv *ssa.Parameter) (fields map[string]bool, whole bool) {
	fields = map[string]bool{}
	seen := map[ssa.Value]bool{}
	isRecv := func(x ssa.Value) bool {
		for i := 0; i < 4; i++ {
			switch y := x.(type) {
			case *ssa.Parameter:
				return y == recv
			case *ssa.UnOp:
				if y.Op != token.MUL {
					return false
				}
				x = y.X
			case *ssa.Alloc:
				// address-taken copy of the receiver
				var only ssa.Value
				if refs := y.Referrers(); refs != nil {
					for _, r := range *refs {
						if st, ok := r.(*ssa.Store); ok && st.Addr == y {
							if only != nil && only != st.Val {
								return false
							}
							only = st.Val
						}
					}
				}
				if only == nil {
					return false
				}
				x = only
			default:
				return false
			}
		}
		return false
	}
	var walk func(v ssa.Value, d int)
	walk = func(v ssa.Value, d int) {
		if v == nil || seen[v] || d > 40 {
			return
		}
		seen[v] = true
		switch x := v.(type) {
		case *ssa.Const, *ssa.Function, *ssa.Builtin, *ssa.Global:
		case *ssa.Parameter:
			if x == recv {
				whole = true
			}
		case *ssa.Field:
			if isRecv(x.X) {
				fields[fieldName(x.X.Type(), x.Field)] = true
				return
			}
			walk(x.X, d+1)
		case *ssa.FieldAddr:
			if isRecv(x.X) {
				fields[fieldName(x.X.Type(), x.Field)] = true
				return
			}
			walk(x.X, d+1)
		case *ssa.Alloc:
			if isRecv(x) {
				whole = true
				return
			}
			// everything stored into the local (directly, or into its
			// fields / elements: composite and vararg literals)
			var stores func(addr ssa.Value, depth int)
			stores = func(addr ssa.Value, depth int) {
				refs := addr.Referrers()
				if refs == nil || depth > 3 {
					return
				}
				for _, r := range *refs {
					switch y := r.(type) {
					case *ssa.Store:
						if y.Addr == addr {
							walk(y.Val, d+1)
						}
					case *ssa.FieldAddr:
						if y.X == addr {
							stores(y, depth+1)
						}
					case *ssa.IndexAddr:
						if y.X == addr {
							stores(y, depth+1)
						}
					}
				}
			}
			stores(x, 0)
		case *ssa.Phi:
			for _, e := range x.Edges {
				walk(e, d+1)
			}
		case *ssa.Call:
			cc := x.Common()
			if cc.IsInvoke() {
				walk(cc.Value, d+1)
			} else if _, isBuiltin := cc.Value.(*ssa.Builtin); !isBuiltin && cc.StaticCallee() == nil {
				walk(cc.Value, d+1)
			}
			if mc, ok := cc.Value.(*ssa.MakeClosure); ok {
				for _, b := range mc.Bindings {
					walk(b, d+1)
				}
			}
			for _, a := range cc.Args {
				walk(a, d+1)
			}
		default:
			if in, ok := v.(ssa.Instruction); ok {
				for _, op := range in.Operands(nil) {
					if op != nil && *op != nil {
						walk(*op, d+1)
					}
				}
			}
		}
	}
	walk(v, 0)
	return
}

// c08FieldKnownEdge accepts If edges on which field `name` of the receiver is
// known to equal a constant.
func c08FieldKnownEdge(recv *ssa.Parameter, name string) EdgePred {
	isField := func(v ssa.Value) bool {
		f, whole := c08RecvDeps(v, recv)
		if whole || len(f) != 1 || !f[name] {
			return false
		}
		// the field itself, not something computed from it
		for {
			switch x := v.(type) {
			case *ssa.UnOp:
				if x.Op == token.MUL {
					v = x.X
					continue
				}
				return false
			case *ssa.Convert:
				v = x.X
				continue
			case *ssa.ChangeType:
				v = x.X
				continue
			case *ssa.Field, *ssa.FieldAddr:
				return true
			}
			return false
		}
	}
	isConst := func(v ssa.Value) bool { _, ok := v.(*ssa.Const); return ok }
	return eqCond(true, isField, isConst)
}

type c08MarkType struct {
	pkg, short string
	named      *types.Named
	toFragment *ssa.Function
	fields     []string // uint32 fields
}

// c08MarkActionTypes: every named struct type of the back-end package that
// implements generictables.Action (has a ToFragment method with a body) and
// has at least one uint32 field.
func c08MarkActionTypes(p *Prog, pkg string) []c08MarkType {
	pk := p.Pkg(pkg)
	if pk == nil {
		return nil
	}
	var out []c08MarkType
	scope := pk.Types.Scope()
	for _, name := range scope.Names() {
		tn, ok := scope.Lookup(name).(*types.TypeName)
		if !ok || tn.IsAlias() {
			continue
		}
		named, ok := tn.Type().(*types.Named)
		if !ok {
			continue
		}
		st, ok := named.Underlying().(*types.Struct)
		if !ok {
			continue
		}
		var tf *ssa.Function
		for _, f := range p.methodsOf(pkg, name) {
			if f.Name() == "ToFragment" {
				tf = f
			}
		}
		if tf == nil || len(tf.Params) == 0 {
			continue
		}
		mt := c08MarkType{pkg: pkg, short: pkg[strings.LastIndex(pkg, "/")+1:] + "." + name, named: named, toFragment: tf}
		for i := 0; i < st.NumFields(); i++ {
			if b, ok := types.Unalias(st.Field(i).Type()).(*types.Basic); ok && b.Kind() == types.Uint32 {
				mt.fields = append(mt.fields, st.Field(i).Name())
			}
		}
		if len(mt.fields) > 0 {
			out = append(out, mt)
		}
	}
	sort.Slice(out, func(i, j int) bool { return out[i].short < out[j].short })
	return out
}

func c08MarkOps(m *c08Model) {
	c, p := m.c, m.p
	n := 0
	for _, pkg := range []string{c08IptPkg, c08NftPkg} {
		types_ := c08MarkActionTypes(p, pkg)
		if len(types_) == 0 {
			c.Lost("no Action type with a uint32 operand in %s", pkg)
		}
		for _, mt := range types_ {
			fn := mt.toFragment
			recv := fn.Params[0]
			// rendering paths: (value, block whose end the value leaves from)
			type leaf struct {
				v    ssa.Value
				from ssa.Instruction
			}
			var leaves []leaf
			for _, r := range returnsOf(fn) {
				if len(r.Results) != 1 {
					continue
				}
				seenPhi := map[*ssa.Phi]bool{}
				var flat func(v ssa.Value, at ssa.Instruction)
				flat = func(v ssa.Value, at ssa.Instruction) {
					if ph, ok := v.(*ssa.Phi); ok && !seenPhi[ph] {
						seenPhi[ph] = true
						for i, e := range ph.Edges {
							pb := ph.Block().Preds[i]
							flat(e, pb.Instrs[len(pb.Instrs)-1])
						}
						return
					}
					leaves = append(leaves, leaf{v, at})
				}
				flat(r.Results[0], r)
			}
			if len(leaves) == 0 {
				c.Undecided("C08.markops/uses/"+mt.short, p.Pos(fn.Pos()), "ToFragment has no analysable return")
				continue
			}
			for _, f := range mt.fields {
				n++
				key := "C08.markops/uses/" + mt.short + "/" + f
				var bad []string
				known := 0
				for _, lf := range leaves {
					deps, whole := c08RecvDeps(lf.v, recv)
					if whole || deps[f] {
						continue
					}
					if guardedCut(lf.from, c08FieldKnownEdge(recv, f)) {
						known++
						continue
					}
					bad = append(bad, fmt.Sprintf("the fragment returned at %s derives from %v only", p.Pos(lf.from.Pos()), sortedKeys(deps)))
				}
				c.Check(len(bad) == 0, key, p.Pos(fn.Pos()),
					fmt.Sprintf("every one of %d rendering path(s) uses %s (or is guarded by %s == constant: %d)", len(leaves), f, f, known),
					fmt.Sprintf("%s.ToFragment has a rendering path that ignores operand %s although its value is not fixed by a guard: %s (the rendered rule sets/clears other mark bits than the action describes, e.g. a masked reset of the scratch bits becomes a no-op)", mt.short, f, strings.Join(bad, "; ")))
			}
			// role: the complemented operand (x ^ 0xffffffff, ^x: "keep every
			// bit but these") is the mask of a masked action.
			hasMask := false
			for _, f := range mt.fields {
				if f == "Mask" {
					hasMask = true
				}
			}
			var comps []ssa.Value
			allInstrs(fn, true, func(_ *ssa.Function, in ssa.Instruction) {
				switch x := in.(type) {
				case *ssa.BinOp:
					if x.Op == token.XOR {
						for _, xy := range [][2]ssa.Value{{x.X, x.Y}, {x.Y, x.X}} {
							if k, ok := constOf(xy[0]); ok && k.ExactString() == "4294967295" {
								comps = append(comps, xy[1])
							}
						}
					}
					if x.Op == token.AND_NOT {
						comps = append(comps, x.Y)
					}
				case *ssa.UnOp:
					if x.Op == token.XOR {
						comps = append(comps, x.X)
					}
				}
			})
			if len(comps) > 0 {
				n++
				want := "Mask"
				if !hasMask {
					want = ""
				}
				var bad []string
				for _, cv := range comps {
					deps, whole := c08RecvDeps(cv, recv)
					switch {
					case whole || len(deps) != 1:
						bad = append(bad, fmt.Sprintf("complemented operand derives from %v", sortedKeys(deps)))
					case want != "" && !deps[want]:
						bad = append(bad, fmt.Sprintf("complemented operand is %v, not %s", sortedKeys(deps), want))
					}
				}
				c.Check(len(bad) == 0, "C08.markops/complement/"+mt.short, p.Pos(fn.Pos()),
					fmt.Sprintf("the %d bit-complemented operand(s) are the bits to clear (%s)", len(comps), map[bool]string{true: "Mask", false: "the only operand"}[hasMask]),
					fmt.Sprintf("%s.ToFragment: %s — the bits kept by `mark & ^x` must be everything except the action's mask", mt.short, strings.Join(bad, "; ")))
			}
		}
	}
	if n == 0 {
		c.Lost("no mark operand found in %s / %s", c08IptPkg, c08NftPkg)
	}
}
