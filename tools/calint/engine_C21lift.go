package main

// engine_C21lift.go — result-conditional helper summaries for the IPAM block
// rules.  The C21 obligations on allocationBlock.release are guard obligations
// ("the ordinal is collected only after edge P was crossed", "after a mismatch
// edge only error returns follow").  When part of release() lives in an
// in-package helper, the guards are established inside the helper and reach the
// call site through the helper's results:
//
//	ordinal, handleID, allocated, err := b.checkRelease(ip, opts)
//	if err != nil { return … }        // err == nil      ⇒ sequence / handle matched
//	if !allocated { continue }        // allocated==true ⇒ Allocations[ord]!=nil, not in cooldown
//
// Nothing here is matched by name.  For a site s and a subject value (the
// ordinal), `established` decides: every execution reaching s crossed an If edge
// accepted by the predicate — in s's own function, or inside a helper call that
// dominates s, on every helper path ending in a return that is *compatible*
// with the result tests dominating s (a return handing back a non-nil error is
// incompatible with a site under `err == nil`, a return handing back the
// constant false with a site under `allocated`).  The subject is translated
// into the helper as the matching return operand (result) or parameter
// (argument).  `continuation` is the dual: the part of the caller that can
// execute after a given helper return.

import (
	"go/constant"
	"go/token"
	"go/types"
	"strings"

	"golang.org/x/tools/go/ssa"
)

const c21LiftDepth = 4

// helperOf: the static callee of call if it is a lib/ipam function with a body.
func (m *c21Model) helperOf(call ssa.CallInstruction) *ssa.Function {
	sf := calleeFn(call.Common())
	if sf == nil || sf.Blocks == nil || sf.Pkg == nil || !strings.HasSuffix(sf.Pkg.Pkg.Path(), c21IpamPkg) {
		return nil
	}
	return sf
}

// c21ResultIndex: v is result k of call (the call value itself for a
// single-result callee, an Extract otherwise).
func c21ResultIndex(v ssa.Value, call *ssa.Call) (int, bool) {
	if v == ssa.Value(call) {
		if _, isTuple := call.Type().(*types.Tuple); !isTuple {
			return 0, true
		}
		return 0, false
	}
	if ex, ok := v.(*ssa.Extract); ok && ex.Tuple == ssa.Value(call) {
		return ex.Index, true
	}
	return 0, false
}

// c21ResultValue: the caller-side value of result k of call (nil if unused).
func c21ResultValue(call *ssa.Call, k int) ssa.Value {
	if _, isTuple := call.Type().(*types.Tuple); !isTuple {
		if k == 0 {
			return call
		}
		return nil
	}
	if refs := call.Referrers(); refs != nil {
		for _, r := range *refs {
			if ex, ok := r.(*ssa.Extract); ok && ex.Index == k {
				return ex
			}
		}
	}
	return nil
}

// c21Nilness of operand op at return r: +1 known non-nil, -1 known nil, 0 unknown.
func c21Nilness(r *ssa.Return, op ssa.Value) int {
	switch x := op.(type) {
	case *ssa.Const:
		if x.IsNil() {
			return -1
		}
		return 0
	case *ssa.MakeInterface, *ssa.Alloc, *ssa.MakeMap, *ssa.MakeSlice, *ssa.MakeClosure, *ssa.FieldAddr, *ssa.IndexAddr:
		return 1
	case *ssa.Phi:
		all := 0
		for i, e := range x.Edges {
			n := c21Nilness(r, e)
			if n == 0 || (i > 0 && n != all) {
				return 0
			}
			all = n
		}
		return all
	}
	for _, g := range guardsOf(r) {
		if y, isNil, ok := c21NilCmp(g.Cond, g.True); ok && y == op {
			if isNil {
				return -1
			}
			return 1
		}
	}
	return 0
}

// c21BoolAt: truth value of the bool operand op at return r, if known.
func c21BoolAt(r *ssa.Return, op ssa.Value) (val, known bool) {
	v, pol := stripNot(op, true)
	if cst, ok := v.(*ssa.Const); ok && cst.Value != nil && cst.Value.Kind() == constant.Bool {
		return constant.BoolVal(cst.Value) == pol, true
	}
	for _, g := range guardsOf(r) {
		if g.Cond == v {
			return g.True == pol, true
		}
	}
	return false, false
}

// retExcluded: return r of the helper called by call cannot be the return that
// was taken when the caller's guards hold (guards = conditions with a fixed
// truth value at the caller site).
func (m *c21Model) retExcluded(call *ssa.Call, r *ssa.Return, guards []Guard) bool {
	for _, g := range guards {
		if x, isNil, ok := c21NilCmp(g.Cond, g.True); ok {
			if k, isRes := c21ResultIndex(x, call); isRes && k < len(r.Results) {
				n := c21Nilness(r, r.Results[k])
				if (n > 0 && isNil) || (n < 0 && !isNil) {
					return true
				}
			}
			continue
		}
		if k, isRes := c21ResultIndex(g.Cond, call); isRes && k < len(r.Results) {
			if b, known := c21BoolAt(r, r.Results[k]); known && b != g.True {
				return true
			}
			continue
		}
		// result == constant / result != constant
		if a, b, equal, ok := c21Eq(g.Cond, g.True); ok {
			for _, pr := range [][2]ssa.Value{{a, b}, {b, a}} {
				k, isRes := c21ResultIndex(pr[0], call)
				cv, isC := constOf(pr[1])
				if !isRes || !isC || k >= len(r.Results) {
					continue
				}
				if rv, isRC := constOf(r.Results[k]); isRC && rv.Kind() == cv.Kind() && rv.Kind() != constant.Unknown {
					if constant.Compare(rv, token.EQL, cv) != equal {
						return true
					}
				}
			}
		}
	}
	return false
}

// compatibleReturns: the returns of callee that can have been taken when the
// execution, after call, reaches site (dominance guards of site).
func (m *c21Model) compatibleReturns(call *ssa.Call, callee *ssa.Function, site ssa.Instruction) []*ssa.Return {
	guards := guardsOf(site)
	var out []*ssa.Return
	for _, r := range returnsOf(callee) {
		if isPanicBlock(r.Block()) {
			continue
		}
		if !m.retExcluded(call, r, guards) {
			out = append(out, r)
		}
	}
	return out
}

// intoCallee translates the caller value v into the callee of call: the
// parameter it is passed as, or — per return — the operand of the result it is.
func (m *c21Model) intoCallee(v ssa.Value, call *ssa.Call, callee *ssa.Function, r *ssa.Return) (ssa.Value, bool) {
	if k, ok := c21ResultIndex(v, call); ok {
		if k < len(r.Results) {
			return r.Results[k], true
		}
		return nil, false
	}
	for j, a := range call.Common().Args {
		if j < len(callee.Params) && (a == v || c21SameValue(a, v)) {
			return callee.Params[j], true
		}
	}
	return nil, false
}

// outOfCallee translates the callee value v to the caller of call: the argument
// (v is a parameter) or the caller-side result (v is what the non-error returns
// hand back at one result position).
func (m *c21Model) outOfCallee(v ssa.Value, call *ssa.Call, callee *ssa.Function) (ssa.Value, bool) {
	if pa, ok := v.(*ssa.Parameter); ok && pa.Parent() == callee {
		for j, p := range callee.Params {
			if p == pa && j < len(call.Common().Args) {
				return call.Common().Args[j], true
			}
		}
		return nil, false
	}
	k := -1
	for _, r := range returnsOf(callee) {
		for i, res := range r.Results {
			if res == v || c21SameValue(res, v) {
				if k >= 0 && k != i {
					return nil, false
				}
				k = i
			}
		}
	}
	if k < 0 {
		return nil, false
	}
	if rv := c21ResultValue(call, k); rv != nil {
		return rv, true
	}
	return nil, false
}

// established: see the file comment.  mk builds the edge predicate for the
// subject value expressed in the function the cut is computed in.
func (m *c21Model) established(site ssa.Instruction, subj ssa.Value, mk func(ssa.Value) EdgePred) bool {
	return m.establishedRec(site, subj, mk, 0)
}

func (m *c21Model) establishedRec(site ssa.Instruction, subj ssa.Value, mk func(ssa.Value) EdgePred, depth int) bool {
	if guardedCut(site, mk(subj)) {
		return true
	}
	if depth >= c21LiftDepth {
		return false
	}
	fn := site.Parent()
	for _, b := range fn.Blocks {
		for _, in := range b.Instrs {
			call, ok := in.(*ssa.Call)
			if !ok || ssa.Instruction(call) == site || !instrDominates(call, site) {
				continue
			}
			callee := m.helperOf(call)
			if callee == nil {
				continue
			}
			rets := m.compatibleReturns(call, callee, site)
			if len(rets) == 0 {
				continue
			}
			all := true
			for _, r := range rets {
				sv, ok := m.intoCallee(subj, call, callee, r)
				if !ok || !m.establishedRec(r, sv, mk, depth+1) {
					all = false
					break
				}
			}
			if all {
				return true
			}
		}
	}
	return false
}

// continuation: the blocks of call's function that can execute after call
// returned through r (branches on the results decided by r's operands are
// followed only along the feasible edge).  first reports the instructions of
// call's own block that follow the call.
func (m *c21Model) continuation(call *ssa.Call, r *ssa.Return) (region map[*ssa.BasicBlock]bool, start *ssa.BasicBlock) {
	region = map[*ssa.BasicBlock]bool{}
	start = call.Block()
	var walk func(b *ssa.BasicBlock)
	walk = func(b *ssa.BasicBlock) {
		if len(b.Instrs) == 0 {
			return
		}
		if ifi, ok := b.Instrs[len(b.Instrs)-1].(*ssa.If); ok && len(b.Succs) == 2 && b.Succs[0] != b.Succs[1] {
			for k, s := range b.Succs {
				cv, pol := stripNot(ifi.Cond, k == 0)
				if m.retExcluded(call, r, []Guard{{If: ifi, Cond: cv, True: pol}}) {
					continue
				}
				if !region[s] {
					region[s] = true
					walk(s)
				}
			}
			return
		}
		for _, s := range b.Succs {
			if !region[s] {
				region[s] = true
				walk(s)
			}
		}
	}
	walk(start)
	return region, start
}

// upParam: a parameter of a function entered through a known call (m.entry)
// stands for the argument of that call.
func (m *c21Model) upParam(v ssa.Value) ssa.Value {
	for i := 0; i < 2*c21LiftDepth && m.entry != nil; i++ {
		pa, ok := v.(*ssa.Parameter)
		if !ok {
			break
		}
		call := m.entry[pa.Parent()]
		if call == nil {
			break
		}
		found := false
		for j, p := range pa.Parent().Params {
			if p == pa && j < len(call.Common().Args) {
				v, found = call.Common().Args[j], true
			}
		}
		if !found {
			break
		}
	}
	return v
}

// withFrame runs f with the call string of fr as resolution context.
func (m *c21Model) withFrame(fr c21Frame, f func()) {
	old := m.entry
	m.entry = map[*ssa.Function]*ssa.Call{}
	for _, call := range fr.chain {
		if callee := m.helperOf(call); callee != nil {
			m.entry[callee] = call
		}
	}
	defer func() { m.entry = old }()
	f()
}

// originsX is c21Origins across helper boundaries: a parameter of a function of
// the current call string continues at the call's argument, the result of a
// lib/ipam helper (other than those `through` handles) continues at the
// operands its returns hand back at that position.
func (m *c21Model) originsX(v ssa.Value, through func(ssa.Value) []ssa.Value) []Origin {
	return m.originsXStop(v, through, nil)
}

// originsXStop: as originsX; calls of the functions accepted by stop stay leaves.
func (m *c21Model) originsXStop(v ssa.Value, through func(ssa.Value) []ssa.Value, stop func(*ssa.Function) bool) []Origin {
	if m.entry == nil {
		return c21Origins(v, through)
	}
	descend := func(call *ssa.Call, k int) []ssa.Value {
		callee := m.helperOf(call)
		if callee == nil || callee == call.Parent() || (stop != nil && stop(callee)) {
			return nil
		}
		if _, has := m.entry[callee]; !has {
			m.entry[callee] = call
		} else if m.entry[callee] != call {
			return nil // another call string of the same helper: keep it a leaf
		}
		var vals []ssa.Value
		for _, r := range returnsOf(callee) {
			if !isPanicBlock(r.Block()) && k < len(r.Results) {
				vals = append(vals, r.Results[k])
			}
		}
		return vals
	}
	return c21Origins(v, func(x ssa.Value) []ssa.Value {
		if through != nil {
			if more := through(x); more != nil {
				return more
			}
		}
		switch y := x.(type) {
		case *ssa.Parameter:
			if up := m.upParam(y); up != ssa.Value(y) {
				return []ssa.Value{up}
			}
		case *ssa.Extract:
			if hc, ok := y.Tuple.(*ssa.Call); ok {
				return descend(hc, y.Index)
			}
		case *ssa.Call:
			if _, isTuple := y.Type().(*types.Tuple); !isTuple {
				return descend(y, 0)
			}
		}
		return nil
	})
}

// toRootX translates v, a value of some function of the current call string,
// outwards to the function root.
func (m *c21Model) toRootX(v ssa.Value, root *ssa.Function) (ssa.Value, bool) {
	for i := 0; i < 2*c21LiftDepth; i++ {
		var fn *ssa.Function
		switch x := v.(type) {
		case *ssa.Parameter:
			fn = x.Parent()
		case ssa.Instruction:
			fn = x.Parent()
		default:
			return v, true // constants, globals
		}
		if fn == root {
			return v, true
		}
		call := m.entry[fn]
		if call == nil {
			return nil, false
		}
		nv, ok := m.outOfCallee(v, call, fn)
		if !ok {
			return nil, false
		}
		v = nv
	}
	return nil, false
}

// c21Frame is a function of the closure of a root together with the chain of
// calls leading to it (chain[i] is an instruction of the function that calls
// the callee of chain[i]; chain[0] lies in the root).
type c21Frame struct {
	fn    *ssa.Function
	chain []*ssa.Call
}

// frames enumerates root and the lib/ipam helpers it reaches through static
// calls (each call string separately, bounded depth, no recursion).
func (m *c21Model) frames(root *ssa.Function, skip func(*ssa.Function) bool) []c21Frame {
	var out []c21Frame
	var rec func(fr c21Frame, on map[*ssa.Function]bool)
	rec = func(fr c21Frame, on map[*ssa.Function]bool) {
		out = append(out, fr)
		if len(fr.chain) >= c21LiftDepth {
			return
		}
		on[fr.fn] = true
		defer delete(on, fr.fn)
		for _, b := range fr.fn.Blocks {
			for _, in := range b.Instrs {
				call, ok := in.(*ssa.Call)
				if !ok {
					continue
				}
				callee := m.helperOf(call)
				if callee == nil || on[callee] || (skip != nil && skip(callee)) {
					continue
				}
				rec(c21Frame{fn: callee, chain: append(append([]*ssa.Call{}, fr.chain...), call)}, on)
			}
		}
	}
	rec(c21Frame{fn: root}, map[*ssa.Function]bool{})
	return out
}

// toRoot translates a value of the frame's function outwards, call by call, to
// the root of the frame chain.
func (m *c21Model) toRoot(v ssa.Value, fr c21Frame) (ssa.Value, bool) {
	for i := len(fr.chain) - 1; i >= 0; i-- {
		call := fr.chain[i]
		callee := m.helperOf(call)
		if callee == nil {
			return nil, false
		}
		nv, ok := m.outOfCallee(v, call, callee)
		if !ok {
			return nil, false
		}
		v = nv
	}
	return v, true
}

// fromIPToOrdinal: every origin of v is the ordinal result of
// AllocationBlock.IPToOrdinal — directly, through a parameter bound at the
// frame's call chain, or through the result of a helper (the zero handed back
// next to a non-nil error does not count).
func (m *c21Model) fromIPToOrdinal(v ssa.Value, chain []*ssa.Call, depth int) bool {
	if depth > 2*c21LiftDepth {
		return false
	}
	if ex, ok := v.(*ssa.Extract); ok {
		if hc, isCall := ex.Tuple.(*ssa.Call); isCall && calleeOf(hc.Common()) != m.ipToOrdinal {
			if callee := m.helperOf(hc); callee != nil {
				// result ex.Index of a helper: what its non-error returns hand back there
				n := 0
				for _, r := range returnsOf(callee) {
					if isPanicBlock(r.Block()) || ex.Index >= len(r.Results) {
						continue
					}
					if e := c21ErrOperand(r); e != nil && c21Nilness(r, e) > 0 {
						continue
					}
					n++
					if !m.fromIPToOrdinal(r.Results[ex.Index], append(append([]*ssa.Call{}, chain...), hc), depth+1) {
						return false
					}
				}
				return n > 0
			}
		}
	}
	os := origins(v, nil)
	if len(os) == 0 {
		return false
	}
	for _, o := range os {
		switch x := o.V.(type) {
		case *ssa.Call:
			if calleeOf(x.Common()) == m.ipToOrdinal {
				continue
			}
			callee := m.helperOf(x)
			if callee == nil {
				return false
			}
			// which result of the helper?  origins() walks through Extract, so
			// accept iff every result position of int type qualifies.
			n := 0
			for _, r := range returnsOf(callee) {
				if isPanicBlock(r.Block()) {
					continue
				}
				if e := c21ErrOperand(r); e != nil && c21Nilness(r, e) > 0 {
					continue // error return: the ordinal it carries is never used under err == nil
				}
				for _, res := range r.Results {
					if !types.Identical(res.Type(), v.Type()) {
						continue
					}
					n++
					if !m.fromIPToOrdinal(res, append(append([]*ssa.Call{}, chain...), x), depth+1) {
						return false
					}
				}
			}
			if n == 0 {
				return false
			}
		case *ssa.Parameter:
			if len(chain) == 0 {
				return false
			}
			call := chain[len(chain)-1]
			callee := m.helperOf(call)
			if callee == nil || x.Parent() != callee {
				return false
			}
			arg, ok := m.outOfCallee(x, call, callee)
			if !ok || !m.fromIPToOrdinal(arg, chain[:len(chain)-1], depth+1) {
				return false
			}
		default:
			return false
		}
	}
	return true
}
