package main

import (
	"fmt"
	"go/token"
	"go/types"
	"os"
	"path/filepath"
	"sort"
	"strings"

	"golang.org/x/tools/go/ssa"
)

// C34.tiername — which tier the tiered-policy storages ask the tier authorizer about.
//
// A policy whose spec.tier is empty lives in tier "default".  Every storage of a tiered
// policy kind (the packages under apiserver/pkg/registry/projectcalico that call
// TierAuthorizer.AuthorizeTierOperation on behalf of one object) therefore has to talk
// about the DEFAULTED tier name: (arg) the tier handed to AuthorizeTierOperation derives
// from names.TierOrDefault (a constant is a tier name too), never from the raw Spec.Tier
// field; (guard) a condition that decides whether AuthorizeTierOperation is called at all
// must not test the raw Spec.Tier against a defaulted name or a constant — "the new tier
// is unset" means "the policy moves to default", which needs authorising like any other
// tier.  (cover) The sibling storages authorise in the same set of REST methods.

const (
	c34RegDir   = "apiserver/pkg/registry/projectcalico"
	c34NamesPkg = "libcalico-go/lib/names"
	c34APIv3    = "github.com/projectcalico/api/pkg/apis/projectcalico/v3"
)

// c34TierStorages: sub-packages of the registry (other than the authorizer itself and
// the list-selector helper) that mention AuthorizeTierOperation in a non-test file.
// Text is used only to choose what to load; every decision is made on the typed SSA.
func c34TierStorages(c *Ctx) []string {
	dir := filepath.Join(c.Repo, c34RegDir)
	ents, err := os.ReadDir(dir)
	if err != nil {
		c.Lost("directory %s: %v", c34RegDir, err)
	}
	var out []string
	for _, e := range ents {
		if !e.IsDir() || e.Name() == "authorizer" || e.Name() == "util" {
			continue
		}
		files, _ := filepath.Glob(filepath.Join(dir, e.Name(), "*.go"))
		for _, f := range files {
			if strings.HasSuffix(f, "_test.go") {
				continue
			}
			b, err := os.ReadFile(f)
			if ov, ok := c.Overlay[f]; ok {
				b, err = ov, nil
			}
			if err == nil && strings.Contains(string(b), "AuthorizeTierOperation") {
				out = append(out, c34RegDir+"/"+e.Name())
				break
			}
		}
	}
	sort.Strings(out)
	return out
}

type c34TierFlags struct {
	raw, norm, konst bool
	other            []string
}

func (f *c34TierFlags) merge(o c34TierFlags) {
	f.raw = f.raw || o.raw
	f.norm = f.norm || o.norm
	f.konst = f.konst || o.konst
	f.other = append(f.other, o.other...)
}

func (f c34TierFlags) pureRaw() bool { return f.raw && !f.norm && !f.konst && len(f.other) == 0 }

type c34TierEval struct {
	p     *Prog
	roots map[*ssa.Package]bool
}

func c34IsRawTier(v ssa.Value) bool {
	u, ok := v.(*ssa.UnOp)
	if ok && u.Op == token.MUL {
		v = u.X
	}
	switch v.(type) {
	case *ssa.FieldAddr, *ssa.Field:
	default:
		return false
	}
	fv := fieldVar(v)
	if fv == nil || fv.Name() != "Tier" || fv.Pkg() == nil || fv.Pkg().Path() != c34APIv3 {
		return false
	}
	b, ok := fv.Type().Underlying().(*types.Basic)
	return ok && b.Kind() == types.String
}

func c34IsTierOrDefault(f *types.Func) bool {
	return f != nil && f.Name() == "TierOrDefault" && f.Pkg() != nil && strings.HasSuffix(f.Pkg().Path(), c34NamesPkg) && f.Type().(*types.Signature).Recv() == nil
}

// classify: where a string (or a condition over strings) comes from.
func (e *c34TierEval) classify(v ssa.Value, depth int, seen map[ssa.Value]bool) c34TierFlags {
	var fl c34TierFlags
	if v == nil || seen[v] {
		return fl
	}
	seen[v] = true
	if c34IsRawTier(v) {
		fl.raw = true
		return fl
	}
	switch x := v.(type) {
	case *ssa.Const:
		fl.konst = true
	case *ssa.Phi:
		for _, ed := range x.Edges {
			fl.merge(e.classify(ed, depth, seen))
		}
	case *ssa.BinOp:
		fl.merge(e.classify(x.X, depth, seen))
		fl.merge(e.classify(x.Y, depth, seen))
	case *ssa.Convert:
		fl.merge(e.classify(x.X, depth, seen))
	case *ssa.ChangeType:
		fl.merge(e.classify(x.X, depth, seen))
	case *ssa.Extract:
		fl.merge(e.classify(x.Tuple, depth, seen))
	case *ssa.UnOp:
		if x.Op == token.MUL {
			if al, ok := x.X.(*ssa.Alloc); ok {
				n := 0
				for _, r := range *al.Referrers() {
					if st, ok := r.(*ssa.Store); ok && st.Addr == al {
						fl.merge(e.classify(st.Val, depth, seen))
						n++
					}
				}
				if n > 0 {
					return fl
				}
			}
			fl.other = append(fl.other, "a load of "+path(x.X))
			return fl
		}
		fl.merge(e.classify(x.X, depth, seen))
	case *ssa.Call:
		if b, ok := x.Call.Value.(*ssa.Builtin); ok && b.Name() == "len" && len(x.Call.Args) == 1 {
			fl.merge(e.classify(x.Call.Args[0], depth, seen))
			return fl
		}
		if c34IsTierOrDefault(calleeOf(x.Common())) {
			fl.norm = true
			return fl
		}
		callee := calleeFn(x.Common())
		if callee != nil && len(callee.Blocks) > 0 && callee.Pkg != nil && e.roots[callee.Pkg] && depth < 3 {
			// in-package helper: its results, with parameters bound to this call's arguments
			for _, r := range returnsOf(callee) {
				for _, rv := range r.Results {
					if b, ok := rv.Type().Underlying().(*types.Basic); !ok || b.Info()&types.IsString == 0 {
						continue
					}
					sub := e.classify(rv, depth+1, seen)
					var keep []string
					for _, o := range sub.other {
						if !strings.HasPrefix(o, "param#") {
							keep = append(keep, o)
							continue
						}
						var idx int
						fmt.Sscanf(o, "param#%d", &idx)
						if idx < len(x.Call.Args) {
							fl.merge(e.classify(x.Call.Args[idx], depth+1, seen))
						}
					}
					sub.other = keep
					fl.merge(sub)
				}
			}
			return fl
		}
		name := "a function value"
		if f := calleeOf(x.Common()); f != nil {
			name = funcID(f)
		}
		fl.other = append(fl.other, "the result of "+name)
	case *ssa.Parameter:
		for i, pr := range x.Parent().Params {
			if pr == x {
				fl.other = append(fl.other, fmt.Sprintf("param#%d %s of %s", i, x.Name(), fnName(x.Parent())))
			}
		}
	default:
		fl.other = append(fl.other, path(v))
	}
	return fl
}

// paramCallers: for a tier that is a parameter of an in-package helper, classify what
// its static callers pass.
func (e *c34TierEval) resolveParams(fl c34TierFlags, fn *ssa.Function, depth int) c34TierFlags {
	var out c34TierFlags
	out.raw, out.norm, out.konst = fl.raw, fl.norm, fl.konst
	for _, o := range fl.other {
		if !strings.HasPrefix(o, "param#") || depth >= 3 {
			out.other = append(out.other, o)
			continue
		}
		var idx int
		fmt.Sscanf(o, "param#%d", &idx)
		n := 0
		for _, g := range e.p.AllFuncs() {
			if g.Pkg == nil || !e.roots[g.Pkg] {
				continue
			}
			for _, b := range g.Blocks {
				for _, in := range b.Instrs {
					ci, ok := in.(ssa.CallInstruction)
					if !ok || calleeFn(ci.Common()) != fn || idx >= len(ci.Common().Args) {
						continue
					}
					n++
					sub := e.classify(ci.Common().Args[idx], 0, map[ssa.Value]bool{})
					out.merge(e.resolveParams(sub, g, depth+1))
				}
			}
		}
		if n == 0 {
			out.other = append(out.other, o)
		}
	}
	return out
}

func c34TierName(c *Ctx) {
	c.Rule("C34.tiername", "E-FLOW/sibling", "in every REST method of every tiered-policy storage, the tier handed to AuthorizeTierOperation is a defaulted name (names.TierOrDefault or a constant, never the raw Spec.Tier), no condition deciding whether AuthorizeTierOperation is called compares the raw Spec.Tier with a defaulted name or a constant, and the sibling storages authorise in the same REST methods", 16)
	pkgs := c34TierStorages(c)
	if len(pkgs) < 4 {
		c.Lost("tiered-policy storages under %s: found %v, confirmed 4 (networkpolicy, globalpolicy, stagednetworkpolicy, stagedglobalnetworkpolicy)", c34RegDir, pkgs)
	}
	p := c.Load(pkgs...)
	ev := &c34TierEval{p: p, roots: map[*ssa.Package]bool{}}
	for _, pk := range pkgs {
		sp := p.SSAPkg(pk)
		if sp == nil {
			c.Lost("SSA package %s", pk)
		}
		ev.roots[sp] = true
	}
	isAuth := func(f *types.Func) bool {
		return f != nil && f.Name() == "AuthorizeTierOperation" && f.Pkg() != nil && strings.HasSuffix(f.Pkg().Path(), c34Pkg)
	}
	type fnRes struct {
		fn    *ssa.Function
		calls int
		bad   []string
		und   []string
	}
	perPkg := map[string]map[string]*fnRes{}
	allMethods := map[string]bool{}
	for _, pk := range pkgs {
		base := pk[strings.LastIndex(pk, "/")+1:]
		perPkg[base] = map[string]*fnRes{}
		sp := p.SSAPkg(pk)
		for _, fn := range p.AllFuncs() {
			if fn.Pkg != sp {
				continue
			}
			sites := callsIn(fn, false, isAuth)
			if len(sites) == 0 {
				continue
			}
			top := fnName(topFn(fn))
			r := perPkg[base][top]
			if r == nil {
				r = &fnRes{fn: topFn(fn)}
				perPkg[base][top] = r
			}
			for _, cs := range sites {
				r.calls++
				args := cs.Args()
				tier := args[len(args)-1]
				at := p.Pos(cs.Instr.Pos())
				fl := ev.resolveParams(ev.classify(tier, 0, map[ssa.Value]bool{}), fn, 0)
				switch {
				case fl.raw:
					r.bad = append(r.bad, fmt.Sprintf("the tier passed to AuthorizeTierOperation at %s is the raw Spec.Tier field, not names.TierOrDefault(…): an unset tier means tier \"default\" and must be authorised under that name", at))
				case len(fl.other) > 0:
					r.und = append(r.und, fmt.Sprintf("the tier passed to AuthorizeTierOperation at %s comes from %s: cannot decide that it is a defaulted tier name", at, strings.Join(fl.other, ", ")))
				case !fl.norm && !fl.konst:
					r.und = append(r.und, fmt.Sprintf("origin of the tier passed to AuthorizeTierOperation at %s not understood", at))
				}
				in, ok := cs.Instr.(ssa.Instruction)
				if !ok {
					continue
				}
				for _, g := range guardsOf(in) {
					if msg := ev.badGuard(g.Cond); msg != "" {
						r.bad = append(r.bad, fmt.Sprintf("whether AuthorizeTierOperation at %s is called depends on a condition (%s) that %s: an update that leaves the tier unset (= tier \"default\") escapes the check, or is compared under a different name than the one authorised", at, p.Pos(g.Cond.Pos()), msg))
					}
				}
			}
		}
		for m := range perPkg[base] {
			allMethods[m] = true
		}
	}
	nCalls, nViol := 0, 0
	for _, base := range sortedKeys(c34BoolKeys(perPkg)) {
		for _, m := range sortedKeys(allMethods) {
			key := "C34.tiername/" + base + "/" + m
			r := perPkg[base][m]
			if r == nil {
				var have []string
				for ob, ms := range perPkg {
					if ms[m] != nil {
						have = append(have, ob)
					}
				}
				sort.Strings(have)
				nViol++
				c.Violate(key, p.Pos(p.Pkg(c34RegDir + "/" + base).Syntax[0].Pos()), "storage %s never calls AuthorizeTierOperation in %s although its sibling storages %v do: that operation on this policy kind is not tier-authorised", base, m, have)
				continue
			}
			nCalls += r.calls
			maxCalls, maxPkg := 0, ""
			for _, ob := range sortedKeys(c34BoolKeys(perPkg)) {
				if o := perPkg[ob][m]; o != nil && o.calls > maxCalls {
					maxCalls, maxPkg = o.calls, ob
				}
			}
			if r.calls < maxCalls {
				nViol++
				r.bad = append(r.bad, fmt.Sprintf("calls AuthorizeTierOperation %d time(s) where its sibling storage %s calls it %d time(s): a tier (old, new or created) this storage touches is not authorised", r.calls, maxPkg, maxCalls))
			}
			sort.Strings(r.bad)
			sort.Strings(r.und)
			switch {
			case len(r.bad) > 0:
				c.Violate(key, p.Pos(r.fn.Pos()), "%s.%s: %s", base, m, strings.Join(c34Uniq(r.bad), "; "))
			case len(r.und) > 0:
				c.Undecided(key, p.Pos(r.fn.Pos()), "%s.%s: %s", base, m, strings.Join(c34Uniq(r.und), "; "))
			default:
				c.Ok(key, p.Pos(r.fn.Pos()), "%d AuthorizeTierOperation call(s): every tier argument is names.TierOrDefault(…)/a constant and no guard tests the raw Spec.Tier against a defaulted name", r.calls)
			}
		}
	}
	if nCalls < 24 && nViol == 0 {
		c.Lost("AuthorizeTierOperation call sites in the tiered-policy storages: %d found, 24 confirmed (4 storages × Create 1, Update 3, Get 1, Delete 1)", nCalls)
	}
}

// badGuard: cond (an If condition, negations stripped) looks at the raw Spec.Tier other
// than by comparing two raw fields with each other (raw==raw is equivalent to
// defaulted==defaulted).
func (e *c34TierEval) badGuard(cond ssa.Value) string {
	bo, ok := cond.(*ssa.BinOp)
	if !ok {
		if fl := e.classify(cond, 0, map[ssa.Value]bool{}); fl.raw {
			return "is computed from the raw Spec.Tier field"
		}
		return ""
	}
	x := e.classify(bo.X, 0, map[ssa.Value]bool{})
	y := e.classify(bo.Y, 0, map[ssa.Value]bool{})
	if !x.raw && !y.raw {
		return ""
	}
	if (bo.Op == token.EQL || bo.Op == token.NEQ) && x.pureRaw() && y.pureRaw() {
		return ""
	}
	other := y
	if !x.raw {
		other = x
	}
	switch {
	case other.norm:
		return "compares the raw Spec.Tier field with a defaulted (names.TierOrDefault) tier name"
	case other.konst:
		return "tests the raw Spec.Tier field against a constant (emptiness) instead of defaulting it"
	}
	return "tests the raw Spec.Tier field"
}

func c34Uniq(in []string) []string {
	var out []string
	for i, s := range in {
		if i == 0 || s != in[i-1] {
			out = append(out, s)
		}
	}
	return out
}

func c34BoolKeys[V any](m map[string]V) map[string]bool {
	out := map[string]bool{}
	for k := range m {
		out[k] = true
	}
	return out
}
