package main

// engine_C08blk.go — C08.blockbit: typestate analysis of the two scratch mark
// bits over every rule sequence matchBlockBuilder can emit.
//
// ProtoRuleToIptablesRules renders a rule whose criteria do not fit one
// iptables rule as a sequence of "match blocks" that communicate through two
// packet-mark bits: markAllBlocksPass (A, the running conjunction of the blocks)
// and markThisBlockPass (T, the disjunction inside the current positive block).
// Whatever the shape of the builder, the emitted sequence is only a correct
// AND-of-ORs if, along every sequence of blocks the caller can request:
//
//   T  every *read* of T (a rule matching on it: "A &&= T") sees only what the
//      current block wrote: T was reset (unconditional clear) after the
//      previous read / previous block and before this block's conditional
//      sets; it is never read uninitialised (the packet arrives with arbitrary
//      scratch bits).
//   A  A is initialised (unconditional write) before the first conditional
//      update or read; conditional sets (OR-accumulation of the first positive
//      block) only happen on a fresh 0, never after another block has left its
//      result in A and never on an initial 1; a conditional clear (AND) never
//      follows an initial 0 in the same block (the rule could never match);
//      A is not unconditionally re-initialised once it holds a result.
//
// The analysis is an abstract interpretation of the SSA of the function that
// creates the builder and of every builder method it (transitively, statically)
// calls: the builder's bool fields are tracked concretely (they start false in
// the literal), uint32 values are tracked as subsets of {A,T}, every other
// branch is explored both ways (loops: zero or more iterations, states are
// memoised).  Rule emissions are recognised through the ActionFactory
// (SetMark/ClearMark/SetMaskedMark; conditional iff the Rule literal also gets a
// Match) and MatchCriteria (Mark*) interface calls whose operands evaluate to
// the builder's mark fields.  A "block" starts at each call from outside the
// builder's methods into one of them.

import (
	"fmt"
	"go/constant"
	"go/token"
	"go/types"
	"sort"
	"strings"

	"golang.org/x/tools/go/ssa"
)

type c08bbKind uint8

const (
	bbUnknown c08bbKind = iota
	bbBool
	bbBits       // subset of {A=1, T=2}; 0 = the constant 0
	bbBuilder    // pointer to the tracked builder
	bbBuilderVal // the builder loaded as a value (only to initialise another builder variable)
	bbTuple      // multi-value result of an interpreted call (components in tup)
	bbClosure    // function literal that captured the tracked builder (clo)
)

type c08bbVal struct {
	k    c08bbKind
	b    bool
	bits uint8
	tup  []c08bbVal
	clo  *c08bbClo
}

// c08bbClo: a closure created by an interpreted function with the values its
// free variables were bound to.
type c08bbClo struct {
	fn    *ssa.Function
	binds []c08bbVal
}

func (v c08bbVal) String() string {
	switch v.k {
	case bbBool:
		return fmt.Sprint(v.b)
	case bbBits:
		return fmt.Sprintf("b%d", v.bits)
	case bbBuilder:
		return "B"
	case bbBuilderVal:
		return "BV"
	case bbTuple:
		return fmt.Sprint(v.tup)
	case bbClosure:
		return "C:" + fnName(v.clo.fn) + fmt.Sprint(v.clo.binds)
	}
	return "?"
}

func (v c08bbVal) carriesBuilder() bool {
	switch v.k {
	case bbBuilder, bbBuilderVal:
		return true
	case bbTuple:
		for _, e := range v.tup {
			if e.carriesBuilder() {
				return true
			}
		}
	case bbClosure:
		for _, e := range v.clo.binds {
			if e.carriesBuilder() {
				return true
			}
		}
	}
	return false
}

const (
	c08tU     uint8 = iota // uninitialised: whatever the packet arrived with
	c08tZ                  // reset, nothing written since
	c08tACC                // conditionally set by the current block, starting from a reset
	c08tSTALE              // already consumed by a read / left over from an earlier block / unconditionally set
)

const (
	c08aU uint8 = iota
	c08aZERO
	c08aONE
	c08aOR   // first positive block accumulating on a fresh 0
	c08aHOLD // holds the conjunction of the finished blocks
)

type c08bbState struct {
	flags string // one byte per struct field of the builder: 'f','t','?' for bools, '-' otherwise
	this  uint8
	all   uint8
	trace string
}

func (s c08bbState) key() string { return fmt.Sprintf("%s/%d/%d", s.flags, s.this, s.all) }

type c08bbOut struct {
	st  c08bbState
	ret c08bbVal
}

type c08bbSite struct {
	site     string
	problems map[string]string
}

type c08bb struct {
	m        *c08Model
	bt       *types.Named
	st       *types.Struct
	allIdx   int
	thisIdx  int
	sites    map[string]*c08bbSite
	und      map[string]string
	memo     map[string][]c08bbOut
	stack    map[*ssa.Function]bool
	budget   int
	exceeded bool
	// handsOut: in-package functions with a body whose results carry the
	// builder (by type: *B, B, or a tuple containing one).  A call of such a
	// function from interpreted code is interpreted too and the builder it
	// returns — together with the typestate at its return — lives on in the
	// caller (a helper handing its builder back is not an escape).
	handsOut map[*ssa.Function]bool
	// followed: members of handsOut every use of which is a static call from a
	// function the interpreter analyses; only those may return the builder.
	followed map[*ssa.Function]bool
}

type c08bbFrame struct {
	fn       *ssa.Function
	isMethod bool
	root     bool // entered as an analysis root, not through an interpreted call
	seen     map[string]bool
	outs     map[string]c08bbOut
}

func (a *c08bb) undecided(key, site, text string) {
	if _, ok := a.und[key]; !ok {
		a.und[key] = site + "\x00" + text
	}
}

func (a *c08bb) bitName(bit uint8) string {
	if bit == 1 {
		return a.st.Field(a.allIdx).Name()
	}
	return a.st.Field(a.thisIdx).Name()
}

func (a *c08bb) siteOf(bit uint8, fr *c08bbFrame, meth string, in ssa.Instruction) *c08bbSite {
	key := "C08.blockbit/" + a.bitName(bit) + "/" + fnName(fr.fn) + "/" + meth
	s := a.sites[key]
	if s == nil {
		s = &c08bbSite{site: a.m.p.Pos(in.Pos()), problems: map[string]string{}}
		a.sites[key] = s
	}
	return s
}

func (s *c08bbSite) problem(slug, text string, st c08bbState) {
	if _, ok := s.problems[slug]; !ok {
		tr := strings.TrimPrefix(st.trace, " → ")
		if tr == "" {
			tr = "(no block yet)"
		}
		s.problems[slug] = text + " — witness: blocks requested in the order " + tr
	}
}

// isBuilderMethod: fn is a method of the builder type.
func (a *c08bb) isBuilderMethod(fn *ssa.Function) bool {
	fn = topFn(fn)
	o, ok := fn.Object().(*types.Func)
	if !ok {
		return false
	}
	sig, ok := o.Type().(*types.Signature)
	if !ok || sig.Recv() == nil {
		return false
	}
	return types.Identical(derefType(sig.Recv().Type()), a.bt)
}

func (a *c08bb) eval(v ssa.Value, env map[ssa.Value]c08bbVal) c08bbVal {
	if r, ok := env[v]; ok {
		return r
	}
	switch x := v.(type) {
	case *ssa.Const:
		if x.Value == nil {
			return c08bbVal{}
		}
		switch x.Value.Kind() {
		case constant.Bool:
			return c08bbVal{k: bbBool, b: constant.BoolVal(x.Value)}
		case constant.Int:
			if x.Value.ExactString() == "0" {
				return c08bbVal{k: bbBits}
			}
		}
	case *ssa.UnOp:
		if x.Op == token.NOT {
			if r := a.eval(x.X, env); r.k == bbBool {
				return c08bbVal{k: bbBool, b: !r.b}
			}
		}
	case *ssa.BinOp:
		l, r := a.eval(x.X, env), a.eval(x.Y, env)
		switch {
		case x.Op == token.OR && l.k == bbBits && r.k == bbBits:
			return c08bbVal{k: bbBits, bits: l.bits | r.bits}
		case x.Op == token.AND && l.k == bbBits && r.k == bbBits:
			return c08bbVal{k: bbBits, bits: l.bits & r.bits}
		case (x.Op == token.EQL || x.Op == token.NEQ) && l.k == bbBool && r.k == bbBool:
			return c08bbVal{k: bbBool, b: (l.b == r.b) == (x.Op == token.EQL)}
		}
	case *ssa.Convert:
		return a.eval(x.X, env)
	case *ssa.ChangeType:
		return a.eval(x.X, env)
	}
	return c08bbVal{}
}

func c08bbCopyEnv(env map[ssa.Value]c08bbVal) map[ssa.Value]c08bbVal {
	out := make(map[ssa.Value]c08bbVal, len(env)+2)
	for k, v := range env {
		out[k] = v
	}
	return out
}

func c08bbEnvKey(env map[ssa.Value]c08bbVal) string {
	var parts []string
	for k, v := range env {
		if v.k == bbUnknown {
			continue
		}
		parts = append(parts, k.Name()+"="+v.String())
	}
	sort.Strings(parts)
	return strings.Join(parts, ",")
}

func (a *c08bb) initialState() c08bbState {
	fl := make([]byte, a.st.NumFields())
	for i := range fl {
		fl[i] = '-'
		if b, ok := types.Unalias(a.st.Field(i).Type()).(*types.Basic); ok && b.Kind() == types.Bool {
			fl[i] = 'f'
		}
	}
	return c08bbState{flags: string(fl), this: c08tU, all: c08aU}
}

// runFn interprets fn from its entry with the given arguments and state and
// returns the distinct (state, result) pairs at its returns.
func (a *c08bb) runFn(fn *ssa.Function, args, free []c08bbVal, st c08bbState, root bool) []c08bbOut {
	mk := fnName(fn) + "(" + fmt.Sprint(args) + fmt.Sprint(free) + ")" + st.key()
	if root {
		mk = "root:" + mk
	}
	if outs, ok := a.memo[mk]; ok {
		// keep the caller's trace
		res := make([]c08bbOut, len(outs))
		for i, o := range outs {
			o.st.trace = st.trace
			res[i] = o
		}
		return res
	}
	if a.stack[fn] {
		a.undecided("C08.blockbit/recursion/"+fnName(fn), a.m.p.Pos(fn.Pos()), "recursive use of the block builder cannot be interpreted")
		return nil
	}
	a.stack[fn] = true
	defer delete(a.stack, fn)
	fr := &c08bbFrame{fn: fn, isMethod: a.isBuilderMethod(fn), root: root, seen: map[string]bool{}, outs: map[string]c08bbOut{}}
	env := map[ssa.Value]c08bbVal{}
	for i, pa := range fn.Params {
		if i < len(args) {
			env[pa] = args[i]
			if args[i].k == bbBuilder {
				a.checkEscape(pa, fr)
			}
		}
	}
	for i, fv := range fn.FreeVars {
		if i < len(free) {
			env[fv] = free[i]
			if free[i].k == bbBuilder {
				a.checkEscape(fv, fr)
			}
		}
	}
	a.execBlock(fr, fn.Blocks[0], nil, st, env)
	var outs []c08bbOut
	for _, k := range sortedKeys(fr.outs) {
		outs = append(outs, fr.outs[k])
	}
	a.memo[mk] = outs
	return outs
}

// checkEscape: the builder pointer v may only be used to address its fields, be
// passed to statically known functions with bodies, be captured by a function
// literal that is only ever called directly, flow through a phi, or be returned
// to an interpreted caller (fr is not a root: the caller continues with the
// returned builder and the state at the return).
func (a *c08bb) checkEscape(v ssa.Value, fr *c08bbFrame) {
	a.checkEscapeRec(v, fr, map[ssa.Value]bool{})
}

func (a *c08bb) checkEscapeRec(v ssa.Value, fr *c08bbFrame, seen map[ssa.Value]bool) {
	if seen[v] {
		return
	}
	seen[v] = true
	fn := fr.fn
	refs := v.Referrers()
	if refs == nil {
		return
	}
	for _, r := range *refs {
		switch x := r.(type) {
		case *ssa.DebugRef, *ssa.FieldAddr:
		case *ssa.UnOp:
			// whole-value load: validated where it executes
		case *ssa.Phi:
			a.checkEscapeRec(x, fr, seen)
		case *ssa.Store:
			if x.Addr != v {
				a.undecided("C08.blockbit/escape/"+fnName(fn), a.m.p.Pos(r.Pos()), "the block builder pointer is stored; the emitted rule sequence is not fully visible")
			}
		case *ssa.Call:
			if x.Common().Value == v {
				a.undecided("C08.blockbit/escape/"+fnName(fn), a.m.p.Pos(r.Pos()), "the block builder is used as a function value")
				continue
			}
			sf := calleeFn(x.Common())
			if sf == nil || sf.Blocks == nil {
				a.undecided("C08.blockbit/escape/"+fnName(fn), a.m.p.Pos(r.Pos()), "the block builder is passed to a call that cannot be followed; the emitted rule sequence is not fully visible")
			}
		case *ssa.MakeClosure:
			if !c08bbOnlyCalled(x) {
				a.undecided("C08.blockbit/escape/"+fnName(fn), a.m.p.Pos(r.Pos()), "the block builder is captured by a function literal that is not only called directly; the emitted rule sequence is not fully visible")
			}
		case *ssa.Return:
			if fr.root {
				a.undecided("C08.blockbit/escape/"+fnName(fn), a.m.p.Pos(r.Pos()), "the block builder is returned to callers the interpreter does not analyse (the function is used other than through static in-package calls); the emitted rule sequence is not fully visible")
			}
		default:
			a.undecided("C08.blockbit/escape/"+fnName(fn), a.m.p.Pos(r.Pos()), fmt.Sprintf("the block builder escapes through %T; the emitted rule sequence is not fully visible", r))
		}
	}
}

// c08bbOnlyCalled: every use of the closure value is a direct call of it.
func c08bbOnlyCalled(mc *ssa.MakeClosure) bool {
	refs := mc.Referrers()
	if refs == nil {
		return true
	}
	for _, r := range *refs {
		switch x := r.(type) {
		case *ssa.DebugRef:
		case *ssa.Call:
			if x.Common().Value != ssa.Value(mc) {
				return false
			}
			for _, arg := range x.Common().Args {
				if arg == ssa.Value(mc) {
					return false
				}
			}
		default:
			return false
		}
	}
	return true
}

// c08bbCarrier: t is the builder, a pointer to it, or a tuple with such a component.
func (a *c08bb) carrier(t types.Type) bool {
	if tu, ok := t.(*types.Tuple); ok {
		for i := 0; i < tu.Len(); i++ {
			if a.carrier(tu.At(i).Type()) {
				return true
			}
		}
		return false
	}
	return types.Identical(derefType(t), a.bt)
}

// retVal: abstract value of a call result of static type t that the callee's
// return evaluated to v.
func (a *c08bb) retVal(results []ssa.Value, env map[ssa.Value]c08bbVal) c08bbVal {
	switch len(results) {
	case 0:
		return c08bbVal{}
	case 1:
		return a.eval(results[0], env)
	}
	tv := c08bbVal{k: bbTuple}
	for _, r := range results {
		tv.tup = append(tv.tup, a.eval(r, env))
	}
	return tv
}

func (a *c08bb) execBlock(fr *c08bbFrame, b, prev *ssa.BasicBlock, st c08bbState, env map[ssa.Value]c08bbVal) {
	a.budget--
	if a.budget < 0 {
		a.exceeded = true
		return
	}
	// phis (evaluated simultaneously on the incoming edge)
	i := 0
	if prev != nil {
		pi := -1
		for k, p := range b.Preds {
			if p == prev {
				pi = k
			}
		}
		var phis []*ssa.Phi
		var vals []c08bbVal
		for ; i < len(b.Instrs); i++ {
			ph, ok := b.Instrs[i].(*ssa.Phi)
			if !ok {
				break
			}
			phis = append(phis, ph)
			if pi >= 0 {
				vals = append(vals, a.eval(ph.Edges[pi], env))
			} else {
				vals = append(vals, c08bbVal{})
			}
		}
		if len(phis) > 0 {
			env = c08bbCopyEnv(env)
			for k, ph := range phis {
				env[ph] = vals[k]
			}
		}
	}
	key := fmt.Sprintf("%d|%s|%s", b.Index, st.key(), c08bbEnvKey(env))
	if fr.seen[key] {
		return
	}
	fr.seen[key] = true
	if isPanicBlock(b) {
		return
	}
	a.execFrom(fr, b, i, st, c08bbCopyEnv(env))
}

func (a *c08bb) execFrom(fr *c08bbFrame, b *ssa.BasicBlock, i int, st c08bbState, env map[ssa.Value]c08bbVal) {
	p := a.m.p
	for ; i < len(b.Instrs); i++ {
		switch in := b.Instrs[i].(type) {
		case *ssa.Alloc:
			if types.Identical(derefType(in.Type()), a.bt) {
				env[in] = c08bbVal{k: bbBuilder}
				tr := st.trace
				st = a.initialState()
				st.trace = tr
				a.checkEscape(in, fr)
			}
		case *ssa.Extract:
			if tv := a.eval(in.Tuple, env); tv.k == bbTuple && in.Index < len(tv.tup) && tv.tup[in.Index].k != bbUnknown {
				env[in] = tv.tup[in.Index]
				if env[in].k == bbBuilder {
					a.checkEscape(in, fr)
				}
			} else {
				delete(env, in)
			}
		case *ssa.MakeClosure:
			clo := &c08bbClo{fn: in.Fn.(*ssa.Function)}
			for _, bnd := range in.Bindings {
				clo.binds = append(clo.binds, a.eval(bnd, env))
			}
			if v := (c08bbVal{k: bbClosure, clo: clo}); v.carriesBuilder() {
				env[in] = v
			}
		case *ssa.UnOp:
			if in.Op != token.MUL {
				continue
			}
			if fa, ok := in.X.(*ssa.FieldAddr); ok && a.eval(fa.X, env).k == bbBuilder {
				switch {
				case fa.Field == a.allIdx:
					env[in] = c08bbVal{k: bbBits, bits: 1}
				case fa.Field == a.thisIdx:
					env[in] = c08bbVal{k: bbBits, bits: 2}
				case st.flags[fa.Field] == 't':
					env[in] = c08bbVal{k: bbBool, b: true}
				case st.flags[fa.Field] == 'f':
					env[in] = c08bbVal{k: bbBool, b: false}
				default:
					delete(env, in)
				}
			} else if a.eval(in.X, env).k == bbBuilder {
				// `b := matchBlockBuilder{…}` is compiled as literal temp + copy:
				// a by-value load is fine if it only initialises another builder.
				okCopy := true
				if refs := in.Referrers(); refs != nil {
					for _, r := range *refs {
						if _, dbg := r.(*ssa.DebugRef); dbg {
							continue
						}
						if _, isRet := r.(*ssa.Return); isRet && !fr.root {
							continue // handed back by value to the interpreted caller, which must copy it into a builder variable
						}
						if st2, isSt := r.(*ssa.Store); !isSt || st2.Val != ssa.Value(in) || a.eval(st2.Addr, env).k != bbBuilder {
							okCopy = false
						}
					}
				}
				if okCopy {
					env[in] = c08bbVal{k: bbBuilderVal}
				} else {
					a.undecided("C08.blockbit/escape/"+fnName(fr.fn), p.Pos(in.Pos()), "the block builder is copied by value")
				}
			}
		case *ssa.Store:
			if a.eval(in.Val, env).k == bbBuilder {
				a.undecided("C08.blockbit/escape/"+fnName(fr.fn), p.Pos(in.Pos()), "the block builder pointer is stored")
			}
			if fa, ok := in.Addr.(*ssa.FieldAddr); ok && a.eval(fa.X, env).k == bbBuilder {
				if st.flags[fa.Field] != '-' {
					fl := []byte(st.flags)
					switch v := a.eval(in.Val, env); {
					case v.k == bbBool && v.b:
						fl[fa.Field] = 't'
					case v.k == bbBool:
						fl[fa.Field] = 'f'
					default:
						fl[fa.Field] = '?'
					}
					st.flags = string(fl)
				}
			} else if a.eval(in.Addr, env).k == bbBuilder && a.eval(in.Val, env).k != bbBuilderVal {
				a.undecided("C08.blockbit/escape/"+fnName(fr.fn), p.Pos(in.Pos()), "the block builder is overwritten as a whole")
			}
		case *ssa.Call:
			cc := in.Common()
			if n := c08InvokeName(cc, c08ActionIface); n != "" {
				st = a.actionEvent(fr, in, n, st, env)
				continue
			}
			if n := c08InvokeName(cc, c08MatchIface); n != "" {
				st = a.readEvent(fr, in, n, st, env)
				continue
			}
			var args, free []c08bbVal
			hasB := false
			for _, arg := range cc.Args {
				v := a.eval(arg, env)
				args = append(args, v)
				if v.carriesBuilder() {
					hasB = true
				}
			}
			sf := calleeFn(cc)
			if cv := a.eval(cc.Value, env); cv.k == bbClosure {
				// call of a function literal that captured the builder
				sf, free, hasB = cv.clo.fn, cv.clo.binds, true
			}
			if sf != nil && a.followed[sf] {
				hasB = true // the callee hands a builder back: interpret it, the builder lives on here
			}
			if !hasB {
				continue
			}
			if sf == nil || sf.Blocks == nil {
				continue // reported by checkEscape
			}
			if !fr.isMethod && a.isBuilderMethod(sf) {
				st = a.boundary(st, fnName(sf))
			}
			for _, o := range a.runFn(sf, args, free, st, false) {
				env2 := c08bbCopyEnv(env)
				if o.ret.k != bbUnknown {
					env2[in] = o.ret
					if o.ret.k == bbBuilder {
						a.checkEscape(in, fr)
					}
				} else {
					delete(env2, in)
				}
				a.execFrom(fr, b, i+1, o.st, env2)
			}
			return
		case *ssa.Defer, *ssa.Go:
			for _, arg := range in.(ssa.CallInstruction).Common().Args {
				if a.eval(arg, env).carriesBuilder() {
					a.undecided("C08.blockbit/escape/"+fnName(fr.fn), p.Pos(in.Pos()), "the block builder is used in a defer/go statement")
				}
			}
		case *ssa.If:
			if v := a.eval(in.Cond, env); v.k == bbBool {
				k := 0
				if !v.b {
					k = 1
				}
				a.execBlock(fr, b.Succs[k], b, st, env)
				return
			}
			a.execBlock(fr, b.Succs[0], b, st, env)
			a.execBlock(fr, b.Succs[1], b, st, env)
			return
		case *ssa.Jump:
			a.execBlock(fr, b.Succs[0], b, st, env)
			return
		case *ssa.Return:
			o := c08bbOut{st: st, ret: a.retVal(in.Results, env)}
			if fr.root && o.ret.carriesBuilder() {
				a.undecided("C08.blockbit/escape/"+fnName(fr.fn), p.Pos(in.Pos()), "the block builder is returned to callers the interpreter does not analyse; the emitted rule sequence is not fully visible")
			}
			fr.outs[o.st.key()+"|"+o.ret.String()] = o
			return
		case *ssa.Panic:
			return
		}
	}
}

func (a *c08bb) boundary(st c08bbState, name string) c08bbState {
	if st.this == c08tACC {
		st.this = c08tSTALE
	}
	if st.all != c08aU {
		st.all = c08aHOLD
	}
	if strings.Count(st.trace, "→") < 12 {
		st.trace += " → " + name
	}
	return st
}

// c08bbRuleLiteral follows an action value forwards (directly, through phis and
// local variables, or as an argument into statically called helpers) to the
// generictables.Rule literal(s) whose Action field it is stored into, and
// reports whether such a rule is conditional, i.e. also receives a non-nil
// Match (a Match taken from a helper's parameter is resolved to the actual
// argument of the call the action came in through).
func c08bbRuleLiteral(call *ssa.Call) (conditional, ok bool) {
	var found []bool
	var resolveNonNil func(v ssa.Value, chain []*ssa.Call, depth int) bool
	resolveNonNil = func(v ssa.Value, chain []*ssa.Call, depth int) bool {
		if depth > 6 {
			return true
		}
		switch x := v.(type) {
		case *ssa.Const:
			return !x.IsNil()
		case *ssa.MakeInterface:
			return resolveNonNil(x.X, chain, depth+1)
		case *ssa.ChangeInterface:
			return resolveNonNil(x.X, chain, depth+1)
		case *ssa.Parameter:
			if len(chain) == 0 {
				return true
			}
			last := chain[len(chain)-1]
			sf := calleeFn(last.Common())
			if sf == nil || x.Parent() != sf {
				return true
			}
			for i, pa := range sf.Params {
				if pa == x && i < len(last.Common().Args) {
					return resolveNonNil(last.Common().Args[i], chain[:len(chain)-1], depth+1)
				}
			}
		}
		return true
	}
	seen := map[ssa.Value]bool{}
	var search func(v ssa.Value, chain []*ssa.Call, depth int)
	search = func(v ssa.Value, chain []*ssa.Call, depth int) {
		if v == nil || seen[v] || depth > 8 {
			return
		}
		seen[v] = true
		refs := v.Referrers()
		if refs == nil {
			return
		}
		for _, r := range *refs {
			switch x := r.(type) {
			case *ssa.Store:
				if x.Val != v {
					continue
				}
				if fa, isFA := x.Addr.(*ssa.FieldAddr); isFA {
					if fieldName(fa.X.Type(), fa.Field) == "Action" && namedTypeName(fa.X.Type()) == "Rule" {
						cond := false
						for _, mv := range literalFieldStores(fa.X)["Match"] {
							if resolveNonNil(mv, chain, 0) {
								cond = true
							}
						}
						found = append(found, cond)
					}
					continue
				}
				if al, isAl := x.Addr.(*ssa.Alloc); isAl {
					if ar := al.Referrers(); ar != nil {
						for _, rr := range *ar {
							if ld, isLd := rr.(*ssa.UnOp); isLd && ld.Op == token.MUL {
								search(ld, chain, depth+1)
							}
						}
					}
				}
			case *ssa.Phi:
				search(x, chain, depth+1)
			case *ssa.MakeInterface:
				search(x, chain, depth+1)
			case *ssa.ChangeInterface:
				search(x, chain, depth+1)
			case *ssa.ChangeType:
				search(x, chain, depth+1)
			case *ssa.Call:
				sf := calleeFn(x.Common())
				if sf == nil || sf.Blocks == nil {
					continue
				}
				for i, arg := range x.Common().Args {
					if arg == v && i < len(sf.Params) {
						search(sf.Params[i], append(append([]*ssa.Call{}, chain...), x), depth+1)
					}
				}
			}
		}
	}
	search(call, nil, 0)
	if len(found) == 0 {
		return false, false
	}
	for _, f := range found[1:] {
		if f != found[0] {
			return false, false
		}
	}
	return found[0], true
}

func (a *c08bb) actionEvent(fr *c08bbFrame, call *ssa.Call, meth string, st c08bbState, env map[ssa.Value]c08bbVal) c08bbState {
	if meth != "SetMark" && meth != "ClearMark" && meth != "SetMaskedMark" {
		return st
	}
	p := a.m.p
	var ops []c08bbVal
	tracked := false
	for _, arg := range call.Common().Args {
		v := a.eval(arg, env)
		ops = append(ops, v)
		if v.k == bbBits && v.bits != 0 {
			tracked = true
		}
		if v.k != bbBits && fr.isMethod {
			a.undecided("C08.blockbit/operand/"+fnName(fr.fn)+"/"+meth, p.Pos(call.Pos()), "mark operand of a rule emitted by the block builder does not evaluate to a combination of its two mark fields / 0 on some path")
			return st
		}
	}
	if !tracked {
		return st
	}
	cond, ok := c08bbRuleLiteral(call)
	if !ok {
		a.undecided("C08.blockbit/literal/"+fnName(fr.fn)+"/"+meth, p.Pos(call.Pos()), "the mark action is not stored into the Action field of a generictables.Rule literal; cannot tell whether the rule is conditional")
		return st
	}
	for _, bit := range []uint8{1, 2} {
		var touched, set bool
		switch meth {
		case "SetMark":
			touched, set = ops[0].bits&bit != 0, true
		case "ClearMark":
			touched, set = ops[0].bits&bit != 0, false
		case "SetMaskedMark":
			if len(ops) < 2 {
				continue
			}
			touched, set = ops[1].bits&bit != 0, ops[0].bits&bit != 0
		}
		if !touched {
			continue
		}
		s := a.siteOf(bit, fr, meth, call)
		if bit == 2 {
			st = a.thisWrite(s, cond, set, st)
		} else {
			st = a.allWrite(s, cond, set, st)
		}
	}
	return st
}

func (a *c08bb) thisWrite(s *c08bbSite, cond, set bool, st c08bbState) c08bbState {
	switch {
	case !cond && !set:
		st.this = c08tZ
	case !cond && set:
		st.this = c08tSTALE
	case cond && set:
		if st.this == c08tZ {
			st.this = c08tACC
		}
	}
	return st
}

func (a *c08bb) allWrite(s *c08bbSite, cond, set bool, st c08bbState) c08bbState {
	A := a.bitName(1)
	switch {
	case !cond:
		if st.all == c08aOR || st.all == c08aHOLD {
			s.problem("clobber", "an unconditional write re-initialises "+A+" although it already holds the result of earlier block(s): their verdict is discarded", st)
		}
		if set {
			st.all = c08aONE
		} else {
			st.all = c08aZERO
		}
	case set:
		switch st.all {
		case c08aZERO, c08aOR:
			st.all = c08aOR
		case c08aU:
			s.problem("uninit", "a rule conditionally sets "+A+" although no earlier rule of the sequence initialised it (the packet arrives with arbitrary scratch bits)", st)
		case c08aONE:
			s.problem("clobber", "a rule conditionally sets "+A+" right after it was initialised to 1: the block can never fail", st)
		case c08aHOLD:
			s.problem("clobber", "a rule conditionally sets "+A+" although it already holds the result of an earlier block: a packet that failed the earlier block passes again (blocks are OR-ed instead of AND-ed)", st)
		}
	default:
		switch st.all {
		case c08aONE, c08aOR, c08aHOLD:
			st.all = c08aHOLD
		case c08aZERO:
			s.problem("never", "a rule conditionally clears "+A+" in the block that initialised it to 0: "+A+" can never become set, the rendered rule never matches", st)
		case c08aU:
			s.problem("uninit", "a rule conditionally clears "+A+" although no earlier rule of the sequence initialised it (the packet arrives with arbitrary scratch bits)", st)
		}
	}
	return st
}

func (a *c08bb) readEvent(fr *c08bbFrame, call *ssa.Call, meth string, st c08bbState, env map[ssa.Value]c08bbVal) c08bbState {
	if !strings.Contains(meth, "Mark") {
		return st
	}
	var bits uint8
	for _, arg := range call.Common().Args {
		v := a.eval(arg, env)
		if v.k == bbBits {
			bits |= v.bits
		} else if fr.isMethod {
			a.undecided("C08.blockbit/operand/"+fnName(fr.fn)+"/"+meth, a.m.p.Pos(call.Pos()), "mark operand of a match emitted by the block builder does not evaluate to a combination of its two mark fields / 0 on some path")
			return st
		}
	}
	T, A := a.bitName(2), a.bitName(1)
	if bits&2 != 0 {
		s := a.siteOf(2, fr, meth, call)
		switch st.this {
		case c08tU:
			s.problem("uninit", "a rule matches on "+T+" although no earlier rule of the sequence reset it (the packet arrives with arbitrary scratch bits, e.g. left by the previous policy rule)", st)
			st.this = c08tSTALE
		case c08tSTALE:
			s.problem("stale", "a rule matches on "+T+" although the bit may still be set from an earlier block: it was not reset between the previous block's end-of-block test and this block's alternatives, so once one block has passed, no later block can fail (B1∧B2∧…∧Bn degenerates to B1∧B2)", st)
		case c08tACC:
			st.this = c08tSTALE
		}
	}
	if bits&1 != 0 {
		s := a.siteOf(1, fr, meth, call)
		if st.all == c08aU {
			s.problem("uninit", "a rule matches on "+A+" although no earlier rule of the sequence initialised it", st)
		}
	}
	return st
}

// findHandOuts computes handsOut (by result type) and followed: the functions
// of handsOut that are used only as the static callee of calls made from
// felix/rules functions (at least one), and can therefore be interpreted in the
// context of every caller.  Any other use (function value, method value or
// expression, go/defer, a call from another package, a possible interface
// dispatch to it) leaves the function a root whose Return is an escape.
func (a *c08bb) findHandOuts() {
	p, m := a.m.p, a.m
	a.handsOut, a.followed = map[*ssa.Function]bool{}, map[*ssa.Function]bool{}
	byObj := map[types.Object]*ssa.Function{}
	for _, fn := range p.AllFuncs() {
		if !m.inRP(fn) || fn.Blocks == nil || fn.Signature == nil {
			continue
		}
		if a.carrier(fn.Signature.Results()) {
			a.handsOut[fn] = true
			if o := fn.Object(); o != nil {
				byObj[o] = fn
			}
		}
	}
	if len(a.handsOut) == 0 {
		return
	}
	calls := map[*ssa.Function]int{}
	bad := map[*ssa.Function]bool{}
	target := func(v ssa.Value) *ssa.Function {
		g, ok := v.(*ssa.Function)
		if !ok {
			return nil
		}
		if a.handsOut[g] {
			return g
		}
		if o := g.Object(); o != nil && byObj[o] != nil {
			return byObj[o] // thunk / bound-method wrapper of a hand-out function
		}
		return nil
	}
	for _, fn := range p.AllFuncs() {
		if fn.Blocks == nil {
			continue
		}
		for _, b := range fn.Blocks {
			for _, in := range b.Instrs {
				if call, ok := in.(*ssa.Call); ok {
					cc := call.Common()
					if cc.IsInvoke() {
						for h := range a.handsOut {
							if o, ok := h.Object().(*types.Func); ok && o.Name() == cc.Method.Name() && a.carrier(cc.Signature().Results()) {
								bad[h] = true
							}
						}
					} else if g, isFn := cc.Value.(*ssa.Function); isFn && a.handsOut[g] {
						if m.inRP(fn) {
							calls[g]++
						} else {
							bad[g] = true
						}
						for _, arg := range cc.Args {
							if t := target(arg); t != nil {
								bad[t] = true
							}
						}
						continue
					}
				}
				for _, op := range in.Operands(nil) {
					if op == nil || *op == nil {
						continue
					}
					if t := target(*op); t != nil {
						bad[t] = true
					}
				}
			}
		}
	}
	for h := range a.handsOut {
		if calls[h] > 0 && !bad[h] {
			a.followed[h] = true
		}
	}
}

func c08BlockBits(m *c08Model) {
	c, p := m.c, m.p
	obj := p.LookupObj(c08RulesPkg, "matchBlockBuilder")
	if obj == nil {
		c.Lost("rules.matchBlockBuilder")
	}
	named, _ := obj.Type().(*types.Named)
	if named == nil {
		c.Lost("rules.matchBlockBuilder is not a named type")
	}
	st, _ := named.Underlying().(*types.Struct)
	if st == nil {
		c.Lost("rules.matchBlockBuilder is not a struct")
	}
	a := &c08bb{m: m, bt: named, st: st, allIdx: -1, thisIdx: -1, sites: map[string]*c08bbSite{}, und: map[string]string{},
		memo: map[string][]c08bbOut{}, stack: map[*ssa.Function]bool{}, budget: 400000}
	for i := 0; i < st.NumFields(); i++ {
		switch st.Field(i).Name() {
		case "markAllBlocksPass":
			a.allIdx = i
		case "markThisBlockPass":
			a.thisIdx = i
		}
	}
	if a.allIdx < 0 || a.thisIdx < 0 {
		c.Lost("matchBlockBuilder.markAllBlocksPass / markThisBlockPass")
	}
	a.findHandOuts()
	// roots: every felix/rules function that creates a builder or obtains one
	// from a followed in-package function — except the followed functions
	// themselves, which are interpreted in the context of each of their callers
	// (their exit state continues there).
	nRoots := 0
	for _, fn := range p.AllFuncs() {
		if !m.inRP(fn) || fn.Blocks == nil || a.followed[fn] {
			continue
		}
		creates := false
		allInstrs(fn, false, func(_ *ssa.Function, in ssa.Instruction) {
			if al, ok := in.(*ssa.Alloc); ok && types.Identical(derefType(al.Type()), named) {
				creates = true
			}
			if call, ok := in.(*ssa.Call); ok {
				if sf := calleeFn(call.Common()); sf != nil && a.followed[sf] {
					creates = true
				}
			}
		})
		if !creates {
			continue
		}
		nRoots++
		args := make([]c08bbVal, len(fn.Params))
		a.runFn(fn, args, nil, a.initialState(), true)
	}
	if nRoots == 0 {
		c.Lost("no function in felix/rules creates a matchBlockBuilder")
	}
	if a.exceeded {
		c.Undecided("C08.blockbit/budget", p.Pos(m.root.Pos()), "state budget exhausted while interpreting the block builder")
	}
	for _, k := range sortedKeys(a.und) {
		parts := strings.SplitN(a.und[k], "\x00", 2)
		c.Undecided(k, parts[0], "%s", parts[1])
	}
	for _, k := range sortedKeys(a.sites) {
		s := a.sites[k]
		if len(s.problems) == 0 {
			c.Ok(k, s.site, "holds on every sequence of blocks the caller can request")
			continue
		}
		for _, slug := range sortedKeys(s.problems) {
			c.Violate(k+"/"+slug, s.site, "%s", s.problems[slug])
		}
	}
}
