package main

import (
	"fmt"
	"go/ast"
	"go/constant"
	"go/token"
	"go/types"
	"os"
	"path/filepath"
	"regexp"
	"sort"
	"strconv"
	"strings"

	"golang.org/x/tools/go/packages"
)

var verifRoot = "/verif"

func csideRoot() string {
	if _, err := os.Stat(filepath.Join(verifRoot, "cside", "layouts.py")); err == nil {
		return verifRoot
	}
	return "/verif"
}

func init() {
	register(&Property{
		ID:        "C13",
		Title:     "Go and kernel-program views of shared BPF data structures agree",
		Level:     "proof",
		Technique: "static layout comparison: clang 14 record layouts (IPv4 and IPv6 builds of every BPF program) vs go/types constant folding and gc struct layout; SSA value derivation (reaching definitions + interval arithmetic with loop trip bounds) for computed state offsets",
		DesignRef: "DESIGN.md §3 C13",
		Explanation: "Purely static property, decided for every anchor the machinery enumerates: (state) every polprog asm.FieldOffset naming state->x equals clang's offset of member x of struct cali_tc_state in the IPv4 and IPv6 builds, and every Load/Store width through it stays inside that member; " +
			"(stateflow) every FieldOffset value that reaches an asm Load*/Store* call in polprog - directly, through the leg->offset functions, through parameters, or through a local whose Offset is adjusted - derives from a named state offset plus a term with a computed bound (constants, loop counters bounded by their loop guard and len() of make()d slices, accumulation bounded by the trip count of the carrying loop), and [base+lo, base+hi+width) lies inside the C member the base names in every build; the named offsets are never written outside the package initialiser; " +
			"(mirror) every named field of the Go state.State mirror starts and ends on C field boundaries, the Go struct is exactly expectedSize, C sizeof <= expectedSize <= entrySize == the cali_state map value size; " +
			"(maps) for every Go maps.MapParameters literal whose versioned name is a map declared by a BPF program, KeySize/ValueSize equal sizeof of the C key/value types in every build that declares it; " +
			"(access) every constant byte range or index that Go code applies to a [N]byte key/value type tied to such a map starts and ends on a field boundary of the C key/value type; " +
			"(access, scalar clause) when such a constant position is decoded or encoded as ONE number - handed (directly, or through a local bound once to the slice) to encoding/binary's UintN/PutUintN/AppendUintN of any byte order, or a constant single-byte index used as a value - the N/8 bytes actually accessed (Uint64(e[24:]) touches [24,32) only) are, in every C layout the type is tied to, exactly one C scalar of that width: a non-aggregate leaf, one element of an array leaf, a union alternative, or a run of whole bit-fields inside one storage unit; a slice shorter than the width is reported too.  A wider access that covers two adjacent C scalars (two 16-bit ports as one 32-bit word) is a violation even where the arithmetic would come out right: there is no such access in today's tree and hence no exception list.",
		NotDecided: "Byte order and signedness of individual fields; which word of a member a computed state offset selects (only that it stays inside the member; the bound is an interval over-approximation); the pointer register an offset is applied to; state offsets outside polprog; accesses through non-constant offsets or through plain []byte; that a Go accessor reads the field its name suggests (only that a scalar access is exactly one C scalar and a copy covers whole fields); scalar accesses through a sub-slice of a local, through a helper taking []byte, or at non-constant positions.",
		Assumptions: []string{
			"clang 14 record layout for -target bpf (x86_64 defines) equals the layout of the compiled programs",
			"/verif/cstubs (bpf_helpers.h, bpf_endian.h, bpf_core_read.h: macros only) stand in for libbpf, which is not vendored",
			"go/types gc/amd64 sizes for the Go mirror struct",
			"map declarations are the variables the CALI_MAP* macros place in section .maps",
			"computed state offsets do not overflow int16 (conversions are treated as value-preserving); go/ssa local Allocs are re-initialised each time the declaration executes",
		},
		Run: runC13,
		Fixtures: []Fixture{
			{Name: "pol_rc offset off by four", File: "felix/bpf/polprog/pol_prog_builder.go",
				Old: "stateEventHdrSize + 84, Field: \"state->pol_rc\"", New: "stateEventHdrSize + 88, Field: \"state->pol_rc\"", Expect: "C13.state/offset/stateOffPolResult"},
			{Name: "flags offset stale after a C-side insertion", File: "felix/bpf/polprog/pol_prog_builder.go",
				Old: "stateEventHdrSize + 360, Field: \"state->flags\"", New: "stateEventHdrSize + 352, Field: \"state->flags\"", Expect: "C13.state/offset/stateOffFlags"},
			{Name: "C13-2: address-field offset hoisted out of the per-word loop, += section*4 accumulates", File: "felix/bpf/polprog/pol_prog_builder.go",
				Old:    "\t\tfor section, addr := range addrU32 {\n\t\t\t// Optimisation: If mask for this section, i.e. this match, is 0,\n\t\t\t// then we can skip the match since the result of AND operation is\n\t\t\t// irrelevant of packet address. However, we need to check at least one 32bit section.\n\t\t\tif section > 0 && maskU32[section] == 0 {\n\t\t\t\tbreak\n\t\t\t}\n\n\t\t\toffset := leg.offsetToStateIPAddressField()\n",
				New:    "\t\toffset := leg.offsetToStateIPAddressField()\n\t\tfor section, addr := range addrU32 {\n\t\t\tif section > 0 && maskU32[section] == 0 {\n\t\t\t\tbreak\n\t\t\t}\n",
				Expect: "C13.stateflow/Builder.writeCIDRSMatch/Load32/"},
			{Name: "per-word stride of the CIDR match doubled", File: "felix/bpf/polprog/pol_prog_builder.go",
				Old: "offset.Offset += int16(section * 4)", New: "offset.Offset += int16(section * 8)", Expect: "C13.stateflow/Builder.writeCIDRSMatch/Load32/"},
			{Name: "IP set key: second half of the IPv6 address read from the next state field", File: "felix/bpf/polprog/pol_prog_builder.go",
				Old: "ipOffset.Offset += 8", New: "ipOffset.Offset += 16", Expect: "C13.stateflow/Builder.setUpIPSetKey/Load64/"},
			{Name: "port field loaded as 32 bits through the leg->offset function", File: "felix/bpf/polprog/pol_prog_builder.go",
				Old: "\tp.b.Load16(asm.R1, asm.R9, leg.offsetToStatePortField())\n\tfor", New: "\tp.b.Load32(asm.R1, asm.R9, leg.offsetToStatePortField())\n\tfor", Expect: "C13.stateflow/Builder.writePortsMatch/Load32/"},
			{Name: "Go mirror loses one word of the tunnel address", File: "felix/bpf/state/map.go",
				Old: "\tTunIP3              uint32\n", New: "", Expect: "C13.mirror/"},
			{Name: "conntrack value size constant stale", File: "felix/bpf/conntrack/v4/map.go",
				Old: "\tValueSize:    ValueSize,\n\tMaxEntries:   MaxEntries,\n\tName:         \"cali_v4_ct\",", New: "\tValueSize:    ValueSize - 8,\n\tMaxEntries:   MaxEntries,\n\tName:         \"cali_v4_ct\",", Expect: "C13.maps/cali_v4_ct4/value"},
			{Name: "F13 re-introduced: frontend affinity key takes one byte of saddr", File: "felix/bpf/nat/maps.go",
				Old: "\treturn k[4:11]\n", New: "\treturn k[4:12]\n", Expect: "C13.access/felix/bpf/nat.FrontendKey[4:12]"},
			{Name: "conntrack key accessor straddles two fields", File: "felix/bpf/conntrack/v4/map.go",
				Old: "return binary.LittleEndian.Uint16(k[12:14])", New: "return binary.LittleEndian.Uint16(k[11:13])", Expect: "C13.access/"},
			{Name: "F19 re-introduced: IPv6 cleanup-queue value reads last_seen at the IPv4 key size", File: "felix/bpf/conntrack/cleanupv1/map6.go",
				Old: "return binary.LittleEndian.Uint64(e[KeyV6Size : KeyV6Size+8])", New: "return binary.LittleEndian.Uint64(e[KeySize : KeySize+8])",
				Expect: "C13.access/felix/bpf/conntrack/cleanupv1.ValueV6[16:24]/scalar"},
			{Name: "F19 sibling: rev_last_seen read through an open-ended slice at the IPv4 key size", File: "felix/bpf/conntrack/cleanupv1/map6.go",
				Old: "return binary.LittleEndian.Uint64(e[KeyV6Size+8:])", New: "return binary.LittleEndian.Uint64(e[KeySize+8:])",
				Expect: "C13.access/felix/bpf/conntrack/cleanupv1.ValueV6[24:32]/scalar"},
			{Name: "conntrack key: port_b written as a 32-bit word over port_a and port_b", File: "felix/bpf/conntrack/v4/map.go",
				Old: "binary.LittleEndian.PutUint16(k[14:16], portB)", New: "binary.LittleEndian.PutUint32(k[12:16], uint32(portB))",
				Expect: "C13.access/felix/bpf/conntrack/v4.Key[12:16]/scalar"},
		},
	})
}

type goMapParams struct {
	pk        *packages.Package
	lit       *ast.CompositeLit
	name      string
	version   int64
	keySize   int64
	valueSize int64
	keyObj    types.Object // constant object naming the key size (nil if a literal number)
	valObj    types.Object
	declName  string
}

func (g *goMapParams) symbol() string {
	if g.version <= 1 {
		return g.name
	}
	return g.name + strconv.FormatInt(g.version, 10)
}

func runC13(c *Ctx) {
	c.Rule("C13.state", "E-LAYOUT", "polprog FieldOffset{Offset, Field:\"state->x\"}: Offset == clang offset of x in struct cali_tc_state (v4 and v6 builds); Load/Store width stays inside the member", 17)
	c.Rule("C13.stateflow", "E-LAYOUT/E-RANGE", "every FieldOffset reaching an asm Load*/Store* in polprog derives from a named state offset plus a bounded term (constants, loop counters bounded by their guard, accumulation bounded by the loop's trip count): [base+lo, base+hi+width) stays inside the C member the base names, in every build", 24)
	c.Rule("C13.mirror", "E-LAYOUT", "Go state.State fields start and end on C field boundaries; size chain C sizeof <= expectedSize == Sizeof(State) <= entrySize == map value size", 40)
	c.Rule("C13.maps", "E-LAYOUT", "MapParameters.KeySize/ValueSize == sizeof(C key/value type) for every map declared on both sides", 60)
	c.Rule("C13.access", "E-LAYOUT", "constant byte ranges on [N]byte key/value types coincide with C field boundaries; bytes decoded/encoded as one scalar (encoding/binary UintN/PutUintN/AppendUintN, constant byte index) are exactly one C scalar of that width in every layout (keys …/scalar)", 250)

	L := loadCLayouts(c, csideRoot())
	p := c.LoadWith(LoadOpts{NoSSA: true}, "felix/bpf/...")

	c13State(c, p, L)
	c13StateFlow(c, c.Load("felix/bpf/polprog"), L)
	c13Mirror(c, p, L)
	gm := c13Maps(c, p, L)
	c13Access(c, p, L, gm)
}

// ------------------------------------------------------------------ state --

var reLoadStore = regexp.MustCompile(`^(Load|Store)(8|16|32|64)$`)

func c13State(c *Ctx, p *Prog, L *cLayouts) {
	pk := p.Pkg("felix/bpf/polprog")
	if pk == nil {
		c.Lost("package felix/bpf/polprog")
	}
	recs := L.record("struct cali_tc_state")
	if len(recs) < 2 {
		c.Lost("struct cali_tc_state found in %d C configs", len(recs))
	}
	type fo = c13StateOff
	fos := c13StateOffsets(pk)
	if len(fos) == 0 {
		c.Lost("no asm.FieldOffset{Field:\"state->…\"} in polprog")
	}
	byObj := map[types.Object]fo{}
	for _, f := range fos {
		byObj[f.obj] = f
		var bad []string
		for _, cn := range sortedKeys(recs) {
			r := recs[cn]
			cf := r.fieldByPath(f.member)
			if cf == nil {
				bad = append(bad, fmt.Sprintf("%s: no member %q in struct cali_tc_state", cn, f.member))
			} else if int64(cf.Offset) != f.off {
				bad = append(bad, fmt.Sprintf("%s: C offset of %s is %d, Go says %d", cn, f.member, cf.Offset, f.off))
			}
		}
		c.Check(len(bad) == 0, "C13.state/offset/"+f.obj.Name(), p.Pos(f.obj.Pos()),
			fmt.Sprintf("state->%s at %d in all %d builds", f.member, f.off, len(recs)), strings.Join(bad, "; "))
	}
	// widths: b.LoadN / b.StoreN (…, <FieldOffset var>)
	type wkey struct {
		obj   types.Object
		width int
	}
	seen := map[wkey]token.Pos{}
	for _, f := range pk.Syntax {
		ast.Inspect(f, func(n ast.Node) bool {
			ce, ok := n.(*ast.CallExpr)
			if !ok {
				return true
			}
			fn := calleeObjAST(pk.TypesInfo, ce)
			if fn == nil || fn.Pkg() == nil || !strings.HasSuffix(fn.Pkg().Path(), "felix/bpf/asm") {
				return true
			}
			m := reLoadStore.FindStringSubmatch(fn.Name())
			if m == nil {
				return true
			}
			w, _ := strconv.Atoi(m[2])
			for _, a := range ce.Args {
				if id, ok := ast.Unparen(a).(*ast.Ident); ok {
					if _, ok := byObj[pk.TypesInfo.Uses[id]]; ok {
						k := wkey{pk.TypesInfo.Uses[id], w / 8}
						if _, dup := seen[k]; !dup {
							seen[k] = ce.Pos()
						}
					}
				}
			}
			return true
		})
	}
	var wks []wkey
	for k := range seen {
		wks = append(wks, k)
	}
	sort.Slice(wks, func(i, j int) bool {
		if wks[i].obj.Name() != wks[j].obj.Name() {
			return wks[i].obj.Name() < wks[j].obj.Name()
		}
		return wks[i].width < wks[j].width
	})
	for _, k := range wks {
		f := byObj[k.obj]
		var bad []string
		for _, cn := range sortedKeys(recs) {
			lo, hi, ok := recs[cn].topLevelAt(int(f.off))
			if !ok || int(f.off)+k.width > hi {
				bad = append(bad, fmt.Sprintf("%s: %d-byte access at %d leaves member [%d,%d)", cn, k.width, f.off, lo, hi))
			}
		}
		c.Check(len(bad) == 0, fmt.Sprintf("C13.state/width/%s/%d", k.obj.Name(), k.width*8), p.Pos(seen[k]),
			fmt.Sprintf("%d-byte access at state->%s stays inside the member", k.width, f.member), strings.Join(bad, "; "))
	}
}

// c13StateOff: a package-level `name = asm.FieldOffset{Offset: k, Field: "state->member"}`.
type c13StateOff struct {
	obj    types.Object
	off    int64
	member string
}

func c13StateOffsets(pk *packages.Package) []c13StateOff {
	var fos []c13StateOff
	for _, f := range pk.Syntax {
		ast.Inspect(f, func(n ast.Node) bool {
			vs, ok := n.(*ast.ValueSpec)
			if !ok {
				return true
			}
			for i, v := range vs.Values {
				cl, ok := ast.Unparen(v).(*ast.CompositeLit)
				if !ok || qualTypeName(pk.TypesInfo.TypeOf(cl)) != "felix/bpf/asm.FieldOffset" || i >= len(vs.Names) {
					continue
				}
				var off constant.Value
				field := ""
				for _, e := range cl.Elts {
					kv, ok := e.(*ast.KeyValueExpr)
					if !ok {
						continue
					}
					k, _ := kv.Key.(*ast.Ident)
					if k == nil {
						continue
					}
					if cv, ok := constValue(pk.TypesInfo, kv.Value); ok {
						if k.Name == "Offset" {
							off = cv
						} else if k.Name == "Field" {
							field = constant.StringVal(cv)
						}
					}
				}
				if off == nil || !strings.HasPrefix(field, "state->") {
					continue
				}
				o, _ := constant.Int64Val(off)
				fos = append(fos, c13StateOff{pk.TypesInfo.Defs[vs.Names[i]], o, strings.TrimPrefix(field, "state->")})
			}
			return true
		})
	}
	return fos
}

var reLoadStoreAny = regexp.MustCompile(`^(Load|Store)(Stack)?(8|16|32|64)$`)

// c13StateFlow: value derivation for every FieldOffset that polprog hands to an
// asm Load*/Store*  (engine_C13.go).  ps is an SSA load of felix/bpf/polprog.
func c13StateFlow(c *Ctx, ps *Prog, L *cLayouts) {
	const pkgPath = "felix/bpf/polprog"
	pk := ps.Pkg(pkgPath)
	if pk == nil || ps.SSAPkg(pkgPath) == nil {
		c.Lost("package felix/bpf/polprog (SSA)")
	}
	recs := L.record("struct cali_tc_state")
	if len(recs) < 2 {
		c.Lost("struct cali_tc_state found in %d C configs", len(recs))
	}
	foObj, _ := ps.LookupExt("felix/bpf/asm", "FieldOffset").(*types.TypeName)
	if foObj == nil {
		c.Lost("type felix/bpf/asm.FieldOffset")
	}
	state := map[string]bool{}
	offOf := map[string]c13StateOff{}
	for _, f := range c13StateOffsets(pk) {
		if f.obj != nil && f.obj.Parent() == pk.Types.Scope() {
			state[f.obj.Name()] = true
			offOf[f.obj.Name()] = f
		}
	}
	if len(state) == 0 {
		c.Lost("no package-level asm.FieldOffset{Field:\"state->…\"} in polprog")
	}
	fl := newC13Flow(ps, pkgPath, foObj.Type(), state)
	if fl == nil {
		c.Lost("SSA package felix/bpf/polprog")
	}
	muts := fl.mutations()
	c.Check(len(muts) == 0, "C13.stateflow/constants", ps.Pos(pk.Syntax[0].Pos()),
		fmt.Sprintf("the %d named state offsets are only read outside the package initialiser", len(state)),
		"named state offsets are not constants: "+strings.Join(muts, "; "))

	type agg struct {
		site       string
		ok         []string
		bad, undec []string
	}
	res := map[string]*agg{}
	get := func(key, site string) *agg {
		a := res[key]
		if a == nil {
			a = &agg{site: site}
			res[key] = a
		}
		return a
	}
	nSinks := 0
	for _, s := range fl.sinks("felix/bpf/asm", func(name string) int {
		if m := reLoadStoreAny.FindStringSubmatch(name); m != nil {
			w, _ := strconv.Atoi(m[3])
			return w / 8
		}
		return 0
	}) {
		nSinks++
		where := fnName(topFn(s.fn))
		site := ps.Pos(s.call.Pos())
		if s.val.top {
			get("C13.stateflow/"+where+"/"+s.method+"/underived", site).undec = append(get("C13.stateflow/"+where+"/"+s.method+"/underived", site).undec,
				fmt.Sprintf("%s: the offset argument cannot be derived from named state offsets: %s", site, s.val.why))
			continue
		}
		bases := s.val.bases()
		if len(bases) == 0 {
			if s.inline != "" {
				a := get("C13.stateflow/"+where+"/"+s.method+"/inline", site)
				a.undec = append(a.undec, fmt.Sprintf("%s: inline FieldOffset literal naming %q is not one of the named (checked) state offsets", site, s.inline))
			}
			continue // not a state offset (skb->…, stack, computed pointer)
		}
		for _, bn := range bases {
			key := "C13.stateflow/" + where + "/" + s.method + "/" + bn
			a := get(key, site)
			base := offOf[bn]
			iv := s.val.m[bn]
			if s.width == 0 {
				a.undec = append(a.undec, fmt.Sprintf("%s: access width of asm.%s is not known", site, s.method))
				continue
			}
			if !iv.finite() {
				a.undec = append(a.undec, fmt.Sprintf("%s: the term added to %s is not bounded: %s%s", site, bn, iv, c13because(s.val.note)))
				continue
			}
			byMsg := map[string][]string{}
			for _, cn := range sortedKeys(recs) {
				lo, hi, ok := recs[cn].topLevelAt(int(base.off))
				if !ok {
					byMsg[fmt.Sprintf("no member at %d", base.off)] = append(byMsg[fmt.Sprintf("no member at %d", base.off)], cn)
					continue
				}
				if base.off+iv.lo < int64(lo) || base.off+iv.hi+int64(s.width) > int64(hi) {
					m := fmt.Sprintf("%d-byte access at state->%s + %s can cover bytes [%d,%d) of struct cali_tc_state but the member is [%d,%d)", s.width, base.member, iv,
						base.off+iv.lo, base.off+iv.hi+int64(s.width), lo, hi)
					byMsg[m] = append(byMsg[m], cn)
				}
			}
			var bad []string
			for _, m := range sortedKeys(byMsg) {
				if len(byMsg[m]) == len(recs) {
					bad = append(bad, fmt.Sprintf("%s in all %d builds", m, len(recs)))
				} else {
					bad = append(bad, fmt.Sprintf("%s in %s", m, strings.Join(byMsg[m], ", ")))
				}
			}
			if len(bad) > 0 {
				a.bad = append(a.bad, fmt.Sprintf("%s: %s%s", site, strings.Join(bad, "; "), c13because(s.val.note)))
			} else {
				a.ok = append(a.ok, fmt.Sprintf("%s+%s", base.member, iv))
			}
		}
	}
	if nSinks < 20 {
		c.Lost("only %d asm calls taking a FieldOffset found in polprog (expected >= 20)", nSinks)
	}
	for _, key := range sortedKeys(res) {
		a := res[key]
		switch {
		case len(a.bad) > 0:
			c.Violate(key, a.site, "%s", strings.Join(a.bad, " | "))
		case len(a.undec) > 0:
			c.Undecided(key, a.site, "%s", strings.Join(a.undec, " | "))
		default:
			sort.Strings(a.ok)
			c.Ok(key, a.site, "%d access(es) stay inside the member in %d builds: %s", len(a.ok), len(recs), strings.Join(c13uniq(a.ok), ", "))
		}
	}
}

func c13because(note string) string {
	if note == "" {
		return ""
	}
	return " (" + note + ")"
}

func c13uniq(xs []string) []string {
	var out []string
	for i, x := range xs {
		if i == 0 || x != xs[i-1] {
			out = append(out, x)
		}
	}
	return out
}

// ----------------------------------------------------------------- mirror --

func c13Mirror(c *Ctx, p *Prog, L *cLayouts) {
	pk := p.Pkg("felix/bpf/state")
	if pk == nil {
		c.Lost("package felix/bpf/state")
	}
	tn, _ := pk.Types.Scope().Lookup("State").(*types.TypeName)
	if tn == nil {
		c.Lost("type state.State")
	}
	st, _ := tn.Type().Underlying().(*types.Struct)
	if st == nil {
		c.Lost("state.State is not a struct")
	}
	sizes := types.SizesFor("gc", "amd64")
	var fields []*types.Var
	for i := 0; i < st.NumFields(); i++ {
		fields = append(fields, st.Field(i))
	}
	offs := sizes.Offsetsof(fields)
	recs := L.record("struct cali_tc_state")
	var v4, v6 *cRecord
	var v4n, v6n string
	for cn, r := range recs {
		if strings.HasPrefix(cn, "tc.c|") {
			if L.Configs[cn].isV6() {
				v6, v6n = r, cn
			} else {
				v4, v4n = r, cn
			}
		}
	}
	if v4 == nil || v6 == nil {
		c.Lost("tc.c v4/v6 layouts of struct cali_tc_state")
	}
	// first offset at which the two builds' layouts diverge
	diverge := v4.Size
	type se struct{ off, size int }
	m6 := map[string]se{}
	for _, f := range v6.Fields {
		if f.Size != nil {
			m6[f.Path] = se{f.Offset, *f.Size}
		}
	}
	for _, f := range v4.Fields {
		if f.Size == nil {
			continue
		}
		if x, ok := m6[f.Path]; !ok || x.off != f.Offset || x.size != *f.Size {
			if f.Offset < diverge {
				diverge = f.Offset
			}
		}
	}
	s4, e4 := v4.boundaries()
	s6, e6 := v6.boundaries()
	for i, f := range fields {
		if f.Name() == "_" {
			continue
		}
		lo := int(offs[i])
		hi := lo + int(sizes.Sizeof(f.Type()))
		var bad []string
		if lo < v4.Size {
			if !s4[lo] {
				bad = append(bad, fmt.Sprintf("%s: no C field starts at %d", v4n, lo))
			}
			if !e4[hi] {
				bad = append(bad, fmt.Sprintf("%s: no C field ends at %d", v4n, hi))
			}
		} else {
			bad = append(bad, fmt.Sprintf("Go field at %d lies beyond the C struct (size %d)", lo, v4.Size))
		}
		if hi <= diverge {
			if !s6[lo] || !e6[hi] {
				bad = append(bad, fmt.Sprintf("%s: [%d,%d) is not on C field boundaries", v6n, lo, hi))
			}
		}
		c.Check(len(bad) == 0, "C13.mirror/field/"+f.Name(), p.Pos(f.Pos()),
			fmt.Sprintf("[%d,%d) starts and ends on C field boundaries (v4%s)", lo, hi, map[bool]string{true: " and v6", false: ""}[hi <= diverge]), strings.Join(bad, "; "))
	}
	// size chain
	cst := func(name string) int64 {
		o, _ := pk.Types.Scope().Lookup(name).(*types.Const)
		if o == nil {
			c.Lost("constant state.%s", name)
		}
		v, _ := constant.Int64Val(o.Val())
		return v
	}
	expected, entry := cst("expectedSize"), cst("entrySize")
	goSize := sizes.Sizeof(tn.Type())
	c.Check(goSize == expected, "C13.mirror/size/go", p.Pos(tn.Pos()), fmt.Sprintf("unsafe.Sizeof(State) == expectedSize == %d", expected),
		fmt.Sprintf("Sizeof(State)=%d but expectedSize=%d: AsBytes/StateFromBytes reinterpret the wrong extent", goSize, expected))
	maxC := 0
	for _, r := range recs {
		if r.Size > maxC {
			maxC = r.Size
		}
	}
	// The Go mirror follows the IPv4 layout (the IPv6 struct is larger and only its common
	// prefix is mirrored): it must cover the whole IPv4 struct; every build's struct and the
	// Go extent must fit the map value (entrySize), which must be the cali_state value size.
	c.Check(int64(v4.Size) <= expected && expected <= entry && int64(maxC) <= entry, "C13.mirror/size/c", p.Pos(tn.Pos()),
		fmt.Sprintf("C sizeof v4=%d <= expectedSize=%d <= entrySize=%d; max C sizeof over builds=%d <= entrySize", v4.Size, expected, entry, maxC),
		fmt.Sprintf("size chain broken: C sizeof v4=%d (max over builds %d) expectedSize=%d entrySize=%d", v4.Size, maxC, expected, entry))
}

// ------------------------------------------------------------------- maps --

func c13Maps(c *Ctx, p *Prog, L *cLayouts) []*goMapParams {
	var out []*goMapParams
	for _, pk := range p.Roots {
		if strings.Contains(pk.PkgPath, "/mock") || strings.HasSuffix(pk.PkgPath, "/ut") {
			continue
		}
		for _, f := range pk.Syntax {
			ast.Inspect(f, func(n ast.Node) bool {
				cl, ok := n.(*ast.CompositeLit)
				if !ok || qualTypeName(pk.TypesInfo.TypeOf(cl)) != "felix/bpf/maps.MapParameters" {
					return true
				}
				g := &goMapParams{pk: pk, lit: cl, keySize: -1, valueSize: -1}
				for _, e := range cl.Elts {
					kv, ok := e.(*ast.KeyValueExpr)
					if !ok {
						continue
					}
					k, _ := kv.Key.(*ast.Ident)
					cv, isConst := constValue(pk.TypesInfo, kv.Value)
					if k == nil || !isConst {
						continue
					}
					switch k.Name {
					case "Name":
						g.name = constant.StringVal(cv)
					case "Version":
						g.version, _ = constant.Int64Val(cv)
					case "KeySize":
						g.keySize, _ = constant.Int64Val(cv)
						if id, ok := ast.Unparen(kv.Value).(*ast.Ident); ok {
							g.keyObj = pk.TypesInfo.Uses[id]
						}
					case "ValueSize":
						g.valueSize, _ = constant.Int64Val(cv)
						if id, ok := ast.Unparen(kv.Value).(*ast.Ident); ok {
							g.valObj = pk.TypesInfo.Uses[id]
						}
					}
				}
				if g.name != "" {
					out = append(out, g)
				}
				return true
			})
		}
	}
	sort.Slice(out, func(i, j int) bool { return out[i].symbol() < out[j].symbol() })
	matched := 0
	for _, g := range out {
		decls := L.mapDecls(g.symbol())
		if len(decls) == 0 {
			continue // no BPF program in the analysed set declares it (test maps, maps of other objects)
		}
		matched++
		site := p.Pos(g.lit.Pos())
		for _, side := range []struct {
			name string
			goSz int64
			get  func(*cMap) (*int, string)
		}{
			{"key", g.keySize, func(m *cMap) (*int, string) { return m.KeySize, m.KeyType }},
			{"value", g.valueSize, func(m *cMap) (*int, string) { return m.ValueSize, m.ValueType }},
		} {
			var bad []string
			typ := ""
			for _, cn := range sortedKeys(decls) {
				sz, t := side.get(decls[cn])
				typ = t
				if sz == nil {
					bad = append(bad, fmt.Sprintf("%s: sizeof(%s) unknown", cn, t))
				} else if int64(*sz) != side.goSz {
					bad = append(bad, fmt.Sprintf("%s: sizeof(%s)=%d but Go %sSize=%d", cn, t, *sz, strings.Title(side.name), side.goSz))
				}
			}
			c.Check(len(bad) == 0, "C13.maps/"+g.symbol()+"/"+side.name, site,
				fmt.Sprintf("%s size %d == sizeof(%s) in %d build(s)", side.name, side.goSz, typ, len(decls)), strings.Join(bad, "; "))
		}
	}
	if matched < 25 {
		c.Lost("only %d Go MapParameters literals match a C map declaration (expected >= 25)", matched)
	}
	return out
}

// ----------------------------------------------------------------- access --

func c13Access(c *Ctx, p *Prog, L *cLayouts, gm []*goMapParams) {
	// named [N]byte types whose length constant is the KeySize/ValueSize of a matched map
	type link = c13Link
	constLinks := map[types.Object][]link{}
	for _, g := range gm {
		if len(L.mapDecls(g.symbol())) == 0 {
			continue
		}
		if g.keyObj != nil {
			constLinks[g.keyObj] = append(constLinks[g.keyObj], link{g, "key"})
		}
		if g.valObj != nil {
			constLinks[g.valObj] = append(constLinks[g.valObj], link{g, "value"})
		}
	}
	typeLinks := map[*types.TypeName][]link{}
	for _, pk := range p.Roots {
		for _, f := range pk.Syntax {
			for _, d := range f.Decls {
				gd, ok := d.(*ast.GenDecl)
				if !ok || gd.Tok != token.TYPE {
					continue
				}
				for _, s := range gd.Specs {
					ts := s.(*ast.TypeSpec)
					at, ok := ts.Type.(*ast.ArrayType)
					if !ok || at.Len == nil {
						continue
					}
					id, ok := ast.Unparen(at.Len).(*ast.Ident)
					if !ok {
						continue
					}
					if ls := constLinks[pk.TypesInfo.Uses[id]]; len(ls) > 0 {
						if tn, ok := pk.TypesInfo.Defs[ts.Name].(*types.TypeName); ok {
							typeLinks[tn] = ls
						}
					}
				}
			}
		}
	}
	if len(typeLinks) < 20 {
		c.Lost("only %d Go byte-array types are tied to a C map key/value type (expected >= 20)", len(typeLinks))
	}
	// C records for a link: the key/value type in every config declaring the map
	type bounds struct {
		starts, ends map[int]bool
		size         int
		desc         string
	}
	boundsFor := func(ls []link) []bounds {
		var out []bounds
		for _, l := range ls {
			decls := L.mapDecls(l.g.symbol())
			for _, cn := range sortedKeys(decls) {
				m := decls[cn]
				t, sz := m.KeyType, m.KeySize
				if l.side == "value" {
					t, sz = m.ValueType, m.ValueSize
				}
				if sz == nil {
					continue
				}
				b := bounds{map[int]bool{0: true}, map[int]bool{*sz: true}, *sz, cn + ":" + t}
				if r, ok := L.Configs[cn].Records[t]; ok {
					b.starts, b.ends = r.boundaries()
				}
				out = append(out, b)
			}
		}
		return out
	}
	arrayTypeName := func(t types.Type) *types.TypeName {
		if t == nil {
			return nil
		}
		if pt, ok := t.Underlying().(*types.Pointer); ok {
			t = pt.Elem()
		}
		n, ok := types.Unalias(t).(*types.Named)
		if !ok {
			return nil
		}
		if _, ok := n.Underlying().(*types.Array); !ok {
			return nil
		}
		return n.Obj()
	}
	type acc struct {
		tn     *types.TypeName
		lo, hi int
	}
	seen := map[acc]token.Pos{}
	for _, pk := range p.Roots {
		for _, f := range pk.Syntax {
			ast.Inspect(f, func(n ast.Node) bool {
				switch e := n.(type) {
				case *ast.SliceExpr:
					tn := arrayTypeName(pk.TypesInfo.TypeOf(e.X))
					if tn == nil || typeLinks[tn] == nil {
						return true
					}
					arr := tn.Type().Underlying().(*types.Array)
					lo, hi := 0, int(arr.Len())
					ok := true
					if e.Low != nil {
						if v, isC := constValue(pk.TypesInfo, e.Low); isC {
							x, _ := constant.Int64Val(v)
							lo = int(x)
						} else {
							ok = false
						}
					}
					if e.High != nil {
						if v, isC := constValue(pk.TypesInfo, e.High); isC {
							x, _ := constant.Int64Val(v)
							hi = int(x)
						} else {
							ok = false
						}
					}
					if ok {
						k := acc{tn, lo, hi}
						if _, dup := seen[k]; !dup {
							seen[k] = e.Pos()
						}
					}
				case *ast.IndexExpr:
					tn := arrayTypeName(pk.TypesInfo.TypeOf(e.X))
					if tn == nil || typeLinks[tn] == nil {
						return true
					}
					if v, isC := constValue(pk.TypesInfo, e.Index); isC {
						x, _ := constant.Int64Val(v)
						k := acc{tn, int(x), int(x) + 1}
						if _, dup := seen[k]; !dup {
							seen[k] = e.Pos()
						}
					}
				}
				return true
			})
		}
	}
	var accs []acc
	for a := range seen {
		accs = append(accs, a)
	}
	sort.Slice(accs, func(i, j int) bool {
		a, b := accs[i], accs[j]
		an, bn := a.tn.Pkg().Path()+"."+a.tn.Name(), b.tn.Pkg().Path()+"."+b.tn.Name()
		if an != bn {
			return an < bn
		}
		if a.lo != b.lo {
			return a.lo < b.lo
		}
		return a.hi < b.hi
	})
	for _, a := range accs {
		var bad []string
		bs := boundsFor(typeLinks[a.tn])
		for _, b := range bs {
			if a.lo == 0 && a.hi == b.size {
				continue
			}
			if !b.starts[a.lo] {
				bad = append(bad, fmt.Sprintf("%s: no field starts at byte %d", b.desc, a.lo))
			}
			if !b.ends[a.hi] {
				bad = append(bad, fmt.Sprintf("%s: no field ends at byte %d", b.desc, a.hi))
			}
		}
		if len(bs) == 0 {
			c.Undecided(fmt.Sprintf("C13.access/%s.%s[%d:%d]", strings.TrimPrefix(a.tn.Pkg().Path(), calicoPrefix), a.tn.Name(), a.lo, a.hi), p.Pos(seen[a]), "no C layout for the linked map type")
			continue
		}
		c.Check(len(bad) == 0, fmt.Sprintf("C13.access/%s.%s[%d:%d]", strings.TrimPrefix(a.tn.Pkg().Path(), calicoPrefix), a.tn.Name(), a.lo, a.hi), p.Pos(seen[a]),
			fmt.Sprintf("bytes [%d,%d) start and end on C field boundaries in %d layout(s)", a.lo, a.hi, len(bs)), strings.Join(bad, "; "))
	}
	// scalar clause (engine_C13b.go): bytes decoded/encoded as ONE scalar are exactly one C scalar
	c13AccessScalar(c, p, L, typeLinks)
}
