package main

import (
	"crypto/sha256"
	"encoding/hex"
	"encoding/json"
	"fmt"
	"go/token"
	"go/types"
	"os"
	"os/exec"
	"path/filepath"
	"sort"
	"strings"

	"golang.org/x/tools/go/ssa"
)

func init() {
	register(&Property{
		ID:        "C14",
		Title:     "BPF conntrack cleanup never removes a live connection",
		Technique: "static analysis: SSA guard/provenance rules on the Go scanner (incl. key/timestamp source pairing at the cleanup-queue producer) + clang AST guard rule (compare-then-delete) on conntrack_cleanup.c + type-resolved reference-set comparison of the IPv4/IPv6 twin accessors",
		DesignRef: "DESIGN.md §3 C14",
		Explanation: "Decides the compare-then-delete discipline on both sides: (ts) every `delete` verdict LivenessScanner.Check hands to its caller is produced only under EntryExpired(...)==true (or reverse entry missing) and carries LastSeen() of the very entry that was judged " +
			"(the verdict/timestamp pairs are followed through merged results, into in-package helpers whose results Check forwards and back through their parameters to the call site; the guard may sit in the helper, at the call site, or in a predicate helper whose true answers are all guarded by EntryExpired on the corresponding argument); " +
			"(nodirect) in Scanner.Scan a conntrack entry is deleted directly from user space only when there is no BPF cleaner or the verdict is delete-immediate, and only under a delete verdict; everything else is queued for the kernel-side cleaner with the judged timestamp(s) taken from that Check call; " +
			"(cguard) in conntrack_cleanup.c every cali_ct_delete_elem is nested (then-branch) in an `if` comparing ->last_seen of a freshly looked-up entry with the timestamp the scanner recorded (last_seen / rev_last_seen), in the IPv4 and IPv6 builds; " +
			"(timeouts) EntryExpired reads every field of timeouts.Timeouts; " +
			"(idle) in EntryExpired and the function it delegates to, every return of expired==true is reached only across an edge `I > T` (or `I >= T`, in either spelling) whose larger side I is the entry's idle time, " +
			"i.e. arithmetic over `now - entry.LastSeen()` in which LastSeen() is the only accessor of the entry and is subtracted; other timestamps or flags of the entry may only be further conjuncts; " +
			"edges that need a bool parameter EntryExpired passes as constant false are treated as infeasible; " +
			"(pair) at every call of Scanner.updateCleanupMap(key, revKey, ts, rev_ts) the key and the timestamp of each position derive from a common source object - the entry the scanner callback was invoked with (and the Check judgement computed from it), one cached record together with the key it was looked up or ranged with, or one call - and an entry value's own LastSeen() never travels with a key obtained from that value by an accessor (its ReverseNATKey() names another entry); the reverse position is exempt when revKey is the version helper's dummy key, which makes the kernel cleaner ignore rev_last_seen; " +
			"(twin) every same-named method pair of the IPv4/IPv6 twin types of felix/bpf/conntrack{,/v4,/cleanupv1} (v4.Key/KeyV6, v4.Value/ValueV6, cleanupv1.Value/ValueV6, ipv4Helper/ipv6Helper; String() excluded as rendering) and every twin-named function pair that builds or converts such a type mentions - transitively through helpers of the same package - the same calico constants, functions, methods, types, variables and struct fields modulo the IPv4->IPv6 naming relation; an exported method without a twin, and an IPv6 body that mentions an IPv4 constant whose IPv6 twin has a different value (outside helpers shared by both families), are violations.",
		NotDecided: "Interleavings between scanner, kernel cleaner and packet path; which timeout value an idle time is compared with (protocol/state selection) inside EntryExpired; that idle entries are eventually removed (liveness) beyond the pairing and twin disciplines; pair: which of a cached record's two timestamps belongs to which key (inside one record, one range step or one scanner invocation every key/timestamp combination shares a source, so a swap in the post-scan replay loop or in the stores into revNATKeyToFwdNATInfo is not seen); twin: literals, statement order and control flow of the twins (only what they mention), objects outside the calico module (net.IP.To4 vs To16).",
		Assumptions: []string{
			"go/types + go/ssa model (CGO_ENABLED=0 stubs)", "clang 14 AST of conntrack_cleanup.c with /verif/cstubs standing in for libbpf",
			"LastSeen() is a pure accessor of the entry value",
		},
		Run: runC14,
		Fixtures: []Fixture{
			{Name: "forward-NAT delete carries the forward entry's timestamp, not the judged reverse entry's", File: "felix/bpf/conntrack/cleanup.go",
				Old: "\t\t\treturn ScanVerdictDelete, revEntry.LastSeen()\n", New: "\t\t\treturn ScanVerdictDelete, lastSeen\n", Expect: "C14.ts/"},
			{Name: "normal entry deleted without expiry test", File: "felix/bpf/conntrack/cleanup.go",
				Old: "\tcase TypeNormal:\n\t\tif reason, expired := EntryExpired(l.timeouts, now, ctKey.Proto(), ctVal); expired {", New: "\tcase TypeNormal:\n\t\tif reason, expired := EntryExpired(l.timeouts, now, ctKey.Proto(), ctVal); expired || reason != \"\" {", Expect: "C14.ts/"},
			{Name: "user space deletes expired entries directly although a BPF cleaner exists", File: "felix/bpf/conntrack/scanner.go",
				Old: "\t\t\tif s.bpfCleaner == nil {\n", New: "\t\t\tif s.bpfCleaner == nil || ctVal.Type() == TypeNormal {\n", Expect: "C14.nodirect/"},
			{Name: "cleanup queue gets a fresh timestamp instead of the judged one", File: "felix/bpf/conntrack/scanner.go",
				Old: "\t\t\ts.updateCleanupMap(ctKey, dummy, uint64(ts), uint64(ts))\n", New: "\t\t\ts.updateCleanupMap(ctKey, dummy, uint64(ctVal.LastSeen()), uint64(ts))\n", Expect: "C14.tsflow/"},
			{Name: "residual-RST rule measures its limit from the RST timestamp, not from last_seen", File: "felix/bpf/conntrack/cleanup.go",
				Old: "if entry.RSTSeen() != 0 && age > 2*60*time.Second {", New: "if entry.RSTSeen() != 0 && time.Duration(nowNanos-entry.RSTSeen()) > 2*60*time.Second {", Expect: "C14.idle/entryDone/expired"},
			{Name: "RST seen expires the entry regardless of how long it has been idle", File: "felix/bpf/conntrack/cleanup.go",
				Old: "if rstSeen && age > t.TCPResetSeen {", New: "if rstSeen {", Expect: "C14.idle/entryDone/expired"},
			{Name: "ICMP timeout comparison the wrong way round", File: "felix/bpf/conntrack/cleanup.go",
				Old: "if age > t.ICMPTimeout {", New: "if age < t.ICMPTimeout {", Expect: "C14.idle/entryDone/expired"},
			{Name: "C14-3: reverse entry reached after its forward entry: the two timestamps of the queued pair are swapped", File: "felix/bpf/conntrack/scanner.go",
				Old: "s.updateCleanupMap(fwdKey, key, fwdTS, ts)", New: "s.updateCleanupMap(fwdKey, key, ts, fwdTS)", Expect: "C14.pair/Scanner.handleNATEntries/updateCleanupMap#3/fwd"},
			{Name: "forward entry reached after its reverse entry: the forward entry's own last_seen queued as rev_last_seen", File: "felix/bpf/conntrack/scanner.go",
				Old: "s.updateCleanupMap(key, revKey, ts, rev_ts)", New: "s.updateCleanupMap(key, revKey, rev_ts, ts)", Expect: "C14.pair/Scanner.handleNATEntries/updateCleanupMap#2/rev"},
			{Name: "C14-4: IPv6 IsForwardDSR tests the NodePort-forward flag", File: "felix/bpf/conntrack/v4/map6.go",
				Old: "func (e ValueV6) IsForwardDSR() bool {\n\treturn e.Flags()&FlagNATFwdDsr != 0", New: "func (e ValueV6) IsForwardDSR() bool {\n\treturn e.Flags()&FlagNATNPFwd != 0", Expect: "C14.twin/felix/bpf/conntrack/v4/Value.IsForwardDSR"},
			{Name: "IPv6 LastSeen decodes rst_seen", File: "felix/bpf/conntrack/v4/map6.go",
				Old: "return int64(binary.LittleEndian.Uint64(e[VoLastSeenV6 : VoLastSeenV6+8]))", New: "return int64(binary.LittleEndian.Uint64(e[VoRSTSeenV6 : VoRSTSeenV6+8]))", Expect: "C14.twin/felix/bpf/conntrack/v4/Value.LastSeen"},
			{Name: "F19 re-introduced: IPv6 cleanup record reads its timestamp at the IPv4 key size", File: "felix/bpf/conntrack/cleanupv1/map6.go",
				Old: "return binary.LittleEndian.Uint64(e[KeyV6Size : KeyV6Size+8])", New: "return binary.LittleEndian.Uint64(e[KeySize : KeySize+8])", Expect: "C14.twin/felix/bpf/conntrack/cleanupv1/Value.Timestamp"},
		},
	})
}

const ctPkg = "felix/bpf/conntrack"

type ccqGuard struct {
	Eq   [][][]*string `json:"eq"`
	Line int           `json:"line"`
}
type ccqDelete struct {
	Function string     `json:"function"`
	Line     int        `json:"line"`
	KeyArg   *string    `json:"key_arg"`
	Guards   []ccqGuard `json:"guards"`
}
type ccqConfig struct {
	Flags     []string    `json:"flags"`
	Functions []string    `json:"functions"`
	Deletes   []ccqDelete `json:"deletes"`
}
type ccqResult struct {
	Configs map[string]*ccqConfig `json:"configs"`
}

// csideCached runs a /verif/cside script (clang front end only) with a cache keyed by the
// content hash of every input, so the answer always reflects the current working tree.
func csideCached(c *Ctx, script string) []byte {
	root := csideRoot()
	sp := filepath.Join(root, "cside", script)
	for ov := range c.Overlay {
		if strings.Contains(ov, "/felix/bpf-gpl/") {
			c.Lost("in-memory variants of C sources are not supported (%s)", ov)
		}
	}
	h := sha256.New()
	add := func(p string) {
		b, err := os.ReadFile(p)
		if err != nil {
			c.Lost("cannot read %s: %v", p, err)
		}
		fmt.Fprintf(h, "%s\x00%d\x00", p, len(b))
		h.Write(b)
	}
	add(sp)
	for _, dir := range []string{filepath.Join(root, "cstubs"), filepath.Join(c.Repo, "felix/bpf-gpl")} {
		ents, err := os.ReadDir(dir)
		if err != nil {
			c.Lost("cannot list %s: %v", dir, err)
		}
		var names []string
		for _, e := range ents {
			if !e.IsDir() && (strings.HasSuffix(e.Name(), ".h") || strings.HasSuffix(e.Name(), ".c") || e.Name() == "calculate-flags") {
				names = append(names, e.Name())
			}
		}
		sort.Strings(names)
		for _, n := range names {
			add(filepath.Join(dir, n))
		}
	}
	key := hex.EncodeToString(h.Sum(nil))[:24]
	cacheDir := filepath.Join(root, ".cache")
	cp := filepath.Join(cacheDir, strings.TrimSuffix(script, ".py")+"-"+key+".json")
	if b, err := os.ReadFile(cp); err == nil {
		return b
	}
	out, err := exec.Command("python3", sp, "--repo", c.Repo).Output()
	if err != nil {
		c.Lost("%s failed: %v", script, err)
	}
	os.MkdirAll(cacheDir, 0o755)
	os.WriteFile(cp, out, 0o644)
	return out
}

func runC14(c *Ctx) {
	c.Rule("C14.ts", "E-GUARD/E-FLOW", "LivenessScanner.Check: every return of ScanVerdictDelete is guarded by EntryExpired(...,E)==true (or reverse entry not found) and returns E.LastSeen() of the judged entry E", 4)
	c.Rule("C14.nodirect", "E-GUARD", "Scanner.Scan: maps.IterDelete is returned only under a delete verdict and (no BPF cleaner or delete-immediate)", 2)
	c.Rule("C14.tsflow", "E-FLOW", "Scanner.Scan: timestamps queued for the kernel cleaner derive from result #1 of the Check call whose verdict is being acted on, under a delete verdict", 2)
	c.Rule("C14.cguard", "E-CAST", "conntrack_cleanup.c: every cali_ct_delete_elem sits in the then-branch of an if comparing X->last_seen (X a local looked-up entry) with value->last_seen / value->rev_last_seen", 6)
	c.Rule("C14.idle", "E-GUARD/E-FLOW", "EntryExpired (and the function it delegates to): every return of expired==true is guarded by a comparison idle > timeout whose larger side derives from now - entry.LastSeen() and from no other accessor of the entry", 8)
	c.Rule("C14.timeouts", "E-FIELDS", "EntryExpired reads every field of timeouts.Timeouts", 1)

	c.Rule("C14.twin", "E-TWIN", "every same-named method pair of an IPv4/IPv6 twin type pair (v4.Value/ValueV6, v4.Key/KeyV6, cleanupv1.Value/ValueV6, ipv4Helper/ipv6Helper) and every twin-named function pair mentions the same constants, functions, methods, types and fields modulo the IPv4->IPv6 naming relation; a missing twin or an un-substituted constant with a different-valued IPv6 twin is a violation", 55)

	p := c.Load(ctPkg, "felix/bpf/conntrack/timeouts", "felix/bpf/conntrack/v4", "felix/bpf/conntrack/cleanupv1")
	c.Rule("C14.pair", "E-PAIR", "every call of Scanner.updateCleanupMap(key, revKey, ts, rev_ts): key/ts and revKey/rev_ts each derive from a common source object (the entry the scanner callback was invoked with and its Check judgement, one cached record and the key it was looked up or ranged with, one call); an entry value's own LastSeen() never travels with a key obtained from that value by an accessor; dummy reverse key exempt", 12)
	c14Isolated(c, func() { c14Pair(c, p) })
	c14Isolated(c, func() { c14Twin(c, p, []string{"felix/bpf/conntrack/v4", "felix/bpf/conntrack/cleanupv1", ctPkg}) })
	c14Isolated(c, func() { c14Check(c, p) })
	c14Isolated(c, func() { c14Scan(c, p) })
	c14Isolated(c, func() { c14Timeouts(c, p) })
	c14Isolated(c, func() { c14Idle(c, p) })
	c14Isolated(c, func() { c14CGuard(c) })
}

func c14ConstOf(c *Ctx, p *Prog, name string) *types.Const {
	k, _ := p.LookupObj(ctPkg, name).(*types.Const)
	if k == nil {
		c.Lost("constant conntrack.%s", name)
	}
	return k
}

func c14IsConst(v ssa.Value, k *types.Const) bool {
	cv, ok := constOf(v)
	return ok && cv.ExactString() == k.Val().ExactString()
}

// c14Check: the (verdict, timestamp) pairs LivenessScanner.Check hands to its caller.
// The pairs are located by following Check's results (merged results, in-package
// helpers whose results are forwarded, parameters back to the call site's
// arguments: engine_C14ts.go), not by the function a `return` statement sits in.
func c14Check(c *Ctx, p *Prog) {
	fn := p.Func(ctPkg, "LivenessScanner.Check")
	if fn == nil {
		c.Lost("LivenessScanner.Check")
	}
	del := c14ConstOf(c, p, "ScanVerdictDelete")
	if n := c14TsRun(c, p, fn, "Check", del); n == 0 {
		c.Lost("no delete verdict is returned by LivenessScanner.Check or the helpers whose results it forwards")
	}
}

// c14Isolated runs one rule family; a lost anchor (or an engine panic) in it is
// recorded as a broken check but does not keep the other, independent families
// from being evaluated.
func c14Isolated(c *Ctx, f func()) {
	defer func() {
		if r := recover(); r != nil {
			if al, ok := r.(anchorLost); ok {
				c.broken = append(c.broken, al.msg)
				return
			}
			if os.Getenv("CALINT_DEBUG") != "" {
				panic(r)
			}
			c.broken = append(c.broken, fmt.Sprintf("ENGINE-PANIC: %v", r))
		}
	}()
	f()
}

func c14Scan(c *Ctx, p *Prog) {
	scan := p.Func(ctPkg, "Scanner.Scan")
	if scan == nil {
		c.Lost("Scanner.Scan")
	}
	del := c14ConstOf(c, p, "ScanVerdictDelete")
	imm := c14ConstOf(c, p, "ScanVerdictDeleteImmediate")
	iterDelete, _ := p.LookupExt("felix/bpf/maps", "IterDelete").(*types.Const)
	if iterDelete == nil {
		c.Lost("maps.IterDelete")
	}
	cleanerField := p.LookupObj(ctPkg, "Scanner.bpfCleaner")
	if cleanerField == nil {
		c.Lost("Scanner.bpfCleaner")
	}
	isVerdict := func(v ssa.Value) (*ssa.Call, bool) {
		ex, ok := v.(*ssa.Extract)
		if !ok || ex.Index != 0 {
			return nil, false
		}
		call, ok := ex.Tuple.(*ssa.Call)
		if !ok || calleeOf(call.Common()) == nil || calleeOf(call.Common()).Name() != "Check" {
			return nil, false
		}
		return call, true
	}
	verdictIs := func(k *types.Const) EdgePred {
		return eqCond(true, func(v ssa.Value) bool { _, ok := isVerdict(v); return ok }, func(v ssa.Value) bool { return c14IsConst(v, k) })
	}
	okVerdict := c14ConstOf(c, p, "ScanVerdictOK")
	rstVerdict := c14ConstOf(c, p, "ScanVerdictSendRST")
	notVerdict := func(k *types.Const) EdgePred {
		return eqCond(false, func(v ssa.Value) bool { _, ok := isVerdict(v); return ok }, func(v ssa.Value) bool { return c14IsConst(v, k) })
	}
	// "acting on a delete verdict": every path has established verdict != OK and verdict != SendRST
	// (or positively a delete verdict).  Unknown verdict values fall through the switch by design.
	underDelete := func(in ssa.Instruction) bool {
		return guardedCut(in, anyOf(verdictIs(del), verdictIs(imm), notVerdict(okVerdict))) &&
			guardedCut(in, anyOf(verdictIs(del), verdictIs(imm), notVerdict(rstVerdict)))
	}
	nDel, nQueue := 0, 0
	for _, f := range withClosures([]*ssa.Function{scan}) {
		for _, r := range returnsOf(f) {
			if len(r.Results) != 1 || !c14IsConst(r.Results[0], iterDelete) || !types.Identical(r.Results[0].Type(), iterDelete.Type()) {
				continue
			}
			nDel++
			key := fmt.Sprintf("C14.nodirect/Scan/IterDelete#%d", nDel)
			noCleaner := guardedCut(r, func(cond ssa.Value, pol bool) bool {
				bo, ok := cond.(*ssa.BinOp)
				if !ok {
					return false
				}
				eq := bo.Op.String() == "=="
				if !eq && bo.Op.String() != "!=" {
					return false
				}
				isNilSide := isNilConst(bo.X) || isNilConst(bo.Y)
				f := fieldVar(bo.X)
				if f == nil {
					f = fieldVar(bo.Y)
				}
				return isNilSide && f == cleanerField && (pol == eq)
			})
			immediate := guardedCut(r, verdictIs(imm))
			verdict := underDelete(r)
			c.Check((noCleaner || immediate) && verdict, key, p.Pos(r.Pos()),
				fmt.Sprintf("direct delete only under a delete verdict and (bpfCleaner==nil: %v | delete-immediate: %v)", noCleaner, immediate),
				fmt.Sprintf("maps.IterDelete reachable without (bpfCleaner == nil or verdict == DeleteImmediate) [noCleaner=%v immediate=%v] or without a delete verdict [%v]: user space deletes an entry the kernel cleaner would have re-checked", noCleaner, immediate, verdict))
		}
		// queued timestamps
		for _, cs := range callsIn(f, false, func(fn *types.Func) bool {
			return fn.Name() == "updateCleanupMap" || fn.Name() == "handleNATEntries"
		}) {
			// only the per-entry callback acts on a fresh verdict; the post-scan loop and
			// handleNATEntries replay timestamps stored from it
			if recvTypeName(cs.Callee) != "Scanner" || cs.Fn != f || f == scan {
				continue
			}
			nQueue++
			key := fmt.Sprintf("C14.tsflow/Scan/%s#%d", cs.Callee.Name(), nQueue)
			site := p.Pos(cs.Instr.Pos())
			var bad []string
			nTs := 0
			for _, a := range cs.Args()[1:] {
				if b, ok := a.Type().Underlying().(*types.Basic); !ok || b.Kind() != types.Uint64 {
					continue
				}
				nTs++
				okAll := true
				for _, o := range origins(a, nil) {
					call, isCall := o.V.(*ssa.Call)
					if !(isCall && calleeOf(call.Common()) != nil && calleeOf(call.Common()).Name() == "Check") {
						okAll = false
					}
				}
				// must be result #1 (the timestamp) of Check
				if okAll {
					okAll = false
					var walk func(v ssa.Value, d int)
					walk = func(v ssa.Value, d int) {
						if d > 6 {
							return
						}
						switch x := v.(type) {
						case *ssa.Convert:
							walk(x.X, d+1)
						case *ssa.ChangeType:
							walk(x.X, d+1)
						case *ssa.Extract:
							if x.Index == 1 {
								okAll = true
							}
						}
					}
					walk(a, 0)
				}
				if !okAll {
					bad = append(bad, path(a))
				}
			}
			under := underDelete(cs.Instr)
			c.Check(len(bad) == 0 && nTs > 0 && under, key, site,
				fmt.Sprintf("%d timestamp argument(s) are result #1 of the scanner's Check call, queued only under a delete verdict", nTs),
				fmt.Sprintf("timestamp argument(s) %v do not derive from the Check call's judged timestamp, or the call is reachable without a delete verdict (%v)", bad, under))
		}
	}
	if nDel == 0 {
		c.Lost("no `return maps.IterDelete` in Scanner.Scan")
	}
	if nQueue == 0 {
		c.Lost("no updateCleanupMap/handleNATEntries call in Scanner.Scan")
	}
}

func c14Timeouts(c *Ctx, p *Prog) {
	fn := p.Func(ctPkg, "EntryExpired")
	if fn == nil {
		c.Lost("conntrack.EntryExpired")
	}
	tn, _ := p.LookupObj("felix/bpf/conntrack/timeouts", "Timeouts").(*types.TypeName)
	if tn == nil {
		c.Lost("timeouts.Timeouts")
	}
	read := fieldsRead(p.closure(fn), tn.Type())
	want := structFieldNames(tn.Type(), false)
	have := map[string]bool{}
	for k := range read {
		have[k] = true
	}
	// Fields consumed elsewhere, each with a reason; the exclusion must not be stale.
	excluded := map[string]string{"CreationGracePeriod": "handed to the kernel-side cleaner's globals (bpf_scanner.go); not part of the user-space expiry test"}
	for f := range excluded {
		all := map[*ssa.Function]bool{}
		for _, fn2 := range p.AllFuncs() {
			all[fn2] = true
		}
		if _, ok := fieldsRead(all, tn.Type())[f]; !ok {
			c.Lost("excluded field Timeouts.%s is not read anywhere in felix/bpf/conntrack any more: re-confirm the exclusion", f)
		}
		have[f] = true
	}
	miss := missing(want, have)
	c.Check(len(miss) == 0 && len(want) > 0, "C14.timeouts/EntryExpired", p.Pos(fn.Pos()),
		fmt.Sprintf("all %d fields of timeouts.Timeouts are read", len(want)),
		fmt.Sprintf("EntryExpired never reads Timeouts.%v: entries in that protocol/state would never (or always) expire", miss))
}

// ------------------------------------------------------------------- idle --

// c14IdleExpr: v is arithmetic over the entry's idle time: conversions, +, -,
// scaling by a constant, over parameters, constants and entry.LastSeen(), where
// LastSeen() (lastSeen: the method object of the entry parameter's type) occurs
// at least once, only subtracted, and no other call contributes.
func c14IdleExpr(v ssa.Value, entry *ssa.Parameter, lastSeen *types.Func) (bool, string) {
	n := 0
	why := ""
	seen := map[ssa.Value]bool{}
	fail := func(s string) {
		if why == "" {
			why = s
		}
	}
	var walk func(v ssa.Value, neg bool, depth int)
	walk = func(v ssa.Value, neg bool, depth int) {
		if depth > 12 {
			fail("expression too deep")
			return
		}
		switch x := v.(type) {
		case *ssa.Convert:
			walk(x.X, neg, depth+1)
		case *ssa.ChangeType:
			walk(x.X, neg, depth+1)
		case *ssa.Phi:
			if seen[v] {
				return
			}
			seen[v] = true
			for _, e := range x.Edges {
				walk(e, neg, depth+1)
			}
		case *ssa.BinOp:
			_, xc := constOf(x.X)
			_, yc := constOf(x.Y)
			switch {
			case x.Op == token.ADD:
				walk(x.X, neg, depth+1)
				walk(x.Y, neg, depth+1)
			case x.Op == token.SUB:
				walk(x.X, neg, depth+1)
				walk(x.Y, !neg, depth+1)
			case (x.Op == token.MUL || x.Op == token.QUO) && yc:
				walk(x.X, neg, depth+1)
			case x.Op == token.MUL && xc:
				walk(x.Y, neg, depth+1)
			default:
				fail("operator " + x.Op.String())
			}
		case *ssa.UnOp:
			if al, ok := x.X.(*ssa.Alloc); ok && x.Op == token.MUL {
				k := 0
				for _, r := range *al.Referrers() {
					if st, ok := r.(*ssa.Store); ok && st.Addr == ssa.Value(al) {
						k++
						walk(st.Val, neg, depth+1)
					}
				}
				if k == 0 {
					fail("uninitialised local")
				}
				return
			}
			fail("reads " + path(v))
		case *ssa.Call:
			callee := calleeOf(x.Common())
			if g := calleeFn(x.Common()); callee != lastSeen && g != nil && g.Blocks != nil && g.Pkg == entry.Parent().Pkg && g.Signature.Results().Len() == 1 && depth < 6 {
				// an extracted helper computing the idle time of the judged entry
				var prm *ssa.Parameter
				for i, a := range x.Common().Args {
					os := origins(a, nil)
					if len(os) == 1 && os[0].V == ssa.Value(entry) && i < len(g.Params) {
						prm = g.Params[i]
					}
				}
				if prm != nil {
					all := true
					for _, r := range returnsOf(g) {
						if ok, _ := c14IdleExpr(r.Results[0], prm, lastSeen); !ok {
							all = false
						}
					}
					if all && len(returnsOf(g)) > 0 {
						if neg {
							fail("idle time is subtracted")
							return
						}
						n++
						return
					}
				}
			}
			if callee == nil || callee != lastSeen {
				name := path(v)
				if callee != nil {
					name = callee.Name() + "()"
				}
				fail("uses " + name)
				return
			}
			recv := CallSite{x, callee, x.Parent()}.Args()[0]
			ok := false
			for _, o := range origins(recv, nil) {
				ok = o.V == ssa.Value(entry)
				if !ok {
					break
				}
			}
			if !ok {
				fail("LastSeen() of something other than the judged entry (" + path(recv) + ")")
				return
			}
			if !neg {
				fail("LastSeen() is not subtracted")
				return
			}
			n++
		case *ssa.Parameter, *ssa.Const:
		default:
			fail("reads " + path(v))
		}
	}
	walk(v, false, 0)
	if why == "" && n == 0 {
		why = "does not involve LastSeen()"
	}
	return why == "", why
}

// c14Idle: an entry is judged expired only by comparing its idle time with a timeout.
func c14Idle(c *Ctx, p *Prog) {
	root := p.Func(ctPkg, "EntryExpired")
	if root == nil || root.Blocks == nil {
		c.Lost("conntrack.EntryExpired")
	}
	visited := map[*ssa.Function]bool{}
	var analyse func(fn *ssa.Function, falseParams map[*ssa.Parameter]bool)
	analyse = func(fn *ssa.Function, falseParams map[*ssa.Parameter]bool) {
		if visited[fn] {
			return
		}
		visited[fn] = true
		// the judged entry: the parameter whose type has a LastSeen method
		var entry *ssa.Parameter
		var lastSeen *types.Func
		for _, prm := range fn.Params {
			if o, _, _ := types.LookupFieldOrMethod(prm.Type(), true, fn.Pkg.Pkg, "LastSeen"); o != nil {
				if f, ok := o.(*types.Func); ok {
					entry, lastSeen = prm, f
				}
			}
		}
		if entry == nil {
			c.Lost("%s: no parameter with a LastSeen() method (the judged entry)", fnName(fn))
		}
		rets := returnsOf(fn)
		sort.Slice(rets, func(i, j int) bool { return rets[i].Pos() < rets[j].Pos() })
		n := 0
		for _, r := range rets {
			if r.Block() == fn.Recover || len(r.Results) == 0 {
				continue
			}
			res := r.Results[len(r.Results)-1]
			if b, ok := res.Type().Underlying().(*types.Basic); !ok || b.Kind() != types.Bool {
				c.Lost("%s: last result is not the bool `expired`", fnName(fn))
			}
			site := p.Pos(r.Pos())
			if cv, isConst := constOf(res); isConst {
				if cv.String() != "true" {
					continue
				}
				n++
				key := fmt.Sprintf("C14.idle/%s/expired#%d", fnName(fn), n)
				rejected := ""
				ok := guardedCut(r, func(cond ssa.Value, pol bool) bool {
					if prm, isPrm := cond.(*ssa.Parameter); isPrm && pol && falseParams[prm] {
						return true // infeasible for EntryExpired
					}
					hi, _, _, isCmp := c23Greater(cond, pol)
					if !isCmp {
						return false
					}
					good, why := c14IdleExpr(hi, entry, lastSeen)
					if !good && rejected == "" && (strings.HasPrefix(why, "uses ") || strings.HasPrefix(why, "LastSeen()")) {
						rejected = fmt.Sprintf("; the comparison at %s has %s on its larger side, which %s", p.Pos(cond.Pos()), path(hi), why)
					}
					return good
				})
				c.Check(ok, key, site, "expired only when now - "+path(entry)+".LastSeen() exceeds a timeout",
					fnName(fn)+" can report the entry expired on a path that never established `now - "+path(entry)+".LastSeen() > timeout`: a connection that carried traffic recently is judged expired, queued with its current last_seen and deleted by the kernel cleaner"+rejected)
				continue
			}
			// delegated verdict
			if ex, isEx := res.(*ssa.Extract); isEx {
				if call, isCall := ex.Tuple.(*ssa.Call); isCall {
					if g := calleeFn(call.Common()); g != nil && g.Blocks != nil && ex.Index == g.Signature.Results().Len()-1 {
						fp := map[*ssa.Parameter]bool{}
						args := call.Common().Args
						for i, prm := range g.Params {
							if i >= len(args) {
								break
							}
							if cv, isConst := constOf(args[i]); isConst && cv.String() == "false" {
								fp[prm] = true
							}
							if ap, isPrm := args[i].(*ssa.Parameter); isPrm && falseParams[ap] {
								fp[prm] = true
							}
						}
						analyse(g, fp)
						continue
					}
				}
			}
			c.Undecided("C14.idle/"+fnName(fn)+"/result", site, "the expired result %s is neither a constant nor the result of a function with a body", path(res))
		}
	}
	analyse(root, map[*ssa.Parameter]bool{})
}

func c14CGuard(c *Ctx) {
	var res ccqResult
	if err := json.Unmarshal(csideCached(c, "ccq_guard.py"), &res); err != nil {
		c.Lost("ccq_guard.py output: %v", err)
	}
	if len(res.Configs) < 2 {
		c.Lost("ccq_guard.py analysed %d builds", len(res.Configs))
	}
	for _, cn := range sortedKeys(res.Configs) {
		cfg := res.Configs[cn]
		if len(cfg.Deletes) == 0 {
			c.Lost("no cali_ct_delete_elem call found in conntrack_cleanup.c (%s build)", cn)
		}
		per := map[string]int{}
		for _, d := range cfg.Deletes {
			ka := "?"
			if d.KeyArg != nil {
				ka = *d.KeyArg
			}
			per[d.Function+"/"+ka]++
			key := fmt.Sprintf("C14.cguard/%s/%s/delete(%s)#%d", cn, d.Function, ka, per[d.Function+"/"+ka])
			site := fmt.Sprintf("felix/bpf-gpl/conntrack_cleanup.c:%d", d.Line)
			ok := false
			desc := ""
			for _, g := range d.Guards {
				for _, eq := range g.Eq {
					if len(eq) != 2 || len(eq[0]) != 2 || len(eq[1]) != 2 {
						continue
					}
					s := func(x *string) string {
						if x == nil {
							return ""
						}
						return *x
					}
					b0, m0, b1, m1 := s(eq[0][0]), s(eq[0][1]), s(eq[1][0]), s(eq[1][1])
					isTs := func(m string) bool { return m == "last_seen" || m == "rev_last_seen" }
					if isTs(m0) && isTs(m1) && (m0 == "last_seen" || m1 == "last_seen") && b0 != b1 && b0 != "" && b1 != "" {
						ok = true
						desc = fmt.Sprintf("%s->%s == %s->%s", b0, m0, b1, m1)
					}
				}
			}
			c.Check(ok, key, site, "guarded by "+desc, "cali_ct_delete_elem is not nested in an if comparing the looked-up entry's last_seen with the timestamp recorded by the scanner: a connection that carried traffic after it was judged would be deleted")
		}
	}
}
