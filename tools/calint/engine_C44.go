package main

// Helpers shared by rules_C41.go, rules_C42.go, rules_C43.go and rules_C44.go
// (value stripping, field-load recognition, variable identity, int constants).

import (
	"fmt"
	"go/token"
	"go/types"
	"os"
	"strings"

	"golang.org/x/tools/go/ssa"
)

const c44Pkg = "felix/dataplane/linux"

// dplinuxFixtureFilter is a development aid: CALINT_FX=<substring> keeps only the
// fixtures whose name contains the substring (unset in normal runs).
func dplinuxFixtureFilter(p *Property) {
	want := os.Getenv("CALINT_FX")
	if want == "" || p == nil {
		return
	}
	var keep []Fixture
	for _, f := range p.Fixtures {
		if strings.Contains(f.Name, want) {
			keep = append(keep, f)
		}
	}
	p.Fixtures = keep
}

// c44Strip removes value-preserving wrappers.
func c44Strip(v ssa.Value) ssa.Value {
	for {
		switch y := v.(type) {
		case *ssa.MakeInterface:
			v = y.X
		case *ssa.ChangeType:
			v = y.X
		case *ssa.Convert:
			v = y.X
		default:
			return v
		}
	}
}

// c44FieldLoad: v is a load of field fld of some base value; returns the base.
func c44FieldLoad(v ssa.Value, fld *types.Var) ssa.Value {
	v = c44Strip(v)
	switch y := v.(type) {
	case *ssa.UnOp:
		if y.Op != token.MUL {
			return nil
		}
		if fa, ok := y.X.(*ssa.FieldAddr); ok && structField(fa.X.Type(), fa.Field) == fld {
			return fa.X
		}
	case *ssa.Field:
		if structField(y.X.Type(), y.Field) == fld {
			return y.X
		}
	}
	return nil
}

// c44Ident canonicalises "which variable": the Alloc for address-taken locals
// (whether passed by address or loaded), else the value itself.
func c44Ident(v ssa.Value) ssa.Value {
	v = c44Strip(v)
	if u, ok := v.(*ssa.UnOp); ok && u.Op == token.MUL {
		if al, ok := u.X.(*ssa.Alloc); ok {
			return al
		}
	}
	return v
}

func c42IsConstInt(v ssa.Value, n int64) bool {
	cv, ok := constOf(v)
	return ok && cv.ExactString() == fmt.Sprint(n)
}

// c44BackSlice visits v and everything it is computed from (operands,
// transitively; values stored into address-taken locals it loads).
func c44BackSlice(v ssa.Value, visit func(ssa.Value)) {
	seen := map[ssa.Value]bool{}
	var rec func(v ssa.Value, d int)
	rec = func(v ssa.Value, d int) {
		if v == nil || seen[v] || d > 16 {
			return
		}
		seen[v] = true
		visit(v)
		if al, ok := v.(*ssa.Alloc); ok && al.Referrers() != nil {
			for _, r := range *al.Referrers() {
				if st, ok := r.(*ssa.Store); ok && st.Addr == ssa.Value(al) {
					rec(st.Val, d+1)
				}
			}
		}
		if in, ok := v.(ssa.Instruction); ok {
			for _, op := range in.Operands(nil) {
				if op != nil && *op != nil {
					rec(*op, d+1)
				}
			}
		}
	}
	rec(v, 0)
}
