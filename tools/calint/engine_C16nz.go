package main

// c16nz: a small forward must-analysis over go/ssa deciding "this value / this
// captured local variable is provably non-zero (true) here", plus rule-defined
// boolean must-facts ("marks").  It is path sensitive in the only way that
// matters for sentinel disciplines: an If whose condition is decided by the
// facts (`x != 0` with x non-zero, a boolean known true) is followed on the
// feasible edge only, and comparison edges refine the facts (`x == 0` false
// edge, `x > c` true edge, ...).
//
// Levels (per SSA value or per captured-variable cell = the *ssa.Alloc every
// closure's free variable resolves to):
//
//	c16NZv  provably non-zero / true
//	c16PZ   possibly zero, and only modelled constructs were involved
//	c16OPQ  nothing known: an unmodelled construct (call without a body,
//	        arithmetic, field load, ...) is involved
//
// Modelled: constants, phi, load/store of a cell, sync/atomic Load/Store on a
// cell, conversions that keep the representation, builtin min/max, comparison
// guards against constants, synchronous calls of closures / same-package
// functions (analysed with the caller's facts), `go` of closures (every write
// they make to a cell can only lower its level: interleaving-safe).

import (
	"go/constant"
	"go/token"
	"go/types"

	"golang.org/x/tools/go/ssa"
)

const (
	c16OPQ int8 = iota
	c16PZ
	c16NZv
)

type c16NZState struct {
	lvl  map[ssa.Value]int8
	cur  map[ssa.Value]ssa.Value // loaded value -> cell it still mirrors
	mark map[string]bool
}

func c16NewNZState() *c16NZState {
	return &c16NZState{lvl: map[ssa.Value]int8{}, cur: map[ssa.Value]ssa.Value{}, mark: map[string]bool{}}
}

func (s *c16NZState) clone() *c16NZState {
	n := c16NewNZState()
	for k, v := range s.lvl {
		n.lvl[k] = v
	}
	for k, v := range s.cur {
		n.cur[k] = v
	}
	for k, v := range s.mark {
		n.mark[k] = v
	}
	return n
}

func c16ConstLevel(k *ssa.Const) int8 {
	if k.Value == nil {
		return c16PZ // nil / zero value
	}
	switch k.Value.Kind() {
	case constant.Bool:
		if constant.BoolVal(k.Value) {
			return c16NZv
		}
		return c16PZ
	case constant.Int, constant.Float:
		if constant.Sign(k.Value) != 0 {
			return c16NZv
		}
		return c16PZ
	case constant.String:
		if constant.StringVal(k.Value) != "" {
			return c16NZv
		}
		return c16PZ
	}
	return c16OPQ
}

func (s *c16NZState) get(v ssa.Value) int8 {
	if k, ok := v.(*ssa.Const); ok {
		return c16ConstLevel(k)
	}
	if l, ok := s.lvl[v]; ok {
		return l
	}
	if _, ok := v.(*ssa.Alloc); ok {
		return c16PZ // a variable nothing is known about yet: zero is a legal content
	}
	return c16OPQ
}

func (s *c16NZState) setCell(cell ssa.Value, l int8) {
	s.lvl[cell] = l
	for v, c := range s.cur {
		if c == cell {
			delete(s.cur, v)
		}
	}
}

func (s *c16NZState) raise(v ssa.Value) {
	if _, ok := v.(*ssa.Const); ok {
		return
	}
	s.lvl[v] = c16NZv
	if c, ok := s.cur[v]; ok {
		s.lvl[c] = c16NZv
	}
}

// meetInto lowers dst to the meet of dst and src; reports whether dst changed.
func (dst *c16NZState) meetInto(src *c16NZState) bool {
	changed := false
	keys := map[ssa.Value]bool{}
	for k := range dst.lvl {
		keys[k] = true
	}
	for k := range src.lvl {
		keys[k] = true
	}
	for k := range keys {
		a, b := dst.get(k), src.get(k)
		if b < a {
			dst.lvl[k] = b
			changed = true
		} else if _, ok := dst.lvl[k]; !ok {
			dst.lvl[k] = a
		}
	}
	for v, c := range dst.cur {
		if src.cur[v] != c {
			delete(dst.cur, v)
			changed = true
		}
	}
	for m, on := range dst.mark {
		if on && !src.mark[m] {
			dst.mark[m] = false
			changed = true
		}
	}
	return changed
}

// c16NZ is one analysis session.
type c16NZ struct {
	// relevant: the instruction may change a mark (used to decide which
	// same-package callees are worth analysing).  effect applies it.
	relevant func(in ssa.Instruction) bool
	effect   func(st *c16NZState, in ssa.Instruction) (lowered []string)
	// zeroable: calls whose result is, by contract, legitimately zero (the
	// "nothing requested" answer of a requester): possibly zero, not unknown.
	zeroable map[ssa.Instruction]bool

	notes       []string // unmodelled situations met (verdicts become "undecided")
	active      map[*ssa.Function]bool
	interesting map[*ssa.Function]bool
}

type c16NZRet struct {
	Ret *ssa.Return
	St  *c16NZState
}

type c16NZRun struct {
	Rets    []c16NZRet
	Exit    *c16NZState        // meet over the reachable returns; nil if none is reachable
	RetLvl  []int8             // meet of the levels of each result
	Writes  map[ssa.Value]int8 // cell -> lowest level written (this function and everything it runs)
	Lowered map[string]bool    // marks switched off somewhere (this function and everything it runs)
	Other   []ssa.Instruction  // visited side effects the analysis does not model: stores to fields/elements/globals, sends, map updates
}

func (a *c16NZ) note(s string) {
	for _, n := range a.notes {
		if n == s {
			return
		}
	}
	a.notes = append(a.notes, s)
}

func (a *c16NZ) isInteresting(fn *ssa.Function, depth int) bool {
	if fn == nil || fn.Blocks == nil || a.relevant == nil {
		return false
	}
	if v, ok := a.interesting[fn]; ok {
		return v
	}
	if a.interesting == nil {
		a.interesting = map[*ssa.Function]bool{}
	}
	a.interesting[fn] = false // recursion guard
	found := false
	allInstrs(fn, true, func(_ *ssa.Function, in ssa.Instruction) {
		if found {
			return
		}
		if a.relevant(in) {
			found = true
			return
		}
		if depth > 0 {
			if ci, ok := in.(ssa.CallInstruction); ok {
				if sc := ci.Common().StaticCallee(); sc != nil && sc.Pkg == fn.Pkg && a.isInteresting(sc, depth-1) {
					found = true
				}
			}
		}
	})
	a.interesting[fn] = found
	return found
}

// c16CmpConst normalises a comparison against a constant to (x, op, sign of k, k is zero).
func c16CmpConst(bo *ssa.BinOp) (x ssa.Value, op token.Token, sign int, ok bool) {
	mirror := map[token.Token]token.Token{token.LSS: token.GTR, token.GTR: token.LSS, token.LEQ: token.GEQ, token.GEQ: token.LEQ, token.EQL: token.EQL, token.NEQ: token.NEQ}
	if _, cmp := mirror[bo.Op]; !cmp {
		return nil, 0, 0, false
	}
	num := func(v ssa.Value) (int, bool) {
		k, isK := v.(*ssa.Const)
		if !isK || k.Value == nil {
			return 0, false
		}
		if k.Value.Kind() != constant.Int && k.Value.Kind() != constant.Float {
			return 0, false
		}
		return constant.Sign(k.Value), true
	}
	if s, isK := num(bo.Y); isK {
		return bo.X, bo.Op, s, true
	}
	if s, isK := num(bo.X); isK {
		return bo.Y, mirror[bo.Op], s, true
	}
	return nil, 0, 0, false
}

// cond evaluates an If condition: which edges are feasible and which values
// are known non-zero on each.
func (a *c16NZ) cond(st *c16NZState, v ssa.Value) (feasT, feasF bool, nzT, nzF []ssa.Value) {
	if u, ok := v.(*ssa.UnOp); ok && u.Op == token.NOT {
		ft, ff, t, f := a.cond(st, u.X)
		return ff, ft, f, t
	}
	feasT, feasF = true, true
	if bo, ok := v.(*ssa.BinOp); ok {
		x, op, sign, isCmp := c16CmpConst(bo)
		if !isCmp {
			return
		}
		xnz := st.get(x) == c16NZv
		switch op {
		case token.EQL:
			if sign == 0 {
				nzF = []ssa.Value{x}
				if xnz {
					feasT = false
				}
			} else {
				nzT = []ssa.Value{x}
			}
		case token.NEQ:
			if sign == 0 {
				nzT = []ssa.Value{x}
				if xnz {
					feasF = false
				}
			} else {
				nzF = []ssa.Value{x}
			}
		case token.GTR: // x > k
			if sign >= 0 {
				nzT = []ssa.Value{x}
			} else {
				nzF = []ssa.Value{x}
			}
		case token.GEQ: // x >= k
			if sign > 0 {
				nzT = []ssa.Value{x}
			} else {
				nzF = []ssa.Value{x}
			}
		case token.LSS: // x < k
			if sign <= 0 {
				nzT = []ssa.Value{x}
			} else {
				nzF = []ssa.Value{x}
			}
		case token.LEQ: // x <= k
			if sign < 0 {
				nzT = []ssa.Value{x}
			} else {
				nzF = []ssa.Value{x}
			}
		}
		return
	}
	if b, ok := v.Type().Underlying().(*types.Basic); ok && b.Info()&types.IsBoolean != 0 {
		nzT = []ssa.Value{v}
		if st.get(v) == c16NZv {
			feasF = false
		}
	}
	return
}

func c16SameRepr(from, to types.Type) bool {
	a, ok1 := from.Underlying().(*types.Basic)
	b, ok2 := to.Underlying().(*types.Basic)
	if !ok1 || !ok2 {
		return false
	}
	if a.Info()&types.IsInteger == 0 || b.Info()&types.IsInteger == 0 {
		return false
	}
	size := func(k types.BasicKind) int {
		switch k {
		case types.Int8, types.Uint8:
			return 1
		case types.Int16, types.Uint16:
			return 2
		case types.Int32, types.Uint32:
			return 4
		}
		return 8
	}
	return size(b.Kind()) >= size(a.Kind())
}

func c16IsAtomicMethod(f *types.Func) bool {
	return f != nil && f.Pkg() != nil && f.Pkg().Path() == "sync/atomic" && recvTypeName(f) != ""
}

// analyse runs the analysis over fn, starting right after `after` (or at the
// entry when nil) in state init.  nil result: fn cannot be analysed (no body,
// recursion, too deep).
func (a *c16NZ) analyse(fn *ssa.Function, after ssa.Instruction, init *c16NZState, depth int) *c16NZRun {
	if fn == nil || fn.Blocks == nil || depth > 5 || a.active[fn] {
		return nil
	}
	if a.active == nil {
		a.active = map[*ssa.Function]bool{}
	}
	a.active[fn] = true
	defer delete(a.active, fn)

	run := &c16NZRun{Writes: map[ssa.Value]int8{}, Lowered: map[string]bool{}}
	in := map[*ssa.BasicBlock]*c16NZState{}
	var work []*ssa.BasicBlock
	queued := map[*ssa.BasicBlock]bool{}
	retSt := map[*ssa.Return]*c16NZState{}

	flow := func(from, to *ssa.BasicBlock, st *c16NZState) {
		e := st.clone()
		// phis of `to` take the operand of this edge (evaluated in the pre-state)
		type upd struct {
			v ssa.Value
			l int8
		}
		var us []upd
		for _, ins := range to.Instrs {
			ph, ok := ins.(*ssa.Phi)
			if !ok {
				break
			}
			l := c16NZv
			for i, pb := range to.Preds {
				if pb == from && i < len(ph.Edges) {
					if x := st.get(ph.Edges[i]); x < l {
						l = x
					}
				}
			}
			us = append(us, upd{ph, l})
		}
		for _, u := range us {
			e.lvl[u.v] = u.l
			delete(e.cur, u.v)
		}
		if old, ok := in[to]; !ok {
			in[to] = e
		} else if !old.meetInto(e) {
			return
		}
		if !queued[to] {
			queued[to] = true
			work = append(work, to)
		}
	}

	process := func(b *ssa.BasicBlock, from int, st *c16NZState) {
		for i := from; i < len(b.Instrs); i++ {
			ins := b.Instrs[i]
			switch x := ins.(type) {
			case *ssa.If:
				if len(b.Succs) != 2 {
					return
				}
				ft, ff, nzT, nzF := a.cond(st, x.Cond)
				if ft {
					e := st.clone()
					for _, v := range nzT {
						e.raise(v)
					}
					flow(b, b.Succs[0], e)
				}
				if ff {
					e := st.clone()
					for _, v := range nzF {
						e.raise(v)
					}
					flow(b, b.Succs[1], e)
				}
				return
			case *ssa.Jump:
				if len(b.Succs) == 1 {
					flow(b, b.Succs[0], st)
				}
				return
			case *ssa.Return:
				if old, ok := retSt[x]; ok {
					old.meetInto(st)
				} else {
					retSt[x] = st.clone()
				}
				return
			case *ssa.Panic:
				return
			}
			a.step(fn, st, ins, run, depth)
		}
	}

	if after != nil {
		b := after.Block()
		if b == nil || b.Parent() != fn {
			return nil
		}
		if !isPanicBlock(b) {
			process(b, instrIndex(after)+1, init.clone())
		}
	} else {
		in[fn.Blocks[0]] = init.clone()
		queued[fn.Blocks[0]] = true
		work = append(work, fn.Blocks[0])
	}
	for n := 0; len(work) > 0; n++ {
		if n > 20000 {
			a.note("analysis of " + fnName(fn) + " did not converge")
			return nil
		}
		b := work[0]
		work = work[1:]
		queued[b] = false
		if isPanicBlock(b) {
			continue
		}
		process(b, 0, in[b].clone())
	}
	for _, r := range returnsOf(fn) {
		st, ok := retSt[r]
		if !ok {
			continue
		}
		run.Rets = append(run.Rets, c16NZRet{r, st})
		if run.Exit == nil {
			run.Exit = st.clone()
			run.RetLvl = make([]int8, len(r.Results))
			for i, res := range r.Results {
				run.RetLvl[i] = st.get(res)
			}
		} else {
			run.Exit.meetInto(st)
			for i, res := range r.Results {
				if i < len(run.RetLvl) {
					if l := st.get(res); l < run.RetLvl[i] {
						run.RetLvl[i] = l
					}
				}
			}
		}
	}
	return run
}

func (run *c16NZRun) wrote(cell ssa.Value, l int8) {
	if old, ok := run.Writes[cell]; !ok || l < old {
		run.Writes[cell] = l
	}
}

// step is the transfer function of one non-terminator instruction.
func (a *c16NZ) step(fn *ssa.Function, st *c16NZState, ins ssa.Instruction, run *c16NZRun, depth int) {
	if _, isPhi := ins.(*ssa.Phi); isPhi {
		return // evaluated per incoming edge by flow
	}
	if v, ok := ins.(ssa.Value); ok {
		if _, isAlloc := v.(*ssa.Alloc); !isAlloc {
			delete(st.lvl, v)
		}
		delete(st.cur, v)
	}
	applyEffect := func() {
		if a.effect != nil {
			for _, m := range a.effect(st, ins) {
				run.Lowered[m] = true
			}
		}
	}
	switch x := ins.(type) {
	case *ssa.Alloc:
		st.setCell(x, c16PZ) // fresh zero-valued variable
	case *ssa.Store:
		if al, ok := c17Cell(x.Addr).(*ssa.Alloc); ok {
			l := st.get(x.Val)
			st.setCell(al, l)
			run.wrote(al, l)
		} else {
			run.Other = append(run.Other, ins)
		}
		applyEffect()
	case *ssa.Send, *ssa.MapUpdate:
		run.Other = append(run.Other, ins)
	case *ssa.UnOp:
		if x.Op == token.MUL {
			if al, ok := c17Cell(x.X).(*ssa.Alloc); ok {
				st.lvl[x] = st.get(al)
				st.cur[x] = al
			}
		}
	case *ssa.ChangeType:
		st.lvl[x] = st.get(x.X)
	case *ssa.Convert:
		if c16SameRepr(x.X.Type(), x.Type()) {
			st.lvl[x] = st.get(x.X)
		}
	case *ssa.Defer:
		// runs at RunDefers
	case *ssa.RunDefers:
		for _, b := range fn.Blocks {
			for _, d := range b.Instrs {
				if df, ok := d.(*ssa.Defer); ok {
					a.call(fn, st, df, false, run, depth)
				}
			}
		}
	case *ssa.Go:
		a.call(fn, st, x, true, run, depth)
	case *ssa.Call:
		a.call(fn, st, x, false, run, depth)
	default:
		applyEffect()
	}
}

// closuresOf lists the closures a call may run besides its callee: function
// valued arguments that resolve to closures.
func c16ClosureArgs(cc *ssa.CallCommon) []*ssa.Function {
	var out []*ssa.Function
	for _, arg := range cc.Args {
		if _, ok := arg.Type().Underlying().(*types.Signature); !ok {
			continue
		}
		if f := c17FuncOfValue(arg); f != nil && f.Parent() != nil && f.Blocks != nil {
			out = append(out, f)
		}
	}
	return out
}

func (a *c16NZ) call(fn *ssa.Function, st *c16NZState, ins ssa.CallInstruction, async bool, run *c16NZRun, depth int) {
	cc := ins.Common()
	val, _ := ins.(*ssa.Call)
	setVal := func(l int8) {
		if val != nil {
			st.lvl[val] = l
		}
	}
	// builtins
	if b, ok := cc.Value.(*ssa.Builtin); ok {
		if (b.Name() == "min" || b.Name() == "max") && len(cc.Args) > 0 {
			l := c16NZv
			for _, arg := range cc.Args {
				if x := st.get(arg); x < l {
					l = x
				}
				if k, isK := arg.(*ssa.Const); isK && k.Value != nil && (k.Value.Kind() == constant.Int || k.Value.Kind() == constant.Float) {
					s := constant.Sign(k.Value)
					if (b.Name() == "max" && s > 0) || (b.Name() == "min" && s < 0) {
						l = c16NZv // the result is bounded away from zero by the constant
						break
					}
				}
			}
			setVal(l)
		}
		return
	}
	if a.zeroable[ins] {
		setVal(c16PZ)
	}
	f := calleeOf(cc)
	// sync/atomic value methods on a cell
	if c16IsAtomicMethod(f) && !cc.IsInvoke() && len(cc.Args) >= 1 {
		if al, ok := c17Cell(cc.Args[0]).(*ssa.Alloc); ok {
			switch {
			case f.Name() == "Load" && len(cc.Args) == 1:
				setVal(st.get(al))
				if val != nil {
					st.cur[val] = al
				}
			case f.Name() == "Store" && len(cc.Args) == 2:
				l := st.get(cc.Args[1])
				st.setCell(al, l)
				run.wrote(al, l)
			default:
				st.setCell(al, c16OPQ)
				run.wrote(al, c16OPQ)
			}
			return
		}
	}
	// the address of a cell handed to anything else: its content is unknown afterwards
	for _, arg := range cc.Args {
		if al, ok := c17Cell(arg).(*ssa.Alloc); ok {
			if _, isPtr := arg.Type().Underlying().(*types.Pointer); !isPtr {
				continue
			}
			if f != nil && f.Pkg() != nil && f.Pkg().Path() == "sync" {
				continue // Mutex / WaitGroup / Once methods on their own variable
			}
			st.setCell(al, c16OPQ)
			run.wrote(al, c16OPQ)
		}
	}
	if a.effect != nil {
		for _, m := range a.effect(st, ins) {
			run.Lowered[m] = true
		}
	}
	// functions run by the call
	var callee *ssa.Function
	if !cc.IsInvoke() {
		if sc := cc.StaticCallee(); sc != nil {
			callee = sc
		} else {
			callee = c17FuncOfValue(cc.Value)
		}
	}
	absorb := func(r *c16NZRun, what *ssa.Function) {
		// concurrent / unknown-time execution: writes can only lower
		if r == nil {
			a.note("cannot analyse " + fnName(what) + " (recursive or too deep)")
			for k := range st.lvl {
				if _, isAlloc := k.(*ssa.Alloc); isAlloc {
					st.setCell(k, c16OPQ)
				}
			}
			for m := range st.mark {
				st.mark[m] = false
			}
			return
		}
		for cell, l := range r.Writes {
			if cur := st.get(cell); l < cur {
				st.setCell(cell, l)
			} else {
				st.setCell(cell, cur)
			}
			run.wrote(cell, l)
		}
		for m := range r.Lowered {
			st.mark[m] = false
			run.Lowered[m] = true
		}
		run.Other = append(run.Other, r.Other...)
	}
	calleeState := func(h *ssa.Function, withArgs bool) *c16NZState {
		cs := st.clone()
		if withArgs {
			for i, pa := range h.Params {
				if i < len(cc.Args) {
					cs.lvl[pa] = st.get(cc.Args[i])
				}
			}
		}
		return cs
	}
	if callee != nil && callee.Blocks != nil {
		wantRet := false
		if val != nil && !async {
			if b, ok := val.Type().Underlying().(*types.Basic); ok && b.Info()&(types.IsBoolean|types.IsNumeric) != 0 {
				wantRet = callee.Pkg == fn.Pkg || callee.Parent() != nil
			}
		}
		if callee.Parent() != nil || wantRet || a.isInteresting(callee, 2) {
			r := a.analyse(callee, nil, calleeState(callee, true), depth+1)
			switch {
			case async || r == nil:
				absorb(r, callee)
			case r.Exit == nil:
				// never returns normally
			default:
				for k, l := range r.Exit.lvl {
					if _, isAlloc := k.(*ssa.Alloc); isAlloc {
						st.setCell(k, l)
					}
				}
				for m := range st.mark {
					st.mark[m] = false
				}
				for m, on := range r.Exit.mark {
					st.mark[m] = on
				}
				for cell, l := range r.Writes {
					run.wrote(cell, l)
				}
				for m := range r.Lowered {
					run.Lowered[m] = true
				}
				run.Other = append(run.Other, r.Other...)
				if len(r.RetLvl) == 1 {
					setVal(r.RetLvl[0])
				}
			}
		}
	}
	for _, h := range c16ClosureArgs(cc) {
		if h == callee {
			continue
		}
		absorb(a.analyse(h, nil, calleeState(h, false), depth+1), h)
	}
}

// c16CellEscapes: the address of a captured/local variable is used for
// anything but loads, stores, closure capture and method calls of sync and
// sync/atomic ("" if not).
func c16CellEscapes(cell *ssa.Alloc) string {
	bad := ""
	var visit func(v ssa.Value, depth int)
	visit = func(v ssa.Value, depth int) {
		refs := v.Referrers()
		if refs == nil || depth > 6 {
			return
		}
		for _, r := range *refs {
			switch x := r.(type) {
			case *ssa.Store:
				if x.Val == v {
					bad = "its address is stored"
				}
			case *ssa.UnOp, *ssa.DebugRef:
			case *ssa.MakeClosure:
				f, _ := x.Fn.(*ssa.Function)
				if f == nil {
					bad = "captured by an unresolved closure"
					continue
				}
				for i, b := range x.Bindings {
					if b == v && i < len(f.FreeVars) {
						visit(f.FreeVars[i], depth+1)
					}
				}
			case ssa.CallInstruction:
				cf := calleeOf(x.Common())
				if cf == nil || cf.Pkg() == nil || (cf.Pkg().Path() != "sync" && cf.Pkg().Path() != "sync/atomic") {
					bad = "its address is passed to a call"
				}
			default:
				bad = "its address is used by " + r.String()
			}
		}
	}
	visit(cell, 0)
	return bad
}
