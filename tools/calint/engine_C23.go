package main

import (
	"go/constant"
	"go/token"
	"go/types"
	"strings"

	"golang.org/x/tools/go/ssa"
)

// Helpers written for C23 and reused by C31/C32/C39.  All unexported names are
// prefixed c23.

// c23Same: two SSA values denote the same thing (identity, or equal canonical
// access paths for loads of the same field / the same local).
func c23Same(a, b ssa.Value) bool {
	if a == nil || b == nil {
		return false
	}
	if a == b {
		return true
	}
	pa, pb := path(a), path(b)
	return pa == pb && pa != "alloc" && pa != "…"
}

// c23EdgeEstablished: the CFG edge from -> to is only taken when pred holds:
// either it is itself an If edge accepted by pred, or every path from the entry
// to `from` crosses such an edge.
func c23EdgeEstablished(from, to *ssa.BasicBlock, pred EdgePred) bool {
	if len(from.Instrs) == 0 {
		return false
	}
	last := from.Instrs[len(from.Instrs)-1]
	if ifi, ok := last.(*ssa.If); ok && len(from.Succs) == 2 && from.Succs[0] != from.Succs[1] {
		for k, s := range from.Succs {
			if s != to {
				continue
			}
			c, pol := stripNot(ifi.Cond, k == 0)
			if pred(c, pol) {
				return true
			}
		}
	}
	return guardedCut(last, pred)
}

// c23FlagImplies: "v == want" implies the fact established by pred.  v may be
// the condition itself (pred(v, want)), or a boolean flag variable lowered to a
// Phi: every incoming edge that can carry the value `want` (a constant equal to
// want, or a non-constant that itself implies the fact) must be an edge on
// which pred is established.  Constant edges carrying !want are irrelevant.
func c23FlagImplies(v ssa.Value, want bool, pred EdgePred) bool {
	seen := map[ssa.Value]bool{}
	var rec func(v ssa.Value, want bool) bool
	rec = func(v ssa.Value, want bool) bool {
		v, want = stripNot(v, want)
		if pred(v, want) {
			return true
		}
		phi, ok := v.(*ssa.Phi)
		if !ok {
			return false
		}
		if seen[phi] {
			return true // loop-carried self edge: decided by the other edges
		}
		seen[phi] = true
		for i, e := range phi.Edges {
			if e == phi {
				continue
			}
			if cv, isConst := constOf(e); isConst && cv.Kind() == constant.Bool {
				if constant.BoolVal(cv) != want {
					continue
				}
				if !c23EdgeEstablished(phi.Block().Preds[i], phi.Block(), pred) {
					return false
				}
				continue
			}
			if !rec(e, want) {
				// a non-constant edge: also fine if the edge itself is established
				if !c23EdgeEstablished(phi.Block().Preds[i], phi.Block(), pred) {
					return false
				}
			}
		}
		return true
	}
	return rec(v, want)
}

// c23FlagPred lifts pred to conditions that are flag variables implying it.
func c23FlagPred(pred EdgePred) EdgePred {
	return func(cond ssa.Value, pol bool) bool {
		return c23FlagImplies(cond, pol, pred)
	}
}

// c23Greater normalises an ordered comparison taken with truth value pol into
// "hi > lo" (strict) or "hi >= lo".  ok=false if cond is not <,<=,>,>=.
func c23Greater(cond ssa.Value, pol bool) (hi, lo ssa.Value, strict, ok bool) {
	bo, isBin := cond.(*ssa.BinOp)
	if !isBin {
		return nil, nil, false, false
	}
	op := bo.Op
	if !pol {
		switch op {
		case token.GTR:
			op = token.LEQ
		case token.GEQ:
			op = token.LSS
		case token.LSS:
			op = token.GEQ
		case token.LEQ:
			op = token.GTR
		default:
			return nil, nil, false, false
		}
	}
	switch op {
	case token.GTR:
		return bo.X, bo.Y, true, true
	case token.GEQ:
		return bo.X, bo.Y, false, true
	case token.LSS:
		return bo.Y, bo.X, true, true
	case token.LEQ:
		return bo.Y, bo.X, false, true
	}
	return nil, nil, false, false
}

// c23GreaterCond: edge establishes hi > lo (or >= if orEqual) for values
// satisfying the matchers.
func c23GreaterCond(orEqual bool, hiM, loM func(ssa.Value) bool) EdgePred {
	return func(cond ssa.Value, pol bool) bool {
		hi, lo, strict, ok := c23Greater(cond, pol)
		if !ok || (!strict && !orEqual) {
			return false
		}
		return hiM(hi) && loM(lo)
	}
}

// c23IntAtLeast: edge establishes `x >= n` for an x satisfying m, from a
// comparison of x with an integer constant.
func c23IntAtLeast(n int64, m func(ssa.Value) bool) EdgePred {
	return func(cond ssa.Value, pol bool) bool {
		hi, lo, strict, ok := c23Greater(cond, pol)
		if !ok || !m(hi) {
			return false
		}
		cv, isConst := constOf(lo)
		if !isConst || cv.Kind() != constant.Int {
			return false
		}
		k, exact := constant.Int64Val(cv)
		if !exact {
			return false
		}
		if strict {
			k++
		}
		return k >= n
	}
}

// c23NilCond: edge establishes (x == nil) == want for x satisfying m.
func c23NilCond(want bool, m func(ssa.Value) bool) EdgePred {
	return eqCond(want, m, isNilConst)
}

// c23Back walks backwards from v through value-preserving instructions
// (conversions, type asserts, loads, field selections of locals, extracts, phis,
// stores into local allocs) and calls leaf for every value at which it stops.
// stop(v) == true makes v a leaf.
func c23Back(v ssa.Value, stop func(ssa.Value) bool, leaf func(ssa.Value)) {
	seen := map[ssa.Value]bool{}
	var walk func(v ssa.Value)
	walk = func(v ssa.Value) {
		if v == nil || seen[v] {
			return
		}
		seen[v] = true
		if stop != nil && stop(v) {
			leaf(v)
			return
		}
		switch x := v.(type) {
		case *ssa.Phi:
			for _, e := range x.Edges {
				walk(e)
			}
		case *ssa.MakeInterface:
			walk(x.X)
		case *ssa.ChangeType:
			walk(x.X)
		case *ssa.ChangeInterface:
			walk(x.X)
		case *ssa.Convert:
			walk(x.X)
		case *ssa.TypeAssert:
			walk(x.X)
		case *ssa.Extract:
			walk(x.Tuple)
		case *ssa.Slice:
			walk(x.X)
		case *ssa.Field:
			walk(x.X)
		case *ssa.FieldAddr:
			if _, isAlloc := x.X.(*ssa.Alloc); isAlloc {
				walk(x.X)
				return
			}
			leaf(v)
		case *ssa.UnOp:
			if x.Op == token.MUL {
				walk(x.X)
				return
			}
			leaf(v)
		case *ssa.Alloc:
			n := 0
			if refs := x.Referrers(); refs != nil {
				for _, r := range *refs {
					if st, ok := r.(*ssa.Store); ok && st.Addr == x {
						walk(st.Val)
						n++
					}
				}
			}
			if n == 0 {
				leaf(v)
			}
		default:
			leaf(v)
		}
	}
	walk(v)
}

// c23Appended lists, for a slice value, every (append instruction, element
// value) pair that contributes elements to it: follows phis and the first
// argument of append; the variadic second argument `new [n]T (varargs)` is
// expanded into the stored elements.  other receives every non-append leaf
// (nil constant, make, parameter...).
type c23Elem struct {
	App  *ssa.Call
	Elem ssa.Value
}

func c23Appended(v ssa.Value, other func(ssa.Value)) []c23Elem {
	var out []c23Elem
	seen := map[ssa.Value]bool{}
	var walk func(v ssa.Value)
	walk = func(v ssa.Value) {
		if v == nil || seen[v] {
			return
		}
		seen[v] = true
		switch x := v.(type) {
		case *ssa.Phi:
			for _, e := range x.Edges {
				walk(e)
			}
			return
		case *ssa.UnOp:
			if x.Op == token.MUL {
				if al, ok := x.X.(*ssa.Alloc); ok {
					for _, r := range *al.Referrers() {
						if st, ok := r.(*ssa.Store); ok && st.Addr == al {
							walk(st.Val)
						}
					}
					return
				}
			}
		case *ssa.Call:
			if b, ok := x.Call.Value.(*ssa.Builtin); ok && b.Name() == "append" && len(x.Call.Args) == 2 {
				walk(x.Call.Args[0])
				// elements
				if sl, ok := x.Call.Args[1].(*ssa.Slice); ok {
					if al, ok := sl.X.(*ssa.Alloc); ok {
						for _, r := range *al.Referrers() {
							ia, ok := r.(*ssa.IndexAddr)
							if !ok {
								continue
							}
							for _, rr := range *ia.Referrers() {
								if st, ok := rr.(*ssa.Store); ok && st.Addr == ia {
									out = append(out, c23Elem{x, st.Val})
								}
							}
						}
						return
					}
				}
				out = append(out, c23Elem{x, x.Call.Args[1]}) // append(a, b...) of a whole slice
				return
			}
		}
		if other != nil {
			other(v)
		}
	}
	walk(v)
	return out
}

// c23CallOn: cs is a static call of method Type.name (in pkg) and returns the
// receiver value; nil otherwise.
func c23CallOn(cs CallSite, pkg, typ, name string) ssa.Value {
	if cs.Callee == nil || !isFunc(cs.Callee, pkg, typ+"."+name) {
		return nil
	}
	a := cs.Args()
	if len(a) == 0 {
		return nil
	}
	return a[0]
}

// c23ReachAvoiding: is there a CFG path from just after `from` to an
// instruction satisfying target, that does not first execute an instruction
// satisfying stop and does not cross an If edge accepted by cut?  Returns the
// reached target instruction or nil.
func c23ReachAvoiding(from ssa.Instruction, stop func(ssa.Instruction) bool, cut EdgePred, target func(ssa.Instruction) bool) ssa.Instruction {
	type item struct {
		b     *ssa.BasicBlock
		start int
	}
	seen := map[*ssa.BasicBlock]bool{}
	st := []item{{from.Block(), instrIndex(from) + 1}}
	for len(st) > 0 {
		it := st[len(st)-1]
		st = st[:len(st)-1]
		if it.start == 0 {
			if seen[it.b] {
				continue
			}
			seen[it.b] = true
		}
		stopped := false
		for i := it.start; i < len(it.b.Instrs); i++ {
			in := it.b.Instrs[i]
			if stop != nil && stop(in) {
				stopped = true
				break
			}
			if target(in) {
				return in
			}
		}
		if stopped || isPanicBlock(it.b) {
			continue
		}
		if ifi, ok := it.b.Instrs[len(it.b.Instrs)-1].(*ssa.If); ok && len(it.b.Succs) == 2 {
			for k, s := range it.b.Succs {
				c, pol := stripNot(ifi.Cond, k == 0)
				if cut != nil && it.b.Succs[0] != it.b.Succs[1] && cut(c, pol) {
					continue
				}
				st = append(st, item{s, 0})
			}
			continue
		}
		for _, s := range it.b.Succs {
			st = append(st, item{s, 0})
		}
	}
	return nil
}

// c23FieldObj resolves Type.field in a root package to its *types.Var.
func c23FieldObj(c *Ctx, p *Prog, pkg, name string) *types.Var {
	v, _ := p.LookupObj(pkg, name).(*types.Var)
	if v == nil {
		c.Lost("field %s.%s", pkg, name)
	}
	return v
}

// c23Func resolves a function or method or aborts.
func c23Func(c *Ctx, p *Prog, pkg, name string) *ssa.Function {
	f := p.Func(pkg, name)
	if f == nil || f.Blocks == nil {
		c.Lost("function %s.%s", pkg, name)
	}
	return f
}

// c23RangeOf: v is `extract (next (range X)) #idx`; returns X.
func c23RangeOf(v ssa.Value, idx int) ssa.Value {
	ex, ok := v.(*ssa.Extract)
	if !ok || ex.Index != idx {
		return nil
	}
	nx, ok := ex.Tuple.(*ssa.Next)
	if !ok {
		return nil
	}
	rg, ok := nx.Iter.(*ssa.Range)
	if !ok {
		return nil
	}
	return rg.X
}

// c23MapDeletes lists delete(m, k) builtin calls in fn.
func c23MapDeletes(fn *ssa.Function) []*ssa.CallCommon {
	var out []*ssa.CallCommon
	allInstrs(fn, false, func(_ *ssa.Function, in ssa.Instruction) {
		if cc, ok := isBuiltinCall(in, "delete"); ok {
			out = append(out, cc)
		}
	})
	return out
}

// c23DominatesReturns: in executes on every normally returning path of its function.
func c23DominatesReturns(in ssa.Instruction) bool {
	rs := returnsOf(in.Parent())
	if len(rs) == 0 {
		return false
	}
	for _, r := range rs {
		if isPanicBlock(r.Block()) || r.Block() == in.Parent().Recover {
			continue
		}
		if !instrDominates(in, r) {
			return false
		}
	}
	return true
}

// ---------------------------------------------------------------------------
// Absorbing flags.
//
// c23FlagAbsorbs decides "flag == want at a branch implies that no edge accepted
// by event was taken during the current scan", for a boolean flag variable that
// is lowered to Phi nodes (typically loop carried: `ok := true; for … { if bad
// { ok = false } }; if ok {…}`).  It is the dual of c23FlagImplies: there every
// edge that can carry `want` must be established by a fact; here every event
// must force the flag to !want until the flag is tested.
//
// For each event edge the CFG is walked forwards with an abstract value
// (unknown / true / false) for each Phi of the flag; whenever a block is
// reached whose terminating If tests the flag, the abstract value must be the
// constant !want.  The walk ends where the innermost loop that contains the
// event is entered again from outside (a new scan starts; the flag may
// legitimately be re-initialised there) and at no-return blocks.
// reached = number of events from which a test of the flag is reachable.
func c23FlagAbsorbs(flag ssa.Value, want bool, event EdgePred) (ok bool, reached int) {
	root, isPhi := flag.(*ssa.Phi)
	if !isPhi {
		return false, 0
	}
	if b, isBasic := root.Type().Underlying().(*types.Basic); !isBasic || b.Info()&types.IsBoolean == 0 {
		return false, 0
	}
	fn := root.Parent()
	fam := map[*ssa.Phi]bool{}
	var collect func(v ssa.Value)
	collect = func(v ssa.Value) {
		v, _ = stripNot(v, true)
		ph, ok := v.(*ssa.Phi)
		if !ok || fam[ph] {
			return
		}
		fam[ph] = true
		for _, e := range ph.Edges {
			collect(e)
		}
	}
	collect(root)
	var famList []*ssa.Phi
	for _, b := range fn.Blocks {
		for _, in := range b.Instrs {
			if ph, ok := in.(*ssa.Phi); ok && fam[ph] {
				famList = append(famList, ph)
			}
		}
	}
	const (
		unk = 0
		tru = 1
		fls = 2
	)
	type env map[*ssa.Phi]int
	var eval func(v ssa.Value, e env) int
	eval = func(v ssa.Value, e env) int {
		v, pol := stripNot(v, true)
		r := unk
		if cv, isConst := constOf(v); isConst && cv.Kind() == constant.Bool {
			r = fls
			if constant.BoolVal(cv) {
				r = tru
			}
		} else if ph, ok := v.(*ssa.Phi); ok && fam[ph] {
			r = e[ph]
		}
		if !pol && r != unk {
			r = tru + fls - r
		}
		return r
	}
	envKey := func(b *ssa.BasicBlock, e env) string {
		k := []byte{byte(b.Index), byte(b.Index >> 8), ':'}
		for _, ph := range famList {
			k = append(k, byte('0'+e[ph]))
		}
		return string(k)
	}
	loops := c23NaturalLoops(fn)
	wantNot := tru
	if want {
		wantNot = fls
	}
	allOK := true
	for _, b := range fn.Blocks {
		ifi, isIf := b.Instrs[len(b.Instrs)-1].(*ssa.If)
		if !isIf || len(b.Succs) != 2 || b.Succs[0] == b.Succs[1] {
			continue
		}
		for k := range b.Succs {
			c, pol := stripNot(ifi.Cond, k == 0)
			if !event(c, pol) {
				continue
			}
			// innermost loop containing the event
			var hdr *ssa.BasicBlock
			var body map[*ssa.BasicBlock]bool
			for h, bd := range loops {
				if bd[b] && (body == nil || len(bd) < len(body)) {
					hdr, body = h, bd
				}
			}
			type item struct {
				from, to *ssa.BasicBlock
				e        env
			}
			seen := map[string]bool{}
			st := []item{{b, b.Succs[k], env{}}}
			tested := false
			for len(st) > 0 {
				it := st[len(st)-1]
				st = st[:len(st)-1]
				if hdr != nil && it.to == hdr && !body[it.from] {
					continue // a new scan begins
				}
				// transfer over the phis of it.to (simultaneous assignment)
				ne := env{}
				for ph, v := range it.e {
					ne[ph] = v
				}
				pi := -1
				for i, p := range it.to.Preds {
					if p == it.from {
						pi = i
					}
				}
				for _, in := range it.to.Instrs {
					ph, ok := in.(*ssa.Phi)
					if !ok {
						break
					}
					if fam[ph] && pi >= 0 {
						ne[ph] = eval(ph.Edges[pi], it.e)
					}
				}
				key := envKey(it.to, ne)
				if seen[key] {
					continue
				}
				seen[key] = true
				if isPanicBlock(it.to) {
					continue
				}
				if ti, ok := it.to.Instrs[len(it.to.Instrs)-1].(*ssa.If); ok {
					if tc, _ := stripNot(ti.Cond, true); tc == ssa.Value(root) {
						tested = true
						if ne[root] != wantNot {
							allOK = false
						}
					}
				}
				for _, s := range it.to.Succs {
					st = append(st, item{it.to, s, ne})
				}
			}
			if tested {
				reached++
			}
		}
	}
	return allOK && reached > 0, reached
}

// c23NaturalLoops maps each loop header to the blocks of its natural loop
// (union over all back edges into the header).
func c23NaturalLoops(fn *ssa.Function) map[*ssa.BasicBlock]map[*ssa.BasicBlock]bool {
	out := map[*ssa.BasicBlock]map[*ssa.BasicBlock]bool{}
	for _, h := range fn.Blocks {
		for _, p := range h.Preds {
			if !h.Dominates(p) {
				continue
			}
			body := out[h]
			if body == nil {
				body = map[*ssa.BasicBlock]bool{h: true}
				out[h] = body
			}
			st := []*ssa.BasicBlock{p}
			for len(st) > 0 {
				b := st[len(st)-1]
				st = st[:len(st)-1]
				if body[b] {
					continue
				}
				body[b] = true
				st = append(st, b.Preds...)
			}
		}
	}
	return out
}

// ---------------------------------------------------------------------------
// Lifting an edge predicate through flag variables and helper functions.
//
// c23Lifter decides "cond == pol implies the fact established by base" for
// conditions that are (a) accepted by base directly, (b) boolean flag variables
// (Phi, `a && b` results) every `pol` edge of which is established (see
// c23FlagImplies), (c) calls of functions that have a body in the loaded
// program and a single boolean result, each of whose returns that can carry
// `pol` is the fact itself or lies behind an edge establishing it, or (d)
// `f(x) != nil` / `f(x) == nil` for such a function with one nilable result,
// each of whose non-nil (nil) returns lies behind an edge establishing it.
// (c) and (d) make "extract the test into a helper" and "inline the helper"
// indistinguishable.
//
// Opaque says that a value may establish the fact in a way that cannot be
// inspected (default: the result of a call without a body in the loaded
// program); with Depth > 0 a comparison one of whose operands is opaque is opaque
// too.  A helper that fails only because of such values is recorded in Unsure, so that callers can report "undecided" rather than a violation.
type c23Lifter struct {
	base     EdgePred
	Opaque   func(v ssa.Value) bool
	Depth    int                // how far Opaque looks into comparison operands / phi edges (0: the value itself)
	memo     map[c23LiftKey]int // 1 = in progress, 2 = implies, 3 = does not
	Rejected map[string]string  // helper (fnName) -> why its result does not imply the fact
	Unsure   map[string]bool    // helpers whose rejection involves an opaque value
}

type c23LiftKey struct {
	fn   *ssa.Function
	want int // 0/1: boolean result false/true; 2/3: result nil/non-nil
}

func c23NewLifter(base EdgePred) *c23Lifter {
	return &c23Lifter{base: base, Opaque: c23BodylessCall, memo: map[c23LiftKey]int{}, Rejected: map[string]string{}, Unsure: map[string]bool{}}
}

// Pred is the lifted edge predicate.
func (l *c23Lifter) Pred(cond ssa.Value, pol bool) bool {
	return c23FlagImplies(cond, pol, l.direct)
}

// PredOrOpaque additionally accepts edges whose condition is opaque.
func (l *c23Lifter) PredOrOpaque(cond ssa.Value, pol bool) bool {
	return l.Pred(cond, pol) || l.opaqueVal(cond, l.Depth)
}

func (l *c23Lifter) opaqueVal(v ssa.Value, depth int) bool {
	v, _ = stripNot(v, true)
	if l.Opaque != nil && l.Opaque(v) {
		return true
	}
	if depth == 0 {
		return false
	}
	switch x := v.(type) {
	case *ssa.BinOp:
		return l.opaqueVal(x.X, depth-1) || l.opaqueVal(x.Y, depth-1)
	case *ssa.Phi:
		for _, e := range x.Edges {
			if l.opaqueVal(e, depth-1) {
				return true
			}
		}
	}
	return false
}

func c23HasBody(call *ssa.Call) *ssa.Function {
	callee := calleeFn(call.Common())
	if callee == nil || callee.Blocks == nil {
		return nil
	}
	return callee
}

func (l *c23Lifter) direct(cond ssa.Value, pol bool) bool {
	if l.base(cond, pol) {
		return true
	}
	switch x := cond.(type) {
	case *ssa.Call:
		if callee := c23HasBody(x); callee != nil && c23BoolResult(callee) {
			w := 0
			if pol {
				w = 1
			}
			return l.funcImplies(callee, w)
		}
	case *ssa.BinOp:
		if x.Op != token.EQL && x.Op != token.NEQ {
			return false
		}
		var other ssa.Value
		switch {
		case isNilConst(x.Y):
			other = x.X
		case isNilConst(x.X):
			other = x.Y
		default:
			return false
		}
		call, ok := other.(*ssa.Call)
		if !ok {
			return false
		}
		callee := c23HasBody(call)
		if callee == nil || callee.Signature.Results().Len() != 1 {
			return false
		}
		w := 2
		if (x.Op == token.NEQ) == pol {
			w = 3
		}
		return l.funcImplies(callee, w)
	}
	return false
}

// c23BoolResult: fn returns exactly one boolean.
func c23BoolResult(fn *ssa.Function) bool {
	res := fn.Signature.Results()
	if res.Len() != 1 {
		return false
	}
	b, ok := res.At(0).Type().Underlying().(*types.Basic)
	return ok && b.Info()&types.IsBoolean != 0
}

// funcImplies: fn's single result having the value class `want` implies the fact.
func (l *c23Lifter) funcImplies(fn *ssa.Function, want int) bool {
	k := c23LiftKey{fn, want}
	switch l.memo[k] {
	case 1, 3:
		return false // recursion is not evidence
	case 2:
		return true
	}
	l.memo[k] = 1
	ok := true
	name := fnName(fn)
	reject := func(r *ssa.Return, why string) {
		ok = false
		l.Rejected[name] = why
		if l.opaqueVal(r.Results[0], l.Depth) || guardedCut(r, l.PredOrOpaque) {
			l.Unsure[name] = true
		}
	}
	for _, r := range returnsOf(fn) {
		if len(r.Results) != 1 || isPanicBlock(r.Block()) {
			continue
		}
		res := r.Results[0]
		if want >= 2 { // nil / non-nil
			if isNilConst(res) {
				if want == 2 && !guardedCut(r, l.Pred) {
					reject(r, "returns nil on a path that does not establish it")
				}
				continue
			}
			// any other value may be non-nil (and, unless freshly built, nil)
			if want == 2 {
				switch res.(type) {
				case *ssa.Alloc, *ssa.MakeInterface, *ssa.IndexAddr, *ssa.FieldAddr:
					continue // never nil
				}
			}
			if !guardedCut(r, l.Pred) {
				reject(r, "returns "+pathN(res, 4)+" on a path that does not establish it")
			}
			continue
		}
		if cv, isConst := constOf(res); isConst && cv.Kind() == constant.Bool {
			if constant.BoolVal(cv) != (want == 1) {
				continue
			}
			if !guardedCut(r, l.Pred) {
				reject(r, "returns the constant "+cv.String()+" on a path that does not establish it")
			}
			continue
		}
		if l.Pred(res, want == 1) || guardedCut(r, l.Pred) {
			continue
		}
		reject(r, "returns ("+pathN(res, 4)+"), which does not establish it")
	}
	if ok {
		l.memo[k] = 2
	} else {
		l.memo[k] = 3
	}
	return ok
}

// c23BodylessCall: v is the result of a call that has no body in the loaded
// program (interface method, function value, dependency), other than a builtin.
func c23BodylessCall(v ssa.Value) bool {
	if ex, ok := v.(*ssa.Extract); ok {
		v = ex.Tuple
	}
	call, ok := v.(*ssa.Call)
	if !ok {
		return false
	}
	if _, builtin := call.Call.Value.(*ssa.Builtin); builtin {
		return false
	}
	return c23HasBody(call) == nil
}

// c23OriginCalls: every leaf of the backward walk from v is a call accepted by
// match (and there is at least one), or a leaf accepted by other.
func c23OriginCalls(v ssa.Value, match func(*ssa.Call) bool, other func(ssa.Value) bool) bool {
	n, ok := 0, true
	c23Back(v, nil, func(leaf ssa.Value) {
		n++
		if call, isCall := leaf.(*ssa.Call); isCall && match(call) {
			return
		}
		if other != nil && other(leaf) {
			return
		}
		ok = false
	})
	return ok && n > 0
}

// c23Guarded runs one family; an anchor it loses is recorded instead of aborting
// the whole property.
func c23Guarded(lost *[]string, f func()) {
	defer func() {
		if r := recover(); r != nil {
			al, ok := r.(anchorLost)
			if !ok {
				panic(r)
			}
			*lost = append(*lost, strings.TrimPrefix(al.msg, "ANCHOR-LOST: "))
		}
	}()
	f()
}
