package main

import (
	"fmt"
	"go/ast"
	"go/constant"
	"go/token"
	"go/types"
	"sort"
	"strings"
)

// E-TABLE: a partial evaluator over the AST (with go/types information) of
// side-effect-free functions whose inputs range over finite enums and
// booleans.  Fragment: block / if / switch (no fallthrough) / return / simple
// assignment and var declarations; == != && || !; constants; struct literals;
// field selection with auto-dereference; & and *; conversions; calls to
// functions whose bodies are in the loaded root packages (inlined, bounded
// depth).  Calls of other functions yield an *opaque* value: harmless unless a
// decision depends on it, in which case the evaluation fails ("outside the
// fragment") and the caller must report Undecided — never a pass.
//
// A symbolic input ("unrecognised value") compares unequal to every constant;
// every constant it was compared with is recorded in symCmp so that the caller
// can make sure its concrete enumeration covers them all (otherwise "unequal to
// everything" would not describe all unrecognised values uniformly).

type tvKind int

const (
	tvConst tvKind = iota
	tvSym
	tvNil
	tvStruct
	tvPtr
	tvOpaque
)

type tval struct {
	kind   tvKind
	c      constant.Value
	name   string           // tvSym: identity; tvOpaque: description
	typ    types.Type       // tvStruct: struct type (for lazily zeroed fields)
	fields map[string]*tval // tvStruct
	elem   *tval            // tvPtr
	args   []*tval          // tvOpaque produced by a stubbed call: its arguments
}

func tvConstOf(c constant.Value) *tval { return &tval{kind: tvConst, c: c} }
func tvBool(b bool) *tval              { return tvConstOf(constant.MakeBool(b)) }
func tvString(s string) *tval          { return tvConstOf(constant.MakeString(s)) }
func tvSymbol(name string) *tval       { return &tval{kind: tvSym, name: name} }
func tvOpaqueOf(desc string) *tval     { return &tval{kind: tvOpaque, name: desc} }
func tvPtrTo(v *tval) *tval            { return &tval{kind: tvPtr, elem: v} }
func tvNilVal() *tval                  { return &tval{kind: tvNil} }
func tvStructOf(t types.Type, f map[string]*tval) *tval {
	if f == nil {
		f = map[string]*tval{}
	}
	return &tval{kind: tvStruct, typ: t, fields: f}
}

func (v *tval) asBool() (bool, bool) {
	if v != nil && v.kind == tvConst && v.c.Kind() == constant.Bool {
		return constant.BoolVal(v.c), true
	}
	return false, false
}

func (v *tval) asString() (string, bool) {
	if v != nil && v.kind == tvConst && v.c.Kind() == constant.String {
		return constant.StringVal(v.c), true
	}
	return "", false
}

func (v *tval) String() string {
	if v == nil {
		return "<none>"
	}
	switch v.kind {
	case tvConst:
		return v.c.ExactString()
	case tvSym:
		return "<" + v.name + ">"
	case tvNil:
		return "nil"
	case tvPtr:
		return "&" + v.elem.String()
	case tvOpaque:
		if v.args != nil {
			var as []string
			for _, a := range v.args {
				as = append(as, a.String())
			}
			return v.name + "(" + strings.Join(as, ",") + ")"
		}
		return "opaque:" + v.name
	case tvStruct:
		var ks []string
		for k := range v.fields {
			ks = append(ks, k)
		}
		sort.Strings(ks)
		var ps []string
		for _, k := range ks {
			ps = append(ps, k+":"+v.fields[k].String())
		}
		return "{" + strings.Join(ps, " ") + "}"
	}
	return "?"
}

type c28Eval struct {
	p        *Prog
	maxDepth int
	symCmp   map[string]map[string]bool // symbol -> constants (ExactString) it was compared with
	// stub: calls of these functions are not inlined; the result is an opaque
	// value that records the (evaluated) arguments.
	stub func(*types.Func) bool
}

func newC28Eval(p *Prog) *c28Eval {
	return &c28Eval{p: p, maxDepth: 4, symCmp: map[string]map[string]bool{}}
}

type c28Frame struct {
	ev    *c28Eval
	info  *types.Info
	env   map[types.Object]*tval
	depth int
}

type c28Outside struct{ msg string }

func (e c28Outside) Error() string { return e.msg }

func (ev *c28Eval) outside(info *types.Info, n ast.Node, format string, a ...any) error {
	return c28Outside{fmt.Sprintf("%s: ", ev.p.Pos(n.Pos())) + fmt.Sprintf(format, a...)}
}

// callFunc evaluates fn on args (receiver first for methods).
func (ev *c28Eval) callFunc(fn *types.Func, args []*tval, depth int) (*tval, error) {
	if depth > ev.maxDepth {
		return nil, c28Outside{"inlining depth exceeded at " + fn.Name()}
	}
	fd, pk := ev.p.FuncDecl(fn)
	if fd == nil || fd.Body == nil {
		return nil, c28Outside{"no source body for " + funcID(fn)}
	}
	fr := &c28Frame{ev: ev, info: pk.TypesInfo, env: map[types.Object]*tval{}, depth: depth}
	var params []*ast.Ident
	if fd.Recv != nil {
		for _, f := range fd.Recv.List {
			if len(f.Names) == 0 {
				params = append(params, nil)
			}
			params = append(params, f.Names...)
		}
	}
	for _, f := range fd.Type.Params.List {
		if len(f.Names) == 0 {
			params = append(params, nil)
		}
		params = append(params, f.Names...)
	}
	if sig, ok := fn.Type().(*types.Signature); ok && sig.Variadic() {
		return nil, c28Outside{funcID(fn) + " is variadic"}
	}
	if len(params) != len(args) {
		return nil, c28Outside{fmt.Sprintf("%s: %d parameters, %d arguments (variadic?)", funcID(fn), len(params), len(args))}
	}
	for i, id := range params {
		if id != nil && id.Name != "_" {
			fr.env[pk.TypesInfo.Defs[id]] = args[i]
		}
	}
	if fd.Type.Results != nil {
		for _, f := range fd.Type.Results.List {
			if len(f.Names) > 0 {
				return nil, ev.outside(pk.TypesInfo, fd, "%s has named results", funcID(fn))
			}
		}
	}
	ret, done, err := fr.block(fd.Body.List)
	if err != nil {
		return nil, err
	}
	if !done {
		if fd.Type.Results == nil || len(fd.Type.Results.List) == 0 {
			return tvOpaqueOf("void"), nil
		}
		return nil, ev.outside(pk.TypesInfo, fd, "%s falls off its end", funcID(fn))
	}
	return ret, nil
}

func (fr *c28Frame) block(list []ast.Stmt) (*tval, bool, error) {
	for _, s := range list {
		ret, done, err := fr.stmt(s)
		if err != nil || done {
			return ret, done, err
		}
	}
	return nil, false, nil
}

func (fr *c28Frame) stmt(s ast.Stmt) (*tval, bool, error) {
	ev := fr.ev
	switch x := s.(type) {
	case *ast.BlockStmt:
		return fr.block(x.List)
	case *ast.EmptyStmt:
		return nil, false, nil
	case *ast.ReturnStmt:
		if len(x.Results) != 1 {
			return nil, false, ev.outside(fr.info, x, "return with %d results", len(x.Results))
		}
		v, err := fr.expr(x.Results[0])
		return v, err == nil, err
	case *ast.IfStmt:
		if x.Init != nil {
			if _, _, err := fr.stmt(x.Init); err != nil {
				return nil, false, err
			}
		}
		cv, err := fr.expr(x.Cond)
		if err != nil {
			return nil, false, err
		}
		b, ok := cv.asBool()
		if !ok {
			return nil, false, ev.outside(fr.info, x.Cond, "condition depends on %s", cv)
		}
		if b {
			return fr.block(x.Body.List)
		}
		if x.Else != nil {
			return fr.stmt(x.Else)
		}
		return nil, false, nil
	case *ast.SwitchStmt:
		if x.Init != nil {
			if _, _, err := fr.stmt(x.Init); err != nil {
				return nil, false, err
			}
		}
		var tag *tval
		if x.Tag != nil {
			var err error
			if tag, err = fr.expr(x.Tag); err != nil {
				return nil, false, err
			}
		}
		var chosen, def *ast.CaseClause
		for _, cl := range x.Body.List {
			cc := cl.(*ast.CaseClause)
			if cc.List == nil {
				def = cc
				continue
			}
			if chosen != nil {
				continue
			}
			for _, e := range cc.List {
				v, err := fr.expr(e)
				if err != nil {
					return nil, false, err
				}
				var hit bool
				if tag != nil {
					if hit, err = ev.equal(fr, e, tag, v); err != nil {
						return nil, false, err
					}
				} else {
					b, ok := v.asBool()
					if !ok {
						return nil, false, ev.outside(fr.info, e, "case condition depends on %s", v)
					}
					hit = b
				}
				if hit {
					chosen = cc
					break
				}
			}
		}
		if chosen == nil {
			chosen = def
		}
		if chosen == nil {
			return nil, false, nil
		}
		var bad error
		ast.Inspect(chosen, func(n ast.Node) bool {
			if br, ok := n.(*ast.BranchStmt); ok {
				bad = ev.outside(fr.info, br, "%s inside switch", br.Tok)
			}
			return bad == nil
		})
		if bad != nil {
			return nil, false, bad
		}
		return fr.block(chosen.Body)
	case *ast.AssignStmt:
		if len(x.Lhs) != len(x.Rhs) || (x.Tok != token.ASSIGN && x.Tok != token.DEFINE) {
			return nil, false, ev.outside(fr.info, x, "assignment form %s with %d:%d operands", x.Tok, len(x.Lhs), len(x.Rhs))
		}
		vals := make([]*tval, len(x.Rhs))
		for i, r := range x.Rhs {
			v, err := fr.expr(r)
			if err != nil {
				return nil, false, err
			}
			vals[i] = v
		}
		for i, l := range x.Lhs {
			if err := fr.assign(l, vals[i]); err != nil {
				return nil, false, err
			}
		}
		return nil, false, nil
	case *ast.DeclStmt:
		gd, ok := x.Decl.(*ast.GenDecl)
		if !ok || gd.Tok != token.VAR {
			return nil, false, ev.outside(fr.info, x, "declaration")
		}
		for _, sp := range gd.Specs {
			vs := sp.(*ast.ValueSpec)
			for i, n := range vs.Names {
				obj := fr.info.Defs[n]
				if i < len(vs.Values) && len(vs.Values) == len(vs.Names) {
					v, err := fr.expr(vs.Values[i])
					if err != nil {
						return nil, false, err
					}
					fr.env[obj] = v
				} else if len(vs.Values) == 0 {
					fr.env[obj] = c28Zero(obj.Type())
				} else {
					return nil, false, ev.outside(fr.info, x, "multi-value var declaration")
				}
			}
		}
		return nil, false, nil
	case *ast.ExprStmt:
		if ce, ok := ast.Unparen(x.X).(*ast.CallExpr); ok && c28IsLogging(fr.info, ce) {
			return nil, false, nil // logging: no effect on the result, arguments not evaluated
		}
		return nil, false, ev.outside(fr.info, x, "expression statement (possible side effect)")
	}
	return nil, false, ev.outside(fr.info, s, "statement %T", s)
}

// c28IsLogging: a call (chain) whose final callee is a logrus function/method.
func c28IsLogging(info *types.Info, ce *ast.CallExpr) bool {
	f := calleeObjAST(info, ce)
	return f != nil && f.Pkg() != nil && strings.HasSuffix(f.Pkg().Path(), "sirupsen/logrus")
}

func (fr *c28Frame) assign(l ast.Expr, v *tval) error {
	l = ast.Unparen(l)
	switch x := l.(type) {
	case *ast.Ident:
		if x.Name == "_" {
			return nil
		}
		obj := fr.info.ObjectOf(x)
		if obj == nil || obj.Parent() == obj.Pkg().Scope() {
			return fr.ev.outside(fr.info, l, "assignment to package-level %s", x.Name)
		}
		fr.env[obj] = v
		return nil
	}
	// writes through fields/pointers are not modelled (struct copies would alias)
	return fr.ev.outside(fr.info, l, "assignment target")
}

// c28BasicClass: 1 string, 2 integer, 3 boolean, 0 anything else.
func c28BasicClass(t types.Type) int {
	if t == nil {
		return 0
	}
	if b, ok := t.Underlying().(*types.Basic); ok {
		switch {
		case b.Info()&types.IsString != 0:
			return 1
		case b.Info()&types.IsInteger != 0:
			return 2
		case b.Info()&types.IsBoolean != 0:
			return 3
		}
	}
	return 0
}

func c28Zero(t types.Type) *tval {
	switch u := t.Underlying().(type) {
	case *types.Basic:
		switch {
		case u.Info()&types.IsBoolean != 0:
			return tvBool(false)
		case u.Info()&types.IsString != 0:
			return tvString("")
		case u.Info()&types.IsInteger != 0:
			return tvConstOf(constant.MakeInt64(0))
		}
	case *types.Struct:
		return tvStructOf(t, nil)
	case *types.Pointer, *types.Interface, *types.Map, *types.Slice, *types.Signature, *types.Chan:
		return tvNilVal()
	}
	return tvOpaqueOf("zero " + t.String())
}

func (v *tval) field(name string) *tval {
	if f, ok := v.fields[name]; ok {
		return f
	}
	if st, ok := v.typ.Underlying().(*types.Struct); ok {
		for i := 0; i < st.NumFields(); i++ {
			if st.Field(i).Name() == name {
				z := c28Zero(st.Field(i).Type())
				v.fields[name] = z
				return z
			}
		}
	}
	return nil
}

func (fr *c28Frame) expr(e ast.Expr) (*tval, error) {
	ev := fr.ev
	e = ast.Unparen(e)
	if tv, ok := fr.info.Types[e]; ok {
		if tv.Value != nil {
			return tvConstOf(tv.Value), nil
		}
		if tv.IsNil() {
			return tvNilVal(), nil
		}
	}
	switch x := e.(type) {
	case *ast.Ident:
		obj := fr.info.ObjectOf(x)
		if v, ok := fr.env[obj]; ok {
			return v, nil
		}
		return tvOpaqueOf(x.Name), nil
	case *ast.SelectorExpr:
		sel := fr.info.Selections[x]
		if sel == nil {
			return tvOpaqueOf(types.ExprString(x)), nil // package-qualified variable
		}
		if sel.Kind() != types.FieldVal {
			return tvOpaqueOf(types.ExprString(x)), nil // method value
		}
		base, err := fr.expr(x.X)
		if err != nil {
			return nil, err
		}
		// walk the (possibly promoted) field path with auto-dereference
		t := fr.info.Types[x.X].Type
		for _, idx := range sel.Index() {
			if base.kind == tvNil {
				return nil, ev.outside(fr.info, x, "nil pointer dereference evaluating %s", types.ExprString(x))
			}
			if base.kind == tvPtr {
				base = base.elem
			}
			if p, ok := t.Underlying().(*types.Pointer); ok {
				t = p.Elem()
			}
			st, ok := t.Underlying().(*types.Struct)
			if !ok {
				return nil, ev.outside(fr.info, x, "selector on non-struct")
			}
			f := st.Field(idx)
			if base.kind != tvStruct {
				return tvOpaqueOf(types.ExprString(x)), nil
			}
			if base.typ == nil {
				base.typ = t
			}
			nb := base.field(f.Name())
			if nb == nil {
				return nil, ev.outside(fr.info, x, "unknown field %s", f.Name())
			}
			base, t = nb, f.Type()
		}
		return base, nil
	case *ast.StarExpr:
		v, err := fr.expr(x.X)
		if err != nil {
			return nil, err
		}
		switch v.kind {
		case tvPtr:
			return v.elem, nil
		case tvNil:
			return nil, ev.outside(fr.info, x, "nil pointer dereference")
		}
		return tvOpaqueOf("*" + v.String()), nil
	case *ast.UnaryExpr:
		v, err := fr.expr(x.X)
		if err != nil {
			return nil, err
		}
		switch x.Op {
		case token.NOT:
			b, ok := v.asBool()
			if !ok {
				return nil, ev.outside(fr.info, x, "! of %s", v)
			}
			return tvBool(!b), nil
		case token.AND:
			return tvPtrTo(v), nil
		}
		return tvOpaqueOf(x.Op.String() + v.String()), nil
	case *ast.BinaryExpr:
		switch x.Op {
		case token.LAND, token.LOR:
			l, err := fr.expr(x.X)
			if err != nil {
				return nil, err
			}
			lb, ok := l.asBool()
			if !ok {
				return nil, ev.outside(fr.info, x.X, "operand of %s depends on %s", x.Op, l)
			}
			if (x.Op == token.LAND && !lb) || (x.Op == token.LOR && lb) {
				return tvBool(lb), nil
			}
			r, err := fr.expr(x.Y)
			if err != nil {
				return nil, err
			}
			if _, ok := r.asBool(); !ok {
				return nil, ev.outside(fr.info, x.Y, "operand of %s depends on %s", x.Op, r)
			}
			return r, nil
		case token.EQL, token.NEQ:
			l, err := fr.expr(x.X)
			if err != nil {
				return nil, err
			}
			r, err := fr.expr(x.Y)
			if err != nil {
				return nil, err
			}
			eq, err := ev.equal(fr, x, l, r)
			if err != nil {
				return nil, err
			}
			return tvBool(eq == (x.Op == token.EQL)), nil
		}
		l, err := fr.expr(x.X)
		if err != nil {
			return nil, err
		}
		r, err := fr.expr(x.Y)
		if err != nil {
			return nil, err
		}
		if l.kind == tvConst && r.kind == tvConst {
			switch x.Op {
			case token.LSS, token.LEQ, token.GTR, token.GEQ:
				return tvBool(constant.Compare(l.c, x.Op, r.c)), nil
			}
		}
		return tvOpaqueOf("(" + l.String() + x.Op.String() + r.String() + ")"), nil
	case *ast.CompositeLit:
		t := fr.info.Types[x].Type
		st, ok := t.Underlying().(*types.Struct)
		if !ok {
			return tvOpaqueOf("literal " + t.String()), nil
		}
		out := tvStructOf(t, nil)
		for i, el := range x.Elts {
			name := ""
			val := el
			if kv, ok := el.(*ast.KeyValueExpr); ok {
				name = kv.Key.(*ast.Ident).Name
				val = kv.Value
			} else if i < st.NumFields() {
				name = st.Field(i).Name()
			}
			v, err := fr.expr(val)
			if err != nil {
				return nil, err
			}
			out.fields[name] = v
		}
		return out, nil
	case *ast.CallExpr:
		if tv, ok := fr.info.Types[x.Fun]; ok && tv.IsType() && len(x.Args) == 1 {
			// conversion: the value is preserved between types of the same basic class only
			v, err := fr.expr(x.Args[0])
			if err != nil {
				return nil, err
			}
			if c28BasicClass(tv.Type) != 0 && c28BasicClass(tv.Type) == c28BasicClass(fr.info.Types[x.Args[0]].Type) {
				return v, nil
			}
			return tvOpaqueOf("conversion " + types.ExprString(x)), nil
		}
		fn := calleeObjAST(fr.info, x)
		if fn == nil {
			return tvOpaqueOf("call " + types.ExprString(x.Fun)), nil
		}
		_, hasBody := ev.p.FuncDecl(fn)
		stubbed := ev.stub != nil && ev.stub(fn)
		if !stubbed && hasBody == nil {
			return tvOpaqueOf(funcID(fn) + "()"), nil // external: opaque result
		}
		var args []*tval
		if se, ok := ast.Unparen(x.Fun).(*ast.SelectorExpr); ok {
			if sel := fr.info.Selections[se]; sel != nil && sel.Kind() == types.MethodVal {
				rv, err := fr.expr(se.X)
				if err != nil {
					return nil, err
				}
				args = append(args, rv)
			}
		}
		if x.Ellipsis.IsValid() {
			return nil, ev.outside(fr.info, x, "variadic call")
		}
		for _, a := range x.Args {
			v, err := fr.expr(a)
			if err != nil {
				return nil, err
			}
			args = append(args, v)
		}
		if stubbed {
			return &tval{kind: tvOpaque, name: fn.Name(), args: args}, nil
		}
		return ev.callFunc(fn, args, fr.depth+1)
	}
	return tvOpaqueOf(fmt.Sprintf("%T", e)), nil
}

func (ev *c28Eval) equal(fr *c28Frame, at ast.Node, a, b *tval) (bool, error) {
	if a.kind == tvSym && b.kind == tvConst {
		a, b = b, a
	}
	switch {
	case a.kind == tvConst && b.kind == tvConst:
		if a.c.Kind() != b.c.Kind() {
			return false, ev.outside(fr.info, at, "comparison of %s with %s", a, b)
		}
		return constant.Compare(a.c, token.EQL, b.c), nil
	case a.kind == tvConst && b.kind == tvSym:
		if ev.symCmp[b.name] == nil {
			ev.symCmp[b.name] = map[string]bool{}
		}
		ev.symCmp[b.name][a.c.ExactString()] = true
		return false, nil
	case a.kind == tvSym && b.kind == tvSym:
		if a.name == b.name {
			return true, nil
		}
	case a.kind == tvNil && b.kind == tvNil:
		return true, nil
	case (a.kind == tvNil && b.kind == tvPtr) || (a.kind == tvPtr && b.kind == tvNil):
		return false, nil
	case a.kind == tvPtr && b.kind == tvPtr:
		return a.elem == b.elem, nil
	}
	return false, ev.outside(fr.info, at, "comparison of %s with %s", a, b)
}
