package main

import (
	"fmt"
	"sort"
	"strings"

	"golang.org/x/tools/go/ssa"
)

// Interprocedural protocol-state analysis for C45 (and anything else that needs
// "fact X is established before instruction I, possibly by a helper").
//
// A c45Machine is a small finite abstract domain (≤ 64 states).  A function is
// interpreted as a transformer of *sets* of states (disjunctive domain: joins
// are unions, so `if c {a; b}` followed by code that needs "a⇒b" stays exact).
// Calls of functions that have a body in the analysed package are interpreted
// through their computed summary (exit set per entry state) — never by name.
// Obligations are evaluated under every *context* of the enclosing function:
// the initial state for API roots (exported, or without in-package caller), and
// the states at each in-package call site for helpers.  Extracting a block into
// a helper, or splitting a function, therefore does not move any obligation.

type c45Set uint64

func (s c45Set) has(i int) bool { return s&(1<<uint(i)) != 0 }
func (s c45Set) each(f func(i int)) {
	for i := 0; s != 0; i, s = i+1, s>>1 {
		if s&1 != 0 {
			f(i)
		}
	}
}

type c45Machine struct {
	n    int // number of states
	init int // state at an API root's entry
	// step: effect of a non-call instruction (or of a call without analysable
	// body) on one state; ok=false means identity.
	step func(in ssa.Instruction, s int) (c45Set, bool)
	// edge: refinement of one state on an If edge (cond has negations stripped,
	// pol is its truth value on the edge); ok=false means identity.
	edge func(cond ssa.Value, pol bool, s int) (c45Set, bool)
	// body: the analysable function called by cc (generic instantiation wrappers
	// resolved to their origin); nil if none.
	body func(cc *ssa.CallCommon) *ssa.Function
	// funcs: every function with a body in the analysed package (for callers).
	funcs []*ssa.Function
	// isRoot: f can be entered from outside the package.
	isRoot func(f *ssa.Function) bool
	label  func(s int) string

	memo    map[c45SumKey]c45Set
	active  map[c45SumKey]bool
	callers map[*ssa.Function][]ssa.CallInstruction
}

type c45SumKey struct {
	f *ssa.Function
	s int
}

func (m *c45Machine) all() c45Set { return c45Set(1)<<uint(m.n) - 1 }

// applyInstr: effect of one instruction on a state set.
func (m *c45Machine) applyInstr(in ssa.Instruction, set c45Set) c45Set {
	if set == 0 {
		return 0
	}
	if ci, ok := in.(*ssa.Call); ok { // go/defer are not modelled
		if g := m.body(ci.Common()); g != nil {
			var out c45Set
			set.each(func(s int) { out |= m.summary(g, s) })
			return out
		}
	}
	var out c45Set
	set.each(func(s int) {
		if r, ok := m.step(in, s); ok {
			out |= r
		} else {
			out |= 1 << uint(s)
		}
	})
	return out
}

// summary: states at the (normal) returns of f when entered in state s.
func (m *c45Machine) summary(f *ssa.Function, s int) c45Set {
	k := c45SumKey{f, s}
	if r, ok := m.memo[k]; ok {
		return r
	}
	if m.active[k] {
		return m.all() // recursion: nothing known
	}
	if m.memo == nil {
		m.memo, m.active = map[c45SumKey]c45Set{}, map[c45SumKey]bool{}
	}
	m.active[k] = true
	r := m.run(f, 1<<uint(s)).exit()
	delete(m.active, k)
	m.memo[k] = r
	return r
}

type c45Run struct {
	m  *c45Machine
	f  *ssa.Function
	in map[*ssa.BasicBlock]c45Set
}

// run: forward fixpoint over f's CFG from the given entry set.
func (m *c45Machine) run(f *ssa.Function, entry c45Set) *c45Run {
	r := &c45Run{m: m, f: f, in: map[*ssa.BasicBlock]c45Set{}}
	if len(f.Blocks) == 0 {
		return r
	}
	r.in[f.Blocks[0]] = entry
	work := []*ssa.BasicBlock{f.Blocks[0]}
	for len(work) > 0 {
		b := work[len(work)-1]
		work = work[:len(work)-1]
		if isPanicBlock(b) {
			continue
		}
		out := r.in[b]
		for _, in := range b.Instrs {
			out = m.applyInstr(in, out)
		}
		ifi, _ := b.Instrs[len(b.Instrs)-1].(*ssa.If)
		for k, succ := range b.Succs {
			eo := out
			if ifi != nil && len(b.Succs) == 2 && b.Succs[0] != b.Succs[1] && m.edge != nil {
				cond, pol := stripNot(ifi.Cond, k == 0)
				var ref c45Set
				out.each(func(s int) {
					if x, ok := m.edge(cond, pol, s); ok {
						ref |= x
					} else {
						ref |= 1 << uint(s)
					}
				})
				eo = ref
			}
			if old, seen := r.in[succ]; !seen || old|eo != old {
				r.in[succ] = old | eo
				work = append(work, succ)
			}
		}
	}
	return r
}

// before: the states possible immediately before instruction in.
func (r *c45Run) before(in ssa.Instruction) c45Set {
	b := in.Block()
	set, ok := r.in[b]
	if !ok {
		return 0 // unreachable under this entry
	}
	for _, x := range b.Instrs {
		if x == in {
			return set
		}
		set = r.m.applyInstr(x, set)
	}
	return set
}

// after: the states possible immediately after instruction in.
func (r *c45Run) after(in ssa.Instruction) c45Set {
	return r.m.applyInstr(in, r.before(in))
}

// exit: union of the states at the normal returns.
func (r *c45Run) exit() c45Set {
	var out c45Set
	for _, ret := range returnsOf(r.f) {
		if !isPanicBlock(ret.Block()) {
			out |= r.before(ret)
		}
	}
	return out
}

// callSites: in-package call instructions whose analysable callee is f.
func (m *c45Machine) callSites(f *ssa.Function) []ssa.CallInstruction {
	if m.callers == nil {
		m.callers = map[*ssa.Function][]ssa.CallInstruction{}
		for _, g := range m.funcs {
			allInstrs(g, false, func(_ *ssa.Function, in ssa.Instruction) {
				if ci, ok := in.(ssa.CallInstruction); ok {
					if callee := m.body(ci.Common()); callee != nil {
						m.callers[callee] = append(m.callers[callee], ci)
					}
				}
			})
		}
	}
	return m.callers[f]
}

// c45Ctx is one way a function can be entered: the entry state set and the
// chain of call sites from an API root that produces it.
type c45Ctx struct {
	entry c45Set
	root  *ssa.Function
	via   string
}

// contexts: every entry context of f — the initial state if f is an API root
// (or nothing in the package calls it), plus the state at each in-package call
// site under each context of the caller (bounded depth, recursion cut).
func (m *c45Machine) contexts(f *ssa.Function) []c45Ctx {
	return m.contextsRec(f, 0, map[*ssa.Function]bool{})
}

func (m *c45Machine) contextsRec(f *ssa.Function, depth int, onPath map[*ssa.Function]bool) []c45Ctx {
	var out []c45Ctx
	sites := m.callSites(f)
	if m.isRoot(f) || len(sites) == 0 {
		out = append(out, c45Ctx{entry: 1 << uint(m.init), root: f, via: fnName(f)})
	}
	if depth >= 6 || onPath[f] {
		if len(out) == 0 { // too deep to resolve: nothing is known at entry
			out = append(out, c45Ctx{entry: m.all(), root: f, via: "…→" + fnName(f)})
		}
		return out
	}
	onPath[f] = true
	defer delete(onPath, f)
	for _, cs := range sites {
		g := cs.Parent()
		for _, cx := range m.contextsRec(g, depth+1, onPath) {
			st := m.run(g, cx.entry).before(cs)
			if st == 0 {
				continue // call site unreachable in that context
			}
			out = append(out, c45Ctx{entry: st, root: cx.root, via: cx.via + "→" + fnName(f)})
		}
	}
	return out
}

// requireBefore: in every context of in's function, every state possible
// immediately before in satisfies ok.  Returns "" or a description of the first
// counterexample (context chain and offending state).
func (m *c45Machine) requireBefore(in ssa.Instruction, ok func(s int) bool) string {
	f := in.Parent()
	var bad []string
	for _, cx := range m.contexts(f) {
		m.run(f, cx.entry).before(in).each(func(s int) {
			if !ok(s) {
				bad = append(bad, fmt.Sprintf("entered via %s: %s", cx.via, m.label(s)))
			}
		})
	}
	return c45Uniq(bad)
}

// rootsOf: the API roots from which f is reachable through analysable calls
// (f itself when it is a root).
func (m *c45Machine) rootsOf(f *ssa.Function) []*ssa.Function {
	seen := map[*ssa.Function]bool{}
	var out []*ssa.Function
	var up func(g *ssa.Function, depth int)
	up = func(g *ssa.Function, depth int) {
		if seen[g] || depth > 8 {
			return
		}
		seen[g] = true
		sites := m.callSites(g)
		if m.isRoot(g) || len(sites) == 0 {
			out = append(out, g)
		}
		for _, cs := range sites {
			up(cs.Parent(), depth+1)
		}
	}
	up(f, 0)
	sort.Slice(out, func(i, j int) bool { return out[i].Pos() < out[j].Pos() })
	return out
}

// requireAtExit: at every normal return of every API root that can reach f,
// entered in the initial state, every state satisfies ok.
func (m *c45Machine) requireAtExit(f *ssa.Function, ok func(s int) bool) string {
	var bad []string
	for _, g := range m.rootsOf(f) {
		m.summary(g, m.init).each(func(s int) {
			if !ok(s) {
				bad = append(bad, fmt.Sprintf("%s can return with %s", fnName(g), m.label(s)))
			}
		})
	}
	return c45Uniq(bad)
}

func c45Uniq(xs []string) string {
	seen := map[string]bool{}
	var out []string
	for _, x := range xs {
		if !seen[x] {
			seen[x] = true
			out = append(out, x)
		}
	}
	return strings.Join(out, "; ")
}
